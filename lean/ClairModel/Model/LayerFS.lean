/-
  C01 — layered file systems: the OCI layer semantics (`flatten`), the scanners as
  parameters, the per-layer artifacts the indexer works from, and the composed
  model of `Index` on a layer stack.

  A layer is a list of (clean relative path, entry).  `present` is the lookup
  semantics of applying layers in order:  the newest layer that has a regular
  file at `q` decides; a layer hides what lower layers left at `q` when it
  carries a whiteout covering `q` (`.wh.x` removes `x` and everything below,
  `.wh..wh..opq` removes everything below its directory), a regular file at an
  ancestor of `q`, any entry below `q`, or a directory at `q`.
  The Go harness has the same definition as a list-building function
  (go/internal/c01/image.go `flatten`); the two are compared on every generated
  stack (`flat` lines).  Core Lean only.
-/
import ClairModel.Model.Coalesce

namespace ClairModel.LayerFS
open ClairModel.Coalesce

inductive Entry where
  | file (content : String)
  | dir
deriving DecidableEq, Repr, Inhabited

/-- one image layer: digest and entries -/
structure FSLayer where
  hash : String
  entries : List (String × Entry)
deriving Repr, Inhabited

/-- `q` lies strictly below directory `p` -/
def under (q p : String) : Bool := (p ++ "/").toList.isPrefixOf q.toList

def opqName : String := ".wh..wh..opq"

/-- the entry is a whiteout marker (a regular file whose base name starts with `.wh.`) -/
def isWhiteout (p : String) : Bool := whPrefix.isPrefixOf (base p).toList

/-- the whiteout entry `w` removes path `q` of the lower layers (OCI image spec, "Whiteouts") -/
def covers (w q : String) : Bool :=
  let d := dir w
  let b := base w
  if b = opqName then d = "." || under q d
  else
    let t := join2 d (String.ofList (b.toList.drop 4))
    q = t || under q t

/-- content of the regular, non-whiteout file at `q` in the layer -/
def fileOf (l : FSLayer) (q : String) : Option String :=
  match l.entries.find? (fun e => e.1 = q) with
  | some (_, .file c) => if isWhiteout q then none else some c
  | _ => none

/-- whiteout entries of a layer (what whiteout.Scanner reports) -/
def whiteoutsOf (l : FSLayer) : List String :=
  l.entries.filterMap fun e => match e.2 with
    | .file _ => if isWhiteout e.1 then some e.1 else none
    | .dir => if isWhiteout e.1 then some e.1 else none

/-- whiteouts that act in `flatten`: regular files only -/
def whiteoutFiles (l : FSLayer) : List String :=
  l.entries.filterMap fun e => match e.2 with
    | .file _ => if isWhiteout e.1 then some e.1 else none
    | .dir => none

/-- the layer removes what lower layers left at `q` -/
def hides (l : FSLayer) (q : String) : Bool :=
  (whiteoutFiles l).any (fun w => covers w q) ||
  l.entries.any (fun e =>
    (match e.2 with
      | .file _ => !isWhiteout e.1 && under q e.1      -- a file replaces a directory tree
      | .dir => e.1 = q) ||                             -- a directory replaces a file
    (!(isWhiteout e.1 && e.2 != .dir) && under e.1 q))  -- something below `q`: `q` is a directory now

/-- lookup in the stack, newest layer first -/
def presentRev : List FSLayer → String → Option String
  | [], _ => none
  | l :: older, q =>
    match fileOf l q with
    | some c => some c
    | none => if hides l q then none else presentRev older q

/-- content of `q` in the image obtained by applying `layers` in order -/
def present (layers : List FSLayer) (q : String) : Option String := presentRev layers.reverse q

def dedup : List String → List String
  | [] => []
  | x :: xs => if xs.contains x then dedup xs else x :: dedup xs

/-- every path that is a regular file in some layer -/
def filePaths (layers : List FSLayer) : List String :=
  dedup (layers.flatMap fun l => l.entries.filterMap fun e => match e.2 with
    | .file _ => some e.1
    | .dir => none)

/-- the flattened image as a list of regular files -/
def flatten (layers : List FSLayer) : List (String × String) :=
  (filePaths layers).filterMap fun q => (present layers q).map fun c => (q, c)

/-! ### the scanners (parameters) and the indexer on a layer stack -/

/-- One file-based package ecosystem (python, java, ruby, nodejs: `gobin = false`, coalesced by
    the identical python|java|ruby|nodejs coalescers; Go executables: `gobin = true`, coalesced
    by gobin/coalescer.go).  `scan path content`: the packages the ecosystem's scanner reads out
    of one regular file (python METADATA, package.json, gemspec, jar: at most one; a Go
    executable: its main module, the standard library and every dependency). -/
structure FileEco where
  gobin : Bool := false
  scan : String → String → List Pkg

/-- The scanners, abstractly.  `osDbs`: paths of the OS package databases (one linux
    ecosystem each: dpkg's `var/lib/dpkg/status`, apk's `lib/apk/db/installed`, rpm under the
    `rpm` ecosystem, …); `rhelDbs`: the same for ecosystems coalesced by `rhel.Coalescer`;
    `scanDB d content`: the packages an OS database scanner reads out of the file;
    `distFile rh d` / `scanDist rh d content`: the file the distribution scanner of the ecosystem
    of database `d` (`rh`: under `rhel.Coalescer`) reads, and what it makes of its content;
    `fecos`: the file-based ecosystems. -/
structure Scanners where
  osDbs : List String
  /-- databases of an ecosystem that uses `rhel.Coalescer` (rpm on RHEL), one ecosystem each -/
  rhelDbs : List String := []
  scanDB : String → String → List Pkg
  fecos : List FileEco
  distFile : Bool → String → String := fun _ _ => "etc/os-release"
  scanDist : Bool → String → String → Option Dist := fun _ _ _ => none

/-- every OS package database path -/
def Scanners.allDbs (S : Scanners) : List String := S.osDbs ++ S.rhelDbs

/-- OS packages carry the database path and no file path. -/
def osPkgsOf (S : Scanners) (d c : String) : List Pkg := (S.scanDB d c).map fun p => { p with db := d, fp := "" }

/-- the distribution the ecosystem's scanner finds in one layer scanned in isolation -/
def distOf (S : Scanners) (rh : Bool) (d : String) (l : FSLayer) : Option Dist :=
  match fileOf l (S.distFile rh d) with
  | some c => S.scanDist rh d c
  | none => none

/-- what the OS scanners of database `d` store for one layer, scanned in isolation -/
def osArts (S : Scanners) (rh : Bool) (d : String) (l : FSLayer) : Layer :=
  { hash := l.hash, pkgs := (match fileOf l d with | some c => osPkgsOf S d c | none => []),
    dists := (distOf S rh d l).toList }

/-- the packages of one file: `Filepath` is the file they were read from -/
def filePkgsAt (E : FileEco) (q c : String) : List Pkg := (E.scan q c).map fun p => { p with fp := q }

/-- what the ecosystem's package scanner finds in one layer scanned in isolation -/
def filePkgs (E : FileEco) (l : FSLayer) : List Pkg :=
  l.entries.flatMap fun e => match e.2 with
    | .file c => if isWhiteout e.1 then [] else filePkgsAt E e.1 c
    | .dir => []

def defaultRepo : Repo := { id := "R", name := "default", key := "", uri := "" }

/-- gobin.Repository (the magic strings of gobin/coalescer.go) -/
def goRepo : Repo := { id := "G", name := "go", key := "", uri := "https://pkg.go.dev/" }

def FileEco.repo (E : FileEco) : Repo := if E.gobin then goRepo else defaultRepo

/-- file ecosystem: `LayerScanner` stores the scanner's default repository whenever it found a package -/
def fileArts (E : FileEco) (l : FSLayer) : Layer :=
  { hash := l.hash, pkgs := filePkgs E l, repos := if (filePkgs E l).isEmpty then [] else [E.repo] }

def FileEco.kind (E : FileEco) : Kind := if E.gobin then Kind.gobin else Kind.lang

def whArts (l : FSLayer) : Layer :=
  { hash := l.hash, files := (whiteoutsOf l).map fun w => { path := w, kind := whiteoutKind } }

/-- the per-ecosystem artifact lists, packed per manifest layer as `controller.coalesce` does -/
def ecosOf (S : Scanners) (layers : List FSLayer) : List (Kind × List Layer) :=
  (((S.osDbs.map fun d => (Kind.linux, layers.map (osArts S false d))) ++
   (S.rhelDbs.map fun d => (Kind.rhel, layers.map (osArts S true d)))) ++
   (S.fecos.map fun E => (E.kind, layers.map (fileArts E)))) ++
    [(Kind.wh, layers.map whArts)]

/-- `Index` on a layer stack: every layer scanned in isolation, then coalesce, MergeSR, resolve -/
def indexModel (S : Scanners) (layers : List FSLayer) : Option Report :=
  indexCoalesce (layers.map (·.hash)) (ecosOf S layers)

/-- every package some file ecosystem finds in a layer -/
def allFilePkgs (S : Scanners) (l : FSLayer) : List Pkg := S.fecos.flatMap fun E => filePkgs E l

/-- the same scanners on the single flattened file system -/
def scanImage (S : Scanners) (layers : List FSLayer) : List Pkg :=
  (S.allDbs.flatMap fun d => match present layers d with | some c => osPkgsOf S d c | none => []) ++
    S.fecos.flatMap fun E => (flatten layers).flatMap fun qc => filePkgsAt E qc.1 qc.2

/-- the distribution the ecosystem's scanner finds on the flattened file system -/
def imageDist (S : Scanners) (rh : Bool) (d : String) (layers : List FSLayer) : Option Dist :=
  match present layers (S.distFile rh d) with
  | some c => S.scanDist rh d c
  | none => none

/-! ### the (decidable) hypothesis of the composition theorem, executable

  `tameB` is the Boolean form of `Tame` (Proofs/LayerFS.lean, `tameB_iff`); the driver
  evaluates it on the abstraction of every generated history. -/

/-- ids of two file ecosystems are apart -/
def ecoApart (layers : List FSLayer) (E E' : FileEco) : Prop :=
  ∀ l ∈ layers, ∀ p ∈ filePkgs E l, ∀ l' ∈ layers, ∀ p' ∈ filePkgs E' l', p.id ≠ p'.id

instance (layers : List FSLayer) (E E' : FileEco) : Decidable (ecoApart layers E E') := by
  unfold ecoApart; infer_instance

def tameB (S : Scanners) (layers : List FSLayer) : Bool :=
  decide (∀ l ∈ layers, ∀ l' ∈ layers, l.hash = l'.hash → l.entries = l'.entries) &&
  decide (∀ l ∈ layers, (l.entries.map (·.1)).Nodup) &&
  decide (∀ l ∈ layers, (whiteoutsOf l).length ≤ 1 ∧ whiteoutsOf l = whiteoutFiles l) &&
  decide (∀ l ∈ layers, ∀ w ∈ whiteoutsOf l, ¬ (base w = opqName ∧ dir w = ".")) &&
  decide (∀ l ∈ layers, ∀ l' ∈ layers, ∀ p ∈ allFilePkgs S l', hides l p.fp = (whiteoutFiles l).any fun w => covers w p.fp) &&
  decide (∀ d ∈ S.allDbs, ∀ l ∈ layers, hides l d = false ∧ ∀ c ∈ fileOf l d, S.scanDB d c ≠ []) &&
  decide (∀ E ∈ S.fecos, layers.Pairwise fun l l' => ∀ e ∈ l.entries, ∀ c ∈ fileOf l e.1, ∀ p ∈ E.scan e.1 c,
      ∀ c' ∈ fileOf l' e.1, (∃ p' ∈ E.scan e.1 c', p'.id = p.id) ∨ hides l' e.1 = true) &&
  decide (∀ E ∈ S.fecos, ∀ l ∈ layers, ∀ l' ∈ layers, ∀ p ∈ filePkgs E l, ∀ p' ∈ filePkgs E l',
      p.id = p'.id → p.fp = p'.fp ∧ p.db = p'.db) &&
  decide (∀ d ∈ S.allDbs, ∀ l ∈ layers, ∀ c ∈ fileOf l d, ∀ p ∈ S.scanDB d c,
      ∀ l' ∈ layers, ∀ p' ∈ allFilePkgs S l', p.id ≠ p'.id) &&
  decide (S.fecos.Pairwise (ecoApart layers)) &&
  decide (∀ E ∈ S.fecos, E.gobin = true → ∀ l ∈ layers, ∀ p ∈ filePkgs E l, hasGoPrefix p.db = true)

/-! ### line protocol: `flat layer|layer|…`, layer = `-` or `path:d,path:cN,…` -/

def parseEntry (s : String) : Option (String × Entry) :=
  match s.splitOn ":" with
  | [p, "d"] => some (p, .dir)
  | [p, c] => some (p, .file c)
  | _ => none

def parseFSLayer (s : String) : Option FSLayer :=
  if s = "-" then some { hash := "", entries := [] }
  else (s.splitOn ",").mapM parseEntry |>.map fun es => { hash := "", entries := es }

def flatLine (s : String) : String :=
  match (s.splitOn "|").mapM parseFSLayer with
  | none => "bad-op"
  | some layers =>
    let out := (flatten layers).map fun (p, c) => p ++ ":" ++ c
    let sorted := out.mergeSort fun a b => !(b < a)
    if sorted.isEmpty then "-" else ",".intercalate sorted

/-! ### line protocol: `e2e <osdbs> <rheldbs> <fecos> <table> <stack>` — the whole model against the real indexer

  osdbs, rheldbs = `-` | db `,` db …            db = `<path>` or `<path>@<distribution file>`
  fecos  = `-` | name `,` name …                 a name starting with `*` is coalesced by gobin
  table  = `-` | entry `,` entry …
             `O~<content>~<id>+<id>…`              what the OS scanner reads out of a database content
             `F~<eco>~<path>~<content>~<id>~<db>`  a package the ecosystem's scanner finds in a file (several lines per file allowed)
             `D~<0|1>~<db>~<content>~<dist>`       what the distribution scanner of that ecosystem makes of its file
  stack  = layer `|` layer …,  layer = `<hash>;<entries>` (entries as in `flat`)
  answer = `tame=<bool> idx=<id@db#dist,…> img=<id@db,…> dist=<0|1>:<db>=<dist>,…`
-/

def mkPkg (id db : String) : Pkg :=
  { id := id, name := id, version := "", kind := "", arch := "", src := "", db := db, fp := "" }

structure ScanTable where
  os : List (String × List String) := []
  files : List ((String × String × String) × (String × String)) := []
  dists : List ((Bool × String × String) × String) := []

def parseTableEntry (t : ScanTable) (s : String) : Option ScanTable :=
  match s.splitOn "~" with
  | ["O", c, ids] => some { t with os := t.os ++ [(c, if ids = "" then [] else ids.splitOn "+")] }
  | ["F", eco, q, c, id, db] => some { t with files := t.files ++ [((eco, q, c), (id, db))] }
  | ["D", rh, d, c, dist] => some { t with dists := t.dists ++ [((decide (rh = "1"), d, c), dist)] }
  | _ => none

def parseTable (s : String) : Option ScanTable :=
  if s = "-" then some {} else (s.splitOn ",").foldlM parseTableEntry {}

/-- `path` or `path@distfile` -/
def parseDbSpec (s : String) : String × String :=
  match s.splitOn "@" with
  | [d, f] => (d, f)
  | _ => (s, "etc/os-release")

def listField (s : String) : List String := if s = "-" then [] else s.splitOn ","

def tableEco (t : ScanTable) (name : String) : FileEco where
  gobin := name.toList.head? = some '*'
  scan := fun q c => (t.files.filter fun e => e.1.1 = name ∧ e.1.2.1 = q ∧ e.1.2.2 = c).map fun e => mkPkg e.2.1 e.2.2

def tableScanners (os rh : List (String × String)) (fecos : List String) (t : ScanTable) : Scanners where
  osDbs := os.map (·.1)
  rhelDbs := rh.map (·.1)
  scanDB := fun d c => ((t.os.find? fun e => e.1 = c).map fun e => e.2.map fun id => mkPkg id d).getD []
  fecos := fecos.map (tableEco t)
  distFile := fun b d => (((if b then rh else os).find? fun e => e.1 = d).map (·.2)).getD "etc/os-release"
  scanDist := fun b d c => (t.dists.find? fun e => e.1.1 = b ∧ e.1.2.1 = d ∧ e.1.2.2 = c).map fun e => { id := e.2 }

def parseHashedLayer (s : String) : Option FSLayer :=
  match s.splitOn ";" with
  | [h, es] => (parseFSLayer es).map fun l => { l with hash := h }
  | _ => none

def sortDedup (xs : List String) : List String :=
  let sorted := xs.mergeSort fun a b => !(b < a)
  sorted.foldr (fun x acc => match acc with | y :: _ => if x = y then acc else x :: acc | [] => [x]) []

def distName (d : Option Dist) : String := match d with | some x => x.id | none => "-"

def e2eLine (osdbs rheldbs fecos table stack : String) : String :=
  match parseTable table, (stack.splitOn "|").mapM parseHashedLayer with
  | some t, some layers =>
    let S := tableScanners ((listField osdbs).map parseDbSpec) ((listField rheldbs).map parseDbSpec) (listField fecos) t
    let idx := match indexModel S layers with
      | none => "fail"
      | some r => ",".intercalate (sortDedup (r.envs.flatMap fun (ie : String × List Env) => ie.2.map fun (e : Env) =>
          ie.1 ++ "@" ++ e.db ++ "#" ++ (if e.distId = "" then "-" else e.distId)))
    let img := ",".intercalate (sortDedup ((scanImage S layers).map fun (p : Pkg) => p.id ++ "@" ++ p.db))
    let ds := (S.osDbs.map fun d => "0:" ++ d ++ "=" ++ distName (imageDist S false d layers)) ++
      (S.rhelDbs.map fun d => "1:" ++ d ++ "=" ++ distName (imageDist S true d layers))
    s!"tame={tameB S layers} idx={idx} img={img} dist={",".intercalate ds}"
  | _, _ => "bad-op"

end ClairModel.LayerFS
