/-
  Model of java/maven_version.go: `parseMavenVersion` (the rune loop with its
  builder, `isDigit`, `pos` and current-list pointer), `normalize`,
  `component.Compare` with its nil padding, `ordString`; the qualifier table
  is the regenerated `Gen.Versions.mavenQualifiers`.  Core Lean only.

  Shape of the values.  The parser's list pointer `l` only ever moves into the
  list it has just appended (`appendList`), and it always appends an item
  before doing so.  Hence every list the parser builds is a run of atoms
  (numbers and strings) optionally ended by ONE sub-list, which is the last
  element of its parent.  `MV` is exactly that shape:

      [1, 0, "sp", [2, ["x"]]]   =   item 1 (item 0 (item "sp" (sub (item 2 (sub (item "x" done))))))

  `component.Compare` is defined on arbitrary trees; the model gives it on the
  trees the parser can return.
-/
import ClairModel.Model.Version
import ClairModel.Lib.Utf8
import ClairModel.Gen.Versions
import ClairModel.Gen.Unicode

namespace ClairModel.Maven
open ClairModel.Order ClairModel.Version

inductive Atom where
  | int (n : Nat)
  | str (s : List Char)
  deriving Repr, DecidableEq

/-- A list component as the parser builds it: atoms, then the end of the list
    or a final sub-list. -/
inductive MV where
  | done
  | item (a : Atom) (rest : MV)
  | sub (inner : MV)
  deriving Repr, DecidableEq

/-! ### ordString -/

def toLowerAscii (c : Char) : Char := if isUpper c then Char.ofNat (c.toNat + 32) else c

/-- `unicode.ToLower`: ASCII arithmetic below U+0080, otherwise the table
    regenerated from the standard library (Gen/Unicode.lean).  The texts are
    lists of runes (code points); `strings.ToLower` maps rune by rune. -/
def uniToLower (c : Char) : Char :=
  if c.toNat < 128 then toLowerAscii c else
  match Gen.Unicode.lowerPairs.find? fun p => p.1 = c.toNat with
  | some p => Char.ofNat p.2
  | none => c

/-- `unicode.IsDigit`: the ASCII digits and the other decimal digits (category Nd). -/
def uniIsDigit (c : Char) : Bool :=
  Version.isDigit c || (decide (128 ≤ c.toNat) && Utf8.inRanges Gen.Unicode.digitRanges c.toNat)

/-- The `qualifiers` map (regenerated from the source, Gen/Versions.lean):
    the text a known qualifier (already lower-cased) sorts as. -/
def qualifierText (s : List Char) : Option (List Char) :=
  (Gen.Versions.mavenQualifiers.find? fun p => p.1 = s).map (·.2)

def unknownQualifier : Nat := Gen.Versions.mavenUnknownQualifier

/-- `ordString`: the text that `strings.Compare` is applied to — the table
    entry of a known qualifier, `"<unknownQualifier>-<lower-cased text>"` otherwise. -/
def ordString (s : List Char) : List Char :=
  let l := s.map uniToLower
  match qualifierText l with
  | some r => r
  | none => natDigits unknownQualifier ++ '-' :: l

/-! ### component.Compare -/

/-- An atom against `nil`: a number against 0, a string against "". -/
def atomNil : Atom → Ordering
  | .int n => natCmp n 0
  | .str s => strCmp (ordString s) (ordString [])

/-- Atom against atom. -/
def atomCmp : Atom → Atom → Ordering
  | .int a, .int b => natCmp a b
  | .int _, .str _ => .gt
  | .str _, .int _ => .lt
  | .str a, .str b => strCmp (ordString a) (ordString b)

/-- A list against `nil`: the first element that differs from `nil` decides. -/
def cmpNil : MV → Ordering
  | .done => .eq
  | .item a t => (atomNil a).then (cmpNil t)
  | .sub i => cmpNil i

/-- List against list (`a.Kind() == listComponent && b.Kind() == listComponent`),
    position by position with `nil` for a list that has ended. -/
def cmp : MV → MV → Ordering
  | .done, b => (cmpNil b).swap                     -- res = -1 * r.Compare(nil), every position
  | .item a t, .done => (atomNil a).then (cmpNil t)
  | .sub i, .done => cmpNil i
  | .item a t, .item b u => (atomCmp a b).then (cmp t u)
  | .item (.int _) _, .sub _ => .gt                 -- int against list
  | .item (.str _) _, .sub _ => .lt                 -- string against list
  | .sub _, .item (.int _) _ => .lt                 -- list against int
  | .sub _, .item (.str _) _ => .gt                 -- list against string
  | .sub i, .sub j => cmp i j

/-! ### the fragment on which the comparison is transitive -/

/-- Two atoms may stand at the same position unless one is the number 0 and
    the other a string (0 equals `nil`, but is above every string, while `nil`
    is below e.g. "sp"). -/
def atomCompat : Atom → Atom → Bool
  | .int n, .str _ => n != 0
  | .str _, .int n => n != 0
  | _, _ => true

/-- `compat a b`: walking the two lists position by position (as `Compare`
    aligns them) no string meets a list, and no number 0 meets a string or a
    list.  Lists that have ended are compatible with anything. -/
def compat : MV → MV → Bool
  | .done, _ => true
  | .item _ _, .done => true
  | .sub _, .done => true
  | .item a t, .item b u => atomCompat a b && compat t u
  | .item (.int n) _, .sub _ => n != 0
  | .item (.str _) _, .sub _ => false
  | .sub _, .item (.int n) _ => n != 0
  | .sub _, .item (.str _) _ => false
  | .sub i, .sub j => compat i j

/-! ### isNull / normalize -/

def Atom.isNull : Atom → Bool
  | .int n => n = 0
  | .str s => s.isEmpty

/-
  `normalize` scans a list from its end: a null element is removed and the
  scan goes on; a non-null atom stops it; a (non-empty) list is normalised
  recursively and the scan goes on to its left.  An inner list that becomes
  empty by its own normalisation is kept (the code does not look at it again).

  So the element left of an already normalised remainder `t` is inspected iff
  `t` contains no atom any more, i.e. is `done` or a bare sub-list.
-/

/-- Is the scan still running when it reaches the element left of `t`
    (`t` already normalised)?  It is unless `t` starts with an atom. -/
def scanContinues : MV → Bool
  | .done => true
  | .sub _ => true
  | .item _ _ => false

def normalize : MV → MV
  | .done => .done
  | .sub i =>
    match i with
    | .done => .done
    | _ => .sub (normalize i)
  | .item a t =>
    let t' := normalize t
    if scanContinues t' && a.isNull then t' else .item a t'

/-! ### parseMavenVersion -/

/-- Parser state: the lists built so far, innermost last, each as the reversed
    run of its atoms (the pointer `l` is the last one); the builder; `isDigit`;
    whether the current token is empty (`i == pos`). -/
structure PState where
  outer : List (List Atom) := []     -- finished prefixes of the enclosing lists, outermost first
  cur : List Atom := []              -- atoms of the current list, in order
  buf : List Char := []              -- strings.Builder, in order
  isDigit : Bool := false
  atPos : Bool := true               -- i == pos
  deriving Repr

/-- `appendInt`: `big.Int.SetString(b, 10)`; fails on the empty string and on
    a decimal digit of another script (`unicode.IsDigit` put it into the
    builder, `SetString` knows ASCII digits only). -/
def flushInt (st : PState) : Option PState :=
  if st.buf.isEmpty || !st.buf.all Version.isDigit then none
  else some { st with cur := st.cur ++ [.int (natOfDigits st.buf)], buf := [] }

def flushStr (st : PState) : PState :=
  { st with cur := st.cur ++ [.str st.buf], buf := [] }

def flush (st : PState) : Option PState :=
  if st.isDigit then flushInt st else some (flushStr st)

/-- `l = appendList(l)`. -/
def descend (st : PState) : PState :=
  { st with outer := st.outer ++ [st.cur], cur := [] }

/-- One rune of the `for i, r := range s` loop.  The text is a list of runes:
    the driver decodes UTF-8 the way `range` does (ill-formed bytes become
    U+FFFD, which `WriteRune` then writes out as such). -/
def stepChar (st : PState) (r : Char) : Option PState :=
  if r = '.' then do
    let st := if st.atPos then { st with buf := st.buf ++ ['0'] } else st
    let st ← flush st
    pure { st with atPos := true }
  else if r = '-' then do
    let st := if st.atPos then { st with buf := st.buf ++ ['0'] } else st
    let st ← flush st
    pure { descend st with atPos := true }
  else if uniIsDigit r then
    if !st.isDigit && !st.atPos then
      let st := descend (flushStr st)
      some { st with isDigit := true, buf := st.buf ++ [r], atPos := false }
    else some { st with isDigit := true, buf := st.buf ++ [r], atPos := false }
  else
    if st.isDigit && !st.atPos then do
      let st ← flushInt st
      let st := descend st
      pure { st with isDigit := false, buf := st.buf ++ [r], atPos := false }
    else some { st with isDigit := false, buf := st.buf ++ [r], atPos := false }

def runChars : PState → List Char → Option PState
  | st, [] => some st
  | st, r :: rs => match stepChar st r with
    | some st' => runChars st' rs
    | none => none

def atomsThen : List Atom → MV → MV
  | [], t => t
  | a :: as, t => .item a (atomsThen as t)

/-- Rebuild the nested list from the innermost outwards. -/
def assemble : List (List Atom) → MV → MV
  | [], inner => inner
  | l :: ls, inner => atomsThen l (.sub (assemble ls inner))

def build (st : PState) : MV :=
  match st.outer with
  | [] => atomsThen st.cur .done
  | o :: os => atomsThen o (.sub (assemble os (atomsThen st.cur .done)))

/-- `parseMavenVersion`; `none` = error ("unable to parse number"). -/
def parse (s : List Char) : Option MV := do
  let st ← runChars {} s
  let st ← flush st
  pure (normalize (build st))

/-! ### rendering (`(*component).String`) -/

def quoteChar (c : Char) : List Char :=
  if c = '"' then ['\\', '"'] else if c = '\\' then ['\\', '\\'] else [c]

def renderAtom : Atom → List Char
  | .int n => natDigits n
  | .str s => ['"'] ++ s.flatMap quoteChar ++ ['"']

def hexDigit (n : Nat) : Char := if n < 10 then Char.ofNat (48 + n) else Char.ofNat (87 + n)

/-- Strings as the hex of their UTF-8 bytes (the `TreeHex` hook). -/
def renderAtomHex : Atom → List Char
  | .int n => natDigits n
  | .str s => ['"'] ++ (Utf8.encodeAll s).flatMap (fun b => [hexDigit (b / 16), hexDigit (b % 16)]) ++ ['"']

def renderElemsHex : MV → List (List Char)
  | .done => []
  | .item a t => renderAtomHex a :: renderElemsHex t
  | .sub i => [['['] ++ joinWith [','] (renderElemsHex i) ++ [']']]

def renderHex (m : MV) : List Char := ['['] ++ joinWith [','] (renderElemsHex m) ++ [']']

def renderElems : MV → List (List Char)
  | .done => []
  | .item a t => renderAtom a :: renderElems t
  | .sub i => [['['] ++ joinWith [','] (renderElems i) ++ [']']]

def render (m : MV) : List Char := ['['] ++ joinWith [','] (renderElems m) ++ [']']

end ClairModel.Maven
