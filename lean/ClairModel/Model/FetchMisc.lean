/-
  Small pieces next to the fetcher (property C09).

    internal/httputil/responsechecker.go   CheckResponse
    digest.go                              Digest.UnmarshalText as a mutation of
                                           its receiver, Scan, Value

  `Codec.digestParse` (shared with C17) is `ParseDigest`: UnmarshalText on a
  zero Digest.  UnmarshalText decodes into a fresh value and assigns the
  receiver only on success; `Scan` of a string returns its error.  What the
  receiver holds afterwards is modelled here.  Core Lean only.
-/
import ClairModel.Model.Codec

namespace ClairModel.FetchMisc
open ClairModel ClairModel.Bytes ClairModel.Codec

/-- `httputil.CheckResponse(resp, codes...)`: `true` = nil error. -/
def checkResponse (codes : List Nat) (status : Nat) : Bool := codes.contains status

/-- The three fields of a `claircore.Digest`. -/
structure DVal where
  algo : Bytes := []
  checksum : Bytes := []
  repr : Bytes := []
deriving DecidableEq, Repr

/-- `(*Digest).UnmarshalText`: the receiver afterwards and whether the error is nil.
    A rejected text leaves the receiver as it was. -/
def unmarshal (d : DVal) (t : Bytes) : DVal × Bool :=
  match cut 58 t with
  | none => (d, false)
  | some (a, hx) =>
    match hexDecode hx with
    | none => (d, false)
    | some b =>
      match digestSize a with
      | none => (d, false)
      | some sz =>
        if b.length = sz then (⟨a, b, a ++ 58 :: hexEncode b⟩, true) else (d, false)

inductive ScanArg where
  | null
  | str (t : Bytes)
  | other
deriving Repr

/-- `(*Digest).Scan`: the receiver afterwards and whether an error is returned. -/
def scan (d : DVal) : ScanArg → DVal × Bool
  | .null => ({}, false)   -- NULL is the zero Digest, whatever the receiver held (/repo 62a5fcf7)
  | .str t => ((unmarshal d t).1, !(unmarshal d t).2)
  | .other => (d, true)

/-- `Digest.Value`. -/
def value (d : DVal) : Bytes := d.repr

end ClairModel.FetchMisc
