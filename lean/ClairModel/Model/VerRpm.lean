/-
  Model of github.com/knqyf263/go-rpm-version as pinned by /repo's go.mod
  (v0.0.0-20170716094938-74609b86c936, version.go): `NewVersion`,
  `rpmvercmp`, `Version.Compare`.  This is the 2017 library: segments are
  `[a-zA-Z]+ | [0-9]+ | ~` only — there is no caret (`^`) support, and the
  model follows the library, not upstream rpm.

  Go's `int` results -1 / 0 / +1 are modelled as `Ordering` (`lt / eq / gt`);
  inside the segment loop `eq` stands for "continue with the next segment".
  Strings are byte strings (`List Char`, every `Char` below 256): the segment
  pattern's classes are ASCII, so every byte ≥ 0x80 is a separator.  Core Lean only.
-/
import ClairModel.Lib.Order
import ClairModel.Model.VerCommon

namespace ClairModel.VerRpm
open ClairModel.Order ClairModel.VerCommon

/-- One match of `alphanumPattern = ([a-zA-Z]+)|([0-9]+)|(~)`. -/
inductive Seg
  | alpha (s : Str)
  | num (s : Str)
  | tilde
  deriving DecidableEq, Repr

/-- The run of letters / digits the scanner is collecting. -/
inductive Run
  | idle
  | alpha (acc : Str)
  | num (acc : Str)

def Run.flush : Run → List Seg
  | .idle => []
  | .alpha a => [.alpha a]
  | .num a => [.num a]

/-- `alphanumPattern.FindAllString(s, -1)`: maximal runs of letters, maximal
    runs of digits, single tildes; every other byte separates. -/
def scan : Run → Str → List Seg
  | r, [] => r.flush
  | r, c :: cs =>
    if isLetter c then
      match r with
      | .alpha acc => scan (.alpha (acc ++ [c])) cs
      | _ => r.flush ++ scan (.alpha [c]) cs
    else if isDigit c then
      match r with
      | .num acc => scan (.num (acc ++ [c])) cs
      | _ => r.flush ++ scan (.num [c]) cs
    else if c = '~' then r.flush ++ (.tilde :: scan .idle cs)
    else r.flush ++ scan .idle cs

def segments (s : Str) : List Seg := scan .idle s

def trimZeros (s : Str) : Str := trimLeft (· = '0') s

/-- The body of `for i := 0; i < segs; i++` for one pair of segments;
    `eq` = fall out of the body and continue the loop. -/
def segStep : Seg → Seg → Ordering
  -- "compare tildes"
  | .tilde, .tilde => .eq          -- neither return fires; "~" == "~" in the string compare
  | .tilde, _ => .lt               -- `if b[0] != '~' return -1`
  | _, .tilde => .gt               -- `if a[0] != '~' return 1`
  -- a numeric
  | .num _, .alpha _ => .gt        -- "numbers are always greater than alphas"
  | .num x, .num y =>
    -- trim leading zeros; longest string wins; then string compare
    (natCmp (trimZeros x).length (trimZeros y).length).then (strCmp (trimZeros x) (trimZeros y))
  -- a alpha, b numeric
  | .alpha _, .num _ => .lt
  | .alpha x, .alpha y => strCmp x y

/-- The segment loop and what follows it. -/
def segLoop : List Seg → List Seg → Ordering
  | a :: as, b :: bs => (segStep a b).then (segLoop as bs)
  -- "segments were all the same but separators must have been different"
  | [], [] => .eq
  -- "If there is a tilde in a segment past the min number of segments, find it."
  | a :: _, [] => if a = .tilde then .lt else .gt     -- else "whoever has the most segments wins"
  | [], b :: _ => if b = .tilde then .gt else .lt

def rpmvercmp (a b : Str) : Ordering :=
  if a = b then .eq else segLoop (segments a) (segments b)

structure Version where
  epoch : Int
  version : Str
  release : Str
  deriving DecidableEq, Repr

/-- `NewVersion`: epoch before the first `:` (left-trimmed of Unicode white
    space, `Atoi`, any error gives 0), then version and release around the first `-`. -/
def newVersion (ver : Str) : Version :=
  let (epoch, rest) : Int × Str :=
    match cut ':' ver with
    | none => (0, ver)
    | some (e, r) => ((atoi (trimLeftSpace e)).getD 0, r)
  match cut '-' rest with
  | some (v, r) => { epoch := epoch, version := v, release := r }
  | none => { epoch := epoch, version := rest, release := [] }

/-- `Version.Compare`. -/
def compare (v1 v2 : Version) : Ordering :=
  if v1 = v2 then .eq                                  -- reflect.DeepEqual
  else if v1.epoch > v2.epoch then .gt
  else if v1.epoch < v2.epoch then .lt
  else
    match rpmvercmp v1.version v2.version with
    | .eq => rpmvercmp v1.release v2.release
    | r => r

/-- Compare two version strings the way every rpm-based matcher does. -/
def cmpStr (a b : Str) : Ordering := compare (newVersion a) (newVersion b)

end ClairModel.VerRpm
