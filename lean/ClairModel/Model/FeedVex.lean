/-
  C14 — Red Hat VEX (CSAF): rhel/vex/parser.go `(*Updater).DeltaParse`,
  `walkRelationships`, `extractProductNames`, `(*creator).knownAffectedVulnerabilities`,
  `(*creator).fixedVulnerabilities`, `lookupVulnerability`, the `ranger`,
  `createPackageModule`, `extractFixedInVersion`, `extractPackageName`,
  `checkPURL`, `extractArch`, `escapeCPE`, `cvssVectorFromScore`,
  `cvssBaseScoreFromScore`; toolkit/types/csaf `FindProductByID`,
  `FindRelationship`, `FindScore`, `FindThreat`, `FindRemediation`.

  Modelled on the decoded `csaf.CSAF` documents, one per line of the feed.
  Parameters (not modelled): `packageurl.FromString` (every purl helper comes
  with its parse), `cpe.Unbind` (a table from the escaped CPE string to the
  bound form of the WFN, C19), `rhctag.Parse` (a table from tag to major,
  minor), the validity of a CVSS vector (C18), `common.NormalizeSeverity`
  (regenerated table).

  The product cache is per document (parser.go as fixed), so `pc.Get` is
  `FindProductByID` on the document at hand.  `c.fixedVulns` and
  `uniqueVulnsIdx` live as long as the document's creator: they are threaded
  through the vulnerabilities of one document.  Pointers: the entries of
  `c.fixedVulns` are mutated in place (also when a product is disregarded
  after its key was found), a `ranger` keeps pointers to the ranges it handed
  out and zeroes the lower bound of the lowest one per package name at the end
  of each call; ranges are therefore identified by a serial number here.
  Core Lean only.
-/
import ClairModel.Model.FeedCommon
import ClairModel.Model.FeedOval

namespace ClairModel.Feeds

/-! ### decoded documents -/

/-- What `packageurl.FromString` makes of a helper, as far as the parser reads it. -/
structure Purl where
  type : String
  ns : String
  name : String
  version : String
  arch : String := ""                -- `Qualifiers.Map()["arch"]` ("" when absent)
  epoch : Option String := none      -- qualifier `epoch`
  tag : Option String := none        -- qualifier `tag`
  repoUrl : Option String := none    -- qualifier `repository_url`
deriving Repr, DecidableEq

/-- `IdentificationHelper["purl"]`: absent, unparsable, or parsed. -/
inductive PurlHelper where
  | absent
  | bad
  | ok (p : Purl)
deriving Repr, DecidableEq

/-- `csaf.Product`. -/
structure VexProduct where
  id : String
  cpe : Option String := none        -- `IdentificationHelper["cpe"]`
  purl : PurlHelper := .absent
deriving Repr, DecidableEq

/-- `csaf.ProductBranch`: its product and the nested branches.  The root is the
    `product_tree` object itself (its product is the zero product). -/
inductive VexBranch where
  | node (product : VexProduct) (subs : List VexBranch)
deriving Repr

/-- `csaf.Relationship`. -/
structure VexRel where
  category : String
  fullId : String                    -- full_product_name.product_id
  ref : String                       -- product_reference
  relTo : String                     -- relates_to_product_reference
deriving Repr, DecidableEq

/-- One of `cvss_v2` / `cvss_v3` / `cvss_v4`: the vector, whether
    `cvss.ParseV*` accepts it, whether `baseScore == 0.0`. -/
structure CvssEntry where
  vector : String
  valid : Bool
  zero : Bool
deriving Repr, DecidableEq

structure VexScore where
  v2 : Option CvssEntry := none
  v3 : Option CvssEntry := none
  v4 : Option CvssEntry := none
  products : List String
deriving Repr, DecidableEq

structure VexThreat where
  category : String
  details : String
  products : List String
deriving Repr, DecidableEq

structure VexRemediation where
  url : String
  products : List String
deriving Repr, DecidableEq

/-- `csaf.Vulnerability` as far as the parser reads it. `fixed` and `known` are
    `product_status["fixed"]` and `["known_affected"]`; `otherStatus` holds the
    product ids under every other key (never read). -/
structure VexVuln where
  issued : String
  refs : List String
  notes : List (String × String)     -- (category, text)
  fixed : List String
  known : List String
  otherStatus : List String := []
  threats : List VexThreat
  scores : List VexScore
  rems : List VexRemediation
deriving Repr

structure VexDoc where
  id : String                        -- document.tracking.id
  status : String                    -- document.tracking.status
  docRefs : List (String × String)   -- document.references: (category, url)
  tree : VexBranch
  rels : List VexRel
  vulns : List VexVuln
deriving Repr

/-- Everything the model takes from outside. -/
structure VexEnv where
  updater : String
  sev : String → Nat                                   -- common.NormalizeSeverity
  repoKey : String                                     -- rhel/vex repoKey
  goldRepo : String                                    -- rhcc.GoldRepo as Name|Key|URI
  cpes : List (String × Option String)                 -- escaped CPE ↦ `wfn.String()` (none: Unbind fails)
  tags : List (String × Option (Nat × Nat))            -- tag ↦ rhctag major, minor (none: Parse fails)

/-! ### csaf lookups -/

mutual
/-- `(*ProductBranch).FindProductByID`: pre-order, first match. -/
def findProduct (id : String) : VexBranch → Option VexProduct
  | .node p subs => if p.id = id then some p else findProductList id subs
def findProductList (id : String) : List VexBranch → Option VexProduct
  | [] => none
  | b :: bs =>
    match findProduct id b with
    | some p => some p
    | none => findProductList id bs
end

/-- `FindRelationship(productID, "default_component_of")`. -/
def findRel (rels : List VexRel) (pid : String) : Option VexRel :=
  rels.find? fun r => r.category == "default_component_of" && r.fullId == pid

/-- All scores / threats / remediations of the document, in order (`Find*`
    iterate over every vulnerability of the document). -/
def VexDoc.allScores (d : VexDoc) : List VexScore := d.vulns.flatMap (·.scores)
def VexDoc.allThreats (d : VexDoc) : List VexThreat := d.vulns.flatMap (·.threats)
def VexDoc.allRems (d : VexDoc) : List VexRemediation := d.vulns.flatMap (·.rems)

def findScore (d : VexDoc) (pid : String) : Option VexScore :=
  d.allScores.find? fun s => s.products.contains pid

def findImpact (d : VexDoc) (pid : String) : Option VexThreat :=
  d.allThreats.find? fun t => t.products.contains pid && t.category == "impact"

def findRemediation (d : VexDoc) (pid : String) : Option VexRemediation :=
  d.allRems.find? fun r => r.products.contains pid

/-! ### relationships → (package, module, repository) -/

/-- `extractProductNames`.  `fuel` bounds the nesting: with acyclic
    relationships the recursion is never deeper than their number; on a cycle
    the Go code does not terminate, the model gives `none`. -/
def extractNames (rels : List VexRel) : Nat → String → String → List String → Option (List String)
  | 0, _, _, _ => none
  | fuel + 1, ref, relTo, comps =>
    let left :=
      match findRel rels ref with
      | some r => extractNames rels fuel r.ref r.relTo comps
      | none => some (comps ++ [ref])
    match left with
    | none => none
    | some comps =>
      match findRel rels relTo with
      | some r => extractNames rels fuel r.ref r.relTo comps
      | none => some (comps ++ [relTo])

/-- `walkRelationships`: (package id, module id or "", repository id); `none` = error (the product is skipped). -/
def walkRels (rels : List VexRel) (pid : String) : Option (String × String × String) :=
  match findRel rels pid with
  | none => none
  | some r =>
    match extractNames rels (rels.length + 1) r.ref r.relTo [] with
    | none => none
    | some comps =>
      if comps.length < 2 then none
      else if comps.length = 2 then some (comps.getD 0 "", "", comps.getD 1 "")
      else some (comps.getD 0 "", comps.getD (comps.length - 2) "", comps.getD (comps.length - 1) "")

/-! ### purl helpers -/

def startsWith (s pre : String) : Bool := isPrefixOf pre.toList s.toList

/-- The part of `s` before the first `sep` (all of `s` when there is none). -/
def cutBefore (sep : Char) (s : String) : String := String.ofList (s.toList.takeWhile (· ≠ sep))

/-- The part of `s` after the first `sep` (`none` when there is none). -/
def cutAfter (sep : Char) (s : String) : Option String :=
  match s.toList.dropWhile (· ≠ sep) with
  | [] => none
  | _ :: rest => some (String.ofList rest)

/-- `createPackageModule`; every error yields "" (the caller only logs it). -/
def moduleName : Option VexProduct → String
  | none => ""
  | some p =>
    match p.purl with
    | .absent => ""
    | .bad => ""
    | .ok u =>
      if u.type ≠ "rpmmod" then ""
      else if u.ns = "redhat" then u.name ++ ":" ++ cutBefore ':' u.version
      else if startsWith u.ns "redhat/" then (cutAfter '/' u.ns).getD ""
      else ""

/-- `checkPURL`. -/
def checkPURL (u : Purl) : Bool :=
  (u.type == "oci" || u.type == "rpm") && !startsWith u.name "kernel" && !(u.type == "rpm" && u.ns != "redhat")

/-- `extractFixedInVersion`; `none` = error. -/
def fixedInVersion (u : Purl) : Option String :=
  if u.type = "oci" then u.tag
  else if u.type = "rpm" then some (u.epoch.getD "0" ++ ":" ++ u.version)
  else none

/-- `extractPackageName`; `none` = error. -/
def purlPackageName (u : Purl) : Option String :=
  if u.type = "oci" then
    if u.ns ≠ "" then some (u.ns ++ "/" ++ u.name)
    else match u.repoUrl with
      | none => some u.name
      | some ru => cutAfter '/' ru
  else if u.type = "rpm" then some u.name
  else none

/-- `extractArch`. -/
def purlArch (u : Purl) : String :=
  if u.arch = "amd64" ∨ u.arch = "x86_64" then "amd64|x86_64" else u.arch

/-! ### escapeCPE -/

def splitOnChar (sep : Char) : List Char → List (List Char)
  | [] => [[]]
  | c :: cs =>
    if c = sep then [] :: splitOnChar sep cs
    else match splitOnChar sep cs with
      | [] => [[c]]
      | x :: xs => (c :: x) :: xs

def escapeComp (c : List Char) : List Char :=
  let c := match c.reverse with
    | '*' :: r => r.reverse ++ "%02".toList
    | _ => c
  c.flatMap fun x => if x = '?' then "%01".toList else [x]

/-- `escapeCPE`: per `:`-separated component, a trailing `*` becomes `%02`, every `?` becomes `%01`. -/
def escapeCPE (s : String) : String :=
  String.ofList (":".toList.intercalate ((splitOnChar ':' s.toList).map escapeComp))

/-- `cpe.Unbind` of the escaped helper, then `rc.Get`: the repository key
    Name|Key|URI.  Outer `none`: the string is not in the table (never for a
    line the harness writes). -/
def repoOfCpe (env : VexEnv) (helper : String) : Option String :=
  match env.cpes.find? (fun p => p.1 == escapeCPE helper) with
  | some (_, some n) => some (n ++ "|" ++ env.repoKey ++ "|")
  | _ => none

/-! ### scores -/

/-- `cvssVectorFromScore`: v4, then v3, then v2; `none` = error (invalid vector, or none of the three present). -/
def scoreVector (s : VexScore) : Option String :=
  match s.v4, s.v3, s.v2 with
  | some e, _, _ => if e.valid then some e.vector else none
  | none, some e, _ => if e.valid then some e.vector else none
  | none, none, some e => if e.valid then some e.vector else none
  | none, none, none => none

/-- `cvssBaseScoreFromScore(sc) == 0.0`. -/
def scoreZero (s : VexScore) : Bool :=
  match s.v4, s.v3, s.v2 with
  | some e, _, _ => e.zero
  | none, some e, _ => e.zero
  | none, none, some e => e.zero
  | none, none, none => true

/-! ### the prototype vulnerability -/

/-- The last reference of category "self". -/
def selfLink (d : VexDoc) : String :=
  d.docRefs.foldl (fun acc r => if r.1 = "self" then r.2 else acc) ""

/-- `protoVuln()`. -/
def vexProto (env : VexEnv) (d : VexDoc) (v : VexVuln) : Vuln :=
  { updater := env.updater, name := d.id,
    desc := v.notes.foldl (fun acc n => if n.1 = "description" then n.2 else acc) "",
    issued := v.issued, links := " ".intercalate (v.refs ++ [selfLink d]), sev := "Unknown", nsev := 0 }

/-- Outcome of one product. -/
inductive Step (α : Type) where
  | skip
  | err
  | emit (a : α)
deriving Repr

def rhctagKind : String := "rhctag"
def maxInt32 : Nat := 2147483647

/-- The range `ranger.add` hands out for an unfixed container: everything. -/
def ociRangeAll : Rng :=
  { lower := { kind := rhctagKind }, upper := { kind := rhctagKind, v0 := maxInt32 } }

/-- The range `ranger.add` hands out for a tag with (major, minor): that minor series. -/
def ociRangeOf (mm : Nat × Nat) : Rng :=
  { lower := { kind := rhctagKind, v0 := mm.1, v1 := mm.2 }, upper := { kind := rhctagKind, v0 := mm.1, v1 := mm.2, v2 := maxInt32 } }

/-- Severity string, normalized severity and the "disregard" test, common to both
    loops: `none` = error; `some (v, false)` = disregard. -/
def applyScore (env : VexEnv) (d : VexDoc) (pid : String) (v : Vuln) : Option (Vuln × Bool) :=
  let sc := findScore d pid
  let v? : Option Vuln := match sc with
    | none => some v
    | some s => (scoreVector s).map fun vec => { v with sev := vec }
  match v? with
  | none => none
  | some v =>
    match findImpact d pid with
    | some t => some ({ v with nsev := env.sev t.details }, true)
    | none =>
      match sc with
      | some s => if scoreZero s then some (v, false) else some (v, true)
      | none => some (v, true)

/-! ### known_affected -/

/-- One product id of `known_affected`. -/
def knownOne (env : VexEnv) (d : VexDoc) (proto : Vuln) (pid : String) : Step Vuln :=
  match walkRels d.rels pid with
  | none => .skip
  | some (pkgId, modId, repoId) =>
    if startsWith pkgId "kernel" then .skip else
    match findProduct repoId d.tree with
    | none => .skip
    | some repoProd =>
      match repoProd.cpe with
      | none => .skip
      | some cpeHelper =>
        let modName := if modId ≠ "" then moduleName (findProduct modId d.tree) else ""
        match findProduct pkgId d.tree with
        | none => .skip
        | some compProd =>
          match repoOfCpe env cpeHelper with
          | none => .err
          | some repo =>
            let v := { proto with repo := repo }
            let named : Option (String × Vuln) :=
              match compProd.purl with
              | .absent => some (pkgId, v)
              | .bad => none
              | .ok u =>
                if ¬ checkPURL u then none else
                let name := (purlPackageName u).getD pkgId
                if u.type = "oci" then some (name, { v with repo := env.goldRepo, range := some ociRangeAll })
                else some (name, v)
            match named with
            | none => .skip
            | some (name, v) =>
              let v := { v with hasPkg := true, pkgName := name, pkgKind := "source", pkgModule := modName }
              match applyScore env d pid v with
              | none => .err
              | some (_, false) => .skip
              | some (v, true) => .emit v

/-- `knownAffectedVulnerabilities`; `none` = error. -/
def knownAffected (env : VexEnv) (d : VexDoc) (proto : Vuln) : List String → Option (List Vuln)
  | [] => some []
  | pid :: rest =>
    match knownOne env d proto pid with
    | .err => none
    | .skip => knownAffected env d proto rest
    | .emit v => (knownAffected env d proto rest).map (v :: ·)

/-! ### fixed -/

/-- A `fixed` product id that resolved to a package the parser ingests. -/
structure FxProd where
  pid : String
  key : String                       -- createPackageKey
  arch : String                      -- extractArch
  fixedIn : String
  pkgName : String
  modName : String
  purlType : String
  cpeHelper : String
deriving Repr, DecidableEq

/-- The part of the `fixed` loop body before `lookupVulnerability`: `none` = `continue`. -/
def resolveFixed (d : VexDoc) (pid : String) : Option FxProd :=
  match walkRels d.rels pid with
  | none => none
  | some (pkgId, modId, repoId) =>
    match findProduct repoId d.tree with
    | none => none
    | some repoProd =>
      match repoProd.cpe with
      | none => none
      | some cpeHelper =>
        let modName := if modId ≠ "" then moduleName (findProduct modId d.tree) else ""
        match findProduct pkgId d.tree with
        | none => none
        | some compProd =>
          match compProd.purl with
          | .absent => none
          | .bad => none
          | .ok u =>
            if ¬ checkPURL u then none else
            match fixedInVersion u, purlPackageName u with
            | some fixedIn, some name =>
              some { pid := pid, key := repoId ++ ":" ++ modName ++ ":" ++ u.name ++ "-" ++ fixedIn, arch := purlArch u,
                     fixedIn := fixedIn, pkgName := name, modName := modName, purlType := u.type, cpeHelper := cpeHelper }
            | _, _ => none

/-- An entry of `c.fixedVulns` with its key; `rangeId` identifies the range object a ranger handed out. -/
structure FxEntry where
  key : String
  v : Vuln
  rangeId : Option Nat := none
deriving Repr, DecidableEq

/-- One `ranger.add`: package name, the lower bound handed out, the range's serial number. -/
structure RangerAdd where
  name : String
  lower : Ver
  id : Nat
deriving Repr, DecidableEq

structure FxState where
  entries : List FxEntry := []
  adds : List RangerAdd := []        -- of the current call
  nextId : Nat := 0
deriving Repr

/-- What the else-branch of the loop body does to the entry `base` (fresh
    prototype, or the existing entry when the key was found and the product has
    no arch): `err`, or the entry's new vulnerability and range serial together
    with "keep it?" and the ranger's add. -/
inductive Applied where
  | err
  | done (v : Vuln) (rangeId : Option Nat) (keep : Bool) (add : Option RangerAdd)
deriving Repr

/-- The entry's vulnerability after the assignments every product makes first:
    fixed version, a new package (name, binary, module), and with an arch that
    arch and the pattern-match operation. -/
def startFixed (p : FxProd) (base : Vuln) : Vuln :=
  let v := { base with fixed := p.fixedIn, hasPkg := true, pkgName := p.pkgName, pkgKind := "binary",
                       pkgModule := p.modName, pkgArch := "" }
  if p.arch ≠ "" then { v with pkgArch := p.arch, archOp := 3 } else v

/-- The end of the loop body: the remediation's URL joins the links, then
    severity string, normalized severity and the disregard test. -/
def finishFixed (env : VexEnv) (d : VexDoc) (pid : String) (v : Vuln) (rid : Option Nat) (add : Option RangerAdd) : Applied :=
  let v := match findRemediation d pid with
    | some r => { v with links := v.links ++ " " ++ r.url }
    | none => v
  match applyScore env d pid v with
  | none => .err
  | some (v, keep) => .done v rid keep add

def applyFixed (env : VexEnv) (d : VexDoc) (p : FxProd) (base : FxEntry) (nextId : Nat) : Applied :=
  let v := startFixed p base.v
  if p.purlType = "rpm" then
    match repoOfCpe env p.cpeHelper with
    | none => .err
    | some repo => finishFixed env d p.pid { v with repo := repo } base.rangeId none
  else if p.purlType = "oci" then
    let v := { v with repo := env.goldRepo }
    match env.tags.find? (fun t => t.1 == p.fixedIn) with
    | some (_, some mm) =>
      let r := ociRangeOf mm
      finishFixed env d p.pid { v with range := some r } (some nextId) (some ⟨p.pkgName, r.lower, nextId⟩)
    | _ => .done { v with range := none } none false none      -- the tag does not parse: discard
  else .done v base.rangeId false none                          -- neither rpm nor oci: discard

def replaceEntry (es : List FxEntry) (key : String) (f : FxEntry → FxEntry) : List FxEntry :=
  es.map fun e => if e.key = key then f e else e

/-- `vuln.Package.Arch = vuln.Package.Arch + "|" + arch`. -/
def appArch (e : FxEntry) (a : String) : FxEntry :=
  { e with v := { e.v with pkgArch := e.v.pkgArch ++ "|" ++ a } }

/-- One product id of `fixed`; `none` = error. -/
def fixedOne (env : VexEnv) (d : VexDoc) (proto : Vuln) (st : FxState) (pid : String) : Option FxState :=
  match resolveFixed d pid with
  | none => some st
  | some p =>
    match st.entries.find? (fun e => e.key == p.key) with
    | some e =>
      if p.arch ≠ "" then
        some { st with entries := replaceEntry st.entries p.key fun e => appArch e p.arch }
      else
        -- the key exists and the product has no arch: the existing entry is rebuilt in place;
        -- `discard` does nothing for it
        match applyFixed env d p e st.nextId with
        | .err => none
        | .done v rid _ add =>
          some { entries := replaceEntry st.entries p.key fun e0 => { e0 with v := v, rangeId := rid },
                 adds := st.adds ++ add.toList, nextId := st.nextId + 1 }
    | none =>
      match applyFixed env d p { key := p.key, v := proto } st.nextId with
      | .err => none
      | .done v rid keep add =>
        some { entries := if keep then st.entries ++ [{ key := p.key, v := v, rangeId := rid }] else st.entries,
               adds := st.adds ++ add.toList, nextId := st.nextId + 1 }

def fixedLoop (env : VexEnv) (d : VexDoc) (proto : Vuln) : FxState → List String → Option FxState
  | st, [] => some st
  | st, pid :: rest =>
    match fixedOne env d proto st pid with
    | none => none
    | some st' => fixedLoop env d proto st' rest

/-- `ranger.lowest` after the adds: per package name the first add with the
    smallest lower bound. -/
def lowestAdds : List RangerAdd → List RangerAdd → List RangerAdd
  | low, [] => low
  | low, a :: rest =>
    match low.find? (fun l => l.name == a.name) with
    | none => lowestAdds (low ++ [a]) rest
    | some l =>
      if a.lower.cmp l.lower = .lt then lowestAdds (low.map fun x => if x.name = a.name then a else x) rest
      else lowestAdds low rest

/-- `resetLowest`: the ranges the ranger still points at get the zero lower bound. -/
def resetLowest (st : FxState) : FxState :=
  let ids := (lowestAdds [] st.adds).map (·.id)
  { st with
    entries := st.entries.map fun e =>
      match e.rangeId, e.v.range with
      | some i, some r => if ids.contains i then { e with v := { e.v with range := some { r with lower := { kind := rhctagKind } } } } else e
      | _, _ => e,
    adds := [] }

/-- `fixedVulnerabilities` for one vulnerability of the document. -/
def fixedVulns (env : VexEnv) (d : VexDoc) (proto : Vuln) (st : FxState) (pids : List String) : Option FxState :=
  (fixedLoop env d proto { st with adds := [] } pids).map resetLowest

/-! ### DeltaParse -/

/-- The vulnerabilities of one document: threads the creator through its
    `vulnerabilities`; the map entry is overwritten per vulnerability, so the
    last one decides (`none` inside = the document has no vulnerability: the
    map entry is never written). -/
def vexDocVulns (env : VexEnv) (d : VexDoc) : FxState → Option (List Vuln) → List VexVuln → Option (Option (List Vuln))
  | _, acc, [] => some acc
  | st, _, v :: rest =>
    let proto := vexProto env d v
    match fixedVulns env d proto st v.fixed with
    | none => none
    | some st' =>
      match knownAffected env d proto v.known with
      | none => none
      | some ks => vexDocVulns env d st' (some (st'.entries.map (·.v) ++ ks)) rest

def setAssoc (l : List (String × List Vuln)) (k : String) (v : List Vuln) : List (String × List Vuln) :=
  if l.any (fun p => p.1 == k) then l.map fun p => if p.1 = k then (k, v) else p else l ++ [(k, v)]

/-- `DeltaParse` over the documents of the feed: the map `out` (as an
    association list in first-insertion order) and the deletion records;
    `none` = error. -/
def vexDocs (env : VexEnv) : List (String × List Vuln) → List String → List VexDoc → Option (List (String × List Vuln) × List String)
  | out, del, [] => some (out, del)
  | out, del, d :: rest =>
    if d.status = "deleted" then vexDocs env out (del ++ [d.id]) rest
    else
      match vexDocVulns env d {} none d.vulns with
      | none => none
      | some none => vexDocs env out del rest
      | some (some vs) => vexDocs env (setAssoc out d.id vs) del rest

/-- The result of `DeltaParse`: per advisory (map order is not observable) its
    vulnerabilities, and the deleted names (deletion records first, then the
    advisories without vulnerabilities). -/
def vexParse (env : VexEnv) (docs : List VexDoc) : Option (List (String × List Vuln) × List String) :=
  (vexDocs env [] [] docs).map fun r =>
    (r.1.filter (fun p => !p.2.isEmpty), r.2 ++ (r.1.filter (fun p => p.2.isEmpty)).map (·.1))

end ClairModel.Feeds
