/-
  C04 — histories of the Debian updater: the process-wide release table.

  `debian/releases.go` keeps `var releases sync.Map` (code name → Distribution).
  The updater side writes it in `Factory.findReleases` (every `UpdaterSet`
  call = one enumeration of the mirror) through `mkDist` = `LoadOrStore`
  (the first version recorded for a name wins) and reads it in
  `updater.Parse` through `getDist` = `Load` (an advisory whose release is not
  in the table is skipped without a word).  Nothing else touches the table
  (Gen/JoinState.lean lists every operation the package performs on it).

  One enumeration: the `dists/` listing is fetched (any failure = the whole
  `UpdaterSet` call fails and nothing is written); then, for every listed
  name, `dists/<name>/Release` is requested.  The outcome of that request is
  one of
    * `version v` — status 200/206 and a `Version: v.x` header line,
    * `skip`      — 404, no `Version`, a one-component or non-numeric version,
    * `fault`     — request error, another status, unreadable header;
  both `skip` and `fault` are only logged and the loop goes on.

  Core Lean only.
-/
import ClairModel.Model.JoinScan

namespace ClairModel.Join

/-- Outcome of the request for `dists/<name>/Release` in one enumeration. -/
inductive RelOutcome where
  | version (major : Int)
  | skip
  | fault
  deriving Repr, BEq, DecidableEq

/-- The release table: code name → recorded major version (association list,
    oldest entry first; at most one entry per name). -/
abbrev RelTable := List (Bytes × Int)

def RelTable.get (t : RelTable) (c : Bytes) : Option Int :=
  match t with
  | [] => none
  | (k, v) :: rest => if k == c then some v else RelTable.get rest c

/-- `mkDist` = `LoadOrStore`: the first version recorded for a name wins. -/
def RelTable.record (t : RelTable) (c : Bytes) (v : Int) : RelTable :=
  match t.get c with
  | some _ => t
  | none => t ++ [(c, v)]

def RelTable.learn (t : RelTable) (e : Bytes × RelOutcome) : RelTable :=
  match e.2 with
  | .version v => t.record e.1 v
  | _ => t

inductive HistEvent where
  /-- `Factory.UpdaterSet`: the listing request succeeded or not, and the
      outcome of the Release request of every listed name, in listing order. -/
  | enumerate (listingOK : Bool) (entries : List (Bytes × RelOutcome))
  /-- `updater.Parse` of a feed whose advisories name these releases. -/
  | parse (releases : List Bytes)
  deriving Repr

inductive HistOut where
  | enumOk
  | enumErr
  /-- the (release, Distribution) pairs stamped, in feed order -/
  | parsed (stamped : List (Bytes × Dist))
  deriving Repr, BEq

def stampOne (t : RelTable) (c : Bytes) : Option (Bytes × Dist) :=
  (t.get c).map fun v => (c, debianUpdDist c v)

def histStep (t : RelTable) : HistEvent → RelTable × HistOut
  | .enumerate false _ => (t, .enumErr)
  | .enumerate true es => (es.foldl RelTable.learn t, .enumOk)
  | .parse rs => (t, .parsed (rs.filterMap (stampOne t)))

/-- `c` was read successfully (with major `v`) in some enumeration of `evs`. -/
def readIn (c : Bytes) (evs : List HistEvent) : Prop :=
  ∃ es v, HistEvent.enumerate true es ∈ evs ∧ (c, RelOutcome.version v) ∈ es

/-! ### the Alpine factory: last enumeration and its validators

  `alpine.Factory` keeps `stamp`, `etag` and `cur` (the set of the last
  completed enumeration).  `UpdaterSet`: GET `last-update` (conditional on
  `etag`); 304 or an unchanged body ⇒ `cur`; otherwise the release
  directories are probed (HEAD `v<maj>.<min>/` from v3.3 on) and, for every
  release found and for edge, `main.json`/`community.json`; only when the
  whole walk finished without a request error are `stamp`, `etag` and `cur`
  replaced. -/

/-- Answer to one HEAD request of the walk. -/
inductive Probe where
  | ok        -- 200
  | notFound  -- 404
  | other     -- any other status: logged, skipped
  | netErr    -- the request failed: the whole UpdaterSet call fails
  deriving Repr, BEq, DecidableEq

/-- The `Minor:` loop for one major: the releases found, whether one was
    found at all (`foundLower`), and whether some answer was neither 200 nor
    404 (`incomplete`).  `none` = a request failed. -/
def alpWalkMinor (dir : Nat → Nat → Probe) (maj : Nat) :
    Nat → Nat → Bool → Bool → List (Nat × Nat) → Option (List (Nat × Nat) × Bool × Bool)
  | 0, _, fl, inc, acc => some (acc, fl, inc)
  | fuel + 1, min, fl, inc, acc =>
    match dir maj min with
    | .ok => alpWalkMinor dir maj fuel (min + 1) true inc (acc ++ [(maj, min)])
    | .notFound => some (acc, fl, inc)
    | .other => alpWalkMinor dir maj fuel (min + 1) fl true acc
    | .netErr => none

/-- The `Major:` loop: majors from 3 (minors from 3 for major 3, else from 0)
    until a major has no release at all. -/
def alpWalkMajor (dir : Nat → Nat → Probe) (fuelMin : Nat) :
    Nat → Nat → Bool → List (Nat × Nat) → Option (List (Nat × Nat) × Bool)
  | 0, _, inc, acc => some (acc, inc)
  | fuel + 1, maj, inc, acc =>
    match alpWalkMinor dir maj fuelMin (if maj == 3 then 3 else 0) false inc [] with
    | none => none
    | some (found, fl, inc') =>
      if fl then alpWalkMajor dir fuelMin fuel (maj + 1) inc' (acc ++ found) else some (acc ++ found, inc')

def alpRepos : List Bytes := [[109, 97, 105, 110], [99, 111, 109, 109, 117, 110, 105, 116, 121]]

/-- `updater.Name()`: `alpine-<repo>-<release>-updater`. -/
def alpUpdaterName (repo rel : Bytes) : Bytes :=
  [97, 108, 112, 105, 110, 101, 45] ++ repo ++ [45] ++ rel ++ [45, 117, 112, 100, 97, 116, 101, 114]

def alpRelString (r : Nat × Nat) : Bytes :=
  ClairModel.Gen.JoinReleases.alpine.stableString.eval [.int r.1, .int r.2]

/-- The second half of the walk: for every release found, then edge, HEAD
    `main.json` and `community.json`; 200 ⇒ an updater; 404 ⇒ none; anything
    else ⇒ none, and the walk is incomplete. -/
def alpJsonRel (json : Bytes → Bytes → Probe) (rel : Bytes) : List Bytes → Bool → List Bytes → Option (List Bytes × Bool)
  | [], inc, acc => some (acc, inc)
  | repo :: repos, inc, acc =>
    match json rel repo with
    | .ok => alpJsonRel json rel repos inc (acc ++ [alpUpdaterName repo rel])
    | .netErr => none
    | .notFound => alpJsonRel json rel repos inc acc
    | .other => alpJsonRel json rel repos true acc

def alpWalkJson (json : Bytes → Bytes → Probe) : List Bytes → Bool → List Bytes → Option (List Bytes × Bool)
  | [], inc, acc => some (acc, inc)
  | rel :: rels, inc, acc =>
    match alpJsonRel json rel alpRepos inc acc with
    | none => none
    | some (acc', inc') => alpWalkJson json rels inc' acc'

/-- The whole walk: names of the updaters of the new set, and whether the
    walk was complete (every answer was 200 or 404).  `none` = a request
    failed and `UpdaterSet` returns an error. -/
def alpWalk (dir : Nat → Nat → Probe) (json : Bytes → Bytes → Probe) (fuel : Nat) : Option (List Bytes × Bool) :=
  match alpWalkMajor dir fuel fuel 3 false [] with
  | none => none
  | some (rels, inc) =>
    match alpWalkJson json (rels.map alpRelString ++ [ClairModel.Gen.JoinReleases.alpine.edgeVersion]) inc [] with
    | none => none
    | some (names, inc') => some (names, !inc')

/-- The factory's state: the stamp and etag of the last completed walk and
    the names of the updaters of the set it produced. -/
structure AlpState where
  stamp : Option Nat := none
  etag : Bytes := []
  cur : List Bytes := []
  deriving Repr, BEq, DecidableEq

inductive AlpEvent where
  /-- the `last-update` request failed or had an unexpected status -/
  | stampFault
  /-- the server answers 304 whatever was asked -/
  | notModified
  /-- the server holds the body `stamp` under the validator `etag` (it answers
      a matching `If-None-Match` with 304); `walk`: what the walk over the
      mirror yields if it is performed (`none` = a request of it fails; the
      flag: every answer was 200 or 404) -/
  | stampIs (stamp : Nat) (etag : Bytes) (walk : Option (List Bytes × Bool))
  deriving Repr

inductive AlpOut where
  | err
  | set (names : List Bytes)
  deriving Repr, BEq, DecidableEq

/-- No walk: the conditional request is answered 304
    (`if f.etag != "" { req.Header.Set("if-none-match", f.etag) }`), or the
    body equals the stored stamp. -/
def alpKeeps (s : AlpState) (st : Nat) (etag : Bytes) : Bool :=
  (s.etag != [] && s.etag == etag) || s.stamp == some st

/-- After fix 9c7e43c2: a walk in which some answer was neither 200 nor 404
    still yields its set for this call, but stamp, etag and set are not
    stored. -/
def alpStep (s : AlpState) : AlpEvent → AlpState × AlpOut
  | .stampFault => (s, .err)
  | .notModified => (s, .set s.cur)
  | .stampIs st etag walk =>
    if alpKeeps s st etag then (s, .set s.cur)
    else match walk with
      | some (found, true) => ({ stamp := some st, etag := etag, cur := found }, .set found)
      | some (found, false) => (s, .set found)
      | none => (s, .err)

/-! ### the OSV factory: the list of ecosystems and its validator

  `osv.Factory` keeps `etag` and (after fix 0fa08085) `cur`, the set built
  from the `ecosystems.txt` that etag belongs to.  `UpdaterSet`: GET
  `ecosystems.txt` conditional on `etag`; 304 ⇒ `cur` (before the fix: an
  empty set, so no OSV updater ran again while the list was unchanged); 200 ⇒
  one updater per ecosystem (lower-cased line cut at `:`, first occurrence,
  not in the ignore list); etag and set are stored only when the body was read
  to its end. -/

def dedupB : List Bytes → List Bytes → List Bytes
  | [], _ => []
  | x :: xs, seen => if seen.contains x then dedupB xs seen else x :: dedupB xs (x :: seen)

/-- `updater.Name()`: `osv/<ecosystem>`. -/
def osvUpdaterNames (lines : List Bytes) : List Bytes :=
  (dedupB (lines.filterMap osvEcosystem) []).map fun e => [111, 115, 118, 47] ++ e

structure OsvState where
  etag : Bytes := []
  cur : List Bytes := []
  deriving Repr, BEq, DecidableEq

inductive OsvEvent where
  /-- the request failed or had an unexpected status -/
  | fault
  /-- the bucket holds these lines under the validator `etag`; `readOK`: the
      body can be read to its end -/
  | listing (etag : Bytes) (lines : List Bytes) (readOK : Bool)
  deriving Repr

def osvStep (s : OsvState) : OsvEvent → OsvState × AlpOut
  | .fault => (s, .err)
  | .listing etag lines ok =>
    if s.etag != [] && s.etag == etag then (s, .set s.cur)
    else if ok then ({ etag := etag, cur := osvUpdaterNames lines }, .set (osvUpdaterNames lines))
    else (s, .err)

/-- An event of a bucket whose validator determines its content: `none` = the
    request fails; `some (etag, readOK)` = the bucket holds `content etag`. -/
def osvEvOf (content : Bytes → List Bytes) : Option (Bytes × Bool) → OsvEvent
  | none => .fault
  | some (t, k) => .listing t (content t) k

end ClairModel.Join
