/-
  The `Vulnerable` functions of claircore's built-in matchers, transcribed
  from `<ecosystem>/matcher.go`, and `ArchOp.Cmp` from `archop.go`.

  What the functions read of their arguments is collected in `Pkg` (from
  `record.Package`) and `Vuln` (from the advisory).  `regexp` is not
  modelled: the outcome of `regexp.Compile(b)` / `MatchString(a)` is a field
  of the advisory (`re`: `none` = does not compile).  Core Lean only.
-/
import ClairModel.Model.VerRpm
import ClairModel.Model.VerDeb
import ClairModel.Model.VerApk

namespace ClairModel.Matchers
open ClairModel.Order ClairModel.VerCommon

/-- Result of a `Vulnerable` call: `(bool, nil)`, `(false, err)`, or no return at all. -/
inductive Out
  | ok (b : Bool)
  | err
  | hang
  deriving DecidableEq, Repr

/-- `record.Package.Version`, `record.Package.Arch`. -/
structure Pkg where
  version : Str
  arch : Str := []
  deriving DecidableEq, Repr

/-- The advisory fields the matchers read. -/
structure Vuln where
  fixed : Str                 -- FixedInVersion
  pkgVersion : Str := []      -- Package.Version
  pkgArch : Str := []         -- Package.Arch
  archOp : Nat := 0           -- ArchOperation: 0 invalid, 1 equals, 2 not equals, 3 pattern match
  re : Option Bool := none    -- regexp.Compile(pkgArch) then MatchString(record arch); none = compile error
  deriving DecidableEq, Repr

/-- `ArchOp.Cmp(a, b)` with `a = record.Package.Arch`, `b = vuln.Package.Arch`. -/
def archCmp (op : Nat) (a b : Str) (re : Option Bool) : Bool :=
  if b = [] then true
  else if a = [] then false
  else match op with
    | 1 => decide (a = b)
    | 2 => decide (a ≠ b)
    | 3 => match re with
      | none => false
      | some m => m
    | _ => false

def Vuln.archOK (v : Vuln) (p : Pkg) : Bool := archCmp v.archOp p.arch v.pkgArch v.re

/-- The constant the aws and rhel matchers use for "no fix yet". -/
def unfixedBound : Str := "65535:0".toList

/-- Shared body of the five go-rpm-version matchers:
    ```
    cmp := func(i int) bool { return i != version.GREATER }
    if vuln.FixedInVersion != "" { vulnVer = NewVersion(FixedInVersion); cmp = i == version.LESS }
    return cmp(pkgVer.Compare(vulnVer))
    ``` -/
def rpmBelow (pkgVer fixed bound : Str) : Bool :=
  if fixed ≠ [] then decide (VerRpm.cmpStr pkgVer fixed = .lt)
  else decide (VerRpm.cmpStr pkgVer bound ≠ .gt)

/-- aws/matcher.go -/
def vulnerableAws (p : Pkg) (v : Vuln) : Out :=
  .ok (rpmBelow p.version v.fixed unfixedBound && v.archOK p)

/-- oracle/matcher.go: without a fix the advisory's package version is the last affected one. -/
def vulnerableOracle (p : Pkg) (v : Vuln) : Out :=
  .ok (rpmBelow p.version v.fixed v.pkgVersion && v.archOK p)

/-- suse/matcher.go (same body as oracle). -/
def vulnerableSuse (p : Pkg) (v : Vuln) : Out :=
  .ok (rpmBelow p.version v.fixed v.pkgVersion && v.archOK p)

/-- photon/matcher.go: no architecture test. -/
def vulnerablePhoton (p : Pkg) (v : Vuln) : Out :=
  .ok (rpmBelow p.version v.fixed v.pkgVersion)

/-- What the rhel matcher tests before it looks at versions. -/
structure RhelGate where
  vulnRepoNil : Bool      -- vuln.Repo == nil
  recRepoNil : Bool       -- record.Repository == nil
  keyOK : Bool            -- vuln.Repo.Key == repositoryKey
  unbindOK : Bool         -- cpe.Unbind(vuln.Repo.Name) succeeded
  superset : Bool         -- cpe.Compare(vuln cpe, record cpe).IsSuperset()
  substring : Bool        -- isCPESubstringMatch(record cpe, vuln cpe)
  deriving DecidableEq, Repr

def RhelGate.pass (g : RhelGate) : Bool :=
  !(g.vulnRepoNil || g.recRepoNil || !g.keyOK) && g.unbindOK && !(!g.superset && !g.substring)

/-- rhel/matcher.go -/
def vulnerableRhel (g : RhelGate) (p : Pkg) (v : Vuln) : Out :=
  if g.vulnRepoNil || g.recRepoNil || !g.keyOK then .ok false
  else if !g.unbindOK then .ok false
  else if !g.superset && !g.substring then .ok false
  else .ok (rpmBelow p.version v.fixed unfixedBound && v.archOK p)

/-- rhel/rhcc/matcher.go: `pkgVer.LessThan(fixedInVer)`, whatever `FixedInVersion` is. -/
def vulnerableRhcc (p : Pkg) (v : Vuln) : Out :=
  .ok (decide (VerRpm.cmpStr p.version v.fixed = .lt))

/-- `v1.LessThan(v2)` of go-deb-version inside a matcher: may not return. -/
def debLess (v1 v2 : VerDeb.Version) : Out :=
  match VerDeb.compare v1 v2 with
  | none => .hang
  | some o => .ok (decide (o = .lt))

/-- debian/matcher.go: `""` = no fix yet (reported), `"0"` = not affected. -/
def vulnerableDebian (p : Pkg) (v : Vuln) : Out :=
  if v.fixed = [] then .ok true
  else if v.fixed = ['0'] then .ok false
  else
    match VerDeb.newVersion p.version with
    | none => .err
    | some v1 =>
      match VerDeb.newVersion v.fixed with
      | none => .err
      | some v2 => debLess v1 v2

/-- ubuntu/matcher.go: `""` = no fix yet; a fix that *prints* as `"0"`
    (`0`, `0:0`, ` 0 `) is reported for every parsable package version. -/
def vulnerableUbuntu (p : Pkg) (v : Vuln) : Out :=
  if v.fixed = [] then .ok true
  else
    match VerDeb.newVersion p.version with
    | none => .err
    | some v1 =>
      match VerDeb.newVersion v.fixed with
      | none => .err
      | some v2 =>
        if v2.toStr = ['0'] then .ok true
        else debLess v1 v2

/-- alpine/matcher.go: `""` = no fix yet, `"0"` = not affected (secdb), a
    version apk cannot parse is never reported (and is no error). -/
def vulnerableAlpine (p : Pkg) (v : Vuln) : Out :=
  if v.fixed = [] then .ok true
  else if v.fixed = ['0'] then .ok false
  else if !VerApk.valid p.version then .ok false
  else if !VerApk.valid v.fixed then .ok false
  else .ok (decide (VerApk.compare p.version v.fixed = .lt))

end ClairModel.Matchers
