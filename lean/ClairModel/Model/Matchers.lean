/-
  The `Vulnerable` functions of claircore's built-in matchers, transcribed
  from `<ecosystem>/matcher.go`, and `ArchOp.Cmp` from `archop.go`.

  What the functions read of their arguments is collected in `Pkg` (from
  `record.Package`) and `Vuln` (from the advisory).  `regexp` is not
  modelled: the outcome of `regexp.Compile(b)` / `MatchString(a)` is a field
  of the advisory (`re`: `none` = does not compile).  Core Lean only.
-/
import ClairModel.Model.VerRpm
import ClairModel.Model.VerDeb
import ClairModel.Model.VerApk

namespace ClairModel.Matchers
open ClairModel.Order ClairModel.VerCommon

/-- Result of a `Vulnerable` call: `(bool, nil)`, `(false, err)`, or no return at all. -/
inductive Out
  | ok (b : Bool)
  | err
  | hang
  deriving DecidableEq, Repr

/-- `record.Package.Version`, `record.Package.Arch`. -/
structure Pkg where
  version : Str
  arch : Str := []
  deriving DecidableEq, Repr

/-- The advisory fields the matchers read. -/
structure Vuln where
  fixed : Str                 -- FixedInVersion
  pkgVersion : Str := []      -- Package.Version
  pkgArch : Str := []         -- Package.Arch
  archOp : Nat := 0           -- ArchOperation: 0 invalid, 1 equals, 2 not equals, 3 pattern match
  re : Option Bool := none    -- regexp.Compile(pkgArch) then MatchString(record arch); none = compile error
  deriving DecidableEq, Repr

/-- `ArchOp.Cmp(a, b)` with `a = record.Package.Arch`, `b = vuln.Package.Arch`. -/
def archCmp (op : Nat) (a b : Str) (re : Option Bool) : Bool :=
  if b = [] then true
  else if a = [] then false
  else match op with
    | 1 => decide (a = b)
    | 2 => decide (a ≠ b)
    | 3 => match re with
      | none => false
      | some m => m
    | _ => false

/-! `regexp` on the fragment the feeds actually use: a plain alternation of
literals such as `aarch64|ppc64le|s390x|x86_64`.  `regexp.MatchString` is an
unanchored search, so such a pattern matches `a` iff one of the alternatives
occurs in `a` as a substring. -/

/-- A pattern character without any regexp meaning. -/
def isLiteralChar (c : Char) : Bool := isDigit c || isLetter c || c = '_' || c = '-'

/-- `b` is a `|`-separated list of literals. -/
def isLiteralAlt (b : Str) : Bool := b.all fun c => isLiteralChar c || c = '|'

/-- `alt` is a prefix of `a`. -/
def isPrefix : Str → Str → Bool
  | [], _ => true
  | _ :: _, [] => false
  | x :: xs, y :: ys => x = y && isPrefix xs ys

/-- `alt` occurs in `a` (`strings.Contains(a, alt)`). -/
def isInfix (alt : Str) : Str → Bool
  | [] => alt.isEmpty
  | y :: ys => isPrefix alt (y :: ys) || isInfix alt ys

/-- `regexp.MustCompile(b).MatchString(a)` for a literal alternation `b`. -/
def altMatch (b a : Str) : Bool := (splitOnBar b).any fun alt => isInfix alt a
where
  splitOnBar : Str → List Str
    | [] => [[]]
    | c :: cs =>
      match splitOnBar cs with
      | [] => [[c]]
      | p :: ps => if c = '|' then [] :: p :: ps else (c :: p) :: ps

/-- The anchored forms `^(lit|lit|…)$` and `^lit$`: the alternatives, one of
    which the whole architecture must equal (`$` without the `m` flag is the
    end of the text). -/
def anchoredAlt (b : Str) : Option (List Str) :=
  match b with
  | '^' :: '(' :: rest =>
    match rest.reverse with
    | '$' :: ')' :: innerRev =>
      if isLiteralAlt innerRev.reverse then some (altMatch.splitOnBar innerRev.reverse) else none
    | _ => none
  | '^' :: rest =>
    match rest.reverse with
    | '$' :: innerRev => if innerRev.all isLiteralChar then some [innerRev.reverse] else none
    | _ => none
  | _ => none

/-- Is the pattern in the fragment the model evaluates itself? -/
def reComputed (b : Str) : Bool := isLiteralAlt b || (anchoredAlt b).isSome

/-- The regexp verdict the matchers see: computed for literal alternations
    and their anchored forms, taken from the harness (the real `regexp`) for
    every other pattern. -/
def reVerdict (b a : Str) (re : Option Bool) : Option Bool :=
  if isLiteralAlt b then some (altMatch b a)
  else match anchoredAlt b with
    | some alts => some (alts.contains a)
    | none => re

def Vuln.archOK (v : Vuln) (p : Pkg) : Bool :=
  archCmp v.archOp p.arch v.pkgArch (reVerdict v.pkgArch p.arch v.re)

/-- The constant the aws and rhel matchers use for "no fix yet". -/
def unfixedBound : Str := "65535:0".toList

/-- Shared body of the five go-rpm-version matchers:
    ```
    cmp := func(i int) bool { return i != version.GREATER }
    if vuln.FixedInVersion != "" { vulnVer = NewVersion(FixedInVersion); cmp = i == version.LESS }
    return cmp(pkgVer.Compare(vulnVer))
    ``` -/
def rpmBelow (pkgVer fixed bound : Str) : Bool :=
  if fixed ≠ [] then decide (VerRpm.cmpStr pkgVer fixed = .lt)
  else decide (VerRpm.cmpStr pkgVer bound ≠ .gt)

/-- aws/matcher.go -/
def vulnerableAws (p : Pkg) (v : Vuln) : Out :=
  .ok (rpmBelow p.version v.fixed unfixedBound && v.archOK p)

/-- oracle/matcher.go: without a fix the advisory's package version is the last affected one. -/
def vulnerableOracle (p : Pkg) (v : Vuln) : Out :=
  .ok (rpmBelow p.version v.fixed v.pkgVersion && v.archOK p)

/-- suse/matcher.go (same body as oracle). -/
def vulnerableSuse (p : Pkg) (v : Vuln) : Out :=
  .ok (rpmBelow p.version v.fixed v.pkgVersion && v.archOK p)

/-- photon/matcher.go: no architecture test. -/
def vulnerablePhoton (p : Pkg) (v : Vuln) : Out :=
  .ok (rpmBelow p.version v.fixed v.pkgVersion)

/-- What the rhel matcher tests before it looks at versions. -/
structure RhelGate where
  vulnRepoNil : Bool      -- vuln.Repo == nil
  recRepoNil : Bool       -- record.Repository == nil
  keyOK : Bool            -- vuln.Repo.Key == repositoryKey
  unbindOK : Bool         -- cpe.Unbind(vuln.Repo.Name) succeeded
  superset : Bool         -- cpe.Compare(vuln cpe, record cpe).IsSuperset()
  substring : Bool        -- isCPESubstringMatch(record cpe, vuln cpe)
  deriving DecidableEq, Repr

def RhelGate.pass (g : RhelGate) : Bool :=
  !(g.vulnRepoNil || g.recRepoNil || !g.keyOK) && g.unbindOK && !(!g.superset && !g.substring)

/-- rhel/matcher.go -/
def vulnerableRhel (g : RhelGate) (p : Pkg) (v : Vuln) : Out :=
  if g.vulnRepoNil || g.recRepoNil || !g.keyOK then .ok false
  else if !g.unbindOK then .ok false
  else if !g.superset && !g.substring then .ok false
  else .ok (rpmBelow p.version v.fixed unfixedBound && v.archOK p)

/-- rhel/rhcc/matcher.go: `pkgVer.LessThan(fixedInVer)`, whatever `FixedInVersion` is. -/
def vulnerableRhcc (p : Pkg) (v : Vuln) : Out :=
  .ok (decide (VerRpm.cmpStr p.version v.fixed = .lt))

/-- `v1.LessThan(v2)` of go-deb-version inside a matcher: may not return. -/
def debLess (v1 v2 : VerDeb.Version) : Out :=
  match VerDeb.compare v1 v2 with
  | none => .hang
  | some o => .ok (decide (o = .lt))

/-- debian/matcher.go: `""` = no fix yet (reported), `"0"` = not affected. -/
def vulnerableDebian (p : Pkg) (v : Vuln) : Out :=
  if v.fixed = [] then .ok true
  else if v.fixed = ['0'] then .ok false
  else
    match VerDeb.newVersion p.version with
    | none => .err
    | some v1 =>
      match VerDeb.newVersion v.fixed with
      | none => .err
      | some v2 => debLess v1 v2

/-- ubuntu/matcher.go: `""` = no fix yet; a fix that *prints* as `"0"`
    (`0`, `0:0`, ` 0 `) is reported for every parsable package version. -/
def vulnerableUbuntu (p : Pkg) (v : Vuln) : Out :=
  if v.fixed = [] then .ok true
  else
    match VerDeb.newVersion p.version with
    | none => .err
    | some v1 =>
      match VerDeb.newVersion v.fixed with
      | none => .err
      | some v2 =>
        if v2.toStr = ['0'] then .ok true
        else debLess v1 v2

/-- alpine/matcher.go: `""` = no fix yet, `"0"` = not affected (secdb), a
    version apk cannot parse is never reported (and is no error). -/
def vulnerableAlpine (p : Pkg) (v : Vuln) : Out :=
  if v.fixed = [] then .ok true
  else if v.fixed = ['0'] then .ok false
  else if !VerApk.valid p.version then .ok false
  else if !VerApk.valid v.fixed then .ok false
  else .ok (decide (VerApk.compare p.version v.fixed = .lt))

/-! ### OSV language matchers: python, ruby (gem), java (maven)

The three `Vulnerable` functions are the same text up to the version type:
`url.ParseQuery(FixedInVersion)` yields `introduced`, `fixed`, `lastAffected`;
they differ only in the parser and comparator, which are parameters here
(`Scheme`).  The schemes themselves are property C12's subject. -/

/-- A version scheme: its parser (`none` = error) and three-way comparison. -/
structure Scheme (V : Type) where
  parse : Str → Option V
  cmp : V → V → Ordering

def hexDigit (c : Char) : Option Nat :=
  if isDigit c then some (c.toNat - '0'.toNat)
  else if decide ('a'.toNat ≤ c.toNat) && decide (c.toNat ≤ 'f'.toNat) then some (c.toNat - 'a'.toNat + 10)
  else if decide ('A'.toNat ≤ c.toNat) && decide (c.toNat ≤ 'F'.toNat) then some (c.toNat - 'A'.toNat + 10)
  else none

/-- `url.QueryUnescape`: `+` is a space, `%XX` a byte; a `%` not followed by
    two hex digits is an error. -/
def unescape : Str → Option Str
  | [] => some []
  | '%' :: a :: b :: rest =>
    match hexDigit a, hexDigit b, unescape rest with
    | some x, some y, some r => some (Char.ofNat (16 * x + y) :: r)
    | _, _, _ => none
  | '%' :: _ => none
  | '+' :: rest => (unescape rest).map (' ' :: ·)
  | c :: rest => (unescape rest).map (c :: ·)

/-- `strings.Split(s, sep)` for a one-byte separator. -/
def splitOn (sep : Char) : Str → List Str
  | [] => [[]]
  | c :: cs =>
    match splitOn sep cs with
    | [] => [[c]]            -- unreachable
    | p :: ps => if c = sep then [] :: p :: ps else (c :: p) :: ps

/-- One `key=value` setting of `url.ParseQuery`: `none` = error,
    `some none` = skipped (empty). -/
def parsePair (piece : Str) : Option (Option (Str × Str)) :=
  if piece.contains ';' then none                  -- "invalid semicolon separator in query"
  else if piece = [] then some none
  else
    let (k, v) := match cut '=' piece with
      | some (k, v) => (k, v)
      | none => (piece, [])
    match unescape k, unescape v with
    | some k', some v' => some (some (k', v'))
    | _, _ => none

/-- `url.ParseQuery`: all settings in order; any error makes the whole call
    an error for the matchers (`if err != nil { return false, err }`). -/
def parseQuery (s : Str) : Option (List (Str × Str)) :=
  (splitOn '&' s).foldr (fun piece acc =>
    match parsePair piece, acc with
    | some (some kv), some l => some (kv :: l)
    | some none, some l => some l
    | _, _ => none) (some [])

/-- `Values.Get`: the first value of the key, or `""`. -/
def qget (m : List (Str × Str)) (k : Str) : Str :=
  match m.find? (fun kv => kv.1 = k) with
  | some kv => kv.2
  | none => []

def kIntroduced : Str := "introduced".toList
def kFixed : Str := "fixed".toList
def kLastAffected : Str := "lastAffected".toList

/-- python/matcher.go, ruby/matcher.go, java/matcher.go. -/
def vulnerableOsv {V : Type} (S : Scheme V) (p : Pkg) (v : Vuln) : Out :=
  if v.fixed = [] then .ok true
  else
    match S.parse p.version with
    | none => .err                                     -- package version does not parse
    | some rv =>
      match parseQuery v.fixed with
      | none => .err
      | some q =>
        let introduced := qget q kIntroduced
        let belowIntroduced : Option Out :=
          if introduced ≠ [] then
            match S.parse introduced with
            | none => some .err
            | some iv => if S.cmp rv iv = .lt then some (.ok false) else none
          else none
        match belowIntroduced with
        | some o => o
        | none =>
          let fixedVersion := qget q kFixed
          let lastAffected := qget q kLastAffected
          if fixedVersion ≠ [] then
            match S.parse fixedVersion with
            | none => .err
            | some fv => .ok (decide (S.cmp rv fv = .lt))          -- `rv.Compare(fv) < 0`
          else if lastAffected ≠ [] then
            match S.parse lastAffected with
            | none => .err
            | some la => .ok (decide (S.cmp rv la ≠ .gt))          -- `rv.Compare(la) <= 0`
          else .ok true                                            -- "vulnerable, by default"

/-! ### The database-side range test (gobin, nodejs; rhcc as a pre-filter) -/

/-- `claircore.Version`: kind and ten int32 components. -/
structure NVersion where
  kind : Str
  v : List Int          -- ten components
  deriving DecidableEq, Repr

/-- `Version.Compare`: kinds compared as strings, then the components in order. -/
def NVersion.compare (a b : NVersion) : Ordering :=
  if a.kind ≠ b.kind then strCmp a.kind b.kind
  else lexCmp intCmp a.v b.v

/-- `Range`: half-open `[Lower, Upper)`; `none` = nil receiver. -/
structure NRange where
  lower : NVersion
  upper : NVersion
  deriving DecidableEq, Repr

/-- `Range.Contains`: `r.Lower.Compare(v) != 1 && r.Upper.Compare(v) == 1`. -/
def rangeContains (r : Option NRange) (v : NVersion) : Bool :=
  match r with
  | none => false
  | some r => decide (r.lower.compare v ≠ .gt) && decide (r.upper.compare v = .gt)

/-- The database-side test of a `VersionFilter` matcher
    (`version_kind = $kind AND vulnerable_range @> $version`, the range stored
    only when both ends are of one kind — `rangefmt`): kinds agree and the
    half-open range contains the version. -/
def dbSideHit (r : Option NRange) (v : NVersion) : Bool :=
  match r with
  | none => false
  | some r => decide (r.lower.kind = r.upper.kind) && decide (r.lower.kind = v.kind) && rangeContains (some r) v

/-- gobin/matcher.go, nodejs/matcher.go: `Vulnerable` is a no-op; the
    matchers are `VersionFilter`s with `VersionAuthoritative() == true`. -/
def vulnerableNoop (_ : Pkg) (_ : Vuln) : Out := .ok false

/-- internal/matcher/controller.go `Match`, for one (record, advisory) pair
    the store returned: with an authoritative version filter the database's
    verdict (`vulnerable_range @> version`) stands, otherwise `Vulnerable`
    decides (an error fails the whole match). -/
def controllerKeeps (versionFilter authoritative : Bool) (dbSideHit : Bool) (vulnerable : Out) : Out :=
  if versionFilter && !dbSideHit then .ok false       -- not returned by the query at all
  else if versionFilter && authoritative then .ok true
  else vulnerable

/-! ### `Controller.Match` over all the records of one package -/

/-- What `Match` returns for one package ID and one advisory: an error, no
    return, or how many times the advisory is listed for the package. -/
inductive MatchOut
  | err
  | hang
  | count (n : Nat)
  deriving DecidableEq, Repr

/-- `filter` / `filterVulns`: every interested record of the package is asked
    in turn, each positive verdict appends the advisory; the first error aborts. -/
def filterAll : List Out → Nat → MatchOut
  | [], n => .count n
  | .ok true :: r, n => filterAll r (n + 1)
  | .ok false :: r, n => filterAll r n
  | .err :: _, _ => .err
  | .hang :: _, _ => .hang

/-- `Match` for one package that occurs in several `IndexRecord`s (one per
    repository / distribution it was found in; `outs` are the verdicts of
    `Vulnerable` for these records, in order) and one advisory the store holds
    for it.  The store answers per package ID (merged and de-duplicated). -/
def controllerMatch (versionFilter authoritative : Bool) (dbSideHit : Bool) (outs : List Out) : MatchOut :=
  if outs.isEmpty then .count 0                       -- no interested record: the store is not asked
  else if versionFilter && !dbSideHit then .count 0   -- not returned by the query
  else if versionFilter && authoritative then .count 1
  else filterAll outs 0

end ClairModel.Matchers
