/-
  Model of claircore.Version (version.go; toolkit/types/version.go is a copy):
  a kind and ten int32 slots, `Compare`, `Range.Contains`, `String`,
  `FromSemver`; plus the small string/number helpers the scheme models share
  (`strconv.Atoi`, the `int32(x)` conversion).  Core Lean only.
-/
import ClairModel.Lib.Order
import ClairModel.Lib.Utf8
import ClairModel.Gen.Unicode

namespace ClairModel.Version
open ClairModel.Order

/-! ### helpers shared by the version-scheme models -/

def isDigit (c : Char) : Bool := decide ('0' ≤ c) && decide (c ≤ '9')
def isLower (c : Char) : Bool := decide ('a' ≤ c) && decide (c ≤ 'z')
def isUpper (c : Char) : Bool := decide ('A' ≤ c) && decide (c ≤ 'Z')
def isAlpha (c : Char) : Bool := isLower c || isUpper c
def isAlnum (c : Char) : Bool := isAlpha c || isDigit c

def digitVal (c : Char) : Nat := c.toNat - 48

/-- `unicode.IsSpace` on a rune: the six ASCII white-space characters, and
    above U+007F the table regenerated from the standard library
    (Gen/Unicode.lean: U+0085, U+00A0 and the `White_Space` property). -/
def uniIsSpace (c : Char) : Bool :=
  c = '\t' || c = '\n' || c = '\x0b' || c = '\x0c' || c = '\r' || c = ' ' ||
  (decide (128 ≤ c.toNat) && Utf8.inRanges Gen.Unicode.spaceRanges c.toNat)

/-- Value of a string of decimal digits (most significant first). -/
def natOfDigits (ds : List Char) : Nat := ds.foldl (fun n c => n * 10 + digitVal c) 0

/-- `int32(x)`: Go's truncating conversion, two's complement wrap-around. -/
def toInt32 (x : Int) : Int := (x + 2147483648) % 4294967296 - 2147483648

def minInt32 : Int := -2147483648
def maxInt32 : Int := 2147483647

/-- Does the text start with a minus sign? -/
def isNeg : List Char → Bool
  | '-' :: _ => true
  | _ => false

/-- The text without its optional sign. -/
def stripSign : List Char → List Char
  | '-' :: r => r
  | '+' :: r => r
  | s => s

/-- `strconv.Atoi` on a 64-bit platform: optional sign, one or more decimal
    digits, value within int64; anything else is an error. -/
def atoi (s : List Char) : Option Int :=
  if (stripSign s).isEmpty || !(stripSign s).all isDigit then none
  else if isNeg s then
    (if natOfDigits (stripSign s) ≤ 9223372036854775808 then some (-(natOfDigits (stripSign s) : Int)) else none)
  else
    (if natOfDigits (stripSign s) < 9223372036854775808 then some (natOfDigits (stripSign s) : Int) else none)

/-- Split at every occurrence of `sep` (`strings.Split` with a one-byte separator). -/
def splitOn (sep : Char) : List Char → List (List Char)
  | [] => [[]]
  | c :: cs =>
    match splitOn sep cs with
    | [] => [[]]            -- unreachable: splitOn never returns []
    | p :: ps => if c = sep then [] :: p :: ps else (c :: p) :: ps

def joinWith (sep : List Char) : List (List Char) → List Char
  | [] => []
  | [x] => x
  | x :: y :: r => x ++ sep ++ joinWith sep (y :: r)

/-! ### claircore.Version -/

/-- `claircore.Version`: `v` holds the ten slots (every value the code builds
    has exactly ten; the comparison is defined for any lists). -/
structure Version where
  kind : List Char
  v : List Int
  deriving Repr, DecidableEq

/-- `(*Version).Compare`: kinds by `strings.Compare` when they differ,
    otherwise the slots left to right. -/
def cmp (a b : Version) : Ordering :=
  if a.kind ≠ b.kind then strCmp a.kind b.kind else lexCmp intCmp a.v b.v

/-- `claircore.Range`: half-open `[lower, upper)`. -/
structure Range where
  lower : Version
  upper : Version
  deriving Repr, DecidableEq

/-- `(*Range).Contains` for a non-nil receiver:
    `r.Lower.Compare(v) != 1 && r.Upper.Compare(v) == 1`. -/
def contains (r : Range) (v : Version) : Bool :=
  cmp r.lower v != .gt && cmp r.upper v == .gt

/-- Index (1-based, within slots 1..9) of the first / last non-zero slot, as
    the loop in `String` computes them; 0 when none. -/
def firstNZ : List Int → Nat → Nat
  | [], _ => 0
  | x :: xs, i => if x ≠ 0 then i else firstNZ xs (i + 1)

def lastNZ : List Int → Nat → Nat → Nat
  | [], _, acc => acc
  | x :: xs, i, acc => lastNZ xs (i + 1) (if x ≠ 0 then i else acc)

def digitChar (d : Nat) : Char := Char.ofNat (48 + d)

/-- Decimal digits of `n`, most significant first (`fuel` > number of digits). -/
def natDigitsAux : Nat → Nat → List Char → List Char
  | 0, _, acc => acc
  | fuel + 1, n, acc =>
    if n < 10 then digitChar n :: acc
    else natDigitsAux fuel (n / 10) (digitChar (n % 10) :: acc)

def natDigits (n : Nat) : List Char := natDigitsAux (n + 1) n []

/-- `strconv.FormatInt(x, 10)`. -/
def intStr (x : Int) : List Char :=
  if x < 0 then '-' :: natDigits x.natAbs else natDigits x.natAbs

/-- `(*Version).String`. -/
def toStr (a : Version) : List Char :=
  let v0 := a.v.headD 0
  let pre := if v0 ≠ 0 then intStr v0 ++ ['!'] else []
  let rest := (a.v.drop 1).take 9
  let f0 := firstNZ rest 1
  let l0 := lastNZ rest 1 0
  let f := if f0 = 0 then 1 else f0
  let l := if l0 = 0 then 1 else l0
  let slice := (a.v.drop f).take (l + 1 - f)
  pre ++ joinWith ['.'] (slice.map intStr)

/-- The loop of `claircore.FromSemver`: a component above MaxInt32 and every
    component after it become MaxInt32; the others are converted. -/
def satSlots : Bool → List Int → List Int
  | _, [] => []
  | sat, n :: ns =>
    if sat || n > maxInt32 then maxInt32 :: satSlots true ns
    else toInt32 n :: satSlots false ns

/-- `claircore.FromSemver` applied to the three numeric components of a
    parsed semantic version (int64 values). -/
def fromSemver (major minor patch : Int) : Version :=
  { kind := ['s', 'e', 'm', 'v', 'e', 'r'], v := [0] ++ satSlots false [major, minor, patch] ++ [0, 0, 0, 0, 0, 0] }

/-- Order of the numeric core of two semantic versions (major, minor, patch);
    Masterminds' `Compare` decides by it whenever the cores differ. -/
def semverCoreCmp (a b : Int × Int × Int) : Ordering :=
  lexCmp intCmp [a.1, a.2.1, a.2.2] [b.1, b.2.1, b.2.2]

end ClairModel.Version
