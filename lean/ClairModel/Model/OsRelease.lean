/-
  Model of osrelease/scanner.go: `Parse` (lines, `KEY=value`, shell-like
  unquoting) and `toDist` (which keys fill which `Distribution` field; the CPE
  field is left to C19's model of `cpe.Unbind` and checked by a direct oracle).

  `bytes.TrimSpace`/`strings.TrimSpace` are modelled for ASCII white space
  (see Model/Apk.lean); `bufio.Scanner`'s 64 KiB token limit and the context
  check are not modelled.  Core Lean only.
-/
import ClairModel.Model.Apk

namespace ClairModel.OsRelease
open ClairModel.Bytes
open ClairModel.Apk (trimSpace isSpace)

/-- `dropCR` of bufio.ScanLines -/
def dropCR : Bytes → Bytes
  | [] => []
  | [c] => if c = 13 then [] else [c]
  | c :: d :: cs => c :: dropCR (d :: cs)

def dropLastIfEmpty : List Bytes → List Bytes
  | [] => []
  | [l] => if l.isEmpty then [] else [l]
  | p :: q :: r => p :: dropLastIfEmpty (q :: r)

/-- the tokens of `bufio.ScanLines` over a whole file -/
def scanLines (file : Bytes) : List Bytes := (dropLastIfEmpty (splitOn 10 file)).map dropCR

def dropQuoteLeft (q : Nat) : Bytes → Bytes
  | [] => []
  | c :: cs => if c = q then dropQuoteLeft q cs else c :: cs

def dropQuoteRight (q : Nat) : Bytes → Bytes
  | [] => []
  | c :: cs =>
    match dropQuoteRight q cs with
    | [] => if c = q then [] else [c]
    | r => c :: r

/-- `strings.TrimFunc(value, func(r) bool { return r == q })` -/
def trimQuote (q : Nat) (s : Bytes) : Bytes := dropQuoteRight q (dropQuoteLeft q s)

/-- `strings.ReplaceAll(value, "'\\''", "'")` -/
def replaceSQ : Bytes → Bytes
  | [] => []
  | c :: a :: b :: d :: rest =>
    if c = 39 ∧ a = 92 ∧ b = 39 ∧ d = 39 then 39 :: replaceSQ rest else c :: replaceSQ (a :: b :: d :: rest)
  | c :: cs => c :: replaceSQ cs

def dqSpecial (c : Nat) : Bool := c == 96 || c == 92 || c == 34 || c == 36

/-- `dqReplacer.Replace`: a backslash before one of `` ` \ " $ `` is dropped -/
def unescapeDQ : Bytes → Bytes
  | [] => []
  | [c] => [c]
  | c :: d :: rest =>
    if c = 92 ∧ dqSpecial d then d :: unescapeDQ rest else c :: unescapeDQ (d :: rest)

/-- the quoting `switch` of `Parse` on a trimmed value -/
def unquote (value : Bytes) : Bytes :=
  match value with
  | [] => []
  | c :: _ =>
    if c = 39 then replaceSQ (trimQuote 39 value)
    else if c = 34 then unescapeDQ (trimQuote 34 value)
    else value

/-- `m[key] = value` on an association list (first-insertion order kept) -/
def mapSet : List (Bytes × Bytes) → Bytes → Bytes → List (Bytes × Bytes)
  | [], k, v => [(k, v)]
  | (k', v') :: r, k, v => if k' = k then (k, v) :: r else (k', v') :: mapSet r k v

def mapGet : List (Bytes × Bytes) → Bytes → Option Bytes
  | [], _ => none
  | (k', v) :: r, k => if k' = k then some v else mapGet r k

/-- one line of the `for s.Scan()` loop: `none` = "malformed line" error -/
def parseLine (m : List (Bytes × Bytes)) (line : Bytes) : Option (List (Bytes × Bytes)) :=
  let b := trimSpace line
  match b with
  | [] => some m
  | c :: _ =>
    if c = 35 then some m
    else match cut 61 b with
      | none => none
      | some (k, v) => some (mapSet m (trimSpace k) (unquote (trimSpace v)))

def parseLines (m : List (Bytes × Bytes)) : List Bytes → Option (List (Bytes × Bytes))
  | [] => some m
  | l :: ls =>
    match parseLine m l with
    | none => none
    | some m' => parseLines m' ls

/-- `osrelease.Parse` -/
def parse (file : Bytes) : Option (List (Bytes × Bytes)) := parseLines [] (scanLines file)

/-- the fields of `claircore.Distribution` that `toDist` fills from the map (CPE aside) -/
structure Dist where
  name : Bytes
  did : Bytes
  version : Bytes
  versionId : Bytes
  codeName : Bytes
  prettyName : Bytes
  deriving DecidableEq, Repr

def kID : Bytes := [73, 68]
def kNAME : Bytes := [78, 65, 77, 69]
def kVERSION : Bytes := [86, 69, 82, 83, 73, 79, 78]
def kVERSION_ID : Bytes := [86, 69, 82, 83, 73, 79, 78, 95, 73, 68]
def kVERSION_CODENAME : Bytes := [86, 69, 82, 83, 73, 79, 78, 95, 67, 79, 68, 69, 78, 65, 77, 69]
def kPRETTY_NAME : Bytes := [80, 82, 69, 84, 84, 89, 95, 78, 65, 77, 69]
def kREDHAT : Bytes := [82, 69, 68, 72, 65, 84, 95, 66, 85, 71, 90, 73, 76, 76, 65, 95, 80, 82, 79, 68, 85, 67, 84]
def dLinux : Bytes := [76, 105, 110, 117, 120]
def dlinux : Bytes := [108, 105, 110, 117, 120]

/-- `toDist`: keys are visited in sorted order, so `REDHAT_BUGZILLA_PRODUCT`
    (after `PRETTY_NAME`) wins the PrettyName field. -/
def toDist (m : List (Bytes × Bytes)) : Dist :=
  { name := (mapGet m kNAME).getD dLinux
    did := (mapGet m kID).getD dlinux
    version := (mapGet m kVERSION).getD []
    versionId := (mapGet m kVERSION_ID).getD []
    codeName := (mapGet m kVERSION_CODENAME).getD []
    prettyName := match mapGet m kREDHAT with
      | some v => v
      | none => (mapGet m kPRETTY_NAME).getD [] }

end ClairModel.OsRelease
