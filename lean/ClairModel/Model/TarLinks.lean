/-
  C06 — model of how pkg/tarfs/tarfs.go resolves links when a member is opened
  (`FS.open`: the symbolic-link recursion with its hop count, the hard-link
  chain loop with its own bound), over archives whose members all sit at the
  root under distinct names: member `i` is a regular file, a symbolic link to
  member `t` or a hard link to member `t`; a target index past the last member
  is a name that is not in the archive.  `tarfs.New` on such an archive keeps
  every member except hard links whose target never appears (the "dangling
  hardlink" clean-up).  Core Lean only; no fuel: each loop counts its hops
  against the number of inodes.
-/
namespace ClairModel.TarLinks

inductive Kind
  | reg
  | sym (t : Nat)
  | hard (t : Nat)
  deriving Repr, DecidableEq

abbrev Archive := List Kind

/-- `len(f.inode)`: the root directory and one inode per member -/
def inodes (a : Archive) : Nat := a.length + 1

/-- `getInode` for the name of member `i`: hard links to names that are not in
    the archive were taken out of the lookup table at the end of `New` -/
def getInode (a : Archive) (i : Nat) : Option Kind :=
  match a[i]? with
  | none => none
  | some (.hard t) => if t ≥ a.length then none else some (.hard t)
  | some k => some k

inductive Out
  | file
  | notExist      -- fs.ErrNotExist
  | invalid       -- fs.ErrInvalid: too many levels of links / cycle
  deriving Repr, DecidableEq

/-- the loop over a chain of hard links in `open`: `tgt` is the name looked up
    next, `hops` the loop counter; returns the outcome and the number of
    `getInode` calls made -/
def hardLoop (a : Archive) (tgt hops : Nat) : Out × Nat :=
  match getInode a tgt with
  | none => (.notExist, 1)
  | some (.hard t) =>
    if _h : hops ≥ inodes a then (.invalid, 1)
    else
      let r := hardLoop a t (hops + 1)
      (r.1, r.2 + 1)
  | some _ => (.file, 1)
termination_by inodes a - hops
decreasing_by omega

/-- `FS.open(name, hops)` -/
def openAt (a : Archive) (i hops : Nat) : Out × Nat :=
  if _h : hops > inodes a then (.invalid, 0)
  else
    match getInode a i with
    | none => (.notExist, 1)
    | some .reg => (.file, 1)
    | some (.hard t) =>
      let r := hardLoop a t 0
      (r.1, r.2 + 1)
    | some (.sym t) =>
      let r := openAt a t (hops + 1)
      (r.1, r.2 + 1)
termination_by inodes a + 1 - hops
decreasing_by omega

/-- `FS.Open(name)` -/
def openMember (a : Archive) (i : Nat) : Out × Nat := openAt a i 0

end ClairModel.TarLinks
