/-
  Model of gobin/exe.go `toPackages`: what the gobin detector reports for the
  build information `debug/buildinfo.Read` returned for one executable.

  * the toolchain: package `stdlib`, version = `bi.GoVersion` without its `go`
    prefix, cut at the first space (`go1.21.5 X:boringcrypto`);
  * the main module: `bi.Main.Path` (`command-line-arguments` when empty) with
    `bi.Main.Version`; when that is not a semantic version and is `(devel)` or
    empty, the version-control stamps of `bi.Settings` are spelled out
    (`(devel) (git, commit …, built at …, dirty)`);
  * every dependency in order, a replaced one by its replacement;
  * the normalised version of each is `gobin.ParseVersion` (C12's model,
    `Semver.gobinParse`) of the *module's* version text, absent when that is no
    semantic version.  (`fitInt32` cannot fail on at most nine digits, so
    `ErrInvalidSemVer` is `ParseVersion`'s only error and `toPackages` never
    returns one.)

  Core Lean only.
-/
import ClairModel.Model.Semver

namespace ClairModel.GoBin
open ClairModel.Version

abbrev Str := List Char

/-- `debug.Module`, with its replacement (path, version) if any. -/
structure Mod where
  path : Str
  version : Str
  replace : Option (Str × Str)
deriving DecidableEq, Repr

/-- The fields of `debug.BuildInfo` the detector reads. -/
structure BuildInfo where
  goVersion : Str
  mainPath : Str
  mainVersion : Str
  deps : List Mod
  settings : List (Str × Str)
deriving Repr

structure Pkg where
  name : Str
  version : Str
  norm : Option Version
deriving DecidableEq, Repr

/-- `strings.TrimPrefix(s, "go")` -/
def trimGo : Str → Str
  | 'g' :: 'o' :: r => r
  | s => s

/-- `strings.Cut(s, " ")`, first part -/
def beforeSpace (s : Str) : Str := s.takeWhile (· ≠ ' ')

def toolchainVersion (gv : Str) : Str := beforeSpace (trimGo gv)

def joinWith (sep : Str) : List Str → Str
  | [] => []
  | [a] => a
  | a :: b :: r => a ++ sep ++ joinWith sep (b :: r)

/-- one build setting's contribution to the `(devel)` description -/
def vcsPart (kv : Str × Str) : Option Str :=
  if kv.1 = "vcs".toList then some kv.2
  else if kv.1 = "vcs.revision".toList then
    (if kv.2.length = 40 ∨ kv.2.length = 64 then some ("commit ".toList ++ kv.2) else some ("rev ".toList ++ kv.2))
  else if kv.1 = "vcs.time".toList then some ("built at ".toList ++ kv.2)
  else if kv.1 = "vcs.modified".toList then (if kv.2 = "true".toList then some "dirty".toList else none)
  else none

def develText : Str := "(devel)".toList

/-- the version reported for the main module -/
def mainVersionText (bi : BuildInfo) : Str :=
  match Semver.gobinParse bi.mainVersion with
  | some _ => bi.mainVersion
  | none =>
    if bi.mainVersion = develText ∨ bi.mainVersion = [] then
      let v := bi.settings.filterMap vcsPart
      if v ≠ [] then "(devel) (".toList ++ joinWith ", ".toList v ++ [')']
      else if bi.mainVersion = [] then develText else bi.mainVersion
    else bi.mainVersion

def mainName (bi : BuildInfo) : Str :=
  if bi.mainPath = [] then "command-line-arguments".toList else bi.mainPath

/-- the module compiled in: the replacement when there is one -/
def Mod.effective (d : Mod) : Str × Str :=
  match d.replace with
  | some r => r
  | none => (d.path, d.version)

def depPkg (d : Mod) : Pkg :=
  { name := d.effective.1, version := d.effective.2, norm := Semver.gobinParse d.effective.2 }

/-- `toPackages` -/
def toPackages (bi : BuildInfo) : List Pkg :=
  { name := "stdlib".toList, version := toolchainVersion bi.goVersion,
    norm := Semver.gobinParse (toolchainVersion bi.goVersion) } ::
  { name := mainName bi, version := mainVersionText bi, norm := Semver.gobinParse bi.mainVersion } ::
  bi.deps.map depPkg

end ClairModel.GoBin
