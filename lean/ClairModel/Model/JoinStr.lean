/-
  C04 — byte-string helpers the join model needs, each standing for a Go
  standard-library function on ASCII input (the generators of the
  correspondence run produce ASCII only):

    trim            bytes.TrimSpace / strings.TrimSpace
    trimSet         strings.Trim(s, cutset)
    trimFn          strings.TrimFunc
    lower/eqFold    strings.ToLower / strings.EqualFold
    title           strings.Title
    itoa            strconv.Itoa / fmt %d        (fuel-recursive, so the kernel evaluates it)
    replaceAll      strings.ReplaceAll
    lines           bufio.ScanLines tokens
    lookup          map lookup on an association list built in insertion order

  Core Lean only; every function is structurally recursive.
-/
import ClairModel.Lib.Bytes
import ClairModel.Model.JoinTypes

namespace ClairModel.Join
open ClairModel.Bytes (isPrefix parseInt32 isDigit)

/-! ### character classes -/

def isSpace (c : Nat) : Bool := c == 32 || (9 ≤ c && c ≤ 13)
def isUpper (c : Nat) : Bool := 65 ≤ c && c ≤ 90
def isLower (c : Nat) : Bool := 97 ≤ c && c ≤ 122
def isLetter (c : Nat) : Bool := isUpper c || isLower c
/-- `\w` -/
def isWord (c : Nat) : Bool := isLetter c || isDigit c || c == 95
def toLower (c : Nat) : Nat := if isUpper c then c + 32 else c
def toUpper (c : Nat) : Nat := if isLower c then c - 32 else c

def lower (s : Bytes) : Bytes := s.map toLower

def eqFold (a b : Bytes) : Bool := lower a == lower b

/-! ### trimming -/

def dropWhileB (p : Nat → Bool) : Bytes → Bytes
  | [] => []
  | c :: cs => if p c then dropWhileB p cs else c :: cs

def trimFn (p : Nat → Bool) (s : Bytes) : Bytes :=
  (dropWhileB p (dropWhileB p s).reverse).reverse

def trim (s : Bytes) : Bytes := trimFn isSpace s

def trimSet (cut : Bytes) (s : Bytes) : Bytes := trimFn (fun c => cut.contains c) s

/-! ### strings.Title (ASCII): upper-case the first letter of every word -/

def isSeparator (c : Nat) : Bool := !(isLetter c || isDigit c || c == 95)

def titleAux : Nat → Bytes → Bytes
  | _, [] => []
  | prev, c :: cs => (if isSeparator prev then toUpper c else c) :: titleAux c cs

def title (s : Bytes) : Bytes := titleAux 32 s

/-! ### decimal rendering -/

def itoaAux : Nat → Nat → Bytes → Bytes
  | 0, _, acc => acc
  | fuel + 1, n, acc =>
    if n < 10 then (48 + n) :: acc else itoaAux fuel (n / 10) ((48 + n % 10) :: acc)

def itoaNat (n : Nat) : Bytes := itoaAux (n + 1) n []

def itoa (n : Int) : Bytes := if n < 0 then 45 :: itoaNat n.natAbs else itoaNat n.natAbs

/-! ### ReplaceAll, HasSuffix/TrimSuffix, Contains -/

/-- `strings.ReplaceAll(s, old, new)` for a non-empty `old`: left to right, non-overlapping. -/
def replaceAllAux (old new : Bytes) : Nat → Bytes → Bytes
  | 0, s => s
  | _, [] => []
  | fuel + 1, c :: cs =>
    if isPrefix old (c :: cs) then new ++ replaceAllAux old new fuel ((c :: cs).drop old.length)
    else c :: replaceAllAux old new fuel cs

def replaceAll (old new s : Bytes) : Bytes :=
  if old.isEmpty then s else replaceAllAux old new (s.length + 1) s

def hasSuffix (s suf : Bytes) : Bool := isPrefix suf.reverse s.reverse

def trimSuffix (s suf : Bytes) : Bytes :=
  if hasSuffix s suf then s.take (s.length - suf.length) else s

def containsSub (needle : Bytes) : Bytes → Bool
  | [] => needle.isEmpty
  | c :: cs => isPrefix needle (c :: cs) || containsSub needle cs

/-! ### lines -/

/-- Accumulating line splitter: `cur` is the current line reversed. -/
def linesAux : Bytes → Bytes → List Bytes → List Bytes
  | [], cur, acc => (if cur.isEmpty then acc else cur.reverse :: acc).reverse
  | c :: cs, cur, acc =>
    if c == 10 then linesAux cs [] (cur.reverse :: acc) else linesAux cs (c :: cur) acc

/-- The tokens of `bufio.ScanLines` (one trailing `\r` dropped per line; no
    token for the empty remainder after the last newline). -/
def lines (s : Bytes) : List Bytes :=
  (linesAux s [] []).map fun l =>
    match l.reverse with
    | 13 :: r => r.reverse
    | _ => l

/-- The pieces `bytes.Buffer.ReadString('\n')` returns until the buffer is
    empty: every piece keeps its newline, the last may lack one. -/
def linesKeepAux : Bytes → Bytes → List Bytes → List Bytes
  | [], cur, acc => (if cur.isEmpty then acc else cur.reverse :: acc).reverse
  | c :: cs, cur, acc =>
    if c == 10 then linesKeepAux cs [] ((c :: cur).reverse :: acc) else linesKeepAux cs (c :: cur) acc

def linesKeep (s : Bytes) : List Bytes := linesKeepAux s [] []

/-! ### cut at the first `=` -/

def cutEq : Bytes → Option (Bytes × Bytes)
  | [] => none
  | c :: cs => if c == 61 then some ([], cs) else
      match cutEq cs with
      | none => none
      | some (a, b) => some (c :: a, b)

/-! ### association lists standing for Go maps (later insertions win) -/

abbrev KV := List (Bytes × Bytes)

def lookup (m : KV) (k : Bytes) : Option Bytes :=
  match m with
  | [] => none
  | (k', v) :: rest =>
    match lookup rest k with
    | some v' => some v'
    | none => if k' == k then some v else none

/-- `m[k]` with the zero value for a missing key. -/
def get (m : KV) (k : Bytes) : Bytes := (lookup m k).getD []

def lookupFirst {α : Type} (m : List (Bytes × α)) (k : Bytes) : Option α :=
  match m with
  | [] => none
  | (k', v) :: rest => if k' == k then some v else lookupFirst rest k

/-! ### expressions of the generated tables -/

def PVal.asStr : PVal → Bytes
  | .str b => b
  | .int n => itoa n

def SExpr.eval (ps : List PVal) : SExpr → Bytes
  | .lit b => b
  | .param i => match ps[i]? with
    | some (.str b) => b
    | _ => []
  | .itoa i => match ps[i]? with
    | some (.int n) => ClairModel.Join.itoa n
    | _ => []
  | .title e => ClairModel.Join.title (e.eval ps)
  | .cat a b => a.eval ps ++ b.eval ps

def DistT.eval (t : DistT) (ps : List PVal) : Dist :=
  { did := t.did.eval ps, name := t.name.eval ps, version := t.version.eval ps,
    versionCodeName := t.versionCodeName.eval ps, versionID := t.versionID.eval ps,
    arch := t.arch.eval ps, cpe := t.cpe.eval ps, prettyName := t.prettyName.eval ps }

end ClairModel.Join
