/-
  C06 — models of the two binary rpm database walkers:
    rpm/bdb/bdb.go   `PackageDB.Parse`, `AllHeaders`, `rope`
    rpm/ndb/package.go `PackageDB.Parse`, `AllHeaders`, `GetHeader`
  Core Lean only.  All loops are written without fuel; Lean accepts them
  because each iteration consumes input (page loop, slot loop) or marks a page
  that was not marked before (overflow chain walk, after the `fix:` commit).
-/
namespace ClairModel.RpmDb

abbrev Bytes := List UInt8

def byteAt (b : Bytes) (off : Nat) : Nat := ((b.drop off).headD 0).toNat

def le16 (b : Bytes) (off : Nat) : Nat := byteAt b off + 256 * byteAt b (off + 1)
def be16 (b : Bytes) (off : Nat) : Nat := 256 * byteAt b off + byteAt b (off + 1)
def le32 (b : Bytes) (off : Nat) : Nat :=
  byteAt b off + 256 * byteAt b (off + 1) + 65536 * byteAt b (off + 2) + 16777216 * byteAt b (off + 3)
def be32 (b : Bytes) (off : Nat) : Nat :=
  16777216 * byteAt b off + 65536 * byteAt b (off + 1) + 256 * byteAt b (off + 2) + byteAt b (off + 3)

/-- a section of the file handed out as (part of) a header: start offset and
    nominal size; reads are clipped at the end of the file -/
structure Section where
  start : Nat
  size : Nat
  deriving Repr, DecidableEq

/-- the bytes a `SectionReader` over the file really yields -/
def Section.avail (s : Section) (file : Bytes) : Bytes := (file.drop s.start).take s.size

/-- one header as the walker hands it out: an ordered list of sections (the
    bdb `rope`; for ndb a single section) -/
abbrev Rope := List Section

def Rope.size (r : Rope) : Nat := (r.map (·.size)).sum
def Rope.content (r : Rope) (file : Bytes) : Bytes := r.flatMap (·.avail file)

/-- one header handed out by the bdb walker: the sections of an overflow chain,
    or (fecbf23e) an item stored in the hash page itself -/
inductive Hdr
  | ov (r : Rope)
  | inl (s : Section)
  deriving Repr, DecidableEq

def Hdr.size : Hdr → Nat
  | .ov r => Rope.size r
  | .inl s => s.size

def Hdr.content (h : Hdr) (file : Bytes) : Bytes :=
  match h with
  | .ov r => Rope.content r file
  | .inl s => s.avail file

/-! ## Berkeley DB hash database -/
namespace Bdb

structure Db where
  file : Bytes
  bigEndian : Bool
  pageSz : Nat
  lastPageNo : Nat
  deriving Repr

def u16 (db : Db) (off : Nat) : Nat := if db.bigEndian then be16 db.file off else le16 db.file off
def u32 (db : Db) (off : Nat) : Nat := if db.bigEndian then be32 db.file off else le32 db.file off

def hashMagic : Nat := 0x00061561
def hashMagicBE : Nat := 0x61150600

def pageSizeOK (ps : Nat) : Bool := [512, 1024, 2048, 4096, 8192, 16384, 32768, 65536].contains ps

/-- `Parse`: the 512-byte metadata page -/
def parse (file : Bytes) : Option Db :=
  if file.length < 512 then none else
  let be := le32 file 12 == hashMagicBE
  let db : Db := ⟨file, be, 0, 0⟩
  if u32 db 12 != hashMagic then none
  else if byteAt file 25 != 8 then none          -- page type: hash metadata
  else if byteAt file 24 != 0 then none          -- encryption
  else if !pageSizeOK (u32 db 20) then none
  else some { db with pageSz := u32 db 20, lastPageNo := u32 db 32 }

/-- the 26-byte page header at page `n` can be read -/
def pageReadable (db : Db) (n : Nat) : Bool := n * db.pageSz + 26 ≤ db.file.length

/-- number of page numbers whose header is readable is below this -/
def pageBound (db : Db) : Nat := db.file.length / db.pageSz + 1

def count (l : List Bool) (v : Bool) : Nat := (l.filter (· == v)).length

theorem count_set_lt (l : List Bool) (n : Nat) (h : l.getD n true = false) :
    count (l.set n true) false < count l false := by
  induction l generalizing n with
  | nil => simp [List.getD] at h
  | cons x xs ih =>
    cases n with
    | zero =>
      simp only [List.getD_cons_zero] at h
      subst h
      simp [count, List.filter]
    | succ k =>
      simp only [List.getD_cons_succ] at h
      have := ih k h
      cases x <;> simp_all [count, List.filter] <;> omega

/-- Walk one overflow chain starting at page `n`.  `vis` marks the overflow
    pages already linked into some header (`seen` in the Go code, which is a map
    and so also covers page numbers whose header cannot be read: those fail the
    read that follows, with the same outcome).  `none` = error. -/
def chain (db : Db) (n : Nat) (vis : List Bool) (acc : Rope) : Option (Rope × List Bool) :=
  if n = 0 then some (acc.reverse, vis)
  else if hv : vis.getD n true then none        -- linked more than once / header unreadable
  else if !pageReadable db n then none
  else
    let off := n * db.pageSz
    if byteAt db.file (off + 25) != 7 then none   -- not an overflow page
    else
      let next := u32 db (off + 16)
      let sec : Section := if next == 0 then ⟨off + 26, u16 db (off + 22)⟩ else ⟨off + 26, db.pageSz - 26⟩
      chain db next (vis.set n true) (sec :: acc)
termination_by count vis false
decreasing_by
  apply count_set_lt
  simpa using hv

/-- One iteration of the chain loop BEFORE the fix (no `seen`, `continue` on a
    page that is not an overflow page): the next value of the loop variable `n`
    and whether a section was appended to the rope.  `none` = the loop ended. -/
def chainIterUnfixed (db : Db) (n : Nat) : Option (Nat × Bool) :=
  if n = 0 then none
  else if !pageReadable db n then none
  else if byteAt db.file (n * db.pageSz + 25) != 7 then some (n, false)   -- `continue`: n is unchanged
  else some (u32 db (n * db.pageSz + 16), true)

/-- the items of one hash page, by (key offset, data offset) of the entry
    pairs: a data item of type H_KEYDATA (1) that is at least 16 bytes long
    (from the byte after its type up to its key's offset, the key inside the
    page) is handed out as it lies in the page; for a data item that is an
    off-page reference (3) the chain is walked -/
def items (db : Db) (pageOff : Nat) : List (Nat × Nat) → List Bool → List Hdr → Option (List Hdr × List Bool)
  | [], vis, acc => some (acc, vis)
  | (keyOff, dataOff) :: rest, vis, acc =>
    -- view := section of the page [dataOff, dataOff+12); peek one byte
    if dataOff ≥ db.pageSz || pageOff + dataOff ≥ db.file.length then none
    else if byteAt db.file (pageOff + dataOff) == 1 then
      if keyOff ≥ dataOff + 1 + 16 && keyOff ≤ db.pageSz then
        items db pageOff rest vis (acc ++ [.inl ⟨pageOff + dataOff + 1, keyOff - dataOff - 1⟩])
      else items db pageOff rest vis acc
    else if byteAt db.file (pageOff + dataOff) != 3 then items db pageOff rest vis acc
    else if dataOff + 12 > db.pageSz || pageOff + dataOff + 12 > db.file.length then none
    else
      match chain db (u32 db (pageOff + dataOff + 4)) vis [] with
      | none => none
      | some (rope, vis') => items db pageOff rest vis' (acc ++ [.ov rope])

/-- the (key, data) offsets of the entry table of a hash page, or `none` when
    the table runs past the page or the file -/
def entryTable (db : Db) (pageOff : Nat) : Option (List (Nat × Nat)) :=
  let entries := u16 db (pageOff + 20)
  if entries % 2 != 0 then none
  else
    let k := entries / 2
    if 26 + 4 * k > db.pageSz || pageOff + 26 + 4 * k > db.file.length then none
    else some ((List.range k).map fun i => (u16 db (pageOff + 26 + 4 * i), u16 db (pageOff + 26 + 4 * i + 2)))

/-- the loop over pages 0..LastPageNo of `AllHeaders` -/
def pages (db : Db) (n : Nat) (vis : List Bool) (acc : List Hdr) (hps : 0 < db.pageSz) : Option (List Hdr) :=
  if n ≥ db.lastPageNo + 1 then some acc
  else if _hr : !pageReadable db n then none
  else
    let off := n * db.pageSz
    let typ := byteAt db.file (off + 25)
    if typ != 2 && typ != 13 then pages db (n + 1) vis acc hps
    else
      match entryTable db off with
      | none => none
      | some offs =>
        match items db off offs vis acc with
        | none => none
        | some (acc', vis') => pages db (n + 1) vis' acc' hps
termination_by db.file.length + 1 - n * db.pageSz
decreasing_by
  all_goals
    simp only [pageReadable, decide_eq_false_iff_not, Nat.not_le, Bool.not_eq_eq_eq_not,
      Bool.not_true, Nat.not_lt] at _hr
    have : (n + 1) * db.pageSz = n * db.pageSz + db.pageSz := by rw [Nat.add_mul, Nat.one_mul]
    omega

theorem pageSizeOK_pos (ps : Nat) (h : pageSizeOK ps = true) : 0 < ps := by
  unfold pageSizeOK at h
  simp at h
  omega

/-- `Parse` then `AllHeaders` -/
def allHeaders (file : Bytes) : Option (Option (List Hdr)) :=
  match parse file with
  | none => none
  | some db =>
    if hps : 0 < db.pageSz then
      some (pages db 0 (List.replicate (pageBound db) false) [] hps)
    else some none

end Bdb

/-! ## ndb -/
namespace Ndb

def magicPkg : Nat := 0x506d7052    -- 'R' 'p' 'm' 'P' little endian
def magicSlot : Nat := 0x746f6c53   -- 'S' 'l' 'o' 't'
def magicBlobStart : Nat := 0x53626c42 -- 'B' 'l' 'b' 'S'
def magicBlobEnd : Nat := 0x45626c42   -- 'B' 'l' 'b' 'E'

structure Slot where
  index : Nat
  blkOffset : Nat
  blkCount : Nat
  deriving Repr, DecidableEq

def two32 : Nat := 4294967296

/-- the slot loop of `Parse`: `off` is the byte offset of the slot being read,
    `limit` = `int64(NPages*pageSz)` (a uint32 product).  Every slot of the slot
    pages is read (857f8c86: no early stop at the highest index).  `none` = error. -/
def slots (file : Bytes) (limit : Nat) (off : Nat) (acc : List Slot) : Option (List Slot) :=
  if off ≥ limit then some acc.reverse
  else if hrd : off + 16 > file.length then none        -- ReadAt of the slot fails
  else if le32 file off != magicSlot then none
  else if le32 file (off + 8) == 0 then slots file limit (off + 16) acc   -- errSkipSlot
  else if le32 file (off + 12) < 2 then none            -- nonsense block count
  else
    slots file limit (off + 16) (⟨le32 file (off + 4), le32 file (off + 8), le32 file (off + 12)⟩ :: acc)
termination_by file.length - off
decreasing_by all_goals omega

/-- `Parse`: header, then the slots -/
def parse (file : Bytes) : Option (List Slot) :=
  if file.length < 32 then none
  else if le32 file 0 != magicPkg then none
  else if le32 file 4 != 0 then none
  else
    let nPages := le32 file 12
    slots file ((nPages * 4096) % two32) 32 []

def adlerLoop : Bytes → Nat → Nat → Nat
  | [], a, b => b * 65536 + a
  | c :: cs, a, b =>
    let a' := (a + c.toNat) % 65521
    adlerLoop cs a' ((b + a') % 65521)

def adler32 (bs : Bytes) : Nat := adlerLoop bs 1 0

/-- `GetHeader` for the blob of slot `s`; `none` = error -/
def getHeader (file : Bytes) (s : Slot) (pkgID : Nat) : Option Section :=
  let off := s.blkOffset * 16
  let cnt := s.blkCount * 16
  if off + 16 > file.length then none
  else if le32 file off != magicBlobStart then none
  else if le32 file (off + 4) != pkgID then none
  else
    let len := le32 file (off + 12)
    let t := off + cnt - 12
    if t + 12 > file.length then none
    else if le32 file (t + 8) != magicBlobEnd then none
    else if le32 file (t + 4) != len then none
    else if adler32 ((file.drop off).take (cnt - 12)) != le32 file t then none
    else some ⟨off + 16, len⟩

/-- `db.lookup[id]`: the last slot read with that index -/
def lookup (ss : List Slot) (id : Nat) : Option Slot := ss.reverse.find? (·.index == id)

def headersLoop (file : Bytes) (all : List Slot) : List Slot → List Rope → Option (List Rope)
  | [], acc => some acc.reverse
  | s :: rest, acc =>
    match lookup all s.index with
    | none => none
    | some blob =>
      match getHeader file blob s.index with
      | none => none
      | some sec => headersLoop file all rest ([sec] :: acc)

/-- `Parse` then `AllHeaders` -/
def allHeaders (file : Bytes) : Option (Option (List Rope)) :=
  match parse file with
  | none => none
  | some ss => some (headersLoop file ss ss [])

end Ndb

end ClairModel.RpmDb
