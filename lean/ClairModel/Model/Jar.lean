/-
  Model of java/jar/jar.go `Parse` and of what java/packagescanner.go makes of
  its result, over an archive given as the list of its members (name after
  `normName`, uncompressed content, bundled archives as sub-trees):

  * `extractProperties`: `META-INF` must exist; every member called
    `pom.properties`, in member order, must state groupId, artifactId and
    version (`parseProperties`: `bufio.ScanLines`, `strings.TrimSpace`,
    `strings.Cut(line, "=")`, the loop stops once all three are known);
    one unpopulated file discards them all;
  * `extractManifest`: `META-INF/MANIFEST.MF`; `parseManifest` = the first
    `ReadMIMEHeader` call (Model/Rfc822.lean) on the main section — the bytes up
    to the first `"\nName:"`, completed with empty lines by `mainSectionReader`
    (for manifests that fit one read of bufio's 4096-byte buffer: the only ones
    sent to this model) — the sanity checks, and the three priority lists;
  * `checkName`: the unanchored expression
    `([[:graph:]]+)-([[:digit:]][\-.[:alnum:]]*(?:-SNAPSHOT)?)\.jar` on the base
    name, as a deterministic scan (`checkName`);
  * `extractInner`: members whose extension is jar/war/ear/jpi/hpi and which are
    zip archives (the harness says so: they come as sub-trees), at most
    `maxNesting` levels, a bundled archive that is "not a jar" is passed over;
  * the chain `parse`: properties, else manifest, else name, else nothing;
    "not a jar" ends the chain unless the base name starts with `javax`.

  `strings.TrimSpace` is modelled for ASCII.  Core Lean only.
-/
import ClairModel.Model.Rfc822
import ClairModel.Model.OsRelease

namespace ClairModel.Jar
open ClairModel.Bytes ClairModel.Rfc822
open ClairModel.Apk (trimSpace)
open ClairModel.OsRelease (scanLines)

/-- which heuristic produced the information (the scanner derives the
    PackageDB prefix from it: `maven:`, `jar:`, `file:`) -/
inductive Kind where
  | maven | jar | file
  deriving DecidableEq, Repr

structure Info where
  name : Bytes
  version : Bytes
  kind : Kind
  /-- the member of the outermost archive it was found in (its SHA-1 becomes
      the RepositoryHint); `none` = the archive itself -/
  outer : Option Bytes
  deriving DecidableEq, Repr

inductive Node where
  | file (name : Bytes) (data : Bytes)
  | jar (name : Bytes) (members : List Node)

def Node.name : Node → Bytes
  | .file n _ => n
  | .jar n _ => n

/-! ### names -/

def asc (s : String) : Bytes := s.toList.map Char.toNat

def lastComp (p : Bytes) : Bytes := (splitOn 47 p).getLast?.getD []

/-- strip the trailing slash of a directory entry (all `normName` does to the
    names the harness writes) -/
def normName (p : Bytes) : Bytes :=
  match p.reverse with
  | 47 :: r => r.reverse
  | _ => p

/-- `path.Ext` -/
def ext (p : Bytes) : Bytes :=
  let b := lastComp p
  match (splitOn 46 b).reverse with
  | [] => []
  | [_] => []
  | e :: _ => 46 :: e

def validExt (p : Bytes) : Bool :=
  let e := ext p
  e == asc ".jar" || e == asc ".war" || e == asc ".ear" || e == asc ".jpi" || e == asc ".hpi"

def sMetaInf : Bytes := asc "META-INF"
def sManifestPath : Bytes := asc "META-INF/MANIFEST.MF"
def sPomProperties : Bytes := asc "pom.properties"

/-- `z.Open("META-INF")` succeeds: an entry of that name, or any entry below it -/
def hasMetaInf (ms : List Node) : Bool :=
  ms.any fun m => normName m.name == sMetaInf || isPrefix (sMetaInf ++ [47]) m.name

/-! ### pom.properties -/

structure Gav where
  group : Bytes
  artifact : Bytes
  version : Bytes
  deriving DecidableEq, Repr

def Gav.complete (g : Gav) : Bool := !g.group.isEmpty && !g.artifact.isEmpty && !g.version.isEmpty

/-- `strings.Cut(line, "=")` -/
def cutEq : Bytes → Option (Bytes × Bytes)
  | [] => none
  | c :: cs => if c = 61 then some ([], cs) else (cutEq cs).map fun kv => (c :: kv.1, kv.2)

def propsLine (g : Gav) (line : Bytes) : Gav :=
  match cutEq (trimSpace line) with
  | none => g
  | some (k, v) =>
    if k == asc "groupId" then { g with group := v }
    else if k == asc "artifactId" then { g with artifact := v }
    else if k == asc "version" then { g with version := v }
    else g

/-- the scanner loop: stops as soon as all three are known -/
def propsLoop (g : Gav) : List Bytes → Gav
  | [] => g
  | l :: ls => if g.complete then g else propsLoop (propsLine g l) ls

/-- `parseProperties`; `none` = `errUnpopulated` -/
def parseProperties (data : Bytes) : Option (Bytes × Bytes) :=
  let g := propsLoop ⟨[], [], []⟩ (scanLines data)
  if g.complete then some (g.group ++ 58 :: g.artifact, g.version) else none

/-! ### manifest -/

def sNameHeader : Bytes := asc "\nName:"

/-- what `mainSectionReader` hands to the MIME reader -/
def mainSection (data : Bytes) : Bytes :=
  match index data sNameHeader with
  | some i => data.take (i + 1) ++ [13, 10]
  | none => data ++ [13, 10, 13, 10]

def hasDigit (s : Bytes) : Bool := s.any fun c => 48 ≤ c && c ≤ 57

def hasSpace (s : Bytes) : Bool := s.any (· == 32)

def beforeSemi (s : Bytes) : Bytes := s.takeWhile (· != 59)

/-- `hdr.Get(key)` with the query key canonicalised as `MIMEHeader.Get` does -/
def mget (h : Hdr) (k : String) : Bytes :=
  match canonKey (asc k) with
  | some ck => h.get ck
  | none => []

/-- the value the group/artifact lists look at: a `Bundle-SymbolicName` is cut at
    its first `;` (directives) -/
def usableValue (h : Hdr) (k : String) : Bytes :=
  if k == "Bundle-SymbolicName" then beforeSemi (mget h k) else mget h k

def usable (h : Hdr) (k : String) : Bool := !(usableValue h k).isEmpty && !hasSpace (usableValue h k)

/-- first key of the list whose value is not empty and has no space -/
def firstUsable (h : Hdr) : List String → Bytes
  | [] => []
  | k :: ks => if usable h k then usableValue h k else firstUsable h ks

def firstNonEmpty (h : Hdr) : List String → Bytes
  | [] => []
  | k :: ks => let v := mget h k; if !v.isEmpty then v else firstNonEmpty h ks

def groupKeys : List String := ["Group-Id", "Bundle-SymbolicName", "Implementation-Vendor-Id", "Implementation-Vendor", "Specification-Vendor"]
def artifactKeys : List String := ["Implementation-Title", "Specification-Title", "Bundle-Name", "Extension-Name", "Short-Name"]
def versionKeys : List String := ["Bundle-Version", "Implementation-Version", "Plugin-Version", "Specification-Version"]

/-- `strings.Trim(s, ":")` -/
def trimColons (s : Bytes) : Bytes :=
  ((s.dropWhile (· == 58)).reverse.dropWhile (· == 58)).reverse

inductive ManRes where
  | ok (name version : Bytes)
  | insane
  | unpopulated
  deriving DecidableEq, Repr

def manifestOfHeader (h : Hdr) : ManRes :=
  if h.isEmpty then .insane
  else if !hasDigit (mget h "Manifest-Version") then .insane
  else if !(mget h "Name").isEmpty then .insane
  else
    let g := firstUsable h groupKeys
    let a := firstUsable h artifactKeys
    let a := if a == g then [] else a
    let name := trimColons (g ++ 58 :: a)
    let version := firstNonEmpty h versionKeys
    if name.isEmpty || version.isEmpty then .unpopulated else .ok name version

/-- `parseManifest` -/
def parseManifest (data : Bytes) : ManRes :=
  match calls (mainSection data) with
  | [] => .insane
  | e :: _ => if e.err == .ok then manifestOfHeader e.hdr else .insane

/-! ### the file name -/

def isGraph (c : Nat) : Bool := 33 ≤ c && c ≤ 126
def isAlnum (c : Nat) : Bool := (48 ≤ c && c ≤ 57) || (65 ≤ c && c ≤ 90) || (97 ≤ c && c ≤ 122)
def isDigitB (c : Nat) : Bool := 48 ≤ c && c ≤ 57
def verChar (c : Nat) : Bool := c == 45 || c == 46 || isAlnum c

def sDotJar : Bytes := asc ".jar"

/-- the longest `v` such that `s = v ++ ".jar" ++ _` with `v` made of version
    characters (greedy `[\-.[:alnum:]]*` followed by `\.jar`); `v` may be empty -/
def versionBefore : Bytes → Option Bytes
  | [] => none
  | c :: cs =>
    let here : Option Bytes := if isPrefix sDotJar (c :: cs) then some [] else none
    if verChar c then
      match versionBefore cs with
      | some v => some (c :: v)
      | none => here
    else here

/-- the version matched right after a `-` at the head of `s` (`s` is what
    follows the dash): a digit, then `versionBefore` -/
def versionAt : Bytes → Option Bytes
  | [] => none
  | c :: cs => if isDigitB c then (versionBefore cs).map (c :: ·) else none

/-- a split right after `c`: `cs` starts with the dash and a version follows it -/
def dashHere (c : Nat) (cs : Bytes) : Option (Bytes × Bytes) :=
  match cs with
  | 45 :: rest => (versionAt rest).map fun v => ([c], v)
  | _ => none

/-- within one run of graph characters: the split at the LAST usable dash
    (greedy `[[:graph:]]+`), with at least one character before it -/
def splitRun : Bytes → Option (Bytes × Bytes)
  | [] => none
  | c :: cs =>
    match splitRun cs with
    | some (n, v) => some (c :: n, v)
    | none => dashHere c cs

/-- the runs of graph characters of the base name, in order (`cur` = the run
    being read, reversed) -/
def graphRunsAux : Bytes → Bytes → List Bytes
  | [], cur => if cur.isEmpty then [] else [cur.reverse]
  | c :: cs, cur =>
    if isGraph c then graphRunsAux cs (c :: cur)
    else if cur.isEmpty then graphRunsAux cs [] else cur.reverse :: graphRunsAux cs []

def graphRuns (s : Bytes) : List Bytes := graphRunsAux s []

/-- `checkName`: leftmost match = first run that has one -/
def checkName (base : Bytes) : Option (Bytes × Bytes) :=
  (graphRuns base).findSome? splitRun

/-! ### the chain -/

inductive PropsRes where
  | ok (infos : List (Bytes × Bytes))
  | unpopulated
  | notAJar

def collectProps : List Node → Option (List (Bytes × Bytes))
  | [] => some []
  | .file n d :: ms =>
    if lastComp (normName n) == sPomProperties && normName n == n then
      match parseProperties d, collectProps ms with
      | some i, some r => some (i :: r)
      | _, _ => none
    else collectProps ms
  | .jar _ _ :: ms => collectProps ms

def hasProps (ms : List Node) : Bool :=
  ms.any fun m => match m with
    | .file n _ => lastComp (normName n) == sPomProperties && normName n == n
    | .jar _ _ => false

def extractProperties (ms : List Node) : PropsRes :=
  if !hasMetaInf ms then .notAJar
  else if !hasProps ms then .unpopulated
  else match collectProps ms with
    | some is => .ok is
    | none => .unpopulated

def findManifest : List Node → Option Bytes
  | [] => none
  | .file n d :: ms => if n == sManifestPath then some d else findManifest ms
  | .jar _ _ :: ms => findManifest ms

def sJavax : Bytes := asc "javax"

def nameStep (base : Bytes) : List Info :=
  match checkName base with
  | some (n, v) => [⟨n, v, .file, none⟩]
  | none => []

def manifestStep (javax : Bool) (base : Bytes) (ms : List Node) : Option (List Info) :=
  match findManifest ms with
  | none => if javax then some (nameStep base) else none
  | some d =>
    match parseManifest d with
    | .ok n v => some [⟨n, v, .jar, none⟩]
    | .insane => some (nameStep base)
    | .unpopulated => some (nameStep base)

/-- what the archive says about itself; `none` = `ErrNotAJar` -/
def own (base : Bytes) (ms : List Node) : Option (List Info) :=
  let javax := isPrefix sJavax base
  match extractProperties ms with
  | .ok is => some (is.map fun nv => ⟨nv.1, nv.2, .maven, none⟩)
  | .unpopulated => manifestStep javax base ms
  | .notAJar => if javax then manifestStep javax base ms else none

/-- `extractInner` given the parser for the next level -/
def innerWith (rec : Bytes → List Node → Option (List Info)) (top : Bool) (ms : List Node) : List Info :=
  ms.flatMap fun m =>
    match m with
    | .file _ _ => []
    | .jar n sub =>
      if validExt (normName n) then
        ((rec (lastComp (normName n)) sub).getD []).map fun i =>
          if top then { i with outer := some n } else i
      else []

/-- `parse` with `fuel` further levels of nesting allowed (`maxNesting`) -/
def parse : Nat → Bool → Bytes → List Node → Option (List Info)
  | 0, _, base, ms => own base ms
  | f + 1, top, base, ms =>
    match own base ms with
    | none => none
    | some is => some (is ++ innerWith (parse f false) top ms)

def maxNesting : Nat := 8

/-- java/common.go `archives`: the files of a layer that are looked at (the
    size and zip checks are the harness's: it only sends archives) -/
def picked (path : Bytes) : Bool := validExt (lastComp path) && !isPrefix (asc ".wh.") (lastComp path)

/-- what the java scanner reports for the archive at `path` in a layer -/
def scan (path : Bytes) (ms : List Node) : List Info :=
  if picked path then (parse (maxNesting - 1) true (lastComp path) ms).getD [] else []

end ClairModel.Jar
