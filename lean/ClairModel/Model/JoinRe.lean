/-
  C04 — a matcher for the regular expressions the distribution scanners use
  (`regexp.Regexp.Match`: is there a match anywhere in the input?), by
  Brzozowski derivatives over the `Re` terms the extractor produces from
  `regexp/syntax`.  Byte level; inputs are ASCII.  Core Lean only.
-/
import ClairModel.Model.JoinStr

namespace ClairModel.Join

def Re.mkCat : Re → Re → Re
  | .fail, _ => .fail
  | _, .fail => .fail
  | .eps, b => b
  | a, .eps => a
  | a, b => .cat a b

def Re.mkAlt : Re → Re → Re
  | .fail, b => b
  | a, .fail => a
  | a, b => if a == b then a else .alt a b

/-- A literal byte `c` (already lower-case when `fold`) against input byte `x`. -/
def litMatch (c : Nat) (fold : Bool) (x : Nat) : Bool :=
  if fold then toLower x == c else x == c

def clsMatch (rs : List (Nat × Nat)) (x : Nat) : Bool :=
  rs.any fun r => r.1 ≤ x && x ≤ r.2

/-- Does the expression match the empty string at a position that is the
    start (`atStart`) / the end (`atEnd`) of the text? -/
def Re.nullable (atStart atEnd : Bool) : Re → Bool
  | .fail => false
  | .eps => true
  | .lit _ _ => false
  | .cls _ => false
  | .anyNotNL => false
  | .any => false
  | .beginText => atStart
  | .endText => atEnd
  | .cat a b => a.nullable atStart atEnd && b.nullable atStart atEnd
  | .alt a b => a.nullable atStart atEnd || b.nullable atStart atEnd
  | .star _ => true

/-- The derivative by input byte `x` read at a position that is the start of
    the text iff `atStart`. -/
def Re.deriv (atStart : Bool) (x : Nat) : Re → Re
  | .fail => .fail
  | .eps => .fail
  | .beginText => .fail
  | .endText => .fail
  | .lit c f => if litMatch c f x then .eps else .fail
  | .cls rs => if clsMatch rs x then .eps else .fail
  | .anyNotNL => if x == 10 then .fail else .eps
  | .any => .eps
  | .cat a b =>
    Re.mkAlt (Re.mkCat (a.deriv atStart x) b)
      (if a.nullable atStart false then b.deriv atStart x else .fail)
  | .alt a b => Re.mkAlt (a.deriv atStart x) (b.deriv atStart x)
  | .star a => Re.mkCat (a.deriv atStart x) (.star a)

def Re.isFail : Re → Bool
  | .fail => true
  | _ => false

/-- Does some prefix of the input match? -/
def prefixMatch : Re → Bytes → Bool → Bool
  | r, [], st => r.nullable st true
  | r, x :: xs, st =>
    r.nullable st false ||
      (let d := r.deriv st x
       if d.isFail then false else prefixMatch d xs false)

def searchFrom (r : Re) : Bytes → Bool → Bool
  | [], st => r.nullable st true
  | x :: xs, st => prefixMatch r (x :: xs) st || searchFrom r xs false

/-- `regexp.MustCompile(r).Match(s)` -/
def Re.matches (r : Re) (s : Bytes) : Bool := searchFrom r s true

/-- The first release of a scanner's regexp table whose expression matches. -/
def firstMatch (table : List (Bytes × Re)) (s : Bytes) : Option Bytes :=
  match table with
  | [] => none
  | (rel, re) :: rest => if re.matches s then some rel else firstMatch rest s

/-- A text the expression matches (if it can match at all): literals as they
    are, the low end of a class's first range, `x` for any character, nothing
    for anchors and stars, the first alternative that has a sample.  (The
    extractor derives the same text from the parsed Go expression:
    Gen/JoinReleases `regexSamples`.) -/
def Re.sample : Re → Option Bytes
  | .fail => none
  | .eps => some []
  | .lit c _ => some [c]
  | .cls [] => none
  | .cls ((lo, _) :: _) => some [lo]
  | .anyNotNL => some [120]
  | .any => some [120]
  | .beginText => some []
  | .endText => some []
  | .cat a b => match a.sample, b.sample with
    | some x, some y => some (x ++ y)
    | _, _ => none
  | .alt a b => match a.sample with
    | some x => some x
    | none => b.sample
  | .star _ => some []

def sampleTable (t : List (Bytes × Re)) : List (Bytes × Bytes) :=
  t.filterMap fun p => (p.2.sample).map fun s => (p.1, s)

end ClairModel.Join
