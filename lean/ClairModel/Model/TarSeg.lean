/-
  C06 — model of pkg/tarfs/parse.go: `parseNumber`, `cstring` and the
  block-wise segment finder `findSegments`.  Core Lean only.

  The loop of `findSegments` is written with NO fuel: Lean accepts the
  definition only because every iteration either ends the scan or moves to a
  strictly shorter remainder of the input (or, for the first all-zero block,
  flips `zeroes` once).  That is exactly what the code relies on after the
  `fix:` commit that rejects negative sizes; the pre-fix iteration
  (`iterUnguarded`) is kept to state the counterexample.
-/
namespace ClairModel.TarSeg

abbrev Bytes := List UInt8

/-! ### constants of `findSegments` (checked against Gen.Tar in Props/C06) -/
def blockSz : Nat := 512
def magicOff : Nat := 257
def versionOff : Nat := 263
def typeflagOff : Nat := 156
def sizeOff : Nat := 124
def sizeLen : Nat := 12

def magicPAX : Bytes := [117, 115, 116, 97, 114, 0]          -- "ustar\x00"
def magicGNU : Bytes := [117, 115, 116, 97, 114, 32]         -- "ustar "
def magicOldGNU : Bytes := [117, 115, 116, 97, 114, 32, 32, 0] -- "ustar  \x00"
def version00 : Bytes := [48, 48]                            -- "00"

/-- typeflags that are prepended to a "real" entry: x K L S -/
def prependFlags : List UInt8 := [120, 75, 76, 83]
/-- typeflags that emit a segment: 4 3 7 5 6 1 0 \0 2 -/
def dataFlags : List UInt8 := [52, 51, 55, 53, 54, 49, 48, 0, 50]

def two63 : Nat := 9223372036854775808
def maxInt63 : Nat := 9223372036854775807

/-! ### parseNumber -/

/-- the base-256 loop: `x` is the uint64 accumulator, `first` says whether the
    sign-bit mask applies to this byte; `none` = "integer overflow". -/
def binLoop (inv : UInt8) : Bytes → Bool → Nat → Option Nat
  | [], _, x => some x
  | c :: cs, first, x =>
    let c1 := c ^^^ inv
    let c2 := if first then c1 &&& 0x7f else c1
    if x ≥ 2 ^ 56 then none else binLoop inv cs false (x * 256 + c2.toNat)

def isCut (c : UInt8) : Bool := c == 32 || c == 0

/-- `bytes.Trim(b, " \x00")` -/
def trim (b : Bytes) : Bytes := ((b.dropWhile isCut).reverse.dropWhile isCut).reverse

/-- `cstring`: up to the first NUL -/
def cstring (b : Bytes) : Bytes := b.takeWhile (fun c => c != 0)

/-- the digit loop of `strconv.ParseUint(s, 8, 63)`; `none` = syntax or range error -/
def octLoop : Bytes → Nat → Option Nat
  | [], n => some n
  | c :: cs, n =>
    if 48 ≤ c.toNat ∧ c.toNat ≤ 55 then
      let n' := n * 8 + (c.toNat - 48)
      if n' > maxInt63 then none else octLoop cs n'
    else none

def parseOctal (s : Bytes) : Option Nat := if s.isEmpty then none else octLoop s 0

/-- the base-256 branch; `neg` = the inversion mask is 0xff -/
def parseBinary (b : Bytes) (neg : Bool) : Option Int :=
  match binLoop (if neg then 0xff else 0) b true 0 with
  | none => none
  | some x =>
    if x ≥ two63 then none
    else if neg then some (-(x : Int) - 1) else some (x : Int)

/-- the octal text branch -/
def parseText (b : Bytes) : Option Int :=
  if (trim b).isEmpty then some 0
  else match parseOctal (cstring (trim b)) with
    | none => none
    | some n => some (n : Int)

/-- `parseNumber`: `none` stands for any error. -/
def parseNumber (b : Bytes) : Option Int :=
  match b with
  | c0 :: _ =>
    if c0 &&& 0x80 != 0 then parseBinary b (c0 &&& 0x40 != 0) else parseText b
  | [] => some 0

/-! ### one header block -/

inductive Err
  | shortRead | unexpectedEOF | readErr | trailer | magic | version | number | negSize | truncated
  deriving Repr, DecidableEq

/-- Is the error one that `errors.Is(err, ErrFormat)` reports? -/
def Err.isFormat : Err → Bool
  | .readErr => false
  | _ => true

structure Segment where
  start : Nat
  size : Nat
  deriving Repr, DecidableEq

/-- what the typeflag arm of the final switch does -/
inductive Cls | prepend | data | other
  deriving Repr, DecidableEq

def classify (tf : UInt8) : Cls :=
  if prependFlags.contains tf then .prepend
  else if dataFlags.contains tf then .data
  else .other

def slice (b : Bytes) (off n : Nat) : Bytes := (b.drop off).take n

/-- the magic/version arms ("belt-and-suspenders") -/
def checkMagic (b : Bytes) : Option Err :=
  if slice b magicOff 8 == magicOldGNU then none
  else if slice b magicOff 6 != magicPAX && slice b magicOff 6 != magicGNU then some .magic
  else if slice b versionOff 2 != version00 then some .version
  else none

/-- Outcome of looking at one non-zero 512-byte block as a header: the size
    field and the class of the typeflag.  `guard` = the `sz < 0` check of the fix. -/
inductive Hdr
  | fail (e : Err)
  | next (sz : Int) (cls : Cls)
  deriving Repr, DecidableEq

def header (guard : Bool) (b : Bytes) : Hdr :=
  match checkMagic b with
  | some e => .fail e
  | none =>
    match parseNumber (slice b sizeOff sizeLen) with
    | none => .fail .number
    | some sz =>
      if guard && sz < 0 then .fail .negSize
      else .next sz (classify ((b.drop typeflagOff).headD 0))

/-- `nBlk := sz / blockSz; if sz%blockSz != 0 { nBlk++ }` with Go's truncated division -/
def nBlkOf (sz : Int) : Int := Int.tdiv sz 512 + (if Int.tmod sz 512 != 0 then 1 else 0)

def isZeroBlock (b : Bytes) : Bool := b.all (· == 0)

/-! ### the scan loop -/

/-- result: the segments or an error, plus the number of `ReadAt` calls made -/
structure Res where
  out : Except Err (List Segment)
  reads : Nat
  deriving Repr

def Res.cons (s : Segment) (r : Res) : Res :=
  { r with out := r.out.map (s :: ·) }

def Res.tick (r : Res) : Res := { r with reads := r.reads + 1 }
def Res.ticks (n : Nat) (r : Res) : Res := { r with reads := r.reads + n }

/-- `rest` is the input from block `blk` on (empty when `blk` is past the end),
    `cur` the start block of the current segment.

    int64 overflow of `blk * blockSz` is not modelled: after the check that the
    last content byte of every entry is readable, every block number the loop
    reaches is at most (input length + 511) / 512. -/
def scan (rest : Bytes) (blk cur : Nat) (zeroes : Bool) : Res :=
  if _h512 : rest.length < 512 then
    if rest.length = 0 then ⟨.ok [], 1⟩          -- n == 0, io.EOF: break Scan
    else ⟨.error .unexpectedEOF, 1⟩
  else
    let b := rest.take 512
    if isZeroBlock b then
      if zeroes then ⟨.ok [], 1⟩                  -- second trailer block: break Scan
      else (scan rest blk cur true).tick          -- `continue` without advancing blk
    else if zeroes then ⟨.error .trailer, 1⟩
    else
      match header true b with
      | .fail e => ⟨.error e, 1⟩
      | .next sz cls =>
        if 0 < sz ∧ rest.length < 512 + sz.toNat then
          ⟨.error .truncated, 2⟩                  -- the last content byte is not there
        else
          let probe := if 0 < sz then 1 else 0     -- the one-byte read of that check
          let adv := 1 + (nBlkOf sz).toNat
          let blk' := blk + adv
          let rest' := rest.drop (adv * 512)
          match cls with
          | .prepend => (scan rest' blk' cur false).ticks (1 + probe)
          | .other => (scan rest' blk' blk' false).ticks (1 + probe)
          | .data =>
            let seg : Segment := ⟨cur * 512, (blk' - cur) * 512⟩
            ((scan rest' blk' blk' false).cons seg).ticks (1 + probe)
termination_by (rest.length, if zeroes then 0 else 1)
decreasing_by
  · simp_wf
    rename_i hz
    simp only [hz]
    exact Prod.Lex.right _ (by decide)
  all_goals
    simp_wf
    apply Prod.Lex.left
    omega

def findSegments (data : Bytes) : Res := scan data 0 0 false

/-! ### the loop body before the fix (for the counterexample) -/

/-- loop state of the Go code -/
structure St where
  blk : Int
  cur : Int
  zeroes : Bool
  nsegs : Nat
  deriving Repr, DecidableEq

/-- One iteration of the pre-fix loop on a block `b` read at `st.blk`
    (no `sz < 0` check); `none` = the loop ended (break / return). -/
def iterUnguarded (b : Bytes) (st : St) : Option St :=
  if isZeroBlock b then (if st.zeroes then none else some { st with zeroes := true })
  else if st.zeroes then none
  else match header false b with
    | .fail _ => none
    | .next sz cls =>
      let blk' := st.blk + 1 + nBlkOf sz
      match cls with
      | .prepend => some { st with blk := blk' }
      | .other => some { st with blk := blk', cur := blk' }
      | .data => some { st with blk := blk', cur := blk', nsegs := st.nsegs + 1 }

end ClairModel.TarSeg
