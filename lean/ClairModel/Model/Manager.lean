/-
  Model of the update manager
    libvuln/updates/manager.go   (Manager.Run, Manager.driveUpdater)
  together with the lock source it uses (Model/Locks.lean, the machine of C20).

  One machine for any number of concurrent `Run`s that share a lock source and
  an updater store.  An event is one observable action of the code; the event
  ORDER is the schedule, chosen by the environment (Go scheduler, lock
  contention, cancellation), the CONTENT of every action is determined by the
  machine.  Atomic transitions:

    Run goroutine `r`
      begin     factories were turned into the list `toRun` (see `plan`)
      acquire   loop head of `for i := range toRun`: about to call sem.Acquire(ctx, 1)
      launch    sem.Acquire returned nil, `go func(u)` started
      wait      loop left (all launched, or Acquire failed); about to Acquire(Background, batchSize)
      drained   that Acquire returned
      ret       Run returns (the aggregated error)
      cancel    the caller cancels the context of run r
    worker goroutine for updater instance `i` of run `r`
      tryLock   m.locks.TryLock(ctx, u.Name()) and the ctx.Err() test
      getOps    store.GetUpdateOperations(kind, name); prevFP := first op's fingerprint
      fetch     Fetch / FetchEnrichment(prevFP)
      parse     Parse / DeltaParse / ParseEnrichment
      store     UpdateVulnerabilities / DeltaUpdateVulnerabilities / UpdateEnrichments
      close     the deferred vulnDB.Close() (registered only when Fetch returned a non-nil ReadCloser;
                deferred after RecordUpdaterStatus, so it runs before it)
      status    the deferred RecordUpdaterStatus(name, newFP, err)
      done      errChan <- err (if any); done() releases the lock; sem.Release(1)

  `semaphore.Weighted` is modelled by the counter `inflight` (Acquire(ctx,1)
  fails iff ctx is done at entry; it may fail when ctx is cancelled while it
  waits), the store by `ops` (update operations, latest first) and the log of
  accepted store calls.  Core Lean only.
-/
import ClairModel.Model.Locks

namespace ClairModel.Manager
open ClairModel

/-- Fingerprints; `0` is the empty fingerprint `""`. -/
abbrev Fp := Nat

inductive Kind where
  | plain | delta | enrich
deriving DecidableEq, Repr

/-- driver.UpdateKind -/
inductive UoKind where
  | vuln | enr
deriving DecidableEq, Repr

/-- `uoKind` of driveUpdater: EnrichmentKind iff the updater is an EnrichmentUpdater. -/
def Kind.uo : Kind → UoKind
  | .enrich => .enr
  | _ => .vuln

inductive FetchRes where
  | ok | unchanged | err
deriving DecidableEq, Repr

/-- What a parser returns: vulnerabilities (or enrichment records) and, for a
    delta updater, the names of deleted vulnerabilities. -/
structure Payload where
  vulns : List Nat
  deleted : List Nat
deriving DecidableEq, Repr

/-- A store call that creates an update operation. -/
inductive Call where
  | vulns (name : Nat) (fp : Fp) (vs : List Nat)
  | delta (name : Nat) (fp : Fp) (vs ds : List Nat)
  | enrich (name : Nat) (fp : Fp) (rs : List Nat)
deriving DecidableEq, Repr

/-- A stored update operation (driver.UpdateOperation without ref and date;
    the list order is the date order, latest first). -/
structure Op where
  name : Nat
  uo : UoKind
  fp : Fp
deriving DecidableEq, Repr

def Call.toOp : Call → Op
  | .vulns n fp _ => ⟨n, .vuln, fp⟩
  | .delta n fp _ _ => ⟨n, .vuln, fp⟩
  | .enrich n fp _ => ⟨n, .enr, fp⟩

def Call.name : Call → Nat
  | .vulns n _ _ => n
  | .delta n _ _ _ => n
  | .enrich n _ _ => n

def Call.fp : Call → Fp
  | .vulns _ fp _ => fp
  | .delta _ fp _ _ => fp
  | .enrich _ fp _ => fp

/-- `opmap[name][0].Fingerprint`, or `""` when there is no operation of that
    kind and name. -/
def latestFp (ops : List Op) (uo : UoKind) (name : Nat) : Fp :=
  match ops.find? (fun o => o.name == name && o.uo == uo) with
  | some o => o.fp
  | none => 0

/-- An updater instance and the behaviour of everything it touches.  The
    `Bool` argument says whether the worker's context is already cancelled
    when the call is made. -/
structure Upd where
  name : Nat
  kind : Kind
  getOk : Bool → Bool                    -- GetUpdateOperations succeeds
  fetch : Fp → Bool → FetchRes × Fp      -- previous fingerprint ↦ outcome, returned fingerprint
  closer : Fp → Bool → Bool              -- Fetch returned a non-nil io.ReadCloser (whatever its error)
  parse : Bool → Option Payload          -- none = parse error
  storeOk : Bool → Bool                  -- the store call succeeds

/-- The store call driveUpdater makes for a parse result. -/
def mkCall (u : Upd) (fp : Fp) (p : Payload) : Call :=
  match u.kind with
  | .plain => .vulns u.name fp p.vulns
  | .delta => .delta u.name fp p.vulns p.deleted
  | .enrich => .enrich u.name fp p.vulns

/-- How one driveUpdater call ended. -/
inductive Res where
  | getErr | fetchErr | unchanged | parseErr | storeErr
  | stored (c : Call)
deriving DecidableEq, Repr

/-- driveUpdater returned a non-nil error. -/
def Res.failed : Res → Bool
  | .unchanged => false
  | .stored _ => false
  | _ => true

/-- Program counter of the worker goroutine of (run, instance). -/
inductive Pc where
  | idle
  | skipped (g : Option Nat)             -- TryLock busy (none) / acquired with a dead context (some g)
  | locked (g : Nat)
  | gotOps (g : Nat) (prev : Fp)
  | fetched (g : Nat) (prev fp : Fp)
  | parsed (g : Nat) (prev fp : Fp) (p : Payload)
  | finishing (g : Nat) (fp : Fp) (res : Res)   -- the deferred RecordUpdaterStatus is pending; fp = newFP
  | recorded (g : Nat) (res : Res)
  | finished (res : Option Res)          -- none = was skipped
deriving DecidableEq, Repr

/-- The lock grant a worker holds. -/
def Pc.holds : Pc → Option Nat
  | .skipped g => g
  | .locked g => some g
  | .gotOps g _ => some g
  | .fetched g _ _ => some g
  | .parsed g _ _ _ => some g
  | .finishing g _ _ => some g
  | .recorded g _ => some g
  | _ => none

/-- The worker is inside driveUpdater. -/
def Pc.running : Pc → Bool
  | .locked _ => true
  | .gotOps _ _ => true
  | .fetched _ _ _ => true
  | .parsed _ _ _ _ => true
  | .finishing _ _ _ => true
  | .recorded _ _ => true
  | _ => false

def Pc.isFinished : Pc → Bool
  | .finished _ => true
  | _ => false

/-- Program counter of the goroutine executing `Run`. -/
inductive RunPc where
  | notStarted
  | top
  | acquiring (live : Bool)   -- inside sem.Acquire(ctx,1); live = ctx was not done at entry
  | waiting
  | drained
  | inGc                      -- between TryLock(ctx, "garbage-collection") and its done()
  | gcOver
  | returned
deriving DecidableEq, Repr

structure RunSt where
  pc : RunPc := .notStarted
  launchedN : Nat := 0          -- goroutines started
  tried : List Nat := []        -- instances whose worker reached TryLock
  inflight : Nat := 0           -- semaphore tokens held
  errs : List Nat := []         -- instances whose error was sent to errChan
deriving Repr

structure CallRec where
  run : Nat
  inst : Nat
  call : Call
deriving DecidableEq, Repr

structure StatusRec where
  run : Nat
  inst : Nat
  name : Nat
  fp : Fp
  failed : Bool
deriving DecidableEq, Repr

/-- What became of the ReadCloser of a worker's Fetch. -/
inductive Body where
  | unfetched -- Fetch not called (yet)
  | absent    -- Fetch returned a nil ReadCloser
  | opened    -- returned, `defer vulnDB.Close()` registered, not yet closed
  | closed
deriving DecidableEq, Repr

structure State where
  locks : Locks.State
  ops : List Op                 -- the store's update operations, latest first
  calls : List CallRec          -- successful store calls, newest first
  status : List StatusRec       -- RecordUpdaterStatus calls, newest first
  pc : Nat → Nat → Pc           -- run, instance
  run : Nat → RunSt
  body : Nat → Nat → Body       -- run, instance ↦ the ReadCloser Fetch returned
  closes : List (Nat × Nat)     -- Close() calls (run, instance), newest first

/-- The static part of a scenario. -/
structure Env where
  upd : Nat → Upd               -- instance ↦ updater
  batch : Nat → Nat             -- run ↦ batch size
  toRun : Nat → List Nat        -- run ↦ configured updater instances (see `plan`)
  stubSets : Nat → Nat          -- run ↦ number of RecordUpdaterSetStatus calls
  facCalls : Nat → List Nat     -- run ↦ factories whose UpdaterSet(ctx) is called (sorted; see ManagerSetup)
  cfgCalls : Nat → List (Nat × Nat)  -- run ↦ (instance, config id) of every updater Configure call (sorted)
  gc : Nat → Bool               -- run ↦ updateRetention != 0
  keep : Nat → Int              -- run ↦ updateRetention, the argument of store.GC
  gcInst : Nat                  -- the program-counter slot (r, gcInst) records the GC section of run r;
                                -- `(upd gcInst).name` is the key "garbage-collection"

def init (hist : List Op) : State :=
  { locks := Locks.init, ops := hist, calls := [], status := [],
    pc := fun _ _ => .idle, run := fun _ => {}, body := fun _ _ => .unfetched, closes := [] }

def State.setPc (s : State) (r i : Nat) (p : Pc) : State :=
  { s with pc := fun r' i' => if r' = r ∧ i' = i then p else s.pc r' i' }

def State.setRun (s : State) (r : Nat) (x : RunSt) : State :=
  { s with run := fun r' => if r' = r then x else s.run r' }

def State.setBody (s : State) (r i : Nat) (b : Body) : State :=
  { s with body := fun r' i' => if r' = r ∧ i' = i then b else s.body r' i' }

/-- The context of run `r` is cancelled. -/
def dead (s : State) (r : Nat) : Bool := s.locks.deadParents.contains r

inductive Ev where
  | begin (r : Nat)
  | acquire (r : Nat)
  | launch (r : Nat)
  | wait (r : Nat)
  | drained (r : Nat)
  | ret (r : Nat)
  | cancel (r : Nat)
  | tryLock (r i : Nat)
  | getOps (r i : Nat)
  | fetch (r i : Nat)
  | parse (r i : Nat)
  | store (r i : Nat)
  | close (r i : Nat)
  | status (r i : Nat)
  | done (r i : Nat)
  | gcTry (r : Nat)
  | gc (r : Nat)
  | gcDone (r : Nat)
deriving DecidableEq, Repr

inductive Out where
  | ok
  | bad                                   -- the event is not enabled: the code cannot do this here
  | begin (facs : List Nat) (stubSets : Nat) (cfgs : List (Nat × Nat))
  | gcCall (keep : Int)
  | lock (got live : Bool)
  | getOps (uo : UoKind) (name : Nat) (ok : Bool)
  | fetch (enr : Bool) (arg : Fp) (res : FetchRes) (fp : Fp) (closer : Bool)
  | parse (kind : Kind) (ok : Bool)
  | store (c : Call) (ok : Bool)
  | status (name : Nat) (fp : Fp) (failed : Bool)
  | done (pushed : Bool)
  | ret (errs : List Nat)
deriving DecidableEq, Repr

/-- The worker leaves: `errChan <- err`, `done()`, `sem.Release(1)`. -/
def finish (s : State) (r i : Nat) (g : Option Nat) (res : Option Res) : State :=
  let failed := match res with
    | some x => x.failed
    | none => false
  let rs := s.run r
  let s1 : State := match g with
    | some g => { s with locks := (Locks.step s.locks (.release g)).1 }
    | none => s
  (s1.setRun r { rs with inflight := rs.inflight - 1,
                         errs := if failed then i :: rs.errs else rs.errs }).setPc r i (.finished res)

/-- The GC section ends: `done()` of the garbage-collection lock. -/
def gcFinish (env : Env) (s : State) (r : Nat) (g : Option Nat) : State :=
  let s1 : State := match g with
    | some g => { s with locks := (Locks.step s.locks (.release g)).1 }
    | none => s
  (s1.setRun r { s.run r with pc := .gcOver }).setPc r env.gcInst (.finished none)

def step (env : Env) (s : State) : Ev → State × Out
  | .begin r =>
    match (s.run r).pc with
    | .notStarted =>
      (s.setRun r { s.run r with pc := .top }, .begin (env.facCalls r) (env.stubSets r) (env.cfgCalls r))
    | _ => (s, .bad)
  | .acquire r =>
    match (s.run r).pc with
    | .top =>
      if (s.run r).launchedN < (env.toRun r).length then
        (s.setRun r { s.run r with pc := .acquiring (!dead s r) }, .ok)
      else (s, .bad)
    | _ => (s, .bad)
  | .launch r =>
    match (s.run r).pc with
    | .acquiring true =>
      if (s.run r).inflight < env.batch r then
        (s.setRun r { s.run r with pc := .top, launchedN := (s.run r).launchedN + 1,
                                   inflight := (s.run r).inflight + 1 }, .ok)
      else (s, .bad)
    | _ => (s, .bad)
  | .wait r =>
    match (s.run r).pc with
    | .top =>
      if (s.run r).launchedN = (env.toRun r).length then
        (s.setRun r { s.run r with pc := .waiting }, .ok)
      else (s, .bad)
    | .acquiring _ =>
      if dead s r then (s.setRun r { s.run r with pc := .waiting }, .ok) else (s, .bad)
    | _ => (s, .bad)
  | .drained r =>
    match (s.run r).pc with
    | .waiting =>
      if (s.run r).inflight = 0 then (s.setRun r { s.run r with pc := .drained }, .ok)
      else (s, .bad)
    | _ => (s, .bad)
  | .ret r =>
    match (s.run r).pc with
    | .drained =>
      if env.gc r then (s, .bad)
      else (s.setRun r { s.run r with pc := .returned }, .ret (s.run r).errs)
    | .gcOver => (s.setRun r { s.run r with pc := .returned }, .ret (s.run r).errs)
    | _ => (s, .bad)
  | .gcTry r =>
    -- `if m.updateRetention != 0 { ctx, done := m.locks.TryLock(ctx, "garbage-collection")`
    match (s.run r).pc with
    | .drained =>
      if env.gc r = true ∧ s.pc r env.gcInst = .idle then
        let s1 := s.setRun r { s.run r with pc := .inGc }
        if (env.upd env.gcInst).name ∈ s.locks.held then
          (s1.setPc r env.gcInst (.skipped none), .lock false false)
        else
          let l := (Locks.acquire s.locks (env.upd env.gcInst).name r).1
          let g := s.locks.issued
          if dead s r then
            ({ s1 with locks := l }.setPc r env.gcInst (.skipped (some g)), .lock true false)
          else
            ({ s1 with locks := l }.setPc r env.gcInst (.locked g), .lock true true)
      else (s, .bad)
    | _ => (s, .bad)
  | .gc r =>
    -- `m.store.GC(ctx, m.updateRetention)`, only with the lock and a live context
    match (s.run r).pc with
    | .inGc =>
      match s.pc r env.gcInst with
      | .locked g => (s.setPc r env.gcInst (.skipped (some g)), .gcCall (env.keep r))
      | _ => (s, .bad)
    | _ => (s, .bad)
  | .gcDone r =>
    match (s.run r).pc with
    | .inGc =>
      match s.pc r env.gcInst with
      | .skipped g => (gcFinish env s r g, .done false)
      | .locked g => if dead s r then (gcFinish env s r (some g), .done false) else (s, .bad)
      | _ => (s, .bad)
    | _ => (s, .bad)
  | .cancel r => ({ s with locks := (Locks.step s.locks (.cancelParent r)).1 }, .ok)
  | .tryLock r i =>
    if i = env.gcInst then (s, .bad) else
    match s.pc r i with
    | .idle =>
      if i ∈ env.toRun r ∧ (s.run r).tried.length < (s.run r).launchedN then
        let rs := s.run r
        let s1 := s.setRun r { rs with tried := i :: rs.tried }
        if (env.upd i).name ∈ s.locks.held then
          (s1.setPc r i (.skipped none), .lock false false)
        else
          let l := (Locks.acquire s.locks (env.upd i).name r).1
          let g := s.locks.issued
          if dead s r then
            ({ s1 with locks := l }.setPc r i (.skipped (some g)), .lock true false)
          else
            ({ s1 with locks := l }.setPc r i (.locked g), .lock true true)
      else (s, .bad)
    | _ => (s, .bad)
  | .getOps r i =>
    if i = env.gcInst then (s, .bad) else
    match s.pc r i with
    | .locked g =>
      let u := env.upd i
      if u.getOk (dead s r) then
        (s.setPc r i (.gotOps g (latestFp s.ops u.kind.uo u.name)), .getOps u.kind.uo u.name true)
      else
        (s.setPc r i (.finishing g 0 .getErr), .getOps u.kind.uo u.name false)
    | _ => (s, .bad)
  | .fetch r i =>
    if i = env.gcInst then (s, .bad) else
    match s.pc r i with
    | .gotOps g prev =>
      let u := env.upd i
      let o := u.fetch prev (dead s r)
      let enr := u.kind == .enrich
      -- `if vulnDB != nil { defer vulnDB.Close() }`, before the error is looked at
      let cl := u.closer prev (dead s r)
      let s0 := s.setBody r i (if cl then .opened else .absent)
      match o.1 with
      | .ok => (s0.setPc r i (.fetched g prev o.2), .fetch enr prev .ok o.2 cl)
      | .unchanged => (s0.setPc r i (.finishing g o.2 .unchanged), .fetch enr prev .unchanged o.2 cl)
      | .err => (s0.setPc r i (.finishing g o.2 .fetchErr), .fetch enr prev .err o.2 cl)
    | _ => (s, .bad)
  | .parse r i =>
    if i = env.gcInst then (s, .bad) else
    match s.pc r i with
    | .fetched g prev fp =>
      let u := env.upd i
      match u.parse (dead s r) with
      | some p => (s.setPc r i (.parsed g prev fp p), .parse u.kind true)
      | none => (s.setPc r i (.finishing g fp .parseErr), .parse u.kind false)
    | _ => (s, .bad)
  | .store r i =>
    if i = env.gcInst then (s, .bad) else
    match s.pc r i with
    | .parsed g _ fp p =>
      let u := env.upd i
      let c := mkCall u fp p
      if u.storeOk (dead s r) then
        ({ s with ops := c.toOp :: s.ops, calls := ⟨r, i, c⟩ :: s.calls }.setPc r i
            (.finishing g fp (.stored c)), .store c true)
      else
        (s.setPc r i (.finishing g fp .storeErr), .store c false)
    | _ => (s, .bad)
  | .close r i =>
    -- the deferred `vulnDB.Close()`: runs when driveUpdater returns, before the status is recorded
    if i = env.gcInst then (s, .bad) else
    match s.pc r i with
    | .finishing _ _ _ =>
      if s.body r i = .opened then
        ({ s with closes := (r, i) :: s.closes }.setBody r i .closed, .ok)
      else (s, .bad)
    | _ => (s, .bad)
  | .status r i =>
    if i = env.gcInst then (s, .bad) else
    match s.pc r i with
    | .finishing g fp res =>
      -- the deferred calls run in reverse order: an open ReadCloser is closed first
      if s.body r i = .opened then (s, .bad) else
      let u := env.upd i
      ({ s with status := ⟨r, i, u.name, fp, res.failed⟩ :: s.status }.setPc r i (.recorded g res),
        .status u.name fp res.failed)
    | _ => (s, .bad)
  | .done r i =>
    if i = env.gcInst then (s, .bad) else
    match s.pc r i with
    | .skipped g => (finish s r i g none, .done false)
    | .locked g =>
      -- `if err := ctx.Err(); err != nil { return }`: the worker saw the cancellation after TryLock
      if dead s r then (finish s r i (some g) none, .done false) else (s, .bad)
    | .recorded g res => (finish s r i (some g) (some res), .done res.failed)
    | _ => (s, .bad)

/-- `driveUpdater` run on its own: the previous fingerprint it reads is `prev`;
    `d0 … d3` say whether the context is already cancelled at the
    GetUpdateOperations / Fetch / Parse / store call.  Returns how the call
    ended and the value of `newFP` handed to RecordUpdaterStatus. -/
def drive (u : Upd) (prev : Fp) (d0 d1 d2 d3 : Bool) : Res × Fp :=
  if u.getOk d0 then
    match u.fetch prev d1 with
    | (.err, fp) => (.fetchErr, fp)
    | (.unchanged, fp) => (.unchanged, fp)
    | (.ok, fp) =>
      match u.parse d2 with
      | none => (.parseErr, fp)
      | some p => if u.storeOk d3 then (.stored (mkCall u fp p), fp) else (.storeErr, fp)
  else (.getErr, 0)

/-- Store calls made by the worker of (run, instance), newest first. -/
def callsOf (s : State) (r i : Nat) : List Call :=
  (s.calls.filter fun c => c.run == r && c.inst == i).map (·.call)

/-- RecordUpdaterStatus calls made by the worker of (run, instance). -/
def statusOf (s : State) (r i : Nat) : List StatusRec :=
  s.status.filter fun x => x.run == r && x.inst == i

/-- Number of Close() calls on the ReadCloser of the worker of (run, instance). -/
def closesOf (s : State) (r i : Nat) : Nat :=
  s.closes.countP fun x => x.1 == r && x.2 == i

/-! ### From factories to `toRun` (the first half of `Run`) -/

/-- `"rhel-all"`, the name of the stub updater. -/
def rhelAll : Nat := 0

/-- One entry of `m.factories`. -/
structure Fac where
  ok : Bool                 -- factory.UpdaterSet(ctx) succeeded
  members : List Nat        -- set.Updaters()
deriving DecidableEq, Repr

/-- `stubUpdaterInSet` -/
def isStub (name : Nat → Nat) (f : Fac) : Bool :=
  match f.members with
  | [i] => name i == rhelAll
  | _ => false

/-- The updaters `Run` will launch: members of every factory that could be
    constructed and is not a stub set, minus those whose Configure failed. -/
def plan (name : Nat → Nat) (cfgOk : Nat → Bool) (facs : List Fac) : List Nat :=
  ((facs.filter fun f => f.ok && !isStub name f).flatMap (·.members)).filter cfgOk

/-- Number of RecordUpdaterSetStatus calls. -/
def planStubs (name : Nat → Nat) (facs : List Fac) : Nat :=
  (facs.filter fun f => f.ok && isStub name f).length

/-! ### The scripted updaters the correspondence harness uses -/

structure Script where
  name : Nat
  kind : Kind
  cfg : Nat            -- 0 not Configurable, 1 Configure succeeds, 2 Configure fails
  getOk : Bool
  fmode : Nat          -- 0 Unchanged iff prev = src; 1 always error; 2 always Unchanged (and hands back src); 3 always changed
  src : Fp             -- fingerprint of the source's current content
  parseOk : Bool
  vulns : List Nat
  deleted : List Nat
  storeOk : Bool
  ctxAware : Bool      -- every step fails once the context is cancelled
  cmode : Nat          -- Fetch returns a ReadCloser: 0 iff it succeeds, 1 always (also next to an error), 2 never
deriving DecidableEq, Repr

def Script.fetch (sc : Script) (prev : Fp) (d : Bool) : FetchRes × Fp :=
  if sc.ctxAware && d then (.err, 0)
  else if sc.fmode = 1 then (.err, sc.src)
  else if sc.fmode = 2 then (.unchanged, sc.src)
  else if sc.fmode = 3 then (.ok, sc.src)
  else if prev = sc.src then (.unchanged, prev)
  else (.ok, sc.src)

def Script.closer (sc : Script) (prev : Fp) (d : Bool) : Bool :=
  if sc.cmode = 1 then true
  else if sc.cmode = 2 then false
  else (sc.fetch prev d).1 == .ok

def Script.toUpd (sc : Script) : Upd :=
  { name := sc.name, kind := sc.kind,
    getOk := fun d => sc.getOk && !(sc.ctxAware && d),
    fetch := sc.fetch,
    closer := sc.closer,
    parse := fun d => if sc.parseOk && !(sc.ctxAware && d) then some ⟨sc.vulns, sc.deleted⟩ else none,
    storeOk := fun d => sc.storeOk && !(sc.ctxAware && d) }

end ClairModel.Manager
