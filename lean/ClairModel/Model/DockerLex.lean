/-
  C06 — model of the Dockerfile lexer, rhel/dockerfile/lex.go (`lexer.Next`
  driven to the first EOF or Error item: `start`, `lexComment`,
  `lexInstruction`, `consumeWhitespace`, `collectLine`, `peek`), over the
  runes `bufio.Reader.ReadRune` yields for the bytes of the file.
  Core Lean only; the main loop is written without fuel (every item consumes
  at least one rune of the input).

  `unicode.IsSpace` is modelled completely.  `unicode.IsLetter` is modelled for
  code points below U+0100 and for the few others the correspondence harness
  uses (`knownLetters`); the harness only sends inputs whose runes are inside
  that alphabet.
-/
namespace ClairModel.DockerLex

abbrev Bytes := List UInt8

structure Rune where
  cp : Nat
  sz : Nat
  deriving Repr, DecidableEq

def isCont (b : UInt8) : Bool := 0x80 ≤ b && b ≤ 0xBF

def bad : Rune := ⟨0xFFFD, 1⟩

/-- the rune at the head of `b0 :: rest`: invalid or truncated sequences give
    U+FFFD and consume one byte -/
def decode1 (b0 : UInt8) (rest : Bytes) : Rune :=
  if b0 < 0x80 then ⟨b0.toNat, 1⟩
  else if b0 < 0xC2 then bad
  else if b0 ≤ 0xDF then
    match rest with
    | b1 :: _ => if isCont b1 then ⟨(b0.toNat - 0xC0) * 64 + (b1.toNat - 0x80), 2⟩ else bad
    | [] => bad
  else if b0 ≤ 0xEF then
    match rest with
    | b1 :: b2 :: _ =>
      let lo : UInt8 := if b0 == 0xE0 then 0xA0 else 0x80
      let hi : UInt8 := if b0 == 0xED then 0x9F else 0xBF
      if lo ≤ b1 && b1 ≤ hi && isCont b2 then
        ⟨(b0.toNat - 0xE0) * 4096 + (b1.toNat - 0x80) * 64 + (b2.toNat - 0x80), 3⟩
      else bad
    | _ => bad
  else if b0 ≤ 0xF4 then
    match rest with
    | b1 :: b2 :: b3 :: _ =>
      let lo : UInt8 := if b0 == 0xF0 then 0x90 else 0x80
      let hi : UInt8 := if b0 == 0xF4 then 0x8F else 0xBF
      if lo ≤ b1 && b1 ≤ hi && isCont b2 && isCont b3 then
        ⟨(b0.toNat - 0xF0) * 262144 + (b1.toNat - 0x80) * 4096 + (b2.toNat - 0x80) * 64 + (b3.toNat - 0x80), 4⟩
      else bad
    | _ => bad
  else bad

/-- the runes `ReadRune` yields for the bytes -/
def decodeAll : Bytes → List Rune
  | [] => []
  | b0 :: rest => decode1 b0 rest :: decodeAll (rest.drop ((decode1 b0 rest).sz - 1))
termination_by l => l.length
decreasing_by simp only [List.length_drop, List.length_cons]; omega

/-- bytes `strings.Builder.WriteRune` writes for the code point -/
def encLen (cp : Nat) : Nat :=
  if cp < 0x80 then 1 else if cp < 0x800 then 2
  else if (0xD800 ≤ cp && cp ≤ 0xDFFF) || cp > 0x10FFFF then 3
  else if cp < 0x10000 then 3 else 4

def encode (cp : Nat) : Bytes :=
  if cp < 0x80 then [cp.toUInt8]
  else if cp < 0x800 then [(0xC0 + cp / 64).toUInt8, (0x80 + cp % 64).toUInt8]
  else if (0xD800 ≤ cp && cp ≤ 0xDFFF) || cp > 0x10FFFF then [0xEF, 0xBF, 0xBD]
  else if cp < 0x10000 then [(0xE0 + cp / 4096).toUInt8, (0x80 + cp / 64 % 64).toUInt8, (0x80 + cp % 64).toUInt8]
  else [(0xF0 + cp / 262144).toUInt8, (0x80 + cp / 4096 % 64).toUInt8, (0x80 + cp / 64 % 64).toUInt8, (0x80 + cp % 64).toUInt8]

/-- `unicode.IsSpace` -/
def isSpace (cp : Nat) : Bool :=
  (9 ≤ cp && cp ≤ 13) || cp == 32 || cp == 0x85 || cp == 0xA0 || cp == 0x1680 ||
  (0x2000 ≤ cp && cp ≤ 0x200A) || cp == 0x2028 || cp == 0x2029 || cp == 0x202F || cp == 0x205F || cp == 0x3000

/-- letters above Latin-1 the harness may use -/
def knownLetters : List Nat := [0x3A9, 0x416, 0x4E2D]

/-- `unicode.IsLetter` on the harness alphabet -/
def isLetter (cp : Nat) : Bool :=
  (65 ≤ cp && cp ≤ 90) || (97 ≤ cp && cp ≤ 122) || cp == 0xAA || cp == 0xB5 || cp == 0xBA ||
  (0xC0 ≤ cp && cp ≤ 0xD6) || (0xD8 ≤ cp && cp ≤ 0xF6) || (0xF8 ≤ cp && cp ≤ 0xFF) || knownLetters.contains cp

/-- `consumeWhitespace` -/
def consumeWS : List Rune → Nat → List Rune × Nat
  | [], pos => ([], pos)
  | r :: rs, pos => if isSpace r.cp then consumeWS rs (pos + r.sz) else (r :: rs, pos)

structure CL where
  esc : Bool := false
  inComment : Bool := false
  started : Bool := false
  /-- the code points written to the strings.Builder, last one first -/
  sb : List Nat := []
  pos : Nat := 0
  deriving Repr

/-- `collectLine`: the builder, the position and the runes left unread -/
def collectLine (escc : Nat) : List Rune → CL → CL × List Rune
  | [], s => (s, [])
  | r :: rs, s =>
    if s.inComment && r.cp == 10 then collectLine escc rs { s with inComment := false, started := false, pos := s.pos + r.sz }
    else if s.inComment then collectLine escc rs { s with pos := s.pos + r.sz }
    else if s.esc && r.cp == 13 then collectLine escc rs { s with pos := s.pos + r.sz }
    else if s.esc && r.cp == 10 then collectLine escc rs { s with esc := false, started := false, pos := s.pos + r.sz }
    else if s.esc then collectLine escc rs { s with esc := false, sb := r.cp :: escc :: s.sb, pos := s.pos + encLen escc + r.sz }
    else if r.cp == escc then collectLine escc rs { s with esc := true, started := true, pos := s.pos + r.sz }
    else if r.cp == 10 then (s, r :: rs)
    else if !s.started && r.cp == 35 then collectLine escc rs { s with inComment := true, pos := s.pos + r.sz }
    else if !s.started then collectLine escc rs { s with started := !isSpace r.cp, sb := r.cp :: s.sb, pos := s.pos + r.sz }
    else collectLine escc rs { s with sb := r.cp :: s.sb, pos := s.pos + r.sz }

inductive Kind | error | comment | instruction | label | arg | env | eof
  deriving Repr, DecidableEq

structure Item where
  kind : Kind
  val : List Nat
  pos : Nat
  deriving Repr, DecidableEq

def lower (cp : Nat) : Nat := if 65 ≤ cp && cp ≤ 90 then cp + 32 else cp

/-- `strings.EqualFold(cmd, word)` for a lower-case ASCII word none of whose
    letters has a non-ASCII case variant -/
def equalFold (cmd : List Nat) (word : List Nat) : Bool := cmd.map lower == word

def trimLeft (l : List Nat) : List Nat := l.dropWhile isSpace
def trimSpace (l : List Nat) : List Nat := (trimLeft (trimLeft l).reverse).reverse

/-- the item `lexInstruction` emits for the collected line, `none` when the
    line has no white space ("unexpected line") -/
def instructionItem (ln : List Nat) (pos : Nat) : Option Item :=
  let cmd := ln.takeWhile (fun c => !isSpace c)
  if cmd.length == ln.length then none
  else
    let rest := trimSpace (ln.drop cmd.length)
    if equalFold cmd [97, 114, 103] then some ⟨.arg, rest, pos⟩
    else if equalFold cmd [101, 110, 118] then some ⟨.env, rest, pos⟩
    else if equalFold cmd [108, 97, 98, 101, 108] then some ⟨.label, rest, pos⟩
    else some ⟨.instruction, ln, pos⟩

theorem consumeWS_length (rs : List Rune) (pos : Nat) : (consumeWS rs pos).1.length ≤ rs.length := by
  induction rs generalizing pos with
  | nil => simp [consumeWS]
  | cons r rs ih =>
    unfold consumeWS
    split
    · have := ih (pos + r.sz); simp; omega
    · simp

theorem collectLine_length (escc : Nat) (rs : List Rune) (s : CL) : (collectLine escc rs s).2.length ≤ rs.length := by
  induction rs generalizing s with
  | nil => simp [collectLine]
  | cons r rs ih =>
    unfold collectLine
    repeat' split
    all_goals first
      | (simp only [List.length_cons]; exact Nat.le_succ_of_le (ih _))
      | simp

/-- a first rune that is not a newline is consumed when the line does not
    start inside a comment -/
theorem collectLine_first (escc : Nat) (r : Rune) (rs : List Rune) (s : CL) (h10 : r.cp ≠ 10) :
    (collectLine escc (r :: rs) s).2.length ≤ rs.length := by
  unfold collectLine
  repeat' split
  all_goals first
    | exact collectLine_length _ _ _
    | (rename_i h; simp at h; omega)
    | simp_all

/-- What `Next` returns when a state function reports an error: `lexer.error`
    puts the Error item into the channel and returns the nil state, and the loop
    of `Next` (`for l.state != nil`) ends without looking at the channel again,
    so the caller gets the EOF item of the fall-through `return`.  (The error
    is lost; the parser ends as if the file ended there.) -/
def lostError : Item := ⟨.eof, [], 0⟩

/-- `lexer.Next` called until the first EOF or Error item (inclusive) -/
def lexAll (escc : Nat) (rs : List Rune) (pos : Nat) : List Item :=
  match _hw : consumeWS rs pos with
  | ([], _) => [⟨.eof, [], 0⟩]
  | (r :: rest, pos1) =>
    if r.cp == 35 then
      -- lexComment: the marker is read without counting its size
      match _hc : consumeWS rest pos1 with
      | (rs2, pos2) =>
        match _hl : collectLine escc rs2 { pos := pos2 } with
        | (s, rs3) => ⟨.comment, s.sb.reverse, s.pos⟩ :: lexAll escc rs3 s.pos
    else if _hlet : isLetter r.cp then
      match _hl : collectLine escc (r :: rest) { pos := pos1 } with
      | (s, rs2) =>
        match instructionItem s.sb.reverse s.pos with
        | none => [lostError]
        | some it => it :: lexAll escc rs2 s.pos
    else [lostError]
termination_by rs.length
decreasing_by
  · have h1 := consumeWS_length rs pos
    rw [_hw] at h1
    have h2 := consumeWS_length rest pos1
    rw [_hc] at h2
    have h3 := collectLine_length escc rs2 { pos := pos2 }
    rw [_hl] at h3
    simp only [List.length_cons] at h1 h2 h3
    omega
  · have h1 := consumeWS_length rs pos
    rw [_hw] at h1
    have h10 : r.cp ≠ 10 := by
      intro h; rw [h] at _hlet; exact absurd _hlet (by decide)
    have h3 := collectLine_first escc r rest { pos := pos1 } h10
    rw [_hl] at h3
    simp only [List.length_cons] at h1 h3
    omega

def lex (escc : Nat) (b : Bytes) : List Item := lexAll escc (decodeAll b) 0

end ClairModel.DockerLex
