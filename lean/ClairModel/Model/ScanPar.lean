/-
  `LayerScanner.Scan` with any number of scanner goroutines: every goroutine
  runs `scanLayer` for one (layer, scanner) pair; its store calls are atomic
  (one SQL statement / transaction each) and interleave arbitrarily with the
  calls of the other goroutines. A call may succeed, fail without effect, or
  take effect and fail (lost reply); after a failure the goroutine is finished
  (errgroup cancels the others, which makes *their* next call fail: also a
  failure of a call, so it needs no separate transition).

  The per-goroutine program is the one of `Indexer.scanLayer`:
      LayerScanned ; Scan ; Index* (one call per non-nil result slice) ; SetLayerScanned
  Core Lean only.
-/
import ClairModel.Model.Indexer

namespace ClairModel.ScanPar
open ClairModel.Indexer

/-- Where a scanner goroutine is in `scanLayer`. -/
inductive Pc
  | start                 -- before LayerScanned
  | scanning              -- LayerScanned said no; before the scanner runs
  | storing (k : Nat)     -- scanner done; the first k result slices are stored
  | marking               -- everything stored; before SetLayerScanned
  | finished              -- returned (ok, already scanned, or error)
  deriving DecidableEq, Repr

structure Thread where
  l : Layer
  s : Scanner
  pc : Pc
  deriving Repr

structure PState where
  st : Store
  ths : List Thread

/-- How the call of one step ends. -/
inductive Outcome | ok | fail | commitFail
  deriving DecidableEq, Repr

/-- Goroutine `i` makes its next call, which ends as `out`. -/
structure POp where
  i : Nat
  out : Outcome

/-- One atomic step of one goroutine. -/
def tstep (sem : Sem) (st : Store) (t : Thread) (out : Outcome) : Store × Thread :=
  match t.pc with
  | .start =>
    match out with
    | .ok => if st.layerScanned t.l t.s then (st, { t with pc := .finished }) else (st, { t with pc := .scanning })
    | _ => (st, { t with pc := .finished })
  | .scanning =>
    match out with
    | .ok => (st, { t with pc := .storing 0 })
    | _ => (st, { t with pc := .finished })
  | .storing k =>
    match (toStore sem t.s t.l)[k]? with
    | none => (st, { t with pc := .marking })   -- no call: all slices stored
    | some g =>
      match out with
      | .ok => (st.insertRows t.l t.s g, { t with pc := .storing (k + 1) })
      | .fail => (st, { t with pc := .finished })
      | .commitFail => (st.insertRows t.l t.s g, { t with pc := .finished })
  | .marking =>
    match out with
    | .ok => (st.setLayerScanned t.l t.s, { t with pc := .finished })
    | .fail => (st, { t with pc := .finished })
    | .commitFail => (st.setLayerScanned t.l t.s, { t with pc := .finished })
  | .finished => (st, t)

def step (sem : Sem) (ps : PState) (op : POp) : PState × Unit :=
  match ps.ths[op.i]? with
  | none => (ps, ())
  | some t =>
    match tstep sem ps.st t op.out with
    | (st', t') => ({ st := st', ths := ps.ths.set op.i t' }, ())

/-- All goroutines of one `Scan` call at their start. -/
def spawn (st : Store) (ps : List (Layer × Scanner)) : PState :=
  { st := st, ths := ps.map fun p => { l := p.1, s := p.2, pc := .start } }

end ClairModel.ScanPar
