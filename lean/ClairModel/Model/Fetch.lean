/-
  Model of the layer fetcher (property C09).

    libindex/fetcher.go              fetchUnlinkedFile, fetchInto, RealizeDescriptions, Realize, Close
    internal/zreader/zreader.go      detect / detectCompression
    internal/httputil/responsechecker.go   CheckResponse
    digest.go                        ParseDigest (model shared with C17: Codec.digestParse)
    layer.go                         Layer.Init (media type switch)
    internal/wart                    LayersToDescriptions (deprecated Realize)

  The table-like parts (magic headers and detector order, accepted status,
  content-type fix-up set and table, content-type -> compression switch, media
  types of Layer.Init) are not written here: they come from `Gen/Fetch.lean`,
  regenerated from the sources on every run.

  What is a parameter (`Params`): the hash function, the gzip/zstd decoders,
  `tarfs.New`'s verdict on the payload and `url.ParseRequestURI`'s verdict on
  the URI.  The response is what the HTTP transport delivers to the reader of
  the body: status, content type, the bytes, and the terminal condition after
  them (`Term`).

  `fetchUnlinked` transcribes `fetchUnlinkedFile` as the sequence of its
  effects (`Eff`) and its result.  It models the code *after* the `fix:`
  commit that reads the response to its end before comparing the checksum;
  `fetchUnlinkedNoDrain` is the code before it, kept to state the defect.
  Core Lean only.
-/
import ClairModel.Gen.Fetch
import ClairModel.Model.Codec

namespace ClairModel.Fetch
open ClairModel ClairModel.Bytes ClairModel.Codec

/-! ### compression kinds and sniffing (zreader) -/

/-- `zreader.Compression`; `other` stands for a constant this model does not know
    (the theorems over the generated tables show it does not occur). -/
inductive Kind where
  | gzip | zstd | bzip2 | none | other
deriving DecidableEq, Repr

def Kind.ofName (n : String) : Kind :=
  if n = "KindGzip" then .gzip
  else if n = "KindZstd" then .zstd
  else if n = "KindBzip2" then .bzip2
  else if n = "KindNone" then .none
  else .other

abbrev DetSpec := String × List Nat × Nat × Option (Nat × Nat)

/-- One iteration of the loop in `detectCompression`: the slice is long enough
    for the mask and the (all-ones masked) prefix passes `Check`. -/
def detFires (d : DetSpec) (b : Bytes) : Bool :=
  decide (d.2.2.1 ≤ b.length) && (b.take d.2.1.length == d.2.1) &&
    match d.2.2.2 with
    | none => true
    | some (lo, hi) => decide (lo ≤ b.getD d.2.1.length 0) && decide (b.getD d.2.1.length 0 ≤ hi)

/-- `zreader.detectCompression`: first detector that fires, else the default kind. -/
def detectCompression (b : Bytes) : Kind :=
  match Gen.Fetch.detectors.find? (detFires · b) with
  | some d => Kind.ofName d.1
  | none => Kind.ofName Gen.Fetch.defaultKind

/-- Terminal condition of the response body as the reader sees it. -/
inductive Term where
  | eof      -- io.EOF
  | short    -- io.ErrUnexpectedEOF (body shorter than its framing promised)
  | reset    -- any other read error
  | stall    -- nothing more arrives; the context's deadline ends the read
deriving DecidableEq, Repr

/-- `zreader.detect`: `Peek(maxSz)`; with fewer bytes than that before a clean
    end the stream is passed through as uncompressed without detection; any
    other error while peeking is returned. `none` = error. -/
def detect (body : Bytes) (term : Term) : Option Kind :=
  if Gen.Fetch.maxSz ≤ body.length then some (detectCompression (body.take Gen.Fetch.maxSz))
  else if term = .eof then some .none
  else none

/-! ### content type (fetcher) -/

def isFixup (ct : String) : Bool := Gen.Fetch.fixupTypes.contains ct

/-- The inner `switch kind` of the fix-up block; `none` = "disallowed compression kind". -/
def fixupFor (k : Kind) : Option String :=
  (Gen.Fetch.fixupTable.find? (fun p => Kind.ofName p.1 == k)).map (·.2)

/-- The content type after the optional fix-up. -/
def effectiveCT (ct : String) (k : Kind) : Option String :=
  if isFixup ct then fixupFor k else some ct

/-- `strings.HasSuffix`. -/
def hasSuffix (s suf : String) : Bool := suf.toList.isSuffixOf s.toList

def caseMatches (c : Bool × String × String) (ct : String) : Bool :=
  if c.1 then hasSuffix ct c.2.1 else ct == c.2.1

/-- The tagless switch assigning `wantZ`; `none` = "unknown content-type". -/
def wantKind (ct : String) : Option Kind :=
  (Gen.Fetch.ctCases.find? (caseMatches · ct)).map (fun c => Kind.ofName c.2.2)

/-! ### parameters, requests -/

structure Params where
  /-- algorithm name, data ↦ checksum (`digest.Hash()` fed through the TeeReader, then `Sum`) -/
  hash : Bytes → Bytes → Bytes
  /-- the gzip / zstd reader run to its end over the delivered bytes followed by
      the terminal condition; `none` = `NewReader` or the copy returned an error -/
  unz : Kind → Bytes → Term → Option Bytes
  /-- `tarfs.New` accepts the payload -/
  tarOK : Bytes → Bool
  /-- `url.ParseRequestURI` accepts the URI -/
  uriOK : Bytes → Bool

structure Resp where
  refused : Bool := false     -- `wc.Do` returns an error
  status : Nat := 200
  ctype : String := ""
  body : Bytes := []
  term : Term := .eof
  /-- (environment of the download) how many bytes the spool file takes before a
      write fails - ENOSPC, EFBIG, EIO; `none` = no limit -/
  disk : Option Nat := none
deriving Repr

/-- What `io.Copy(buf, zr)` writes to the spool file; `none` = error. -/
def decompress (P : Params) (k : Kind) (body : Bytes) (term : Term) : Option Bytes :=
  match k with
  | .none => if term = .eof then some body else none
  | .gzip => P.unz .gzip body term
  | .zstd => P.unz .zstd body term
  | _ => none

/-- The spool file takes the payload. -/
def fits (limit : Option Nat) (payload : Bytes) : Bool :=
  match limit with
  | none => true
  | some n => decide (payload.length ≤ n)

/-- `io.Copy(buf, zr)` followed by `buf.Flush()` on the spool file: the
    decompressed payload, if every write succeeded; `none` = error from the
    decoder, the transport under it, or the file. -/
def spool (P : Params) (k : Kind) (r : Resp) : Option Bytes :=
  match decompress P k r.body r.term with
  | none => none
  | some p => if fits r.disk p then some p else none

structure Entry where
  key : Bytes
  payload : Bytes
  count : Nat
deriving DecidableEq, Repr

/-- The arena's `sync.Map`: digest string ↦ reference-counted spool file. -/
abbrev Arena := List Entry

def Arena.lookup (a : Arena) (key : Bytes) : Option Entry := a.find? (fun e => e.key == key)

inductive Eff where
  | lookup (hit : Bool)
  | request
  | status (ok : Bool)
  | detect (k : Option Kind)
  | ctype (ct : Option String)
  | want (k : Option Kind)
  | copy (ok : Bool)
  | drain (ok : Bool)
  | compare (ok : Bool)
  | publish (key payload : Bytes)
deriving DecidableEq, Repr

structure FileResult where
  effs : List Eff
  out : Option Bytes      -- content of the file of the `rc` returned
deriving Repr

/-- `fetchUnlinkedFile`. `drain` selects the code with (`true`) or without the
    `io.Copy(io.Discard, tr)` that reads the response to its end, so that the
    fixed and the unfixed code share one text. `hashed` is what the TeeReader
    has written into the hash when `Sum` is called. -/
def fetchCoreH (P : Params) (drain : Bool) (arena : Arena) (key uri : Bytes) (r : Resp) (hashed : Bytes) : FileResult :=
  if uri = [] then ⟨[], none⟩ else
  match digestParse key with
  | none => ⟨[], none⟩
  | some dg =>
  if !P.uriOK uri then ⟨[], none⟩ else
  match arena.lookup key with
  | some e => ⟨[.lookup true], some e.payload⟩
  | none =>
  if r.refused then ⟨[.lookup false, .request], none⟩ else
  if !Gen.Fetch.acceptStatus.contains r.status then ⟨[.lookup false, .request, .status false], none⟩ else
  match detect r.body r.term with
  | none => ⟨[.lookup false, .request, .status true, .detect none], none⟩
  | some k =>
  match effectiveCT r.ctype k with
  | none => ⟨[.lookup false, .request, .status true, .detect (some k), .ctype none], none⟩
  | some ct =>
  match wantKind ct with
  | none => ⟨[.lookup false, .request, .status true, .detect (some k), .ctype (some ct), .want none], none⟩
  | some w =>
  if k ≠ w then ⟨[.lookup false, .request, .status true, .detect (some k), .ctype (some ct), .want (some w)], none⟩ else
  match spool P k r with
  | none => ⟨[.lookup false, .request, .status true, .detect (some k), .ctype (some ct), .want (some w), .copy false], none⟩
  | some payload =>
  if drain && r.term ≠ .eof then
    ⟨[.lookup false, .request, .status true, .detect (some k), .ctype (some ct), .want (some w), .copy true, .drain false], none⟩ else
  if P.hash dg.algo hashed ≠ dg.checksum then
    ⟨[.lookup false, .request, .status true, .detect (some k), .ctype (some ct), .want (some w), .copy true, .drain true, .compare false], none⟩ else
  ⟨[.lookup false, .request, .status true, .detect (some k), .ctype (some ct), .want (some w), .copy true, .drain true,
    .compare true, .publish key payload], some payload⟩

/-- Number of requests made on behalf of one `fetchUnlinkedFile`. -/
def FileResult.requests (fr : FileResult) : Nat := fr.effs.count .request

/-- With the response read to its end, everything delivered has gone through the
    TeeReader (`Stream` below: `drain_covers_stream`). -/
def fetchCore (P : Params) (drain : Bool) (arena : Arena) (key uri : Bytes) (r : Resp) : FileResult :=
  fetchCoreH P drain arena key uri r r.body

/-- The code as it is now (reads the response to its end before the comparison). -/
def fetchUnlinked (P : Params) := fetchCore P true

/-- The code before the `fix:` commit: the checksum is compared as soon as the
    decompressor reports the end of *its* input. -/
def fetchUnlinkedNoDrain (P : Params) := fetchCore P false

/-! ### the reader stack: transport pieces, TeeReader, consumers with arbitrary read sizes -/

/-- The body as the transport hands it out: `chunks` are the successive pieces
    (a `Read` returns at most the rest of the current piece), then `term`. -/
structure Stream where
  chunks : List Bytes
  term : Term
deriving Repr

def Stream.bytes (s : Stream) : Bytes := s.chunks.flatten

/-- `io.TeeReader(resp.Body, vh)`: what is still to come, and what has been
    written into the hash so far. -/
structure Tee where
  rest : List Bytes
  hashed : Bytes
deriving Repr

/-- One `Read` with a buffer of `n + 1` bytes: at most the rest of the current
    piece; whatever is returned is written into the hash. -/
def Tee.read (t : Tee) (n : Nat) : Bytes × Tee :=
  match t.rest with
  | [] => ([], t)
  | c :: cs =>
    (c.take (n + 1), ⟨if c.drop (n + 1) = [] then cs else c.drop (n + 1) :: cs, t.hashed ++ c.take (n + 1)⟩)

/-- A consumer (bufio's `Peek`, a decompressor) issuing reads of the given sizes. -/
def Tee.readMany (t : Tee) : List Nat → Bytes × Tee
  | [] => ([], t)
  | n :: ns =>
    let (b, t') := t.read n
    let (bs, t'') := t'.readMany ns
    (b ++ bs, t'')

/-- `io.Copy(io.Discard, tr)`: 8 KiB reads until the transport has nothing more. -/
def Tee.drainFuel : Nat → Tee → Tee
  | 0, t => t
  | fuel + 1, t => if t.rest = [] then t else Tee.drainFuel fuel (t.read 8191).2

def Tee.size (t : Tee) : Nat := t.rest.flatten.length + t.rest.length

def Tee.drain (t : Tee) : Tee := Tee.drainFuel t.size t

/-- The fetch over a transport stream: a consumer reads with the sizes `ns`
    (whatever the sniffing and the decompressor do), the remainder is drained
    (in the code with the fix), and the checksum is taken of what went through
    the TeeReader. -/
def fetchStream (P : Params) (drain : Bool) (arena : Arena) (key uri : Bytes) (r : Resp) (s : Stream) (ns : List Nat) : FileResult :=
  let t := (Tee.readMany ⟨s.chunks, []⟩ ns).2
  let t := if drain then t.drain else t
  fetchCoreH P drain arena key uri { r with body := s.bytes, term := s.term } t.hashed

/-! ### fetchInto / RealizeDescriptions / Close: the arena across calls -/

/-- What a scanner can see of a realized layer. -/
inductive View where
  | tar (payload : Bytes)   -- `Layer.Reader()` yields these bytes, `Layer.FS()` is tarfs over them
  | dir                      -- `os.DirFS(desc.URI)`, no reader
deriving DecidableEq, Repr

/-- `Layer.Init` on the spool file. -/
def initLayer (P : Params) (mediaType : String) (payload : Bytes) : Option View :=
  if Gen.Fetch.tarMediaTypes.contains mediaType then
    (if P.tarOK payload then some (.tar payload) else none)
  else if Gen.Fetch.dirMediaTypes.contains mediaType then some .dir
  else none

/-- `Layer.Init` called directly with a description: the digest must parse, and
    the filesystem media type needs a URI. -/
def layerInit (P : Params) (digest : Bytes) (uriEmpty : Bool) (mediaType : String) (payload : Bytes) : Option View :=
  match digestParse digest with
  | none => none
  | some _ =>
    if Gen.Fetch.tarMediaTypes.contains mediaType then
      (if P.tarOK payload then some (.tar payload) else none)
    else if Gen.Fetch.dirMediaTypes.contains mediaType then (if uriEmpty then none else some .dir)
    else none

/-- `rc.Ref()` (after the `Swap` for a fresh file): bump the entry or create it. -/
def Arena.ref : Arena → Bytes → Bytes → Arena
  | [], key, payload => [⟨key, payload, 1⟩]
  | e :: es, key, payload =>
    if e.key == key then { e with count := e.count + 1 } :: es else e :: Arena.ref es key payload

/-- `ref.Close()`: drop one reference; the entry goes at zero. -/
def Arena.unref : Arena → Bytes → Arena
  | [], _ => []
  | e :: es, key =>
    if e.key == key then (if e.count ≤ 1 then es else { e with count := e.count - 1 } :: es)
    else e :: Arena.unref es key

structure Req where
  legacy : Bool := false      -- through the deprecated `Realize([]*Layer)`
  digest : Bytes
  uri : Bytes
  mediaType : String
  resp : Resp
deriving Repr

/-- `wart.LayersToDescriptions`: the digest string is `Hash.String()` (canonical,
    empty for a zero Digest) and the media type is fixed. -/
def Req.key (rq : Req) : Bytes :=
  if rq.legacy then
    match digestParse rq.digest with
    | some d => digestRepr d
    | none => []
  else rq.digest

def Req.mt (rq : Req) : String := if rq.legacy then Gen.Fetch.legacyMediaType else rq.mediaType

/-- `fetchInto` for one layer: arena afterwards and the view, `none` = error. -/
def fetchInto (P : Params) (a : Arena) (rq : Req) : Arena × Option View :=
  match (fetchUnlinked P a rq.key rq.uri rq.resp).out with
  | none => (a, none)
  | some payload =>
    match initLayer P rq.mt payload with
    | none => ((a.ref rq.key payload).unref rq.key, none)
    | some v => (a.ref rq.key payload, some v)

/-- The layers of one `RealizeDescriptions` call, in order. Result: arena, keys
    referenced, views, and whether every layer succeeded. After a failure the
    errgroup's context is cancelled and the remaining layers end in error as
    well; the keys are those referenced up to the failure. -/
def realizeLoop (P : Params) : Arena → List Req → Arena × List Bytes × List View × Bool
  | a, [] => (a, [], [], true)
  | a, rq :: rest =>
    match fetchInto P a rq with
    | (a', none) => (a', [], [], false)
    | (a', some v) =>
      match realizeLoop P a' rest with
      | (a'', ks, vs, ok) => (a'', rq.key :: ks, v :: vs, ok)

def unrefAll (a : Arena) (ks : List Bytes) : Arena := ks.foldl Arena.unref a

/-- Requests made for the layers of one call, in order, up to and including
    the first layer that fails. -/
def realizeReqs (P : Params) : Arena → List Req → List Nat
  | _, [] => []
  | a, rq :: rest =>
    (fetchUnlinked P a rq.key rq.uri rq.resp).requests ::
      match fetchInto P a rq with
      | (_, none) => []
      | (a', some _) => realizeReqs P a' rest

structure State where
  arena : Arena := []
  open_ : List (Nat × List Bytes) := []     -- FetchProxy id ↦ keys it holds
deriving Repr

def init : State := {}

inductive Op where
  | realize (id : Nat) (reqs : List Req) (hold : Bool)
  | close (id : Nat)
deriving Repr

inductive Out where
  | err
  | ok (views : List View)
  | closed
deriving DecidableEq, Repr

def step (P : Params) (s : State) : Op → State × Out
  | .realize id reqs hold =>
    match realizeLoop P s.arena reqs with
    | (a, ks, _, false) => ({ s with arena := unrefAll a ks }, .err)
    | (a, ks, vs, true) =>
      if hold then ({ arena := a, open_ := (id, ks) :: s.open_ }, .ok vs)
      else ({ s with arena := unrefAll a ks }, .ok vs)
  | .close id =>
    match s.open_.find? (fun p => p.1 == id) with
    | none => (s, .closed)
    | some p => ({ arena := unrefAll s.arena p.2, open_ := s.open_.filter (fun q => !(q.1 == id)) }, .closed)

end ClairModel.Fetch
