/-
  Model of the fetch arena of libindex/fetcher.go:
    RemoteFetchArena.rc   sync.Map  digest -> *rc          `arena`
    rc {count, val}       reference counted temp file       `rc`
    singleflight.Group    one flight per digest             `flight`
    fetchInto's closure   one task per (user, layer)        `tasks`

  One transition = one atomic section of the code:
    spawn k        a user asks for layer k (a fetchInto closure is created)
    enter t        `a.sf.DoChan(key, try)`: join the flight of the key or start one
    fload k v      the flight: input validation (v = inputs valid) and `a.rc.Load(key)`
    fnet k ok      the flight: openTemp, HTTP exchange, copy, checksum (ok = the server
                   delivered the right bytes); the request carries the leader's context
    freq k         the same exchange in two parts, for a server that stalls: the request
    fbody k ok     reaches the server (freq), later the body arrives or the transfer fails
                   (fbody); a leader cancelled in between makes the transfer fail at once
    fstore k       the flight: newRc + `a.rc.Swap(key, rc)` (with the double-store branch)
    fend k         singleflight deletes the call and hands the result to every waiter
    cancel t       the context of a task blocked in the select is cancelled
    ref t          `c.Ref()`            (under the rc mutex)
    val t          `r.Val()` = Reopen   (under the rc mutex): private descriptor or errStale
    retry t        the errStale branch: close the stale ref, call do() again
    init t ok      `l.Init` (ok = the bytes are a tar archive); on failure the ref is closed
    close t        the closer stored in *cl: Layer.Close, f.Close, ref.Close -> rc.dec
    finalize i     (old code only) the garbage collector runs (*ref).Close on an abandoned ref
    ftmpfail k     the flight: `openTemp` fails (the arena directory is gone, the disk is full):
                   nothing was opened, no request is made
    aclose         `RemoteFetchArena.Close`: every key is deleted from the map; the rcs, their
                   counts and their files are left alone (whoever holds one still reads it and
                   closes the file with its last reference; `CompareAndDelete` then finds nothing)
  `dec` at zero runs `done()` (forget the key) and closes the file, all under the rc mutex.

  `fixed = true` is the code as it is now: `done` is CompareAndDelete(key, rc) and the stale
  ref is closed before the retry.  `fixed = false` is the code before the `fix:` commit:
  `done` deleted by key, whichever rc was stored, and the stale ref was abandoned to its
  finalizer.  It is kept to state the defect.
-/
namespace ClairModel.Arena

structure Rc where
  key : Nat := 0
  count : Nat := 0
  fileOpen : Bool := false
deriving DecidableEq, Repr

/-- Where a task is inside fetchInto's closure. -/
inductive Pc where
  | ready (k : Nat)          -- about to call DoChan (fresh, or after a stale retry)
  | waiting (k : Nat)        -- blocked in the select
  | got (k r : Nat)          -- received *rc `r` from the flight
  | reffed (k r : Nat)       -- Ref() done, count bumped
  | opened (k r : Nat)       -- Val() gave a private descriptor
  | staleRef (k r : Nat)     -- Val() said errStale; still owns the ref
  | holding (k r : Nat)      -- Init done, closer handed to the user
  | failed                   -- returned an error
  | closed                   -- the user closed the handle
deriving DecidableEq, Repr

inductive Phase where
  | begun
  | hit (r : Nat)
  | missed
  | requesting
  | fetched
  | stored (r : Nat)
  | failed
deriving DecidableEq, Repr

structure Flight where
  leader : Nat
  phase : Phase
  ctxDead : Bool
deriving DecidableEq, Repr

def upd {α : Type} (f : Nat → α) (k : Nat) (v : α) : Nat → α := fun x => if x = k then v else f x

structure State where
  nrc : Nat := 0                         -- rcs created so far; ids are 0 .. nrc-1
  rc : Nat → Rc := fun _ => {}
  arena : Nat → Option Nat := fun _ => none
  flight : Nat → Option Flight := fun _ => none
  tasks : List Pc := []
  leaked : List Nat := []                -- rc ids of abandoned (unclosed, unreachable) refs
  hits : Nat → Nat := fun _ => 0         -- requests that reached the server, per key
  orphans : List Nat := []               -- ghost: rcs whose flight ended with nobody waiting
  detached : Nat → Bool := fun _ => false -- ghost: rcs whose file was open when the arena was Closed
  stales : Nat → Nat := fun _ => 0       -- ghost: errStale outcomes seen by each task
  deaths : Nat → Nat := fun _ => 0       -- ghost: per key, files that have been closed
  skeys : List Nat := []                 -- ghost: the key each task was spawned for

def init : State := {}

inductive Op where
  | spawn (k : Nat)
  | enter (t : Nat)
  | fload (k : Nat) (valid : Bool)
  | fnet (k : Nat) (srvOk : Bool)
  | freq (k : Nat)
  | fbody (k : Nat) (srvOk : Bool)
  | fstore (k : Nat)
  | fend (k : Nat)
  | cancel (t : Nat)
  | ref (t : Nat)
  | val (t : Nat)
  | retry (t : Nat)
  | init (t : Nat) (ok : Bool)
  | close (t : Nat)
  | finalize (i : Nat)
  | query (k : Nat)
  | aclose
  | ftmpfail (k : Nat)
deriving DecidableEq, Repr

inductive Out where
  | spawned (t : Nat)
  | lead | join
  | hit | miss | invalid
  | fetched | neterr | requested
  | stored | double
  | ended (n : Nat) (ok : Bool)
  | cancelled | leaderCancelled | noeffect
  | refd | valOk | valStale | retried
  | held | initErr
  | closedOk | botch
  | finalized
  | state
  | aclosed
  | tmperr
  | bad                     -- the operation is not enabled in this state
deriving DecidableEq, Repr

def setTask (s : State) (t : Nat) (p : Pc) : State := { s with tasks := s.tasks.set t p }

def setPhase (s : State) (k : Nat) (f : Flight) (p : Phase) : State :=
  { s with flight := upd s.flight k (some { f with phase := p }) }

/-- `rc.dec`: the Bool is "close botch: count already 0". -/
def dec (fixed : Bool) (s : State) (r : Nat) : State × Bool :=
  if (s.rc r).count = 0 then (s, true)
  else if (s.rc r).count = 1 then
    ({ s with rc := upd s.rc r { s.rc r with count := 0, fileOpen := false },
              arena := if fixed then
                         (if s.arena (s.rc r).key = some r then upd s.arena (s.rc r).key none else s.arena)
                       else upd s.arena (s.rc r).key none,
              deaths := if (s.rc r).fileOpen then upd s.deaths (s.rc r).key (s.deaths (s.rc r).key + 1)
                        else s.deaths }, false)
  else ({ s with rc := upd s.rc r { s.rc r with count := (s.rc r).count - 1 } }, false)

/-- What every waiter of the flight on `k` becomes when the flight ends. -/
def deliver (k : Nat) (res : Option Nat) (p : Pc) : Pc :=
  if p = .waiting k then (match res with | some r => .got k r | none => .failed) else p

/-- Ghost bookkeeping: a flight that ends with an rc nobody waits for and nobody references
    leaves an orphan in the arena. -/
def orphansAfter (s : State) (k : Nat) : Option Nat → List Nat
  | some r => if s.tasks.countP (· = .waiting k) = 0 ∧ (s.rc r).count = 0 then r :: s.orphans else s.orphans
  | none => s.orphans

def resultOf : Phase → Option (Option Nat)
  | .hit r => some (some r)
  | .stored r => some (some r)
  | .failed => some none
  | _ => none

def stepG (fixed : Bool) (s : State) : Op → State × Out
  | .spawn k => ({ s with tasks := s.tasks ++ [.ready k], skeys := s.skeys ++ [k] }, .spawned s.tasks.length)
  | .enter t =>
    match s.tasks[t]? with
    | some (.ready k) =>
      match s.flight k with
      | some _ => (setTask s t (.waiting k), .join)
      | none => ({ setTask s t (.waiting k) with flight := upd s.flight k (some ⟨t, .begun, false⟩) }, .lead)
    | _ => (s, .bad)
  | .fload k valid =>
    match s.flight k with
    | some f =>
      if f.phase = .begun then
        if valid then
          match s.arena k with
          | some r => (setPhase s k f (.hit r), .hit)
          | none => (setPhase s k f .missed, .miss)
        else (setPhase s k f .failed, .invalid)
      else (s, .bad)
    | none => (s, .bad)
  | .fnet k srvOk =>
    match s.flight k with
    | some f =>
      if f.phase = .missed then
        if f.ctxDead then (setPhase s k f .failed, .neterr)
        else if srvOk then ({ setPhase s k f .fetched with hits := upd s.hits k (s.hits k + 1) }, .fetched)
        else ({ setPhase s k f .failed with hits := upd s.hits k (s.hits k + 1) }, .neterr)
      else (s, .bad)
    | none => (s, .bad)
  | .freq k =>
    match s.flight k with
    | some f =>
      if f.phase = .missed then
        if f.ctxDead then (setPhase s k f .failed, .neterr)
        else ({ setPhase s k f .requesting with hits := upd s.hits k (s.hits k + 1) }, .requested)
      else (s, .bad)
    | none => (s, .bad)
  | .fbody k srvOk =>
    match s.flight k with
    | some f =>
      if f.phase = .requesting then
        if f.ctxDead then (setPhase s k f .failed, .neterr)
        else if srvOk then (setPhase s k f .fetched, .fetched)
        else (setPhase s k f .failed, .neterr)
      else (s, .bad)
    | none => (s, .bad)
  | .fstore k =>
    match s.flight k with
    | some f =>
      if f.phase = .fetched then
        match s.arena k with
        | none =>
          ({ setPhase s k f (.stored s.nrc) with
               nrc := s.nrc + 1, rc := upd s.rc s.nrc ⟨k, 0, true⟩, arena := upd s.arena k (some s.nrc) }, .stored)
        | some _ =>
          -- double store: the new rc replaced the old entry, then `rc.Ref().Close()` forgets
          -- the key and closes the new file
          ({ setPhase s k f .failed with
               nrc := s.nrc + 1, rc := upd s.rc s.nrc ⟨k, 0, false⟩, arena := upd s.arena k none,
               deaths := upd s.deaths k (s.deaths k + 1) }, .double)
      else (s, .bad)
    | none => (s, .bad)
  | .fend k =>
    match s.flight k with
    | some f =>
      match resultOf f.phase with
      | some res =>
        let n := s.tasks.countP (· = .waiting k)
        ({ s with flight := upd s.flight k none,
                  tasks := s.tasks.map (deliver k res),
                  orphans := orphansAfter s k res }, .ended n res.isSome)
      | none => (s, .bad)
    | none => (s, .bad)
  | .cancel t =>
    match s.tasks[t]? with
    | some (.waiting k) =>
      match s.flight k with
      | some f =>
        if f.leader = t then
          -- a transfer in progress runs under this context: it fails now
          ({ setTask s t .failed with
               flight := upd s.flight k
                 (some ⟨f.leader, if f.phase = .requesting then .failed else f.phase, true⟩) }, .leaderCancelled)
        else (setTask s t .failed, .cancelled)
      | none => (setTask s t .failed, .cancelled)
    | some (.ready _) => (s, .bad)
    | some _ => (s, .noeffect)
    | none => (s, .bad)
  | .ref t =>
    match s.tasks[t]? with
    | some (.got k r) =>
      ({ setTask s t (.reffed k r) with rc := upd s.rc r { s.rc r with count := (s.rc r).count + 1 } }, .refd)
    | _ => (s, .bad)
  | .val t =>
    match s.tasks[t]? with
    | some (.reffed k r) =>
      if (s.rc r).fileOpen then (setTask s t (.opened k r), .valOk)
      else ({ setTask s t (.staleRef k r) with stales := upd s.stales t (s.stales t + 1) }, .valStale)
    | _ => (s, .bad)
  | .retry t =>
    match s.tasks[t]? with
    | some (.staleRef k r) =>
      if fixed then (setTask (dec fixed s r).1 t (.ready k), .retried)
      else ({ setTask s t (.ready k) with leaked := s.leaked ++ [r] }, .retried)
    | _ => (s, .bad)
  | .init t ok =>
    match s.tasks[t]? with
    | some (.opened k r) =>
      if ok then (setTask s t (.holding k r), .held)
      else (setTask (dec fixed s r).1 t .failed, .initErr)
    | _ => (s, .bad)
  | .close t =>
    match s.tasks[t]? with
    | some (.holding _ r) =>
      (setTask (dec fixed s r).1 t .closed, if (dec fixed s r).2 then .botch else .closedOk)
    | _ => (s, .bad)
  | .finalize i =>
    match s.leaked[i]? with
    | some r => ({ (dec fixed s r).1 with leaked := s.leaked.eraseIdx i }, .finalized)
    | none => (s, .bad)
  | .query _ => (s, .state)
  | .ftmpfail k =>
    match s.flight k with
    | some f => if f.phase = .missed then (setPhase s k f .failed, .tmperr) else (s, .bad)
    | none => (s, .bad)
  | .aclose =>
    ({ s with arena := fun _ => none,
              detached := fun r => s.detached r || (s.rc r).fileOpen }, .aclosed)

/-- The code as it is now. -/
def step : State → Op → State × Out := stepG true

/-- The code before the `fix:` commit (Delete by key, stale ref abandoned). -/
def stepOld : State → Op → State × Out := stepG false

/-- Does this task own an open reference on rc `r`? -/
def Pc.refOn (r : Nat) : Pc → Bool
  | .reffed _ r' => r' == r
  | .opened _ r' => r' == r
  | .staleRef _ r' => r' == r
  | .holding _ r' => r' == r
  | _ => false

/-- The key a task is working on (terminal states have none). -/
def Pc.key? : Pc → Option Nat
  | .ready k => some k
  | .waiting k => some k
  | .got k _ => some k
  | .reffed k _ => some k
  | .opened k _ => some k
  | .staleRef k _ => some k
  | .holding k _ => some k
  | _ => none

/-- Number of open references on rc `r`: tasks that own one plus abandoned ones. -/
def refsOn (s : State) (r : Nat) : Nat :=
  s.tasks.countP (Pc.refOn r) + s.leaked.countP (· == r)

/-- Everybody is done: no task is inside fetchInto or holds a handle, no flight runs,
    no abandoned reference waits for its finalizer. -/
def Quiescent (s : State) : Prop :=
  (∀ p ∈ s.tasks, p = .failed ∨ p = .closed) ∧ (∀ k, s.flight k = none) ∧ s.leaked = []

end ClairModel.Arena
