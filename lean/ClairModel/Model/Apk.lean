/-
  Model of apk/scanner.go `Scan` on the bytes of `lib/apk/db/installed`
  (as of fixes 0eddde4a: lines shorter than two bytes are skipped, and
  f990cf97: the last line of an entry, which `ReadBytes` returns together with
  io.EOF, is processed).

  `bytes.TrimSpace` is modelled for ASCII white space only (values whose first
  or last byte is ≥ 0x80 could be trimmed further by the real function when
  they spell a Unicode space).  Core Lean only.
-/
import ClairModel.Lib.Bytes

namespace ClairModel.Apk
open ClairModel.Bytes

/-- `bytes.Split(b, "\n\n")` -/
def consHead (c : Nat) : List Bytes → List Bytes
  | [] => [[c]]
  | p :: ps => (c :: p) :: ps

def splitNN : Bytes → List Bytes
  | [] => [[]]
  | [c] => [[c]]
  | c :: d :: rest =>
    if c = 10 ∧ d = 10 then [] :: splitNN rest else consHead c (splitNN (d :: rest))

def isSpace (c : Nat) : Bool := c == 32 || (9 ≤ c && c ≤ 13)

def trimLeft : Bytes → Bytes
  | [] => []
  | c :: cs => if isSpace c then trimLeft cs else c :: cs

def trimRight : Bytes → Bytes
  | [] => []
  | c :: cs =>
    match trimRight cs with
    | [] => if isSpace c then [] else [c]
    | r => c :: r

/-- `bytes.TrimSpace` (ASCII) -/
def trimSpace (s : Bytes) : Bytes := trimRight (trimLeft s)

/-- the lines `ReadBytes('\n')` yields for one entry that the loop body acts
    on, without their newline: a terminated line needs one byte, the
    unterminated last line two (`len(line) < 2` is skipped). -/
def entryLines : List Bytes → List Bytes
  | [] => []
  | [last] => if last.length < 2 then [] else [last]
  | p :: q :: r => if p.isEmpty then entryLines (q :: r) else p :: entryLines (q :: r)

structure Pkg where
  name : Bytes
  version : Bytes
  arch : Bytes
  hint : Bytes
  src : Option (Bytes × Bytes)   -- Source: name, version
  deriving DecidableEq, Repr

def Pkg.empty : Pkg := ⟨[], [], [], [], none⟩

def lookupSrc : List (Bytes × Bytes) → Bytes → Option Bytes
  | [], _ => none
  | (k, v) :: r, n => if k = n then some v else lookupSrc r n

/-- the `switch line[0]` of the loop body; `srcs` is the shared source map -/
def applyLine (st : List (Bytes × Bytes) × Pkg) (line : Bytes) : List (Bytes × Bytes) × Pkg :=
  let (srcs, p) := st
  let l := trimSpace (line.drop 2)
  match line.head? with
  | some 80 => (srcs, { p with name := l })
  | some 86 => (srcs, { p with version := l })
  | some 99 => (srcs, { p with hint := l })
  | some 65 => (srcs, { p with arch := l })
  | some 111 =>
    match lookupSrc srcs l with
    | some v => (srcs, { p with src := some (l, v) })
    | none => (srcs ++ [(l, p.version)], { p with src := some (l, p.version) })
  | _ => (srcs, p)

def scanEntry (srcs : List (Bytes × Bytes)) (entry : Bytes) : List (Bytes × Bytes) × Pkg :=
  (entryLines (splitOn 10 entry)).foldl applyLine (srcs, Pkg.empty)

def scanEntries (srcs : List (Bytes × Bytes)) : List Bytes → List Pkg
  | [] => []
  | e :: es =>
    if e.isEmpty then scanEntries srcs es
    else let r := scanEntry srcs e; r.2 :: scanEntries r.1 es

/-- `Scanner.Scan` on the bytes of the installed file -/
def scan (file : Bytes) : List Pkg := scanEntries [] (splitNN file)

end ClairModel.Apk
