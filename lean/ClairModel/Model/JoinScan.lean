/-
  C04 — the indexer side of the join: `osrelease.Parse` and the distribution
  scanners (os-release / lsb-release / issue text → Distribution), and the
  updater side: the Distribution an updater of a release stamps on its
  advisories.  Constants, regular expressions and Distribution constructors
  come from Gen/JoinReleases.lean (regenerated from the sources).

  Code modelled:
    osrelease/scanner.go            Parse
    alpine/distributionscanner.go   scanFs, readOSRelease, readIssue
    debian/distributionscanner.go   findDist            (after the fix: newDist, no shared map)
    ubuntu/distributionscanner.go   findDist            (after the fix: newDist, no shared map)
    aws|oracle|photon/distributionscanner.go   parse (regexp table → releaseToDist)
    suse/distributionscanner.go     parse, cpeToDist    (CPE names of the plain shape cpe:/o:vendor:product:version…)
    updater/osv/osv.go              Factory.UpdaterSet ecosystem naming, LookupRepository
    alpine/release.go, debian/releases.go, ubuntu/updaterset.go, */releases.go,
    oracle/parser.go platformToDist, suse/factory.go createUpdater (href → Distribution)
  Core Lean only.
-/
import ClairModel.Model.JoinRe
import ClairModel.Gen.JoinReleases
import ClairModel.Gen.JoinOsv

namespace ClairModel.Join
open ClairModel.Bytes (isPrefix parseInt32 isDigit)
open ClairModel.Gen

/-- Outcome of a distribution scanner on one layer. -/
inductive ScanOut where
  | err                 -- the scanner returns an error
  | none                -- no distribution reported
  | dist (d : Dist)
  deriving Repr, BEq, DecidableEq

/-! ### osrelease.Parse -/

def dqSpecial (c : Nat) : Bool := c == 96 || c == 92 || c == 34 || c == 36

/-- `dqReplacer.Replace`: ``\` `` `\\` `\"` `\$` lose their backslash.
    `pending`: a backslash has been read and not yet emitted. -/
def dqAux : Bool → Bytes → Bytes
  | false, [] => []
  | true, [] => [92]
  | false, c :: cs => if c == 92 then dqAux true cs else c :: dqAux false cs
  | true, d :: cs => if dqSpecial d then d :: dqAux false cs else 92 :: d :: dqAux false cs

def dqReplace (s : Bytes) : Bytes := dqAux false s

def osValue (v : Bytes) : Bytes :=
  match v with
  | [] => []
  | 39 :: _ => replaceAll [39, 92, 39, 39] [39] (trimFn (· == 39) v)
  | 34 :: _ => dqReplace (trimFn (· == 34) v)
  | _ => v

/-- One line: `none` = skipped, `some none` = malformed, `some (some kv)`. -/
def osLine (line : Bytes) : Option (Option (Bytes × Bytes)) :=
  let b := trim line
  match b with
  | [] => none
  | 35 :: _ => none
  | _ =>
    match cutEq b with
    | none => some none
    | some (k, v) => some (some (trim k, osValue (trim v)))

def osParseLines : List Bytes → KV → Option KV
  | [], acc => some acc.reverse
  | l :: ls, acc =>
    match osLine l with
    | none => osParseLines ls acc
    | some none => none
    | some (some kv) => osParseLines ls (kv :: acc)

/-- `osrelease.Parse`: the key/value pairs in file order (`lookup` takes the
    last one, as the Go map does), or `none` for a malformed line. -/
def osParse (s : Bytes) : Option KV := osParseLines (lines s) []

/-! ### keys -/

def kID : Bytes := [73, 68]
def kNAME : Bytes := [78, 65, 77, 69]
def kVERSION : Bytes := [86, 69, 82, 83, 73, 79, 78]
def kVERSION_ID : Bytes := [86, 69, 82, 83, 73, 79, 78, 95, 73, 68]
def kVERSION_CODENAME : Bytes := [86, 69, 82, 83, 73, 79, 78, 95, 67, 79, 68, 69, 78, 65, 77, 69]
def kPRETTY_NAME : Bytes := [80, 82, 69, 84, 84, 89, 95, 78, 65, 77, 69]
def kCPE_NAME : Bytes := [67, 80, 69, 95, 78, 65, 77, 69]
def kDISTRIB_ID : Bytes := [68, 73, 83, 84, 82, 73, 66, 95, 73, 68]
def kDISTRIB_RELEASE : Bytes := [68, 73, 83, 84, 82, 73, 66, 95, 82, 69, 76, 69, 65, 83, 69]
def kDISTRIB_CODENAME : Bytes := [68, 73, 83, 84, 82, 73, 66, 95, 67, 79, 68, 69, 78, 65, 77, 69]

/-! ### alpine -/

/-- `strings.LastIndexByte(s, '.')` as the prefix before the last dot. -/
def beforeLastDot (s : Bytes) : Option Bytes :=
  match (dropWhileB (· != 46) s.reverse) with
  | [] => none
  | _ :: r => some r.reverse

def takeDigits : Bytes → Bytes × Bytes
  | [] => ([], [])
  | c :: cs => if isDigit c then let (a, b) := takeDigits cs; (c :: a, b) else ([], c :: cs)

/-- Submatch 1 of `Alpine Linux ([[:digit:]]+\.[[:digit:]]+)`, leftmost match. -/
def alpineIssueVersion : Bytes → Option Bytes
  | [] => none
  | c :: cs =>
    let here : Option Bytes :=
      if isPrefix [65, 108, 112, 105, 110, 101, 32, 76, 105, 110, 117, 120, 32] (c :: cs) then
        let rest := (c :: cs).drop 13
        let (d1, r1) := takeDigits rest
        match d1, r1 with
        | _ :: _, 46 :: r2 =>
          let (d2, _) := takeDigits r2
          if d2.isEmpty then none else some (d1 ++ 46 :: d2)
        | _, _ => none
      else none
    match here with
    | some v => some v
    | none => alpineIssueVersion cs

/-- `readOSRelease` after `osrelease.Parse` succeeded. -/
def alpineFromKV (m : KV) : ScanOut :=
  if get m kID != JoinReleases.alpine.distID then .none else
  match beforeLastDot (get m kVERSION_ID) with
  | none => .none
  | some v0 =>
    let v := if get m kPRETTY_NAME == JoinReleases.alpine.edgePrettyName then JoinReleases.alpine.edgeVersion else v0
    .dist { name := get m kNAME, did := get m kID, version := v, prettyName := get m kPRETTY_NAME }

def alpineOsRelease (b : Bytes) : ScanOut :=
  match osParse b with
  | none => .err
  | some m => alpineFromKV m

def alpineIssue (b : Bytes) : ScanOut :=
  if JoinReleases.alpine.edgeIssueRegexp.matches b then
    .dist { name := JoinReleases.alpine.distName, did := JoinReleases.alpine.distID,
            version := JoinReleases.alpine.edgeVersion, prettyName := JoinReleases.alpine.edgePrettyName }
  else match alpineIssueVersion b with
    | none => .none
    | some v => .dist { name := JoinReleases.alpine.distName, did := JoinReleases.alpine.distID, version := v,
                        prettyName := [65, 108, 112, 105, 110, 101, 32, 76, 105, 110, 117, 120, 32, 118] ++ v }

/-- `scanFs`: os-release first, then issue. -/
def alpineScan (osr issue : Option Bytes) : ScanOut :=
  let first := match osr with
    | none => ScanOut.none
    | some b => alpineOsRelease b
  match first with
  | .none => (match issue with
    | none => .none
    | some b => alpineIssue b)
  | o => o

/-! ### debian -/

/-- `regexp.MustCompile(`\(\w+\)$`).FindString(s)` -/
def debianParenWord (s : Bytes) : Bytes :=
  match s.reverse with
  | 41 :: r =>
    let w := r.takeWhile isWord
    match w, r.drop w.length with
    | _ :: _, 40 :: _ => 40 :: (w.reverse ++ [41])
    | _, _ => []
  | _ => []

/-- `findDist` after `osrelease.Parse` succeeded. -/
def debianFromKV (m : KV) : ScanOut :=
  if get m kID != [100, 101, 98, 105, 97, 110] then .none else
  let name := match lookup m kVERSION_CODENAME with
    | some n => n
    | none => trimFn (fun c => !isLetter c) (debianParenWord (get m kVERSION))
  let idstr := get m kVERSION_ID
  if name.isEmpty || idstr.isEmpty then .none else
  match parseInt32 idstr with
  | none => .none
  | some id => .dist (JoinReleases.debian.mkDist.eval [.str name, .int id])

def debianScan (osr : Option Bytes) : ScanOut :=
  match osr with
  | none => .none
  | some b =>
    match osParse b with
    | none => .none
    | some m => debianFromKV m

/-! ### ubuntu -/

structure UbState where
  stop : Bool := false
  hasID : Bool := false
  name : Bytes := []
  ver : Bytes := []

def ubuntuStep (idKey verKey nameKey : Bytes) (st : UbState) (l : Bytes) : UbState :=
  if st.stop then st else
  match cutEq l with
  | none => st
  | some (k, v0) =>
    let v := trimSet [34, 13, 10] v0
    if k == idKey then
      if eqFold v [117, 98, 117, 110, 116, 117] then { st with hasID := true } else { st with stop := true }
    else if k == nameKey then { st with name := v }
    else if k == verKey then { st with ver := v }
    else st

def ubuntuParse (idKey verKey nameKey : Bytes) (b : Bytes) : ScanOut :=
  let st := (linesKeep b).foldl (ubuntuStep idKey verKey nameKey) {}
  if st.stop || !st.hasID then .none
  else if !st.name.isEmpty && !st.ver.isEmpty then
    .dist (JoinReleases.ubuntu.mkDist.eval [.str st.ver, .str st.name])
  else .none

/-- `findDist`: lsb-release if it can be read, else os-release. -/
def ubuntuScan (lsb osr : Option Bytes) : ScanOut :=
  match lsb, osr with
  | some b, _ => ubuntuParse kDISTRIB_ID kDISTRIB_RELEASE kDISTRIB_CODENAME b
  | none, some b => ubuntuParse kID kVERSION_ID kVERSION_CODENAME b
  | none, none => .none

/-! ### aws, oracle, photon: regexp table → release → package-level Distribution -/

def emptyDist : Dist := {}

def tableDist (dists : List (Bytes × DistT)) (releaseToDist : List (Bytes × Bytes)) (rel : Bytes) : Dist :=
  match lookupFirst releaseToDist rel with
  | none => emptyDist
  | some var => match lookupFirst dists var with
    | none => emptyDist
    | some t => t.eval []

/-- `parse` of one file; the scanners return the first file that yields a
    distribution, and an empty (non-nil) slice when none does. -/
def tableScan (regexes : List (Bytes × Re)) (dists : List (Bytes × DistT)) (releaseToDist : List (Bytes × Bytes))
    (file : Option Bytes) : ScanOut :=
  match file with
  | none => .none
  | some b => match firstMatch regexes b with
    | none => .none
    | some rel => .dist (tableDist dists releaseToDist rel)

def awsScan := tableScan JoinReleases.aws.regexes JoinReleases.aws.dists JoinReleases.aws.releaseToDist
def oracleScan := tableScan JoinReleases.oracle.regexes JoinReleases.oracle.dists JoinReleases.oracle.releaseToDist
def photonScan := tableScan JoinReleases.photon.regexes JoinReleases.photon.dists JoinReleases.photon.releaseToDist

/-! ### suse: os-release CPE_NAME → Distribution

  Only CPE names of the plain shape `cpe:/<part>:<vendor>:<product>:<version>[:…]`
  whose components are made of `[a-z0-9_-]` and `.` are modelled (the shape of
  every SUSE os-release); anything else is `unsupported` and is not generated. -/

def plainCpeByte (c : Nat) : Bool := isLower c || isDigit c || c == 95 || c == 45 || c == 46

/-- Components of `cpe:/a:b:c…`, if every component is plain. -/
def plainCpe (s : Bytes) : Option (List Bytes) :=
  if isPrefix [99, 112, 101, 58, 47] s then
    let parts := ClairModel.Bytes.splitOn 58 (s.drop 5)
    if parts.all (fun p => p.all plainCpeByte) && parts.length ≤ 7 && 4 ≤ parts.length
      && parts.all (fun p => !p.isEmpty) && (parts.headD []).length == 1 then some parts else none
  else none

/-- The major number of `semver.NewVersion(v)` for `v` = digits(.digits(.digits)?)? -/
def semverMajor (v : Bytes) : Option Bytes :=
  let parts := ClairModel.Bytes.splitOn 46 v
  if parts.length ≤ 3 && parts.all (fun p => !p.isEmpty && p.all isDigit)
      && parts.all (fun p => p.length == 1 || p.head? != some 48) then parts.head? else none

inductive SuseOut where
  | unsupported
  | out (o : ScanOut)
  deriving Repr, BEq, DecidableEq

def suseScan (osr : Bytes) : SuseOut :=
  match osParse osr with
  | none => .out .none
  | some m =>
    match lookup m kCPE_NAME with
    | none => .out .none
    | some cpe =>
      match plainCpe cpe with
      | none => .unsupported
      | some parts =>
        let vendor := parts.getD 1 []
        let product := parts.getD 2 []
        let version := parts.getD 3 []
        let br := JoinReleases.suse.cpeBranches
        if vendor == br.getD 0 [] && product == br.getD 1 [] then
          .out (.dist (JoinReleases.suse.mkLeapDist.eval [.str [], .str version]))
        else if vendor == br.getD 2 [] && product == br.getD 3 [] then
          match semverMajor version with
          | none => .unsupported
          | some maj => .out (.dist (JoinReleases.suse.mkELDist.eval [.str [], .str maj]))
        else .out .none

/-! ### updater side -/

def alpineStableDist (maj min : Nat) : Dist :=
  JoinReleases.alpine.stableDist.eval [.int maj, .int min]

def alpineEdgeDist : Dist := JoinReleases.alpine.edgeDist.eval []

def debianUpdDist (name : Bytes) (ver : Int) : Dist := JoinReleases.debian.mkDist.eval [.str name, .int ver]

def ubuntuUpdDist (ver name : Bytes) : Dist := JoinReleases.ubuntu.mkDist.eval [.str ver, .str name]

def awsUpdDist (rel : Bytes) : Dist := tableDist JoinReleases.aws.dists JoinReleases.aws.releaseToDist rel
def photonUpdDist (rel : Bytes) : Dist := tableDist JoinReleases.photon.dists JoinReleases.photon.releaseToDist rel

/-- oracle/parser.go: the Distribution stamped for an OVAL `<platform>` string. -/
def oraclePlatformDist (platform : Bytes) : Option Dist :=
  match lookupFirst JoinReleases.oracle.platformToDist platform with
  | none => none
  | some var => (lookupFirst JoinReleases.oracle.dists var).map (·.eval [])

/-- oracle/parser.go `protoVulns`: one prototype advisory per known
    `<platform>` of the definition, in document order, each with its own
    Distribution (a definition without a known platform yields nothing). -/
def oracleDefinitionDists (platforms : List Bytes) : List Dist := platforms.filterMap oraclePlatformDist

/-- suse/factory.go: `suse.linux.enterprise.server.NN.xml.gz` with NN in [1-9][1-9]. -/
def suseELVersion (href : Bytes) : Option Bytes :=
  let pre : Bytes := [115, 117, 115, 101, 46, 108, 105, 110, 117, 120, 46, 101, 110, 116, 101, 114, 112, 114, 105, 115, 101, 46, 115, 101, 114, 118, 101, 114, 46]
  if isPrefix pre href then
    match href.drop pre.length with
    | [a, b, 46, 120, 109, 108, 46, 103, 122] =>
      if 49 ≤ a && a ≤ 57 && 49 ≤ b && b ≤ 57 then some [a, b] else none
    | _ => none
  else none

def suseELDist (ver : Bytes) : Dist := JoinReleases.suse.mkELDist.eval [.str [], .str ver]
def suseLeapDist (ver : Bytes) : Dist := JoinReleases.suse.mkLeapDist.eval [.str [], .str ver]

/-! ### OSV: ecosystem → repository stamped on advisories -/

/-- `Factory.UpdaterSet`: the updater's ecosystem is the lower-cased line of
    `ecosystems.txt` cut at the first `:`; `none` when it is in the ignore list. -/
def osvEcosystem (line : Bytes) : Option Bytes :=
  let e := lower line
  let e := match ClairModel.Bytes.cut 58 e with
    | some (a, _) => a
    | none => e
  if JoinOsv.ignore.contains e then none else some e

/-- `LookupRepository(name)` -/
def osvLookupRepository (name : Bytes) : Repo :=
  { name := name, uri := (lookupFirst JoinOsv.lookupRepositoryURI name).getD [] }

/-- The repository on every advisory of the updater for an `ecosystems.txt` line. -/
def osvRepo (line : Bytes) : Option Repo := (osvEcosystem line).map osvLookupRepository

/-- `Insert`: name and kind of the advisory's package for an affected entry of
    ecosystem `eco` with package name `name` and PURL `purl`. -/
def osvPackage (eco name purl : Bytes) : Bytes × Bytes :=
  (if JoinOsv.nameEcosystems.contains eco then name else purl,
   if JoinOsv.kindEcosystems.contains eco then JoinOsv.packageKind else [])

end ClairModel.Join
