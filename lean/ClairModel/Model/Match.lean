/-
  C05 — functional model of `internal/matcher` (controller.go, match.go) and
  of `IndexReport.IndexRecords` (indexreport.go).  Core Lean only.

  Go maps keyed by an id are association lists (`find`/`upd`); ids are `Nat`
  (the harness uses decimal strings), `0` stands for a nil Distribution /
  Repository pointer.  A vulnerability is its `ID` plus a `payload` standing
  for the rest of the object, so "two different objects with one ID" can be
  expressed.

  The matcher's four methods, the remote call and the store are *parameters*
  (arbitrary functions that may fail), so every theorem about this model
  quantifies over all matchers, enrichers and stores.
-/
namespace ClairModel.Match

/-! ### association lists standing for Go maps -/

/-- `m[k]` with presence. -/
def find {β : Type} (k : Nat) : List (Nat × β) → Option β
  | [] => none
  | (k', v) :: t => if k' = k then some v else find k t

/-- `m[k] = f(m[k])` (the entry is created when absent). -/
def upd {β : Type} (k : Nat) (f : Option β → β) : List (Nat × β) → List (Nat × β)
  | [] => [(k, f none)]
  | (k', v) :: t => if k' = k then (k', f (some v)) :: t else (k', v) :: upd k f t

/-- `m[k]` of a map of slices: the nil slice when absent. -/
def getL {α : Type} (k : Nat) (m : List (Nat × List α)) : List α := (find k m).getD []

/-- `m[k] = append(m[k], xs...)`. -/
def appendAt {α : Type} (k : Nat) (xs : List α) (m : List (Nat × List α)) : List (Nat × List α) :=
  upd k (fun o => o.getD [] ++ xs) m

/-! ### data -/

structure Vuln where
  id : Nat
  payload : Nat
deriving DecidableEq, Repr, Inhabited

/-- claircore.IndexRecord, reduced to the identities the pipeline looks at. -/
structure Record where
  pkg : Nat
  name : Nat
  dist : Nat
  repo : Nat
deriving DecidableEq, Repr, Inhabited

/-- An entry of `IndexReport.Packages`: the map key and the package stored under it. -/
structure Pkg where
  key : Nat
  id : Nat
  name : Nat
deriving DecidableEq, Repr, Inhabited

structure Env where
  dist : Nat
  repos : List Nat
deriving DecidableEq, Repr, Inhabited

structure IndexReport where
  packages : List Pkg
  /-- `Environments`, keyed by package id -/
  envs : List (Nat × List Env)
  /-- keys of `Distributions` -/
  dists : List Nat
  /-- keys of `Repositories` -/
  repos : List Nat
deriving Repr, Inhabited

/-- `report.Distributions[id]` as a pointer: nil (0) when absent. -/
def distPtr (ir : IndexReport) (d : Nat) : Nat := if d ∈ ir.dists then d else 0
def repoPtr (ir : IndexReport) (r : Nat) : Nat := if r ∈ ir.repos then r else 0

/-- indexreport.go `IndexRecords` for one environment of one package. -/
def envRecords (ir : IndexReport) (p : Pkg) (e : Env) : List Record :=
  if e.repos.isEmpty then [⟨p.id, p.name, distPtr ir e.dist, 0⟩]
  else e.repos.map fun r => ⟨p.id, p.name, distPtr ir e.dist, repoPtr ir r⟩

/-- indexreport.go `IndexRecords` (map iteration order fixed to list order). -/
def indexRecords (ir : IndexReport) : List Record :=
  ir.packages.flatMap fun p => (getL p.id ir.envs).flatMap (envRecords ir p)

/-- What one controller returns: package id ↦ vulnerabilities. -/
abbrev MOut := List (Nat × List Vuln)

inductive Kind where
  | plain
  | versionFilter (authoritative : Bool)
  | remote
deriving DecidableEq, Repr, Inhabited

/-- driver.Matcher (+ optional VersionFilter / RemoteMatcher) as functions.
    `none` results are errors. -/
structure Matcher where
  kind : Kind
  filter : Record → Bool
  query : List Nat
  vulnerable : Record → Vuln → Option Bool
  remote : List Record → Option MOut
  /-- fault injection: the caller's Context is cancelled while this matcher's
      `store.Get` runs -/
  cancelsAtGet : Bool := false

/-- datastore.Vulnerability.Get as a function of (context already cancelled?,
    GetOpts.Matchers, GetOpts.VersionFiltering, records). -/
abbrev Store := Bool → List Nat → Bool → List Record → Option MOut

/-! ### controller.go -/

/-- `findInterested` -/
def interested (m : Matcher) (recs : List Record) : List Record := recs.filter m.filter

/-- `dbFilter` : (dbSide, authoritative) -/
def dbFilter (m : Matcher) : Bool × Bool :=
  match m.kind with
  | .versionFilter a => (true, a)
  | _ => (false, false)

/-- `filterVulns`: the vulnerabilities of `vs` the matcher accepts for `r`;
    the first error aborts. -/
def filterVulns (m : Matcher) (r : Record) : List Vuln → Option (List Vuln)
  | [] => some []
  | v :: vs =>
    match m.vulnerable r v with
    | none => none
    | some b =>
      match filterVulns m r vs with
      | none => none
      | some rest => some (if b then v :: rest else rest)

/-- `Controller.filter`, with the accumulator explicit. -/
def filterFrom (m : Matcher) (vulns : MOut) : List Record → MOut → Option MOut
  | [], acc => some acc
  | r :: rs, acc =>
    match filterVulns m r (getL r.pkg vulns) with
    | none => none
    | some ms => filterFrom m vulns rs (appendAt r.pkg ms acc)

def filterAll (m : Matcher) (interested : List Record) (vulns : MOut) : Option MOut :=
  filterFrom m vulns interested []

/-- `Controller.Match`. -/
def controllerMatch (cancelled : Bool) (store : Store) (m : Matcher) (recs : List Record) : Option MOut :=
  let ins := interested m recs
  if ins.isEmpty then some []
  else match m.kind with
    | .remote =>
      match m.remote ins with
      | none => some []          -- "remote matcher error, returning empty results"
      | some out => some out
    | _ =>
      let (dbSide, auth) := dbFilter m
      match store cancelled m.query dbSide ins with
      | none => none
      | some vulns => if auth then some vulns else filterAll m ins vulns

/-- Does `Controller.Match` reach `store.Get` for this matcher? -/
def reachesGet (m : Matcher) (recs : List Record) : Bool :=
  !(interested m recs).isEmpty && !(m.kind == .remote)

/-! ### match.go: the collector -/

structure Report where
  /-- `Vulnerabilities` : id ↦ object -/
  vulns : List (Nat × Vuln)
  /-- `PackageVulnerabilities` : package id ↦ ids -/
  pkgVulns : List (Nat × List Nat)
deriving Repr, Inhabited

def Report.empty : Report := ⟨[], []⟩

/-- The two statements in the innermost collector loop. -/
def collectStep (r : Report) (e : Nat × Vuln) : Report :=
  { vulns := upd e.2.id (fun _ => e.2) r.vulns
    pkgVulns := appendAt e.1 [e.2.id] r.pkgVulns }

def collectFrom (r : Report) (evs : List (Nat × Vuln)) : Report := evs.foldl collectStep r

/-- The collector over the flat sequence of (package, vulnerability) pairs it sees. -/
def collect (evs : List (Nat × Vuln)) : Report := collectFrom Report.empty evs

/-- The pairs one matcher result contributes, in map order. -/
def events (out : MOut) : List (Nat × Vuln) := out.flatMap fun kv => kv.2.map fun v => (kv.1, v)

/-- The collector over matcher results in arrival order. -/
def collectOuts (outs : List MOut) : Report := collect (outs.flatMap events)

/-! ### match.go: enrichment phase -/

/-- driver.Enricher: kind and messages (as numbers) computed from the report
    it is shown; `none` is an error. -/
structure Enricher where
  kind : Nat
  enrich : Report → Option (List Nat)

/-- What a worker forwards to the enrichment collector: errors and empty
    results are skipped. -/
def enrichEntries (es : List Enricher) (r : Report) : List (Nat × List Nat) :=
  es.filterMap fun e =>
    match e.enrich r with
    | none => none
    | some ms => if ms.isEmpty then none else some (e.kind, ms)

/-- `em[e.kind] = append(em[e.kind], e.msg...)` over the entries in arrival order. -/
def enrichCollect (entries : List (Nat × List Nat)) : List (Nat × List Nat) :=
  entries.foldl (fun em e => appendAt e.1 e.2 em) []

/-! ### match.go: outcomes -/

/-- Results of all controllers, in the order of the matcher slice. -/
def runAll (cancelled : Bool) (store : Store) (ms : List Matcher) (recs : List Record) : List (Option MOut) :=
  ms.map fun m => controllerMatch cancelled store m recs

/-- `EnrichedMatch` (after the `fix:` commit: a cancelled Context is an error).
    `none` is `(nil, err)`. -/
def enrichedMatch (cancelled : Bool) (store : Store) (ms : List Matcher) (es : List Enricher)
    (recs : List Record) : Option (Report × List (Nat × List Nat)) :=
  if cancelled then none
  else
    let outs := runAll false store ms recs
    if outs.any Option.isNone then none
    else if ms.any (fun m => m.cancelsAtGet && reachesGet m recs) then none
    else
      let r := collectOuts (outs.filterMap id)
      some (r, enrichCollect (enrichEntries es r))

/-- `Match`: the report of the controllers that succeeded and the number of
    joined errors. -/
def matchAll (cancelled : Bool) (store : Store) (ms : List Matcher) (recs : List Record) : Report × Nat :=
  let outs := runAll cancelled store ms recs
  (collectOuts (outs.filterMap id), (outs.filter Option.isNone).length)

end ClairModel.Match
