/-
  C14 — the three "flat" feed formats, modelled on the decoded documents
  (what `encoding/json` / `encoding/xml` hand to the parser):

  * Alpine secdb      alpine/parser.go  `(*updater).parse`, `unpackSecFixes`
  * Debian tracker    debian/parser.go  `(*updater).Parse`
  * Amazon updateinfo aws/updater.go    `(*Updater).Parse`, `unpack`, `versionString`, `refsToLinks`

  Go maps (secfixes, the three levels of the Debian document) are modelled as
  association lists with distinct keys; the order of the result is therefore
  only meaningful up to permutation for those two formats (the harness sorts).
  Core Lean only.
-/
import ClairModel.Model.FeedCommon

namespace ClairModel.Feeds

/-! ### Alpine secdb -/

/-- `alpine.Details`: package name and `secfixes` (fixed version ↦ identifiers). -/
structure SecdbPkg where
  name : String
  secfixes : List (String × List String)
deriving Repr

/-- `unpackSecFixes`: one vulnerability per (fixed version, identifier). -/
def unpackSecFixes (linkPrefix : String) (partialV : Vuln) (secfixes : List (String × List String)) : List Vuln :=
  secfixes.flatMap fun fx => fx.2.map fun id =>
    { partialV with name := id, fixed := fx.1, links := linkPrefix ++ id }

/-- `(*updater).parse`: every package of the document, with the updater's
    name, the release's distribution and the constant severity. -/
def secdbParse (linkPrefix : String) (sevConst : Nat) (updater dist : String) (pkgs : List SecdbPkg) : List Vuln :=
  pkgs.flatMap fun p =>
    unpackSecFixes linkPrefix
      { updater := updater, nsev := sevConst, hasPkg := true, pkgName := p.name, pkgKind := "source", dist := dist }
      p.secfixes

/-! ### Debian security tracker JSON -/

/-- `debian.ReleaseData` (status is decoded but never read by the parser). -/
structure DebRelease where
  release : String
  status : String
  fixed : String
  urgency : String
deriving Repr

/-- `debian.Vulnerability` keyed by its identifier. -/
structure DebVuln where
  id : String
  desc : String
  releases : List DebRelease
deriving Repr

/-- `getDist`: the release table filled by `mkDist` (release name ↦ distribution key). -/
def getDist (known : List (String × String)) (release : String) : Option String :=
  (known.find? fun p => p.1 == release).map (·.2)

/-- `(*updater).Parse` after decoding: source package ↦ identifier ↦ release ↦ data.
    Releases `getDist` does not know are skipped. `sev` is the severity switch. -/
def debianParse (linkPrefix : String) (sev : String → Nat) (known : List (String × String))
    (data : List (String × List DebVuln)) : List Vuln :=
  data.flatMap fun src => src.2.flatMap fun v => v.releases.filterMap fun r =>
    match getDist known r.release with
    | none => none
    | some d => some
      { updater := "debian/updater", name := v.id, desc := v.desc, links := linkPrefix ++ v.id,
        sev := r.urgency, nsev := sev r.urgency, dist := d, fixed := r.fixed,
        hasPkg := true, pkgName := src.1, pkgKind := "source" }

/-! ### Amazon Linux updateinfo -/

/-- `alas.Package`. -/
structure AlasPkg where
  name : String
  epoch : String
  version : String
  release : String
  arch : String
deriving Repr

/-- `alas.Update` as far as the parser reads it. -/
structure AlasUpdate where
  id : String
  desc : String
  severity : String
  refs : List String
  pkgs : List AlasPkg
  issued : String := ""   -- `issued date="…"` as canonical time ("" = absent)
deriving Repr

/-- `versionString`: `[epoch:]version-release`, the epoch omitted when "" or "0". -/
def alasVersion (p : AlasPkg) : String :=
  (if p.epoch ≠ "" ∧ p.epoch ≠ "0" then p.epoch ++ ":" else "") ++ p.version ++ "-" ++ p.release

/-- `(*Updater).Parse` after decoding: one vulnerability per (update, package),
    `ArchOperation = OpEquals` (1). -/
def awsParse (sev : String → Nat) (updater dist : String) (ups : List AlasUpdate) : List Vuln :=
  ups.flatMap fun u => u.pkgs.map fun p =>
    { updater := updater, name := u.id, desc := u.desc, links := " ".intercalate u.refs,
      sev := u.severity, nsev := sev u.severity, dist := dist, archOp := 1, issued := u.issued,
      hasPkg := true, pkgName := p.name, pkgKind := "binary", pkgArch := p.arch, fixed := alasVersion p }

end ClairModel.Feeds
