/-
  FetchProxy and RemoteFetchArena.Close on top of the arena machine (libindex/fetcher.go).

    a.Realizer(ctx)             `pnew`           a FetchProxy with an empty cleanup list
    p.RealizeDescriptions       `realize p L ks` an errgroup (limit L = GOMAXPROCS) runs one
                                                 fetchInto closure per description, in order,
                                                 at most L at a time
    the caller's ctx cancelled  `pcancel p`
    p.Close()                   `pclose p`       closes every handle in p.cleanup
    a.Close(ctx)                `base (base aclose)`

  What the errgroup does is not a transition of its own: it follows from the state of the
  group's tasks, and `settle` applies it after every transition:
    * the first task that returns an error cancels the group's context; every sibling that
      is blocked in the select leaves through `ctx.Done` (the arena transition `cancel t`);
      siblings that are past the select go on (Ref, Val and Init do not look at the context);
    * `g.Go` starts the next description as soon as fewer than L closures are running - also
      when the context is already dead: such a closure joins or starts a flight (`enter`) and
      leaves through `ctx.Done` at once;
    * when every closure has returned, `g.Wait` returns: on error RealizeDescriptions closes
      the handles of the closures that succeeded and returns the error; otherwise the
      handles are added to p.cleanup.

  Which tasks belong to which proxy is kept per task (`own`): a task is a closure of the
  proxy's running call (`call`) or a handle in its cleanup list (`cleanup`).

  `fixedPx = true` is the code as it is now (fix: a second RealizeDescriptions on the same
  proxy appends to p.cleanup, Close empties it).  `fixedPx = false` is the code before: the
  second call overwrote p.cleanup (the first call's handles could no longer be closed by
  anybody: `lost`), and Close kept the list (a second Close ran Layer.Close again: panic).
-/
import ClairModel.Model.ArenaFd

namespace ClairModel.ArenaProxy
open ClairModel.Arena ClairModel.ArenaFd

inductive Role where
  | call        -- a closure of the proxy's running RealizeDescriptions call
  | cleanup     -- a handle in p.cleanup
deriving DecidableEq, Repr

/-- One RealizeDescriptions call in progress. -/
structure Call where
  descs : List Nat            -- the keys asked for, in order
  limit : Nat                 -- errgroup limit
  started : Nat := 0          -- descriptions started so far (the closures are the tasks `own` gives the proxy)
  dead : Bool := false        -- the group's context is cancelled
deriving DecidableEq, Repr

structure Proxy where
  call : Option Call := none
deriving DecidableEq, Repr

structure PState where
  f : FState := {}
  px : List Proxy := []
  own : Nat → Option (Nat × Role) := fun _ => none   -- task ↦ (proxy, what it is to the proxy)
  lost : List Nat := []       -- ghost: handles dropped from a cleanup list without being closed
  wasOwned : Nat → Bool := fun _ => false   -- ghost: the task was started by a proxy's errgroup

def pinit : PState := {}

inductive POp where
  | base (op : FOp)
  | pnew
  | realize (p limit : Nat) (ks : List Nat)
  | pcancel (p : Nat)
  | pclose (p : Nat)
deriving DecidableEq, Repr

inductive POut where
  | out (o : Out)
  | proxy (p : Nat)
  | started
  | cancelled
  | closed (n : Nat)
  | panic
  | bad
deriving DecidableEq, Repr

def isWaiting (a : Arena.State) (t : Nat) : Bool :=
  match a.tasks[t]? with
  | some (.waiting _) => true
  | _ => false

def isHolding (a : Arena.State) (t : Nat) : Bool :=
  match a.tasks[t]? with
  | some (.holding _ _) => true
  | _ => false

def isFailed (a : Arena.State) (t : Nat) : Bool :=
  match a.tasks[t]? with
  | some .failed => true
  | _ => false

/-- The closure of task `t` has returned. -/
def isDone (a : Arena.State) (t : Nat) : Bool :=
  match a.tasks[t]? with
  | some (.holding _ _) | some .failed | some .closed => true
  | _ => false

/-- The tasks that are `ro` to proxy `p`, in the order they were started. -/
def tasksOf (s : PState) (p : Nat) (ro : Role) : List Nat :=
  (List.range s.f.a.tasks.length).filter fun t => s.own t == some (p, ro)

def runBase (f : FState) (ops : List Op) : FState :=
  ops.foldl (fun f op => (fstep f (.base op)).1) f

/-- `g.Go` in RealizeDescriptions' loop: start descriptions while a slot is free. -/
def refill (s : PState) (p : Nat) (c : Call) : Nat → PState × Call
  | 0 => (s, c)
  | fuel + 1 =>
    match c.descs[c.started]? with
    | some k =>
      if ((tasksOf s p .call).filter fun t => !isDone s.f.a t).length < c.limit then
        refill { s with f := (fstep s.f (.base (.spawn k))).1,
                        own := upd s.own s.f.a.tasks.length (some (p, .call)),
                        wasOwned := upd s.wasOwned s.f.a.tasks.length true }
          p { c with started := c.started + 1 } fuel
      else (s, c)
    | none => (s, c)

/-- What the errgroup of one call does, given the state of its tasks. -/
def settleCall (s : PState) (p : Nat) (c : Call) : PState × Call :=
  let ts := tasksOf s p .call
  let dead := c.dead || ts.any (isFailed s.f.a)
  let s1 := if dead then { s with f := runBase s.f ((ts.filter (isWaiting s.f.a)).map .cancel) } else s
  refill s1 p { c with dead := dead } c.descs.length

/-- `own` after the handles that were `ro` to `p` have been given up or changed hands. -/
def relabel (own : Nat → Option (Nat × Role)) (p : Nat) (ro : Role) (to : Option (Nat × Role)) :
    Nat → Option (Nat × Role) :=
  fun t => if own t = some (p, ro) then to else own t

/-- `g.Wait` has returned? Then the call ends: (state, the call if it goes on). -/
def finishCall (fixedPx : Bool) (s : PState) (p : Nat) (c : Call) : PState × Option Call :=
  let ts := tasksOf s p .call
  if c.started = c.descs.length ∧ ts.all (isDone s.f.a) then
    if ts.any (isFailed s.f.a) then
      -- RealizeDescriptions closes the handles of the closures that succeeded
      ({ s with f := runBase s.f ((ts.filter (isHolding s.f.a)).map .close),
                own := relabel s.own p .call none }, none)
    else if fixedPx then ({ s with own := relabel s.own p .call (some (p, .cleanup)) }, none)
    else
      ({ s with own := relabel (relabel s.own p .cleanup none) p .call (some (p, .cleanup)),
                lost := s.lost ++ (tasksOf s p .cleanup).filter (isHolding s.f.a) }, none)
  else (s, some c)

def settleProxy (fixedPx : Bool) (s : PState) (i : Nat) : PState :=
  match s.px[i]? with
  | some p =>
    match p.call with
    | some c =>
      let (s1, c1) := settleCall s i c
      let (s2, c2) := finishCall fixedPx s1 i c1
      { s2 with px := s2.px.set i { call := c2 } }
    | none => s
  | none => s

def settleAll (fixedPx : Bool) (s : PState) : PState :=
  (List.range s.px.length).foldl (settleProxy fixedPx) s

/-- Is task `t` one of a proxy's (a closure of a running call, or a handle in a cleanup list)? -/
def owned (s : PState) (t : Nat) : Bool := (s.own t).isSome

/-- Transitions the scheduler cannot take on its own for a proxy's task: its handle is closed
    by the proxy, and its context is the group's. -/
def reserved (s : PState) : FOp → Bool
  | .base (.close t) => owned s t
  | .base (.cancel t) => owned s t
  | _ => false

def pstepG (fixedPx : Bool) (s : PState) : POp → PState × POut
  | .base op =>
    if reserved s op then (s, .bad) else
    (settleAll fixedPx { s with f := (fstep s.f op).1 }, .out (fstep s.f op).2)
  | .pnew => ({ s with px := s.px ++ [{}] }, .proxy s.px.length)
  | .realize p limit ks =>
    match s.px[p]? with
    | some q =>
      if q.call.isSome || limit == 0 then (s, .bad) else
      (settleAll fixedPx { s with px := s.px.set p { call := some { descs := ks, limit := limit } } }, .started)
    | none => (s, .bad)
  | .pcancel p =>
    match s.px[p]? with
    | some q =>
      match q.call with
      | some c => (settleAll fixedPx { s with px := s.px.set p { call := some { c with dead := true } } }, .cancelled)
      | none => (s, .cancelled)
    | none => (s, .bad)
  | .pclose p =>
    match s.px[p]? with
    | some q =>
      if q.call.isSome then (s, .bad)
      else if (tasksOf s p .cleanup).all (isHolding s.f.a) then
        ({ s with f := runBase s.f ((tasksOf s p .cleanup).map .close),
                  own := if fixedPx then relabel s.own p .cleanup none else s.own },
         .closed (tasksOf s p .cleanup).length)
      else (s, .panic)
    | none => (s, .bad)

/-- The code as it is now. -/
def pstep : PState → POp → PState × POut := pstepG true

/-- The code before the fix of FetchProxy's cleanup list. -/
def pstepOld : PState → POp → PState × POut := pstepG false

end ClairModel.ArenaProxy
