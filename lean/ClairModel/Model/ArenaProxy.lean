/-
  FetchProxy and RemoteFetchArena.Close on top of the arena machine (libindex/fetcher.go).

    a.Realizer(ctx)             `pnew`           a FetchProxy with an empty cleanup list
    p.RealizeDescriptions       `realize p L ks` an errgroup (limit L = GOMAXPROCS) runs one
                                                 fetchInto closure per description, in order,
                                                 at most L at a time
    the caller's ctx cancelled  `pcancel p`
    p.Close()                   `pclose p`       closes every handle in p.cleanup
    a.Close(ctx)                `base (base aclose)`

  What the errgroup does is not a transition of its own: it follows from the state of the
  group's tasks, and `settle` applies it after every transition:
    * the first task that returns an error cancels the group's context; every sibling that
      is blocked in the select leaves through `ctx.Done` (the arena transition `cancel t`);
      siblings that are past the select go on (Ref, Val and Init do not look at the context);
    * `g.Go` starts the next description as soon as fewer than L closures are running - also
      when the context is already dead: such a closure joins or starts a flight (`enter`) and
      leaves through `ctx.Done` at once;
    * when every closure has returned, `g.Wait` returns: on error RealizeDescriptions closes
      the handles of the closures that succeeded and returns the error; otherwise the
      handles are added to p.cleanup.

  `fixedPx = true` is the code as it is now (fix: a second RealizeDescriptions on the same
  proxy appends to p.cleanup, Close empties it).  `fixedPx = false` is the code before: the
  second call overwrote p.cleanup (the first call's handles could no longer be closed by
  anybody: `lost`), and Close kept the list (a second Close ran Layer.Close again: panic).
-/
import ClairModel.Model.ArenaFd

namespace ClairModel.ArenaProxy
open ClairModel.Arena ClairModel.ArenaFd

/-- One RealizeDescriptions call in progress. -/
structure Call where
  descs : List Nat            -- the keys asked for, in order
  limit : Nat                 -- errgroup limit
  tasks : List Nat := []      -- arena task of descs[i], for the descriptions started so far
  dead : Bool := false        -- the group's context is cancelled
deriving DecidableEq, Repr

structure Proxy where
  cleanup : List Nat := []    -- tasks whose closers p.cleanup holds
  call : Option Call := none
deriving DecidableEq, Repr

structure PState where
  f : FState := {}
  px : List Proxy := []
  lost : List Nat := []       -- ghost: handles dropped from a cleanup list without being closed

def pinit : PState := {}

inductive POp where
  | base (op : FOp)
  | pnew
  | realize (p limit : Nat) (ks : List Nat)
  | pcancel (p : Nat)
  | pclose (p : Nat)
deriving DecidableEq, Repr

inductive POut where
  | out (o : Out)
  | proxy (p : Nat)
  | started
  | cancelled
  | closed (n : Nat)
  | panic
  | bad
deriving DecidableEq, Repr

def isWaiting (a : Arena.State) (t : Nat) : Bool :=
  match a.tasks[t]? with
  | some (.waiting _) => true
  | _ => false

def isHolding (a : Arena.State) (t : Nat) : Bool :=
  match a.tasks[t]? with
  | some (.holding _ _) => true
  | _ => false

def isFailed (a : Arena.State) (t : Nat) : Bool :=
  match a.tasks[t]? with
  | some .failed => true
  | _ => false

/-- The closure of task `t` has returned. -/
def isDone (a : Arena.State) (t : Nat) : Bool :=
  match a.tasks[t]? with
  | some (.holding _ _) | some .failed | some .closed => true
  | _ => false

def runBase (f : FState) (ops : List Op) : FState :=
  ops.foldl (fun f op => (fstep f (.base op)).1) f

/-- `g.Go` in RealizeDescriptions' loop: start descriptions while a slot is free. -/
def refill (f : FState) (c : Call) : Nat → FState × Call
  | 0 => (f, c)
  | fuel + 1 =>
    match c.descs[c.tasks.length]? with
    | some k =>
      if (c.tasks.filter fun t => !isDone f.a t).length < c.limit then
        refill (fstep f (.base (.spawn k))).1 { c with tasks := c.tasks ++ [f.a.tasks.length] } fuel
      else (f, c)
    | none => (f, c)

/-- What the errgroup of one call does, given the state of its tasks. -/
def settleCall (f : FState) (c : Call) : FState × Call :=
  let dead := c.dead || c.tasks.any (isFailed f.a)
  let f1 := if dead then runBase f ((c.tasks.filter (isWaiting f.a)).map .cancel) else f
  refill f1 { c with dead := dead } c.descs.length

/-- `g.Wait` has returned? Then the call ends. -/
def finishCall (fixedPx : Bool) (f : FState) (p : Proxy) (c : Call) (lost : List Nat) :
    FState × Proxy × List Nat :=
  if c.tasks.length = c.descs.length ∧ c.tasks.all (isDone f.a) then
    if c.tasks.any (isFailed f.a) then
      (runBase f ((c.tasks.filter (isHolding f.a)).map .close), { p with call := none }, lost)
    else if fixedPx then (f, { cleanup := p.cleanup ++ c.tasks, call := none }, lost)
    else (f, { cleanup := c.tasks, call := none }, lost ++ p.cleanup.filter (isHolding f.a))
  else (f, { p with call := some c }, lost)

def settleProxy (fixedPx : Bool) (s : PState) (i : Nat) : PState :=
  match s.px[i]? with
  | some p =>
    match p.call with
    | some c =>
      let (f1, c1) := settleCall s.f c
      let (f2, p2, lost2) := finishCall fixedPx f1 p c1 s.lost
      { f := f2, px := s.px.set i p2, lost := lost2 }
    | none => s
  | none => s

def settleAll (fixedPx : Bool) (s : PState) : PState :=
  (List.range s.px.length).foldl (settleProxy fixedPx) s

/-- Is task `t` one of a proxy's (a closure of a running call, or a handle in a cleanup list)? -/
def owned (s : PState) (t : Nat) : Bool :=
  s.px.any fun p => p.cleanup.contains t || (match p.call with
    | some c => c.tasks.contains t
    | none => false)

/-- Transitions the scheduler cannot take on its own for a proxy's task: its handle is closed
    by the proxy, and its context is the group's. -/
def reserved (s : PState) : FOp → Bool
  | .base (.close t) => owned s t
  | .base (.cancel t) => owned s t
  | _ => false

def pstepG (fixedPx : Bool) (s : PState) : POp → PState × POut
  | .base op =>
    if reserved s op then (s, .bad) else
    let (f', out) := fstep s.f op
    (settleAll fixedPx { s with f := f' }, .out out)
  | .pnew => ({ s with px := s.px ++ [{}] }, .proxy s.px.length)
  | .realize p limit ks =>
    match s.px[p]? with
    | some q =>
      if q.call.isSome || limit == 0 then (s, .bad) else
      (settleAll fixedPx { s with px := s.px.set p { q with call := some { descs := ks, limit := limit } } }, .started)
    | none => (s, .bad)
  | .pcancel p =>
    match s.px[p]? with
    | some q =>
      match q.call with
      | some c => (settleAll fixedPx { s with px := s.px.set p { q with call := some { c with dead := true } } }, .cancelled)
      | none => (s, .cancelled)
    | none => (s, .bad)
  | .pclose p =>
    match s.px[p]? with
    | some q =>
      if q.call.isSome then (s, .bad)
      else if q.cleanup.all (isHolding s.f.a) then
        ({ s with f := runBase s.f (q.cleanup.map .close),
                  px := s.px.set p { q with cleanup := if fixedPx then [] else q.cleanup } }, .closed q.cleanup.length)
      else (s, .panic)
    | none => (s, .bad)

/-- The code as it is now. -/
def pstep : PState → POp → PState × POut := pstepG true

/-- The code before the fix of FetchProxy's cleanup list. -/
def pstepOld : PState → POp → PState × POut := pstepG false

end ClairModel.ArenaProxy
