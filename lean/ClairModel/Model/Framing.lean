/-
  C15 — framing scanners and the read loops of the advisory-feed parsers.

  What is modelled (file: function in /repo):

  * `scanFrom step`   a self-delimiting value scanner: bytes are consumed one at
                      a time until the value closes (`done`), a byte is
                      rejected (`bad`) or the input ends.  Nothing after the
                      closing byte is looked at.  Instances:
      - `jsonStep`    encoding/json's scanner (scanner.go) restricted to a
                      top-level object or array, as `Decoder.Decode` drives it
                      (stream.go readValue: the value ends at the bracket that
                      empties the parse stack).
      - `xmlStep`     the markup structure encoding/xml's `Decoder.Decode`
                      follows: prolog, then one root element up to its matching
                      end tag (or a self-closing root).  Follows the decoder on
                      well-formed documents and their prefixes (names are not
                      matched, entities and character ranges are not checked).
  * `decodeOne`       ubuntu/updater.go Parse, oracle|suse|photon/parser.go
                      Parse: one `Decode` from the reader, then a translation
                      of the decoded value.  Reads chunk by chunk.
  * `decodeOneEnd`    alpine/parser.go Parse, debian/parser.go Parse: one
                      `Decode`, then `dec.Token()` must return io.EOF.
  * `decodeOneDrain`  aws/updater.go Parse: one `Decode`, then
                      `io.Copy(io.Discard, contents)`.
  * `lineLoop`        rhel/vex/parser.go DeltaParse:
                      `for b, rdErr = r.ReadBytes('\n'); rdErr == nil; …`, then
                      the checks of the terminal error and of a final
                      unterminated record.
      `lineLoopUnfixed` is the loop as it was before commit 389c2ebf.
  * `recordLoop`      enricher/epss/epss.go ParseEnrichment: `Decode` in a loop
                      until an error, success iff that error is io.EOF.
    `recordLoopCvss`  enricher/cvss/cvss.go ParseEnrichment: the same loop, but
                      an empty record is appended before every `Decode`, so the
                      result carries one trailing empty record.
  * `drive`           libvuln/updates/manager.go driveUpdater: what is handed to
                      the store for each outcome of Fetch and Parse.

  Core Lean only.
-/
namespace ClairModel.Framing

abbrev Byte := UInt8
abbrev Bytes := List UInt8

/-! ### self-delimiting scanners -/

/-- Result of feeding one byte to a scanner. -/
inductive Step (σ : Type) where
  | next (s : σ)
  | done
  | bad

/-- Verdict of a scanner on an input. Offsets count consumed bytes. -/
inductive Scan where
  | complete (n : Nat)
  | incomplete
  | invalid (n : Nat)
deriving DecidableEq, Repr

/-- Run `step` from state `s` (already `pos` bytes in) until the value closes. -/
def scanFrom {σ : Type} (step : σ → Byte → Step σ) (s : σ) (pos : Nat) : Bytes → Scan
  | [] => .incomplete
  | b :: bs =>
    match step s b with
    | .next s' => scanFrom step s' (pos + 1) bs
    | .done => .complete (pos + 1)
    | .bad => .invalid (pos + 1)

/-! ### streams -/

/-- How a reader ends: `io.EOF`, or any other error. -/
inductive Term where
  | eof
  | err
deriving DecidableEq, Repr

/-- What a reader delivers: chunks of bytes (one per `Read`), then the terminal. -/
structure Stream where
  chunks : List Bytes
  term : Term

def Stream.bytes (s : Stream) : Bytes := s.chunks.flatten

/-- Parser outcome. -/
inductive Res (α : Type) where
  | ok (v : α)
  | err
deriving DecidableEq, Repr

/-- JSON white space (also what `Decoder.Token` skips). -/
def isWs (b : Byte) : Bool := b == 0x20 || b == 0x0a || b == 0x0d || b == 0x09

/-- Scanner over one chunk: either still inside the value, or a verdict. -/
def scanChunk {σ : Type} (step : σ → Byte → Step σ) (s : σ) (pos : Nat) : Bytes → (σ × Nat) ⊕ Scan
  | [] => .inl (s, pos)
  | b :: bs =>
    match step s b with
    | .next s' => scanChunk step s' (pos + 1) bs
    | .done => .inr (.complete (pos + 1))
    | .bad => .inr (.invalid (pos + 1))

/-- The decoder's refill loop: scan what was read, read more while the value is open.
    When the reader has nothing more, the value is incomplete whatever the terminal is. -/
def scanChunks {σ : Type} (step : σ → Byte → Step σ) (s : σ) (pos : Nat) : List Bytes → Scan
  | [] => .incomplete
  | c :: cs =>
    match scanChunk step s pos c with
    | .inl (s', pos') => scanChunks step s' pos' cs
    | .inr r => r

/-- One `Decode`, then the parser's translation `sem` of the decoded value
    (`none` = the translation fails: type mismatch, bad date, …). -/
def decodeOne {σ α : Type} (step : σ → Byte → Step σ) (init : σ) (sem : Bytes → Option α) (st : Stream) : Res α :=
  match scanChunks step init 0 st.chunks with
  | .complete n =>
    match sem (st.bytes.take n) with
    | some v => .ok v
    | none => .err
  | _ => .err

/-- One `Decode`, then read the rest of the input to its end (aws). -/
def decodeOneDrain {σ α : Type} (step : σ → Byte → Step σ) (init : σ) (sem : Bytes → Option α) (st : Stream) : Res α :=
  match decodeOne step init sem st with
  | .ok v => if st.term = .eof then .ok v else .err
  | .err => .err

/-- One `Decode`, then `dec.Token()` must report io.EOF: nothing but white
    space may follow the document and the reader must end cleanly (alpine,
    debian after commit e9df74a7). -/
def decodeOneEnd {σ α : Type} (step : σ → Byte → Step σ) (init : σ) (sem : Bytes → Option α) (st : Stream) : Res α :=
  match scanChunks step init 0 st.chunks with
  | .complete n =>
    if st.term = .eof ∧ (st.bytes.drop n).all isWs = true then
      match sem (st.bytes.take n) with
      | some v => .ok v
      | none => .err
    else .err
  | _ => .err

/-! ### line loop (VEX) -/

def nl : Byte := 10

/-- `ReadBytes('\n')` repeatedly: the complete lines (each with its newline) and
    what follows the last newline. -/
def splitLines : Bytes → List Bytes × Bytes
  | [] => ([], [])
  | b :: bs =>
    match splitLines bs with
    | (ls, rest) =>
      if b = nl then ([b] :: ls, rest)
      else
        match ls with
        | [] => ([], b :: rest)
        | l :: ls' => ((b :: l) :: ls', rest)

def mapAll {β α : Type} (sem : β → Option α) : List β → Option (List α)
  | [] => some []
  | x :: xs =>
    match sem x with
    | none => none
    | some v =>
      match mapAll sem xs with
      | none => none
      | some vs => some (v :: vs)

/-- DeltaParse after commit 389c2ebf: every complete line is parsed (an error
    there is returned at once); after the loop a terminal other than EOF and a
    non-empty unterminated rest are errors. -/
def lineLoop {α : Type} (sem : Bytes → Option α) (st : Stream) : Res (List α) :=
  match splitLines st.bytes with
  | (ls, rest) =>
    match mapAll sem ls with
    | none => .err
    | some vs => if st.term = .eof ∧ rest = [] then .ok vs else .err

/-- DeltaParse before the fix: the loop ends on any read error and the result
    is returned whatever that error was and whatever was left unterminated. -/
def lineLoopUnfixed {α : Type} (sem : Bytes → Option α) (st : Stream) : Res (List α) :=
  match mapAll sem (splitLines st.bytes).1 with
  | none => .err
  | some vs => .ok vs

/-! ### record loops (enrichment spools) -/

def dropWs : Bytes → Bytes
  | [] => []
  | b :: bs => if isWs b then dropWs bs else b :: bs

/-- What is left after the last complete value. -/
inductive Tail where
  | clean    -- nothing but white space
  | unfinished  -- a value that does not close
  | broken      -- a syntax error
deriving DecidableEq, Repr

/-- Successive `Decode`s: the complete values in order, and what follows them. -/
def splitValues {σ : Type} (step : σ → Byte → Step σ) (init : σ) : Nat → Bytes → List Bytes × Tail
  | 0, _ => ([], .broken)
  | fuel + 1, bs =>
    match dropWs bs with
    | [] => ([], .clean)
    | b :: rest =>
      match scanFrom step init 0 (b :: rest) with
      | .complete n =>
        match splitValues step init fuel ((b :: rest).drop n) with
        | (vs, t) => ((b :: rest).take n :: vs, t)
      | .incomplete => ([], .unfinished)
      | .invalid _ => ([], .broken)

/-- epss ParseEnrichment. -/
def recordLoop {σ α : Type} (step : σ → Byte → Step σ) (init : σ) (sem : Bytes → Option α) (st : Stream) : Res (List α) :=
  match splitValues step init (st.bytes.length + 1) st.bytes with
  | (vals, tail) =>
    match mapAll sem vals with
    | none => .err
    | some vs => if st.term = .eof ∧ tail = .clean then .ok vs else .err

/-- cvss ParseEnrichment: the same loop; the record appended before the `Decode`
    that hits EOF stays in the result. -/
def recordLoopCvss {σ α : Type} (step : σ → Byte → Step σ) (init : σ) (sem : Bytes → Option α) (zero : α) (st : Stream) : Res (List α) :=
  match recordLoop step init sem st with
  | .ok vs => .ok (vs ++ [zero])
  | .err => .err

/-! ### JSON: encoding/json scanner, top-level object or array -/

/-- What the innermost open container expects (scanner.go parseState). -/
inductive JCtx where
  | key    -- parseObjectKey
  | oval   -- parseObjectValue
  | aval   -- parseArrayValue
deriving DecidableEq, Repr

/-- Scanner step functions of scanner.go. -/
inductive JMode where
  | top                 -- before the top-level value (white space skipped)
  | value               -- stateBeginValue
  | valueOrEnd          -- stateBeginValueOrEmpty
  | keyOrEnd            -- stateBeginStringOrEmpty
  | key                 -- stateBeginString
  | endValue            -- stateEndValue
  | str                 -- stateInString
  | esc                 -- stateInStringEsc
  | hex (left : Nat)    -- stateInStringEscU… : `left` hex digits to go
  | neg                 -- stateNeg
  | zero                -- state0
  | int                 -- state1
  | dot                 -- stateDot
  | frac                -- stateDot0
  | exp                 -- stateE
  | expSign             -- stateESign
  | expDigits           -- stateE0
  | lit (rest : List Byte)  -- inside true / false / null
deriving DecidableEq, Repr

structure JState where
  mode : JMode
  stack : List JCtx
deriving DecidableEq, Repr

def jsonInit : JState := ⟨.top, []⟩

def isDigit (b : Byte) : Bool := 0x30 ≤ b && b ≤ 0x39
def isDigit19 (b : Byte) : Bool := 0x31 ≤ b && b ≤ 0x39
def isHex (b : Byte) : Bool := isDigit b || (0x61 ≤ b && b ≤ 0x66) || (0x41 ≤ b && b ≤ 0x46)

/-- stateBeginValue on a non-space byte. -/
def jsonBeginValue (st : List JCtx) (b : Byte) : Step JState :=
  if b = 0x7b then .next ⟨.keyOrEnd, .key :: st⟩          -- {
  else if b = 0x5b then .next ⟨.valueOrEnd, .aval :: st⟩  -- [
  else if b = 0x22 then .next ⟨.str, st⟩                  -- "
  else if b = 0x2d then .next ⟨.neg, st⟩                  -- -
  else if b = 0x30 then .next ⟨.zero, st⟩
  else if isDigit19 b then .next ⟨.int, st⟩
  else if b = 0x74 then .next ⟨.lit [0x72, 0x75, 0x65], st⟩        -- true
  else if b = 0x66 then .next ⟨.lit [0x61, 0x6c, 0x73, 0x65], st⟩  -- false
  else if b = 0x6e then .next ⟨.lit [0x75, 0x6c, 0x6c], st⟩        -- null
  else .bad

/-- popParseState: closing the outermost container ends the value. -/
def jsonPop : List JCtx → Step JState
  | [] => .bad
  | [_] => .done
  | _ :: c :: st => .next ⟨.endValue, c :: st⟩

/-- stateEndValue on a non-space byte. -/
def jsonEndValue (st : List JCtx) (b : Byte) : Step JState :=
  match st with
  | [] => .bad
  | .key :: st' => if b = 0x3a then .next ⟨.value, .oval :: st'⟩ else .bad
  | .oval :: st' =>
    if b = 0x2c then .next ⟨.key, .key :: st'⟩
    else if b = 0x7d then jsonPop (.oval :: st')
    else .bad
  | .aval :: st' =>
    if b = 0x2c then .next ⟨.value, .aval :: st'⟩
    else if b = 0x5d then jsonPop (.aval :: st')
    else .bad

/-- A byte that ends a number or literal is handed to stateEndValue (white space skipped there). -/
def jsonAfterScalar (st : List JCtx) (b : Byte) : Step JState :=
  if isWs b then .next ⟨.endValue, st⟩ else jsonEndValue st b

def jsonStep (s : JState) (b : Byte) : Step JState :=
  match s.mode with
  | .top =>
    if isWs b then .next s
    else if b = 0x7b then .next ⟨.keyOrEnd, [.key]⟩
    else if b = 0x5b then .next ⟨.valueOrEnd, [.aval]⟩
    else .bad
  | .value => if isWs b then .next s else jsonBeginValue s.stack b
  | .valueOrEnd =>
    if isWs b then .next s
    else if b = 0x5d then jsonPop s.stack
    else jsonBeginValue s.stack b
  | .keyOrEnd =>
    if isWs b then .next s
    else if b = 0x7d then jsonPop s.stack
    else if b = 0x22 then .next ⟨.str, s.stack⟩
    else .bad
  | .key =>
    if isWs b then .next s
    else if b = 0x22 then .next ⟨.str, s.stack⟩
    else .bad
  | .endValue => if isWs b then .next s else jsonEndValue s.stack b
  | .str =>
    if b = 0x22 then .next ⟨.endValue, s.stack⟩
    else if b = 0x5c then .next ⟨.esc, s.stack⟩
    else if b < 0x20 then .bad
    else .next s
  | .esc =>
    if b == 0x62 || b == 0x66 || b == 0x6e || b == 0x72 || b == 0x74 || b == 0x5c || b == 0x2f || b == 0x22 then .next ⟨.str, s.stack⟩
    else if b = 0x75 then .next ⟨.hex 4, s.stack⟩
    else .bad
  | .hex n =>
    if isHex b then (if n ≤ 1 then .next ⟨.str, s.stack⟩ else .next ⟨.hex (n - 1), s.stack⟩)
    else .bad
  | .neg =>
    if b = 0x30 then .next ⟨.zero, s.stack⟩
    else if isDigit19 b then .next ⟨.int, s.stack⟩
    else .bad
  | .int =>
    if isDigit b then .next s
    else if b = 0x2e then .next ⟨.dot, s.stack⟩
    else if b == 0x65 || b == 0x45 then .next ⟨.exp, s.stack⟩
    else jsonAfterScalar s.stack b
  | .zero =>
    if b = 0x2e then .next ⟨.dot, s.stack⟩
    else if b == 0x65 || b == 0x45 then .next ⟨.exp, s.stack⟩
    else jsonAfterScalar s.stack b
  | .dot => if isDigit b then .next ⟨.frac, s.stack⟩ else .bad
  | .frac =>
    if isDigit b then .next s
    else if b == 0x65 || b == 0x45 then .next ⟨.exp, s.stack⟩
    else jsonAfterScalar s.stack b
  | .exp =>
    if b == 0x2b || b == 0x2d then .next ⟨.expSign, s.stack⟩
    else if isDigit b then .next ⟨.expDigits, s.stack⟩
    else .bad
  | .expSign => if isDigit b then .next ⟨.expDigits, s.stack⟩ else .bad
  | .expDigits => if isDigit b then .next s else jsonAfterScalar s.stack b
  | .lit rest =>
    match rest with
    | [] => jsonAfterScalar s.stack b
    | c :: cs => if b = c then (if cs = [] then .next ⟨.endValue, s.stack⟩ else .next ⟨.lit cs, s.stack⟩) else .bad

def scanJson (bs : Bytes) : Scan := scanFrom jsonStep jsonInit 0 bs

/-! ### XML: prolog, then one root element -/

inductive XMode where
  | text                      -- character data (or prolog white space)
  | lt                        -- just after '<'
  | pi (q : Bool)             -- inside <? … ?>; q: last byte was '?'
  | bang                      -- just after "<!"
  | bangDash                  -- after "<!-"
  | comment (dashes : Nat)    -- inside <!-- … -->; trailing dashes seen (0,1,2)
  | cdataOpen (left : List Byte)   -- after "<![" expecting "CDATA["
  | cdata (br : Nat)          -- inside <![CDATA[ … ]]>; trailing ']' seen (0,1,2)
  | directive (depth : Nat) (quote : Byte)  -- <!DOCTYPE …>; quote = 0 when outside quotes
  | startTag (quote : Byte) (slash : Bool)  -- inside <name …; slash: last byte was '/'
  | endTag                    -- inside </name …
deriving DecidableEq, Repr

structure XState where
  mode : XMode
  depth : Nat
deriving DecidableEq, Repr

def xmlInit : XState := ⟨.text, 0⟩

/-- Leaving an element: the root's end closes the document. -/
def xmlClose (depth : Nat) : Step XState :=
  if depth ≤ 1 then .done else .next ⟨.text, depth - 1⟩

def xmlStep (s : XState) (b : Byte) : Step XState :=
  match s.mode with
  | .text => if b = 0x3c then .next ⟨.lt, s.depth⟩ else .next s
  | .lt =>
    if b = 0x3f then .next ⟨.pi false, s.depth⟩
    else if b = 0x21 then .next ⟨.bang, s.depth⟩
    else if b = 0x2f then (if s.depth = 0 then .bad else .next ⟨.endTag, s.depth⟩)
    else if b == 0x3e || b == 0x3c || isWs b then .bad
    else .next ⟨.startTag 0 false, s.depth⟩
  | .pi q =>
    if b == 0x3e && q then .next ⟨.text, s.depth⟩
    else .next ⟨.pi (b == 0x3f), s.depth⟩
  | .bang =>
    if b = 0x2d then .next ⟨.bangDash, s.depth⟩
    else if b = 0x5b then .next ⟨.cdataOpen [0x43, 0x44, 0x41, 0x54, 0x41, 0x5b], s.depth⟩
    else if b = 0x3e then .next ⟨.text, s.depth⟩
    else if b == 0x22 || b == 0x27 then .next ⟨.directive 0 b, s.depth⟩
    else if b = 0x3c then .next ⟨.directive 1 0, s.depth⟩
    else .next ⟨.directive 0 0, s.depth⟩
  | .bangDash => if b = 0x2d then .next ⟨.comment 0, s.depth⟩ else .bad
  | .comment d =>
    if b = 0x2d then .next ⟨.comment (if d < 2 then d + 1 else 2), s.depth⟩
    else if b == 0x3e && d == 2 then .next ⟨.text, s.depth⟩
    else .next ⟨.comment 0, s.depth⟩
  | .cdataOpen left =>
    match left with
    | [] => .bad
    | c :: cs => if b = c then (if cs = [] then .next ⟨.cdata 0, s.depth⟩ else .next ⟨.cdataOpen cs, s.depth⟩) else .bad
  | .cdata br =>
    if b = 0x5d then .next ⟨.cdata (if br < 2 then br + 1 else 2), s.depth⟩
    else if b == 0x3e && br == 2 then .next ⟨.text, s.depth⟩
    else .next ⟨.cdata 0, s.depth⟩
  | .directive d q =>
    if q ≠ 0 then (if b = q then .next ⟨.directive d 0, s.depth⟩ else .next s)
    else if b == 0x22 || b == 0x27 then .next ⟨.directive d b, s.depth⟩
    else if b = 0x3c then .next ⟨.directive (d + 1) 0, s.depth⟩
    else if b = 0x3e then (if d = 0 then .next ⟨.text, s.depth⟩ else .next ⟨.directive (d - 1) 0, s.depth⟩)
    else .next s
  | .startTag q slash =>
    if q ≠ 0 then (if b = q then .next ⟨.startTag 0 false, s.depth⟩ else .next s)
    else if b == 0x22 || b == 0x27 then .next ⟨.startTag b false, s.depth⟩
    else if b = 0x3e then
      (if slash then (if s.depth = 0 then .done else .next ⟨.text, s.depth⟩)
       else .next ⟨.text, s.depth + 1⟩)
    else if b = 0x3c then .bad
    else .next ⟨.startTag 0 (b == 0x2f), s.depth⟩
  | .endTag =>
    if b = 0x3e then xmlClose s.depth
    else if b = 0x3c then .bad
    else .next s

def scanXml (bs : Bytes) : Scan := scanFrom xmlStep xmlInit 0 bs

/-! ### driveUpdater -/

/-- Outcome of `Fetch`. -/
inductive FetchOut where
  | unchanged
  | failed
  | fetched
deriving DecidableEq, Repr

/-- What driveUpdater asks of the store. -/
inductive StoreCall (α : Type) where
  | none
  | update (snapshot : α)
deriving DecidableEq, Repr

/-- manager.go driveUpdater for one updater: the store is called only with the
    value of a successful parse of a successful fetch. -/
def drive {α : Type} (fetch : FetchOut) (parse : Res α) : StoreCall α × Bool :=
  match fetch with
  | .unchanged => (.none, true)
  | .failed => (.none, false)
  | .fetched =>
    match parse with
    | .err => (.none, false)
    | .ok v => (.update v, true)

end ClairModel.Framing
