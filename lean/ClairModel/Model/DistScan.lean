/-
  Models of the distribution scanners that read release files themselves:

  * alpine/distributionscanner.go: `readOSRelease` (on `osrelease.Parse`, the
    model of Model/OsRelease.lean) then `readIssue` (the two expressions
    `Alpine Linux [[:digit:]]+\.\w+ \(edge\)` and
    `Alpine Linux ([[:digit:]]+\.[[:digit:]]+)` as deterministic scans);
  * rhel/distributionscanner.go `findDistribution`: `etc/oracle-release`
    present → nothing; `etc/redhat-release` then `etc/os-release` searched with
    `Red Hat Enterprise Linux (?:Server|Atomic Host)?\s*(?:release)?\s*(\d+)(?:\.\d)?`
    (leftmost match, alternatives in order), `strconv.ParseInt`, `mkRelease`;
  * debian/distributionscanner.go `findDist` (on `osrelease.Parse`):
    `VERSION_CODENAME`, else the `(word)` at the end of `VERSION`;
  * ubuntu/distributionscanner.go `findDist`: its own line loop over
    `etc/lsb-release`, else `etc/os-release`.

  The CPE of a RHEL release is `cpe:/o:redhat:enterprise_linux:<n>` (bound
  form; `cpe.MustUnbind` is C19's).  ASCII letters only (`unicode.IsLetter`,
  `strings.Title`, `strings.EqualFold` on `ubuntu`).  Core Lean only.
-/
import ClairModel.Model.OsRelease

namespace ClairModel.DistScan
open ClairModel.Bytes ClairModel.OsRelease

def asc (s : String) : Bytes := s.toList.map Char.toNat

structure Dist where
  name : Bytes
  did : Bytes
  version : Bytes
  versionId : Bytes
  codeName : Bytes
  prettyName : Bytes
  cpe : Bytes
  deriving DecidableEq, Repr

/-- result of a scan: an error, nothing, or one distribution -/
inductive Res where
  | err
  | none
  | dist (d : Dist)
  deriving DecidableEq, Repr

def isDigit (c : Nat) : Bool := 48 ≤ c && c ≤ 57
def isLetter (c : Nat) : Bool := (65 ≤ c && c ≤ 90) || (97 ≤ c && c ≤ 122)
def isWord (c : Nat) : Bool := isDigit c || isLetter c || c == 95
/-- `\s` of RE2 -/
def isReSpace (c : Nat) : Bool := c == 9 || c == 10 || c == 12 || c == 13 || c == 32

def get (m : List (Bytes × Bytes)) (k : String) : Bytes := (mapGet m (asc k)).getD []
def has (m : List (Bytes × Bytes)) (k : String) : Bool := (mapGet m (asc k)).isSome

/-- leftmost position at which `pre` matches and `f` accepts what follows -/
def findAfter {α : Type} (pre : Bytes) (f : Bytes → Option α) : Bytes → Option α
  | [] => if pre.isEmpty then f [] else none
  | c :: cs =>
    match (if isPrefix pre (c :: cs) then f ((c :: cs).drop pre.length) else none) with
    | some r => some r
    | none => findAfter pre f cs

/-! ### alpine -/

/-- `vid[:strings.LastIndexByte(vid, '.')]` -/
def beforeLastDot (s : Bytes) : Option Bytes :=
  match (splitOn 46 s).reverse with
  | [] => none
  | [_] => none
  | _ :: r => some (joinWith 46 r.reverse)

def edgePretty : Bytes := asc "Alpine Linux edge"

def alpineOfMap (m : List (Bytes × Bytes)) : Option Dist :=
  if get m "ID" != asc "alpine" then none
  else match beforeLastDot (get m "VERSION_ID") with
    | none => none
    | some v =>
      some { name := get m "NAME", did := get m "ID",
             version := if get m "PRETTY_NAME" == edgePretty then asc "edge" else v,
             versionId := [], codeName := [], prettyName := get m "PRETTY_NAME", cpe := [] }

def sAlpineLinux : Bytes := asc "Alpine Linux "

/-- `[[:digit:]]+\.[[:digit:]]+` at the head: the matched text -/
def majorMinor (s : Bytes) : Option Bytes :=
  let a := s.takeWhile isDigit
  match s.dropWhile isDigit with
  | 46 :: r =>
    let b := r.takeWhile isDigit
    if a.isEmpty || b.isEmpty then none else some (a ++ 46 :: b)
  | _ => none

/-- `[[:digit:]]+\.\w+ \(edge\)` at the head -/
def edgeTail (s : Bytes) : Option Unit :=
  let a := s.takeWhile isDigit
  match s.dropWhile isDigit with
  | 46 :: r =>
    let w := r.takeWhile isWord
    if a.isEmpty || w.isEmpty then none
    else if isPrefix (asc " (edge)") (r.dropWhile isWord) then some () else none
  | _ => none

def alpineOfIssue (b : Bytes) : Option Dist :=
  if (findAfter sAlpineLinux edgeTail b).isSome then
    some { name := asc "Alpine Linux", did := asc "alpine", version := asc "edge", versionId := [], codeName := [],
           prettyName := edgePretty, cpe := [] }
  else match findAfter sAlpineLinux majorMinor b with
    | none => none
    | some v => some { name := asc "Alpine Linux", did := asc "alpine", version := v, versionId := [], codeName := [],
                       prettyName := asc "Alpine Linux v" ++ v, cpe := [] }

/-- `scanFs`: os-release first (a parse error is returned), then etc/issue -/
def alpineScan (osr issue : Option Bytes) : Res :=
  let fromIssue : Res := match issue with
    | none => .none
    | some b => match alpineOfIssue b with
      | some d => .dist d
      | none => .none
  match osr with
  | none => fromIssue
  | some f =>
    match parse f with
    | none => .err
    | some m => match alpineOfMap m with
      | some d => .dist d
      | none => fromIssue

/-! ### rhel -/

def sRhel : Bytes := asc "Red Hat Enterprise Linux "

def orElse {α : Type} (a b : Option α) : Option α := match a with | some x => some x | none => b

/-- `\s*(\d+)` at the head: the digits -/
def wsDigits (s : Bytes) : Option Bytes :=
  let d := (s.dropWhile isReSpace).takeWhile isDigit
  if d.isEmpty then none else some d

/-- `\s*(?:release)?\s*(\d+)` -/
def releaseTail (s : Bytes) : Option Bytes :=
  let t := s.dropWhile isReSpace
  orElse (if isPrefix (asc "release") t then wsDigits (t.drop 7) else none) (wsDigits t)

/-- what follows the phrase: `(?:Server|Atomic Host)?` tried in this order -/
def rhelTail (s : Bytes) : Option Bytes :=
  orElse (if isPrefix (asc "Server") s then releaseTail (s.drop 6) else none)
    (orElse (if isPrefix (asc "Atomic Host") s then releaseTail (s.drop 11) else none) (releaseTail s))

def natOfDigits (d : Bytes) : Nat := d.foldl (fun n c => n * 10 + (c - 48)) 0

def showNat (n : Nat) : Bytes := (toString n).toList.map Char.toNat

def mkRelease (n : Nat) : Dist :=
  { name := asc "Red Hat Enterprise Linux Server", did := asc "rhel", version := showNat n, versionId := showNat n,
    codeName := [], prettyName := asc "Red Hat Enterprise Linux Server " ++ showNat n,
    cpe := asc "cpe:/o:redhat:enterprise_linux:" ++ showNat n }

/-- one file: `none` = no match, go on with the next file -/
def rhelOfFile (b : Bytes) : Option Res :=
  match findAfter sRhel rhelTail b with
  | none => none
  | some d => if natOfDigits d < 9223372036854775808 then some (.dist (mkRelease (natOfDigits d))) else some .err

def rhelScan (oracle : Bool) (rhRelease osRelease : Option Bytes) : Res :=
  if oracle then .none
  else match rhRelease.bind rhelOfFile with
    | some r => r
    | none => match osRelease.bind rhelOfFile with
      | some r => r
      | none => .none

/-! ### debian -/

/-- `\(\w+\)$`: the word in parentheses the text ends with -/
def parenWordAtEnd (s : Bytes) : Option Bytes :=
  match s.reverse with
  | 41 :: r =>
    let w := r.takeWhile isWord
    match r.dropWhile isWord with
    | 40 :: _ => if w.isEmpty then none else some w.reverse
    | _ => none
  | _ => none

/-- `strings.TrimFunc(·, !unicode.IsLetter)` of the match `(word)` -/
def trimNonLetters (w : Bytes) : Bytes :=
  ((w.dropWhile (fun c => !isLetter c)).reverse.dropWhile (fun c => !isLetter c)).reverse

/-- `strconv.ParseInt(s, 10, 32)` -/
def parseInt32 (s : Bytes) : Option Int :=
  let (neg, d) := match s with
    | 45 :: r => (true, r)
    | 43 :: r => (false, r)
    | _ => (false, s)
  if d.isEmpty || !d.all isDigit then none
  else
    let n := natOfDigits d
    if neg then (if n ≤ 2147483648 then some (-(n : Int)) else none)
    else (if n ≤ 2147483647 then some (n : Int) else none)

def showInt (i : Int) : Bytes := (toString i).toList.map Char.toNat

def debianDist (name : Bytes) (ver : Int) : Dist :=
  { name := asc "Debian GNU/Linux", did := asc "debian",
    version := showInt ver ++ asc " (" ++ name ++ asc ")", versionId := showInt ver, codeName := name,
    prettyName := asc "Debian GNU/Linux " ++ showInt ver ++ asc " (" ++ name ++ asc ")", cpe := [] }

def debianOfMap (m : List (Bytes × Bytes)) : Option Dist :=
  if get m "ID" != asc "debian" then none
  else
    let name := if has m "VERSION_CODENAME" then get m "VERSION_CODENAME"
                else match parenWordAtEnd (get m "VERSION") with
                  | some w => trimNonLetters w
                  | none => []
    let idstr := get m "VERSION_ID"
    if name.isEmpty || idstr.isEmpty then none
    else match parseInt32 idstr with
      | none => none
      | some v => some (debianDist name v)

/-- a missing or malformed os-release is "no distribution", never an error -/
def debianScan (osr : Option Bytes) : Res :=
  match osr with
  | none => .none
  | some f => match parse f with
    | none => .none
    | some m => match debianOfMap m with
      | some d => .dist d
      | none => .none

/-! ### ubuntu -/

def cutEq : Bytes → Option (Bytes × Bytes)
  | [] => none
  | c :: cs => if c = 61 then some ([], cs) else (cutEq cs).map fun kv => (c :: kv.1, kv.2)

def inCutset (c : Nat) : Bool := c == 34 || c == 13 || c == 10

/-- `strings.Trim(v, "\"\r\n")` -/
def trimQ (v : Bytes) : Bytes := ((v.dropWhile inCutset).reverse.dropWhile inCutset).reverse

def lower (s : Bytes) : Bytes := s.map fun c => if 65 ≤ c && c ≤ 90 then c + 32 else c

structure UState where
  hasID : Bool
  ver : Bytes
  name : Bytes

/-- `none` = the ID names another distribution: the loop returns at once -/
def ubuntuLine (idKey verKey nameKey : Bytes) (st : UState) (l : Bytes) : Option UState :=
  match cutEq l with
  | none => some st
  | some (k, v) =>
    let v := trimQ v
    if k == idKey then (if lower v == asc "ubuntu" then some { st with hasID := true } else none)
    else if k == nameKey then some { st with name := v }
    else if k == verKey then some { st with ver := v }
    else some st

def ubuntuLoop (idKey verKey nameKey : Bytes) : UState → List Bytes → Option UState
  | st, [] => some st
  | st, l :: ls => match ubuntuLine idKey verKey nameKey st l with
    | none => none
    | some st' => ubuntuLoop idKey verKey nameKey st' ls

/-- `strings.Title` on ASCII -/
def titleAux : Bool → Bytes → Bytes
  | _, [] => []
  | sep, c :: cs =>
    let c' := if sep && 97 ≤ c && c ≤ 122 then c - 32 else c
    c' :: titleAux (!(isLetter c || isDigit c || c == 95)) cs

def title (s : Bytes) : Bytes := titleAux true s

def ubuntuDist (ver name : Bytes) : Dist :=
  { name := asc "Ubuntu", did := asc "ubuntu", version := ver ++ asc " (" ++ title name ++ asc ")", versionId := ver,
    codeName := name, prettyName := asc "Ubuntu " ++ ver, cpe := [] }

/-- split keeping the newline with each line (`ReadString('\n')`) -/
def linesNl (b : Bytes) : List Bytes :=
  let parts := splitOn 10 b
  match parts.reverse with
  | [] => []
  | last :: initRev => (initRev.reverse.map (· ++ [10])) ++ (if last.isEmpty then [] else [last])

def ubuntuOfFile (idKey verKey nameKey : String) (b : Bytes) : Res :=
  match ubuntuLoop (asc idKey) (asc verKey) (asc nameKey) ⟨false, [], []⟩ (linesNl b) with
  | none => .none
  | some st =>
    if st.hasID && !st.name.isEmpty && !st.ver.isEmpty then .dist (ubuntuDist st.ver st.name) else .none

/-- lsb-release wins when it exists, whatever it says -/
def ubuntuScan (lsb osr : Option Bytes) : Res :=
  match lsb with
  | some b => ubuntuOfFile "DISTRIB_ID" "DISTRIB_RELEASE" "DISTRIB_CODENAME" b
  | none => match osr with
    | some b => ubuntuOfFile "ID" "VERSION_ID" "VERSION_CODENAME" b
    | none => .none

end ClairModel.DistScan
