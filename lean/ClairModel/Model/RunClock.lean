/-
  `controller.run` (indexer/controller/controller.go) as a machine of its own,
  with the retry branch's clock: the state functions are scripted (each call
  returns what the script says), so every arm of the switch and the
  retry / backoff path can be driven — also the arms the in-tree state
  functions never reach (an error together with a non-Terminal next state).

      for err == nil && s.currentState != Terminal {
          next, err = stateToStateFunc[s.currentState](ctx, s)
          switch {
          case err == nil && ctx.Err() != nil:  err = ctx.Err(); continue
          case err == nil:
          case errors.Is(err, context.DeadlineExceeded):  retry = true
          case errors.Is(err, context.Canceled):  continue
          default:  s.setState(IndexError); s.report.Success = false; s.report.Err = err.Error()
          }
          if e := s.Store.SetIndexReport(ctx, s.report); e != nil {
              s.setState(IndexError); s.report.Err = ...; err = e; break
          }
          if retry { wait(w) or ctx.Done(); w = jitter(); retry = false; err = nil }
          if next == Terminal { break }
          s.setState(next)
      }
      return err

  The harness runs the real loop through `controller.RunScriptedForVerif` and
  sees the wait about to be taken at the hook point `controller.run.retry`.
  Core Lean only.
-/
import ClairModel.Model.Indexer

namespace ClairModel.RunClock
open ClairModel.Indexer (CState ErrClass)

/-- One call of a (scripted) state function and what surrounds it. -/
structure Iter where
  next : CState
  err : Option ErrClass := none   -- class of the error the state function returns
  cancel : Bool := false          -- the caller's context is cancelled while the function runs
  persistFails : Bool := false    -- the SetIndexReport after it fails (ordinary error)
  cancelInWait : Bool := false    -- the context is cancelled when the retry branch starts to wait
  deriving DecidableEq, Repr

inductive Ev
  | call (s : CState)                                   -- the state function of `s` was called
  | persist (st : Option CState) (success errSet : Bool) (ok : Bool)   -- SetIndexReport(report), and whether it succeeded
  | wait (jitter : Bool)                                -- the retry branch waits: zero duration, or jitter() = 1..5 s
  deriving DecidableEq, Repr

structure St where
  cur : CState := .checkManifest   -- s.currentState
  state : Option CState := none    -- report.State
  success : Bool := false          -- report.Success
  errSet : Bool := false           -- report.Err ≠ ""
  dead : Bool := false             -- ctx.Err() ≠ nil
  jit : Bool := false              -- `w` has been set by jitter()
  deriving DecidableEq, Repr

def setState (s : St) (c : CState) : St := { s with cur := c, state := some c }

/-- What the script says for the next call; a script that ran out answers
    (Terminal, nil). -/
def nextIter : List Iter → Iter × List Iter
  | [] => ({ next := .terminal }, [])
  | i :: rest => (i, rest)

/-- One turn of the loop: the call of the state function, the switch, the
    SetIndexReport, the retry wait, the advance. The last component is `some r`
    when the loop is left, with `r` the error `run` returns. -/
def stepIter (it : Iter) (s : St) : List Ev × St × Option (Option ErrClass) :=
  let ev0 := Ev.call s.cur
  let s := { s with dead := s.dead || it.cancel }
  -- the switch; `none`: leave the loop now with the context's / the function's Canceled error
  let arm : Option (St × Bool × Option ErrClass) :=
    match it.err with
    | none => if s.dead then none else some (s, false, none)
    | some .dl => some (s, true, none)
    | some .can => none
    | some .gen => some ({ setState s .indexError with success := false, errSet := true }, false, some .gen)
  match arm with
  | none => ([ev0], s, some (some .can))
  | some (s, retry, carry) =>
    -- SetIndexReport: fails when the context is dead (the store checks it) or when the script says so
    let ok := !(s.dead || it.persistFails)
    let evp := Ev.persist s.state s.success s.errSet ok
    if !ok then
      ([ev0, evp], { setState s .indexError with errSet := true }, some (some (if s.dead then .can else .gen)))
    else
      let evw := if retry then [Ev.wait s.jit] else []
      let s := if retry then { s with jit := true, dead := s.dead || it.cancelInWait } else s
      if it.next = .terminal then (ev0 :: evp :: evw, s, some carry)
      else if carry.isSome then (ev0 :: evp :: evw, setState s it.next, some carry)    -- `for err == nil && ...`
      else (ev0 :: evp :: evw, setState s it.next, none)

/-- `run`. Returns the events in order, the final controller state and the
    class of the returned error. -/
def run : Nat → List Iter → St → List Ev × St × Option ErrClass
  | 0, _, s => ([], s, some .gen)     -- out of fuel (not reached with fuel > script length)
  | fuel + 1, script, s =>
    if s.cur = .terminal then ([], s, none) else
    match stepIter (nextIter script).1 s with
    | (evs, s', some r) => (evs, s', r)
    | (evs, s', none) =>
      match run fuel (nextIter script).2 s' with
      | (evs2, s2, r) => (evs ++ evs2, s2, r)

def waits (evs : List Ev) : List Bool := evs.filterMap fun e => match e with | .wait j => some j | _ => none

end ClairModel.RunClock
