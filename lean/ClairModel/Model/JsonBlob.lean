/-
  Model of the offline blob store
    libvuln/jsonblob/jsonblob.go   (Store.UpdateVulnerabilities / UpdateEnrichments /
                                    DeltaUpdateVulnerabilities, Store.Store, bufShim,
                                    Load, Loader.Next / Entry / Err)
    libvuln/updates.go             (OfflineImport's loop over the loader)

  What is abstract:
    * a record (one vulnerability / one enrichment record) is a token naming its
      content plus the length of the JSON line the per-update disk buffer holds for
      it (`encoding/json` fidelity of the record types is property C17's);
    * a UUID is a natural number, `uuid.Nil` is 0, and `uuid.New()` is the
      successor of a value drawn from the random source (the version nibble makes
      it different from Nil);
    * the iteration order of the Go map `s.entry` is a parameter of `Store.store`;
    * `Date` is not modelled.
  Core Lean only.
-/
namespace ClairModel.JsonBlob

/-! ### Records, entries of the store -/

/-- One vulnerability or enrichment record: `tok` names the content, `len` is the
    length in bytes of its JSON encoding (the line in the disk buffer, without the
    newline). -/
structure Rec where
  tok : Nat
  len : Nat
deriving DecidableEq, Repr

/-- `getBuf`: the scanner buffer of `bufShim` is 1 MiB and may not grow. -/
def maxLine : Nat := 1048576

/-- `bufio.Scanner.Scan` yields the line iff it and its newline fit the buffer. -/
def Rec.fits (r : Rec) : Bool := r.len < maxLine

inductive Kind where
  | vuln
  | enrich
deriving DecidableEq, Repr

/-- `uuid.New()` on the random value `n`. Never `uuid.Nil` (= 0). -/
def mkUuid (n : Nat) : Nat := n + 1

/-- A value of the map `s.entry`: `ref` is the key; exactly one of the two disk
    buffers (`vulns` / `enrichments`) is non-nil, told by `kind`; `recs` are the
    lines of that buffer, `recs.length` is `vulnCt` / `enrichmentCt`. -/
structure Entry where
  ref : Nat
  updater : String
  fp : String
  kind : Kind
  recs : List Rec
deriving DecidableEq, Repr

/-! ### Lines of the written file -/

/-- What `Loader.Next` finds in one decoded `diskEntry`. -/
inductive Body where
  | vuln (r : Rec)     -- Kind "vulnerability", payload unmarshals
  | enrich (r : Rec)   -- Kind "enrichment", payload unmarshals
  | other              -- any other Kind: the switch has no default
  | bad                -- payload does not unmarshal into the record type
  | garbage            -- `dec.Decode(&l.de)` itself fails on this line
deriving DecidableEq, Repr

/-- One line of the file `Store.Store` writes (a `diskEntry`). -/
structure Line where
  ref : Nat
  updater : String
  fp : String
  body : Body
deriving DecidableEq, Repr

def Kind.body : Kind → Rec → Body
  | .vuln, r => .vuln r
  | .enrich, r => .enrich r

/-- The `diskEntry` written for record `r` of entry `e`. -/
def mkLine (e : Entry) (r : Rec) : Line :=
  { ref := e.ref, updater := e.updater, fp := e.fp, body := e.kind.body r }

/-! ### The store -/

structure Store where
  entries : List Entry := []   -- the map `s.entry`, in insertion order
  latestV : Nat := 0           -- s.latest[VulnerabilityKind]
  latestE : Nat := 0           -- s.latest[EnrichmentKind]
deriving Repr

def Store.init : Store := {}

def Store.hasRef (s : Store) (r : Nat) : Bool := s.entries.any (·.ref == r)

/-- The `for { if _, exist := s.entry[ref]; !exist { break }; ref = uuid.New() }`
    loop over the values `uuid.New()` returns during the call: the first one that
    is not a key of the map, together with the number of values consumed.
    `none`: every supplied value collides (the real loop would keep drawing). -/
def pickRef (taken : Nat → Bool) : List Nat → Nat → Option (Nat × Nat)
  | [], _ => none
  | c :: cs, used =>
    if taken (mkUuid c) then pickRef taken cs (used + 1) else some (mkUuid c, used + 1)

/-- `UpdateVulnerabilities` / `UpdateEnrichments`: the records go to a fresh disk
    buffer, the entry is inserted under a fresh ref, `latest[kind]` is set. -/
def Store.record (s : Store) (k : Kind) (updater fp : String) (recs : List Rec)
    (cands : List Nat) : Store × Option (Nat × Nat) :=
  match pickRef s.hasRef cands 0 with
  | none => (s, none)
  | some (ref, used) =>
    let e : Entry := { ref := ref, updater := updater, fp := fp, kind := k, recs := recs }
    let s' : Store := match k with
      | .vuln => { s with entries := s.entries ++ [e], latestV := ref }
      | .enrich => { s with entries := s.entries ++ [e], latestE := ref }
    (s', some (ref, used))

/-- `DeltaUpdateVulnerabilities` calls `UpdateVulnerabilities`; `deleted` is ignored. -/
def Store.recordDelta (s : Store) (updater fp : String) (recs : List Rec) (_deleted : List String)
    (cands : List Nat) : Store × Option (Nat × Nat) :=
  s.record .vuln updater fp recs cands

/-- The inner `for i := 0; i < ct; i++` loop of `Store.Store` for one entry: one
    `diskEntry` per line the scanner yields; a line that does not fit the buffer
    makes `MarshalJSON` fail, `enc.Encode` writes nothing for it and the error is
    returned. -/
def emitRecs (e : Entry) : List Rec → List Line × Bool
  | [] => ([], true)
  | r :: rs =>
    if r.fits then
      let (ls, ok) := emitRecs e rs
      (mkLine e r :: ls, ok)
    else ([], false)

/-- `Store.Store` over the entries in map-iteration order `order`: lines written,
    entries still in the map afterwards, and whether nil was returned.  Every
    visited entry is deleted, also the one whose write failed. -/
def storeOut : List Entry → List Line × List Entry × Bool
  | [] => ([], [], true)
  | e :: es =>
    let (ls, ok) := emitRecs e e.recs
    if ok then
      let (ls', left, ok') := storeOut es
      (ls ++ ls', left, ok')
    else (ls, es, false)

/-- Reorder the map's entries by the given key order; `none` if `order` is not a
    permutation of the keys. -/
def arrange (entries : List Entry) : List Nat → Option (List Entry)
  | [] => if entries.isEmpty then some [] else none
  | r :: rs =>
    match entries.find? (·.ref == r) with
    | none => none
    | some e =>
      match arrange (entries.filter (fun x => !(x.ref == r))) rs with
      | none => none
      | some es => some (e :: es)

/-- `Store.Store(w)` with the map iterated in key order `order`. -/
def Store.store (s : Store) (order : List Nat) : Option (Store × List Line × Bool) :=
  match arrange s.entries order with
  | none => none
  | some es =>
    let (ls, left, ok) := storeOut es
    some ({ s with entries := left }, ls, ok)

/-! ### `Store.Store` when a disk buffer cannot be read back

  A fault `(ref, k)` says: the disk buffer of the entry `ref` yields its first
  `k` lines and then fails (the file was closed, truncated, or the read returns
  an I/O error).  `bufShim.MarshalJSON` then returns the scanner's error (or no
  bytes at all), `enc.Encode` writes nothing for that `diskEntry` and returns
  an error — the same path a line of 1 MiB or more takes. -/

/-- The fault of the entry `ref`, if one is listed. -/
def cutOf (faults : List (Nat × Nat)) (ref : Nat) : Option Nat :=
  (faults.find? (·.1 == ref)).map (·.2)

/-- The `ct` loop for one entry whose buffer fails after `k` lines (if `k` is
    less than the number of lines it holds). -/
def emitCut (e : Entry) : Option Nat → List Line × Bool
  | none => emitRecs e e.recs
  | some k =>
    if k < e.recs.length then ((emitRecs e (e.recs.take k)).1, false)
    else emitRecs e e.recs

/-- `Store.Store` with disk-buffer faults; `storeOut` is the case of no fault. -/
def storeOutF (faults : List (Nat × Nat)) : List Entry → List Line × List Entry × Bool
  | [] => ([], [], true)
  | e :: es =>
    let (ls, ok) := emitCut e (cutOf faults e.ref)
    if ok then
      let (ls', left, ok') := storeOutF faults es
      (ls ++ ls', left, ok')
    else (ls, es, false)

def Store.storeF (s : Store) (order : List Nat) (faults : List (Nat × Nat)) :
    Option (Store × List Line × Bool) :=
  match arrange s.entries order with
  | none => none
  | some es =>
    let (ls, left, ok) := storeOutF faults es
    some ({ s with entries := left }, ls, ok)

/-- `Initialized`. -/
def Store.initialized (s : Store) : Bool := !s.entries.isEmpty

/-! ### The loader -/

/-- What `Loader.Entry()` returns: an `Entry` assembled from lines. -/
structure LEntry where
  updater : String
  fp : String
  vuln : List Rec := []
  enrich : List Rec := []
deriving DecidableEq, Repr

inductive LErr where
  | none
  | eof         -- io.EOF: `Err()` reports nil
  | decode      -- a line is not a diskEntry
  | unmarshal   -- a payload is not a record
  | panicked
deriving DecidableEq, Repr

structure Loader where
  err : LErr := .none
  e : Option LEntry := none      -- l.e
  next : Option LEntry := none   -- l.next
  cur : Nat := 0                 -- l.cur, starts as uuid.Nil
  rest : List Line               -- what the decoder has not read yet
deriving DecidableEq, Repr

/-- `Load`. -/
def Loader.init (lines : List Line) : Loader := { rest := lines }

inductive NextOut where
  | yes
  | no
  | panic   -- nil pointer dereference of `l.next`
deriving DecidableEq, Repr

def LEntry.new (ln : Line) : LEntry := { updater := ln.updater, fp := ln.fp }

def LEntry.addVuln (n : LEntry) (r : Rec) : LEntry := { n with vuln := n.vuln ++ [r] }
def LEntry.addEnrich (n : LEntry) (r : Rec) : LEntry := { n with enrich := n.enrich ++ [r] }

def boolOut (b : Bool) : NextOut := if b then .yes else .no

/-- The `for l.err = l.dec.Decode(&l.de); l.err == nil; …` loop of `Loader.Next`
    with the registers `l.e`, `l.next`, `l.cur`, and after it
    `l.e = l.next; return l.e != nil`. -/
def loop (e next : Option LEntry) (cur : Nat) : List Line → Loader × NextOut
  | [] =>
    ({ err := .eof, e := next, next := next, cur := cur, rest := [] }, boolOut next.isSome)
  | ln :: rest =>
    if ln.body = .garbage then
      ({ err := .decode, e := next, next := next, cur := cur, rest := rest }, boolOut next.isSome)
    else
      let promote := ln.ref != cur
      -- "If we just hit a new Entry, promote the current one."
      let e' := if promote then next else e
      let next' := if promote then some (LEntry.new ln) else next
      -- switch l.de.Kind
      let appended : Option (Option LEntry) :=   -- none: the code stops here
        match ln.body with
        | .vuln r => next'.map fun n => some (n.addVuln r)
        | .enrich r => next'.map fun n => some (n.addEnrich r)
        | .other => some next'
        | _ => none
      match appended with
      | none =>
        if ln.body = .bad then
          ({ err := .unmarshal, e := e', next := next', cur := cur, rest := rest }, .no)
        else
          ({ err := .panicked, e := e', next := next', cur := cur, rest := rest }, .panic)
      | some next'' =>
        -- "If this was an initial diskEntry, promote the ref."
        if promote then
          if e'.isSome then
            ({ err := .none, e := e', next := next'', cur := ln.ref, rest := rest }, .yes)
          else loop e' next'' ln.ref rest
        else loop e' next'' cur rest

/-- `Loader.Next`. -/
def Loader.step (l : Loader) : Loader × NextOut :=
  if l.err ≠ .none then (l, .no) else loop l.e l.next l.cur l.rest

inductive Fin where
  | ok        -- Next reported false, Err() is nil
  | err       -- Next reported false, Err() is an error
  | panic
  | fuel      -- not reached with the fuel `loadAll` supplies
deriving DecidableEq, Repr

def LErr.fin : LErr → Fin
  | .none => .ok
  | .eof => .ok
  | .decode => .err
  | .unmarshal => .err
  | .panicked => .panic

/-- The caller's `for l.Next() { use(l.Entry()) }; l.Err()`. -/
def drain : Nat → Loader → List (Option LEntry) × Fin
  | 0, _ => ([], .fuel)
  | n + 1, l =>
    match l.step with
    | (l', .yes) => let (es, f) := drain n l'; (l'.e :: es, f)
    | (l', .no) => ([], l'.err.fin)
    | (_, .panic) => ([], .panic)

/-- Load a file and collect every entry the iterator yields. -/
def loadAll (lines : List Line) : List (Option LEntry) × Fin :=
  drain (lines.length + 2) (Loader.init lines)

/-- The `Entry` a stored entry should come back as. -/
def Entry.loaded (e : Entry) : LEntry :=
  match e.kind with
  | .vuln => { updater := e.updater, fp := e.fp, vuln := e.recs }
  | .enrich => { updater := e.updater, fp := e.fp, enrich := e.recs }

/-! ### Histories: recorders, Store, Load on one writer -/

inductive Op where
  | record (k : Kind) (updater fp : String) (recs : List Rec) (cands : List Nat)
  | delta (updater fp : String) (recs : List Rec) (deleted : List String) (cands : List Nat)
  | store (order : List Nat) (faults : List (Nat × Nat))
  /-- a recording call that returns an error before it takes the lock: `diskBuf`
      fails (no temp file can be created) or the per-update encoder fails on a
      record; the call returns `uuid.Nil, err` and the store is untouched -/
  | failed (k : Kind) (updater fp : String) (recs : List Rec)
  /-- the `io.Writer` failed in the middle of a line: `enc.Encode` had handed it
      the whole line in one `Write`, it took part of it — the output now ends in
      bytes that are not a `diskEntry` -/
  | tear
  /-- the caller starts a new, empty output -/
  | newfile
deriving Repr

/-- The store plus everything written so far to the one `io.Writer` all `Store`
    calls of the history are given. -/
structure World where
  store : Store := {}
  out : List Line := []
deriving Repr

def World.init : World := {}

inductive Out where
  | ref (r used : Nat)
  | hang                       -- the ref loop never found a free key
  | stored (ok : Bool) (lines : List Line) (left : List Nat)
  | badOrder
  | err                        -- the recording call returned an error
  | done
deriving Repr

def step (w : World) : Op → World × Out
  | .record k u f recs cands =>
    match w.store.record k u f recs cands with
    | (s', some (r, used)) => ({ w with store := s' }, .ref r used)
    | (_, none) => (w, .hang)
  | .delta u f recs del cands =>
    match w.store.recordDelta u f recs del cands with
    | (s', some (r, used)) => ({ w with store := s' }, .ref r used)
    | (_, none) => (w, .hang)
  | .store order faults =>
    match w.store.storeF order faults with
    | none => (w, .badOrder)
    | some (s', ls, ok) => ({ store := s', out := w.out ++ ls }, .stored ok ls (s'.entries.map (·.ref)))
  | .failed _ _ _ _ => (w, .err)
  | .tear => ({ w with out := w.out ++ [{ ref := 0, updater := "", fp := "", body := .garbage }] }, .done)
  | .newfile => ({ w with out := [] }, .done)

/-! ### OfflineImport's loop -/

/-- The matcher store as far as `OfflineImport` uses it: the fingerprints of the
    vulnerability update operations per updater (read once, before the loop), and
    the log of the update calls made. -/
inductive ImportCall where
  | enrichments (updater fp : String) (recs : List Rec)
  | vulnerabilities (updater fp : String) (recs : List Rec)
deriving DecidableEq, Repr

/-- One iteration of the `Update:` loop for entry `e`: skipped when some
    operation of `ops[e.Updater]` has the entry's fingerprint; otherwise
    `UpdateEnrichments` if `e.Enrichment != nil`, then `UpdateVulnerabilities` if
    `e.Vuln != nil`. -/
def importEntry (known : String → List String) (e : LEntry) : List ImportCall :=
  if (known e.updater).contains e.fp then []
  else
    (if e.enrich.isEmpty then [] else [ImportCall.enrichments e.updater e.fp e.enrich]) ++
    (if e.vuln.isEmpty then [] else [ImportCall.vulnerabilities e.updater e.fp e.vuln])

/-- `OfflineImport` with a store that never fails: the calls made, or `none` if a
    nil entry is dereferenced. -/
def importAll (known : String → List String) : List (Option LEntry) → Option (List ImportCall)
  | [] => some []
  | none :: _ => none
  | some e :: es => (importAll known es).map (importEntry known e ++ ·)

end ClairModel.JsonBlob
