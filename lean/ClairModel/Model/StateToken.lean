/-
  Model of `libindex.(*Libindex).setState` (libindex/libindex.go): the byte
  string that is fed to the hash. The hash itself (md5) is a parameter assumed
  injective; two configurations have the same token iff `preimage` agrees.

      for _, s := range vscnrs {
          n := s.Kind() + "\x00" + s.Name()
          m[n] = []byte(s.Name() + "\x00" + s.Version() + "\x00" + s.Kind() + "\n")
          ns = append(ns, n)
      }
      h.Write(versionMagic); sort.Strings(ns); for _, n := range ns { h.Write(m[n]) }

  `preimageOld` is the function before the `fix:` commit (map keyed by name
  only, fields concatenated without separators). Bytes are `Nat`s. Core only.
-/
namespace ClairModel.StateToken

abbrev Bytes := List Nat

/-- A scanner as `setState` sees it: three byte strings. -/
structure TScanner where
  name : Bytes
  version : Bytes
  kind : Bytes
  deriving DecidableEq, Repr

/-- Bytewise lexicographic `<` (Go's string comparison, `sort.Strings`). -/
def lexLt : Bytes → Bytes → Bool
  | [], [] => false
  | [], _ :: _ => true
  | _ :: _, [] => false
  | a :: as, b :: bs => if a < b then true else if b < a then false else lexLt as bs

/-- Insertion sort by `lexLt`, keeping duplicates (as `sort.Strings` does). -/
def insKey (k : Bytes) : List Bytes → List Bytes
  | [] => [k]
  | x :: xs => if lexLt x k then x :: insKey k xs else k :: x :: xs

def sortKeys : List Bytes → List Bytes
  | [] => []
  | k :: ks => insKey k (sortKeys ks)

def key (s : TScanner) : Bytes := s.kind ++ [0] ++ s.name
def entry (s : TScanner) : Bytes := s.name ++ [0] ++ s.version ++ [0] ++ s.kind ++ [10]

/-- `m[k]` after the loop: the entry of the last scanner with that key. -/
def lookupLast (kf : TScanner → Bytes) (ef : TScanner → Bytes) (k : Bytes) : List TScanner → Option Bytes
  | [] => none
  | s :: rest =>
    match lookupLast kf ef k rest with
    | some e => some e
    | none => if kf s = k then some (ef s) else none

/-- `versionMagic` = "libindex number: 2\n". -/
def magic : Bytes := [108, 105, 98, 105, 110, 100, 101, 120, 32, 110, 117, 109, 98, 101, 114, 58, 32, 50, 10]

def preimageWith (kf ef : TScanner → Bytes) (vs : List TScanner) : Bytes :=
  magic ++ (sortKeys (vs.map kf)).flatMap fun k => (lookupLast kf ef k vs).getD []

/-- The hashed byte string of the current code. -/
def preimage (vs : List TScanner) : Bytes := preimageWith key entry vs

def keyOld (s : TScanner) : Bytes := s.name
def entryOld (s : TScanner) : Bytes := s.name ++ s.version ++ s.kind ++ [10]

/-- The hashed byte string before the fix. -/
def preimageOld (vs : List TScanner) : Bytes := preimageWith keyOld entryOld vs

end ClairModel.StateToken
