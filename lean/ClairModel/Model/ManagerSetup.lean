/-
  Which updaters a run of the update manager contains: the code that runs
  before `Manager.Run` starts its workers.

    libvuln/driver/updaterset.go   UpdaterSet: Add, Merge, RegexFilter, Updaters
    updater/registry.go            Register, Registered, Configure
    libvuln/updates/options.go     WithBatchSize, WithInterval, WithEnabled, WithConfigs,
                                   WithOutOfTree, WithGC, WithFactories
    libvuln/updates/manager.go     NewManager; the factory / Configure loops at the top of Run

  Go maps are association lists with distinct keys (the newest entry first);
  everything observable is order-free (the protocol driver sorts), because map
  iteration order is not determined.  Names are numbers: updater names as in
  Model/Manager.lean, factory names in their own space with `ootName` for the
  key "outOfTree".  Core Lean only.
-/
import ClairModel.Model.Manager

namespace ClairModel.MgrSetup
open ClairModel.Manager (Fac plan planStubs isStub)

/-! ### driver.UpdaterSet -/

/-- `UpdaterSet.set`: name ↦ updater instance. -/
abbrev USet := List (Nat × Nat)

def USet.names (s : USet) : List Nat := s.map (·.1)

def USet.has (s : USet) (n : Nat) : Bool := s.names.contains n

/-- `Add`: `none` is ErrExists (the set is left as it was). -/
def USet.add (nm : Nat → Nat) (s : USet) (i : Nat) : Option USet :=
  if s.has (nm i) then none else some ((nm i, i) :: s)

/-- Names of `t` that exist in `s` (the `exists` slice of Merge). -/
def USet.common (s t : USet) : List Nat := t.names.filter s.has

/-- `s.Merge(t)`: all or nothing. `Sum.inl` carries ErrExists.Updater. -/
def USet.merge (s t : USet) : List Nat ⊕ USet :=
  if (USet.common s t).isEmpty then .inr (t ++ s) else .inl (USet.common s t)

/-- `RegexFilter` with a regexp that compiles: `keep` is `re.MatchString` on
    the updater's name.  (A regexp that does not compile is an error and
    leaves the set alone.) -/
def USet.regexFilter (keep : Nat → Bool) (s : USet) : USet := s.filter fun p => keep p.1

/-- `Updaters()` (in no particular order). -/
def USet.updaters (s : USet) : List Nat := s.map (·.2)

/-- The invariant of the Go map: one entry per name. -/
def USet.WF (s : USet) : Prop := s.names.Nodup

/-! ### factories, the registry, the options -/

/-- An UpdaterSetFactory: one handed in from outside (registered, or given to
    WithFactories; behaviour in `World`), or the `StaticSet` WithOutOfTree builds. -/
inductive FacV where
  | ext (id : Nat)
  | static (members : List Nat)
deriving DecidableEq, Repr

/-- `map[string]driver.UpdaterSetFactory` -/
abbrev FMap := List (Nat × FacV)

/-- The key "outOfTree". -/
def ootName : Nat := 0

/-- `m[n] = v` -/
def FMap.set (m : FMap) (n : Nat) (v : FacV) : FMap := (n, v) :: m.filter fun p => !(p.1 == n)

/-- updater.Register: `none` is the panic on a name used twice. -/
def register (reg : List (Nat × Nat)) (n f : Nat) : Option (List (Nat × Nat)) :=
  if (reg.map (·.1)).contains n then none else some ((n, f) :: reg)

/-- updater.Registered: a fresh map with the registered factories. -/
def registered (reg : List (Nat × Nat)) : FMap := reg.map fun p => (p.1, .ext p.2)

/-- `Configs`: (key is a factory name?, name, id of the ConfigUnmarshaler). -/
abbrev Cfgs := List (Bool × Nat × Nat)

/-- `cfg := m.configs[name]; if cfg == nil { cfg = noopConfig }`; 0 stands for noopConfig. -/
def cfgFor (cs : Cfgs) (isFac : Bool) (n : Nat) : Nat :=
  match cs.find? fun c => c.1 == isFac && c.2.1 == n with
  | some c => c.2.2
  | none => 0

inductive Opt where
  | batch (n : Nat)
  | interval (n : Nat)
  | enabled (e : Option (List Nat))      -- none: the nil slice
  | configs (c : Cfgs)
  | outOfTree (us : List Nat)
  | gc (n : Int)
  | factories (f : FMap)
deriving Repr

structure Mgr where
  facs : FMap
  batch : Nat
  interval : Nat
  configs : Cfgs
  retention : Int
deriving Repr

/-- The set WithOutOfTree builds: `us.Add(u)` in order, duplicates ignored. -/
def ootSet (nm : Nat → Nat) (us : List Nat) : USet :=
  us.foldl (fun s i => (USet.add nm s i).getD s) []

def applyOpt (nm : Nat → Nat) (m : Mgr) : Opt → Mgr
  | .batch n => { m with batch := n }
  | .interval n => { m with interval := n }
  | .enabled none => m
  | .enabled (some e) => { m with facs := m.facs.filter fun p => e.contains p.1 }
  | .configs c => { m with configs := c }
  | .outOfTree us => { m with facs := m.facs.set ootName (.static (ootSet nm us).updaters) }
  | .gc n => { m with retention := n }
  | .factories f => { m with facs := f }

/-- What the manager's surroundings do. -/
structure World where
  name : Nat → Nat          -- updater instance ↦ Name()
  ucfg : Nat → Nat          -- updater instance ↦ 0 not Configurable, 1 Configure succeeds, 2 Configure fails
  fac : Nat → Fac           -- external factory ↦ UpdaterSet(ctx) result
  fcfg : Nat → Nat          -- external factory ↦ 0 not Configurable, 1 Configure succeeds, 2 Configure fails

/-- The manager before `updater.Configure`: defaults, then the options in order. -/
def build (nm : Nat → Nat) (reg : List (Nat × Nat)) (defBatch defInterval : Nat) (opts : List Opt) : Mgr :=
  opts.foldl (applyOpt nm) { facs := registered reg, batch := defBatch, interval := defInterval,
                             configs := [], retention := 0 }

/-- `updater.Configure`: the Configure calls it makes (factory name, config id). -/
def facCfgCalls (w : World) (m : Mgr) : List (Nat × Nat) :=
  m.facs.filterMap fun p =>
    match p.2 with
    | .ext id => if w.fcfg id = 0 then none else some (p.1, cfgFor m.configs true p.1)
    | .static _ => none

/-- Some factory's Configure failed. -/
def facCfgFails (w : World) (m : Mgr) : Bool :=
  m.facs.any fun p =>
    match p.2 with
    | .ext id => w.fcfg id == 2
    | .static _ => false

inductive NewRes where
  | ok (m : Mgr) (calls : List (Nat × Nat))
  | err (calls : List (Nat × Nat))
deriving Repr

/-- `NewManager`. -/
def newManager (w : World) (reg : List (Nat × Nat)) (defBatch defInterval : Nat) (clientOk : Bool)
    (opts : List Opt) : NewRes :=
  let m := build w.name reg defBatch defInterval opts
  if m.retention = 1 then .err []
  else if !clientOk then .err []
  else if facCfgFails w m then .err (facCfgCalls w m)
  else .ok m (facCfgCalls w m)

/-! ### the first half of Run -/

def facOf (w : World) : FacV → Fac
  | .ext id => w.fac id
  | .static ms => ⟨true, ms⟩

/-- `m.factories` as Run sees it. -/
def Mgr.runFacs (w : World) (m : Mgr) : List Fac := m.facs.map fun p => facOf w p.2

/-- The updaters Run launches. -/
def Mgr.toRun (w : World) (m : Mgr) : List Nat := plan w.name (fun i => w.ucfg i != 2) (m.runFacs w)

/-- RecordUpdaterSetStatus calls of a run. -/
def Mgr.stubSets (w : World) (m : Mgr) : Nat := planStubs w.name (m.runFacs w)

/-- Updater Configure calls of a run: every Configurable member of a
    constructed, non-stub set, with `m.configs[name]` or noopConfig. -/
def Mgr.cfgCalls (w : World) (m : Mgr) : List (Nat × Nat) :=
  (((m.runFacs w).filter fun f => f.ok && !isStub w.name f).flatMap (·.members)).filterMap fun i =>
    if w.ucfg i = 0 then none else some (i, cfgFor m.configs false (w.name i))

end ClairModel.MgrSetup
