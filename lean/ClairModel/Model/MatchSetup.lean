/-
  C05 — which matchers a scan runs: `libvuln.New` (libvuln/libvuln.go),
  `matchers.NewMatchers` with its options (matchers/matchers.go, options.go)
  and `registry.Configure` (matchers/registry/registry.go); `Libvuln.Scan`.
  Core Lean only.

  The registry is a Go map name ↦ factory (names are unique: `Register`
  panics on a second registration); here a list of factories, its order
  standing for one iteration order of the map.  The matcher type `μ` is a
  parameter: the driver instantiates it with labels, the theorems with
  `Match.Matcher`.
-/
import ClairModel.Model.Match

namespace ClairModel.MatchSetup
open ClairModel.Match

/-- driver.MatcherFactory (+ optional driver.MatcherConfigurable). -/
structure Factory (μ : Type) where
  name : String
  /-- the factory implements `MatcherConfigurable` -/
  configurable : Bool
  /-- what `Configure` answers when it is called: success? -/
  configureOk : Bool
  /-- `Matcher(ctx)` as a function of "was configured"; `none` is an error -/
  build : Bool → Option (List μ)

/-- `WithEnabled`: nil keeps every registered factory, otherwise exactly the
    registered factories whose name occurs in the list (a name that is not
    registered selects nothing, a repeated name selects once). -/
def enabledBy (enabled : Option (List String)) (name : String) : Bool :=
  match enabled with
  | none => true
  | some ns => ns.contains name

def withEnabled {μ : Type} (enabled : Option (List String)) (fs : List (Factory μ)) : List (Factory μ) :=
  fs.filter fun f => enabledBy enabled f.name

/-- `registry.Configure` calls `Configure` on a factory iff it is configurable
    and `MatcherConfigs` has a block under its name. -/
def configured {μ : Type} (configs : List String) (f : Factory μ) : Bool :=
  f.configurable && configs.contains f.name

/-- `registry.Configure` returns an error iff some call failed. -/
def configureFails {μ : Type} (fs : List (Factory μ)) (configs : List String) : Bool :=
  fs.any fun f => configured configs f && !f.configureOk

/-- What one factory contributes: a factory whose `Matcher(ctx)` fails is
    logged and left out ("failed constructing factory, excluding from run"). -/
def contribution {μ : Type} (configs : List String) (f : Factory μ) : List μ :=
  (f.build (configured configs f)).getD []

/-- `matchers.NewMatchers`. `none` is an error. -/
def newMatchers {μ : Type} (registered : List (Factory μ)) (enabled : Option (List String))
    (configs : List String) (outOfTree : List μ) : Option (List μ) :=
  let fs := withEnabled enabled registered
  if configureFails fs configs then none
  else some (fs.flatMap (contribution configs) ++ outOfTree)

/-- The fields of `libvuln.Options` that `New` looks at on the way to the matchers. -/
structure Options (μ : Type) where
  hasStore : Bool
  hasClient : Bool
  updateRetention : Int
  matcherNames : Option (List String)
  matcherConfigs : List String
  matchers : List μ

/-- `libvuln.New` up to `l.matchers` (the updater manager that follows is not
    part of this model). `none` is an error. -/
def libvulnNew {μ : Type} (registered : List (Factory μ)) (o : Options μ) : Option (List μ) :=
  if !o.hasStore then none
  else if o.updateRetention == 1 || o.updateRetention < 0 then none
  else if !o.hasClient then none
  else newMatchers registered o.matcherNames o.matcherConfigs o.matchers

/-- `Libvuln.Scan` of a `Libvuln` made by `New`: every `datastore.MatcherStore`
    has `GetEnrichment`, so the type assertion to `matcher.Store` holds and the
    scan is `EnrichedMatch` over `l.matchers` and `l.enrichers`. The outer
    `none` is `New`'s error, the inner one the scan's. -/
def newAndScan (registered : List (Factory Matcher)) (o : Options Matcher) (es : List Enricher)
    (cancelled : Bool) (store : Store) (recs : List Record) :
    Option (Option (Report × List (Nat × List Nat))) :=
  (libvulnNew registered o).map fun ms => enrichedMatch cancelled store ms es recs

end ClairModel.MatchSetup
