/-
  Model of the parts of python/packagescanner.go that the repository wrote
  itself: which paths `findDeliciousEgg` picks (for a layer without rpm/dpkg
  database), what `Scan` reads from a METADATA / PKG-INFO file (first
  `ReadMIMEHeader` call, whatever its error), the package database path.
  PEP 440 parsing/normalisation is C12's model (Model/Pep440.lean), applied by
  the driver.  `strings.ToLower` is modelled for ASCII.  Core Lean only.
-/
import ClairModel.Model.Rfc822

namespace ClairModel.PyMeta
open ClairModel.Bytes ClairModel.Rfc822

def kName : Bytes := [78, 97, 109, 101]
def kVersion : Bytes := [86, 101, 114, 115, 105, 111, 110]

def toLower (s : Bytes) : Bytes := s.map (fun c => if isUpper c then c + 32 else c)

/-- `hdr, err := rd.ReadMIMEHeader()`: the header of the first call is used
    even when the call reports an error (it is never nil). -/
def firstHeader (file : Bytes) : Hdr :=
  match calls file with
  | [] => []
  | e :: _ => e.hdr

/-- (lower-cased Name, raw Version) as `Scan` reads them -/
def nameVersion (file : Bytes) : Bytes × Bytes :=
  let h := firstHeader file
  (toLower (h.get kName), h.get kVersion)

/-! ### paths -/

def isSuffix (suf s : Bytes) : Bool := isPrefix suf.reverse s.reverse

def sEggPkgInfo : Bytes := [46, 101, 103, 103, 47, 69, 71, 71, 45, 73, 78, 70, 79, 47, 80, 75, 71, 45, 73, 78, 70, 79]  -- .egg/EGG-INFO/PKG-INFO
def sEggInfo : Bytes := [46, 101, 103, 103, 45, 105, 110, 102, 111]  -- .egg-info
def sEggInfoPkgInfo : Bytes := sEggInfo ++ [47, 80, 75, 71, 45, 73, 78, 70, 79]  -- .egg-info/PKG-INFO
def sDistInfoMetadata : Bytes := [46, 100, 105, 115, 116, 45, 105, 110, 102, 111, 47, 77, 69, 84, 65, 68, 65, 84, 65]  -- .dist-info/METADATA
def sWh : Bytes := [46, 119, 104, 46]  -- .wh.

/-- path components -/
def comps (p : Bytes) : List Bytes := splitOn 47 p

def base (p : Bytes) : Bytes := (comps p).getLast?.getD []

inductive Kind where
  | egg | eggInfo | wheel
  deriving DecidableEq, Repr

/-- the `switch` of the walk function for a regular file (no rpm/dpkg
    database in the layer, installer not on the block list) -/
def classify (p : Bytes) : Option Kind :=
  if isPrefix sWh (base p) then none
  else if isSuffix sEggPkgInfo p then some .egg
  else if isSuffix sEggInfo p then some .eggInfo
  else if isSuffix sEggInfoPkgInfo p then some .eggInfo
  else if isSuffix sDistInfoMetadata p then some .wheel
  else none

def joinComps : List Bytes → Bytes
  | [] => [46]
  | c :: cs => joinWith 47 (c :: cs)

/-- `"python:" + filepath.Join(n, "..", "..")`, or one level up for a path
    ending in `.egg-info`, for a clean relative path `n` -/
def packageDB (p : Bytes) : Bytes :=
  let cs := comps p
  let up := if isSuffix sEggInfo p then 1 else 2
  [112, 121, 116, 104, 111, 110, 58] ++ joinComps (cs.take (cs.length - up))

end ClairModel.PyMeta
