/-
  The reference for property C11 on link-free archives: a sequential
  extraction of directory and regular-file members into an empty root,
  as a finite map from names to nodes.

    - a member name is normalised by normPath (rooted at "/", see
      `normPath_contained`);
    - missing parent directories are created; a parent that is a regular file
      makes the member (and the extraction) fail;
    - a directory member over an existing name changes nothing (over a
      directory there is nothing to do; over a regular file mkdir fails and the
      extraction goes on, as pax does);
    - a regular file over an existing regular file replaces its content;
    - a regular file over a directory fails, and so does the extraction;
    - a symbolic link or a special file is created when its name is new (the
      link target is stored the way the view spells it, see `normLink`); a link
      is never followed: a member whose directory path holds a symbolic link, a
      regular file over a link or special file, and anything over an existing
      link make `extract` answer `none`;
    - a hard link is created when its name is new and its target (relative to
      the root, see `normLink`) is at that moment the name of a regular file;
      it reads what that name holds at the end.

  Core Lean only.
-/
import ClairModel.Model.TarFS

namespace ClairModel.TarFS

inductive XNode where
  | dir
  | file (data : Bytes)
  | sym (target : Bytes)
  | hard (target : Bytes)
  | special
deriving DecidableEq, Repr

/-- The extracted tree: name ↦ node. -/
abbrev XTree := List (Bytes × XNode)

/-- The names `built/e1`, `built/e1/e2`, … (`first`: there is no `built` yet). -/
def prefixesAux (built : Bytes) (first : Bool) : List Bytes → List Bytes
  | [] => []
  | n :: rest =>
    let b := if first then n else built ++ SL :: n
    b :: prefixesAux b false rest

/-- All non-empty prefixes of a name, shortest first, the name itself last. -/
def prefixesOf (n : Bytes) : List Bytes := prefixesAux [] true (splitSlash n)

/-- `mkdir -p` for each name in turn. -/
def xMkdirs : XTree → List Bytes → Option XTree
  | t, [] => some t
  | t, d :: ds =>
    match alGet t d with
    | none => xMkdirs (alSet t d .dir) ds
    | some .dir => xMkdirs t ds
    | some _ => none

/-- Extraction of one member. -/
def xInsert (t : XTree) (m : Member) : Option XTree :=
  let n := normPath m.name
  match m.kind with
  | .dir =>
    match alGet t n with
    | some _ => some t
    | none => xMkdirs t (prefixesOf n)
  | .reg =>
    if n = dotP then none
    else
      match xMkdirs t (prefixesOf n).dropLast with
      | none => none
      | some t1 =>
        match alGet t1 n with
        | none => some (alSet t1 n (.file m.data))
        | some (.file _) => some (alSet t1 n (.file m.data))
        | some _ => none
  | .sym =>
    match alGet t n with
    | some _ => none
    | none => (xMkdirs t (prefixesOf n).dropLast).map fun t1 => alSet t1 n (.sym (normLink .sym n m.link))
  | .special =>
    match alGet t n with
    | some _ => none
    | none => (xMkdirs t (prefixesOf n).dropLast).map fun t1 => alSet t1 n .special
  | .link =>
    match alGet t n with
    | some _ => none
    | none =>
      match xMkdirs t (prefixesOf n).dropLast with
      | none => none
      | some t1 =>
        match alGet t1 (normLink .link n m.link) with
        | some (.file _) => some (alSet t1 n (.hard (normLink .link n m.link)))
        | _ => none

def xRoot : XTree := [(dotP, .dir)]

def extractFrom : XTree → List Member → Option XTree
  | t, [] => some t
  | t, m :: ms =>
    match xInsert t m with
    | some t' => extractFrom t' ms
    | none => none

/-- Sequential extraction into an empty root. -/
def extract (ms : List Member) : Option XTree := extractFrom xRoot ms

end ClairModel.TarFS
