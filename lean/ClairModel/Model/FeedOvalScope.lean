/-
  C14 — OVAL criteria trees read WITH their operators (a specification, not code
  of /repo): which module streams a package criterion stands in the scope of,
  and the vulnerabilities a definition states under that reading.  The walkers
  of pkg/ovalutil never look at the operators (Model/FeedOval.lean); Props/C14
  states when the two readings coincide.
  Core Lean only.
-/
import ClairModel.Model.FeedOval

namespace ClairModel.Feeds

/-! ### criteria trees with their operators: what a definition states -/

/-- `oval.Criteria` with its `operator` attribute ("AND" / "OR"; the walkers never read it). -/
inductive STree where
  | node (op : String) (subs : List STree) (leaves : List Criterion)
deriving Repr

mutual
/-- Forget the operators: the tree the walkers see. -/
def STree.erase : STree → Criteria
  | .node _ subs leaves => .node (eraseList subs) leaves
def eraseList : List STree → List Criteria
  | [] => []
  | t :: ts => t.erase :: eraseList ts
end

/-- The module streams named by the criterions of one node. -/
def leafModules (leaves : List Criterion) : List String := enabledModules leaves

mutual
/-- Scoped reading of a definition: every criterion together with the module
    streams in whose scope it stands.  A "Module m is enabled" criterion of an
    AND node scopes over everything below that node (the shape Red Hat
    publishes: AND[Module m, OR[packages]]); under an OR node it scopes over
    nothing else.  Same order as `walkCriterion`. -/
def inScope (ctx : List String) : STree → List (Criterion × List String)
  | .node op subs leaves =>
    let ctx' := if op = "AND" then ctx ++ leafModules leaves else ctx
    inScopeList ctx' subs ++ leaves.map fun c => (c, ctx')
def inScopeList (ctx : List String) : List STree → List (Criterion × List String)
  | [] => []
  | t :: ts => inScope ctx t ++ inScopeList ctx ts
end

/-- The modules a package criterion is reported for: its scope, or the empty
    module when it stands in no module's scope. -/
def scopeMods (ctx : List String) : List String := if ctx.isEmpty then [""] else ctx

/-- What one definition states, read with scopes: prototypes × package
    criterions × the modules in whose scope the criterion stands. -/
def rpmDefScoped (root : OvalRoot) (proto : ProtoFn) (d : OvalDef) (t : STree) : List Vuln :=
  match proto d with
  | none => []
  | some ps =>
    (inScope [] t).flatMap fun x =>
      match resolveLeaf "rpminfo_test" "rpminfo_object" "rpminfo_state" root x.1 with
      | .pkg n st _ => (scopeMods x.2).flatMap fun m => ps.map fun p => rpmVuln p n st m
      | _ => []

end ClairModel.Feeds
