/-
  Model of the contract of Go's `net/textproto.Reader.ReadMIMEHeader` as the
  package scanners use it (dpkg/scanner.go, dpkg/distroless_scanner.go,
  python/packagescanner.go): the file is cut into lines the way
  `bufio.Reader.ReadLine` does, and `calls` is the sequence of results of
  calling `ReadMIMEHeader` again and again until it reports `io.EOF`.

  Transcribed from go1.23 net/textproto/reader.go (readMIMEHeader,
  readContinuedLineSlice, skipSpace, trim, canonicalMIMEHeaderKey,
  validHeaderFieldByte, validHeaderValueByte, MIMEHeader.Get).  The memory
  limits of `readMIMEHeader` are `math.MaxInt64` here and are not modelled;
  bufio's 4096-byte buffer is invisible except in the 80-byte error path for
  a first line starting with white space (modelled for lines below 4096 bytes).
  Core Lean only.
-/
import ClairModel.Lib.Bytes

namespace ClairModel.Rfc822
open ClairModel.Bytes

/-! ### bytes helpers -/

/-- space or tab: what `textproto.trim`, `skipSpace` and `bytes.TrimLeft(v, " \t")` strip -/
def isWs (c : Nat) : Bool := c == 32 || c == 9

def trimLeft : Bytes → Bytes
  | [] => []
  | c :: cs => if isWs c then trimLeft cs else c :: cs

def trimRight : Bytes → Bytes
  | [] => []
  | c :: cs =>
    match trimRight cs with
    | [] => if isWs c then [] else [c]
    | r => c :: r

/-- `textproto.trim` -/
def trim (s : Bytes) : Bytes := trimRight (trimLeft s)

def startsWs : Bytes → Bool
  | [] => false
  | c :: _ => isWs c

/-- drop one trailing `\r` (only done for lines that were terminated by `\n`) -/
def stripCR : Bytes → Bytes
  | [] => []
  | [c] => if c = 13 then [] else [c]
  | c :: d :: cs => c :: stripCR (d :: cs)

/-- all but the last element, and the last element -/
def initLast : List Bytes → List Bytes × Bytes
  | [] => ([], [])
  | [p] => ([], p)
  | p :: q :: ps => let (i, l) := initLast (q :: ps); (p :: i, l)

/-- The lines `bufio.Reader.ReadLine` yields for a whole file: split at `\n`,
    a `\r` before the `\n` is dropped, a non-empty unterminated tail is a line. -/
def splitLines (s : Bytes) : List Bytes :=
  let (i, l) := initLast (splitOn 10 s)
  i.map stripCR ++ (if l.isEmpty then [] else [l])

/-! ### header keys and values -/

def isLower (c : Nat) : Bool := 97 ≤ c && c ≤ 122
def isUpper (c : Nat) : Bool := 65 ≤ c && c ≤ 90

/-- `validHeaderFieldByte`: RFC 7230 tchar -/
def validFieldByte (c : Nat) : Bool :=
  (48 ≤ c && c ≤ 57) || isLower c || isUpper c ||
  c == 33 || c == 35 || c == 36 || c == 37 || c == 38 || c == 39 || c == 42 || c == 43 ||
  c == 45 || c == 46 || c == 94 || c == 95 || c == 96 || c == 124 || c == 126

/-- `validHeaderValueByte`: VCHAR, SP, HTAB, obs-text -/
def validValueByte (c : Nat) : Bool := (33 ≤ c && c ≤ 126) || c == 32 || c == 9 || 128 ≤ c

/-- the canonicalising loop of `canonicalMIMEHeaderKey` -/
def canonLoop (upper : Bool) : Bytes → Bytes
  | [] => []
  | c :: cs =>
    let c' := if upper && isLower c then c - 32 else if !upper && isUpper c then c + 32 else c
    c' :: canonLoop (c' == 45) cs

/-- `canonicalMIMEHeaderKey`: `none` = not ok -/
def canonKey (k : Bytes) : Option Bytes :=
  if k.isEmpty then none
  else if k.any (fun c => !validFieldByte c && c != 32) then none
  else if k.any (· == 32) then some k
  else some (canonLoop true k)

/-- A `MIMEHeader` as the scanners observe it: canonical key and value in
    insertion order; `Get` is the first value of a key. -/
abbrev Hdr := List (Bytes × Bytes)

def Hdr.get (h : Hdr) (k : Bytes) : Bytes :=
  match h with
  | [] => []
  | (k', v) :: r => if k' = k then v else Hdr.get r k

def Hdr.has (h : Hdr) (k : Bytes) : Bool := h.any (fun e => e.1 == k)

/-- One complete (continued) `key: value` line is added to the header;
    `none` is the ProtocolError "malformed MIME header line". -/
def addKV (h : Hdr) (kv : Bytes) : Option Hdr :=
  match cut 58 kv with
  | none => none
  | some (k, v) =>
    match canonKey k with
    | none => none
    | some key => if v.all validValueByte then some (h ++ [(key, trimLeft v)]) else none

/-! ### the reader as a machine over lines -/

inductive Err where
  | ok        -- nil
  | eof       -- io.EOF
  | proto     -- textproto.ProtocolError
  | tooLarge  -- errMessageTooLarge (only the 80-byte limit of the leading-space path)
  deriving DecidableEq, Repr

/-- result of one `ReadMIMEHeader` call -/
structure Ev where
  hdr : Hdr
  err : Err
  deriving DecidableEq, Repr

/-- Reader position: between calls (`start`), or inside a call with the header
    read so far and the continued line being collected. -/
inductive Rd where
  | start
  | pend (h : Hdr) (buf : Bytes)
  deriving DecidableEq, Repr

/-- a line at a key/value boundary inside a call with header `h` -/
def kvLine (h : Hdr) (l : Bytes) : Rd × List Ev :=
  if l.isEmpty then (.start, [⟨h, .ok⟩])
  else if !(l.contains 58) then (.start, [⟨h, .proto⟩])
  else (.pend h (trim l), [])

/-- the first line of a call -/
def freshLine (l : Bytes) : Rd × List Ev :=
  if startsWs l then (.start, [⟨[], if l.length > 80 then .tooLarge else .proto⟩])
  else kvLine [] l

def stepRd (rd : Rd) (l : Bytes) : Rd × List Ev :=
  match rd with
  | .start => freshLine l
  | .pend h buf =>
    if startsWs l then (.pend h (buf ++ 32 :: trim l), [])
    else match addKV h buf with
      | none => let r := freshLine l; (r.1, ⟨h, .proto⟩ :: r.2)
      | some h' => kvLine h' l

def finishRd : Rd → List Ev
  | .start => [⟨[], .eof⟩]
  | .pend h buf =>
    match addKV h buf with
    | none => [⟨h, .proto⟩, ⟨[], .eof⟩]
    | some h' => [⟨h', .eof⟩]

/-- results of the successive `ReadMIMEHeader` calls on the remaining lines -/
def callsFrom (rd : Rd) : List Bytes → List Ev
  | [] => finishRd rd
  | l :: ls => (stepRd rd l).2 ++ callsFrom (stepRd rd l).1 ls

/-- results of calling `ReadMIMEHeader` on a file until `io.EOF` -/
def calls (file : Bytes) : List Ev := callsFrom .start (splitLines file)

end ClairModel.Rfc822
