/-
  C05 — the stub vulnerability store of the harness (go/internal/c05
  `stubStore.Get`), which stands in for datastore/postgres behind the
  `datastore.Vulnerability` interface (datastore/vulnerability.go): a table of
  rows; a row answers a record when the package names agree and every
  constraint of `GetOpts.Matchers` the store understands holds; the answer is
  a map package id ↦ vulnerabilities with every vulnerability id at most once
  per package (the contract the postgres store implements with its `vulnSet`).
  Core Lean only.
-/
import ClairModel.Model.Match

namespace ClairModel.MatchStore
open ClairModel.Match

/-- A row of the table. -/
structure Row where
  vuln : Vuln
  name : Nat
  dist : Nat
  repo : Nat
  fixed : Bool
  inRange : Bool
deriving Repr, Inhabited

def cDistributionDID : Nat := 4
def cRepositoryName : Nat := 12
def cHasFixedInVersion : Nat := 14
/-- marker constraints the scripted matchers put in `Query()` to script the store -/
def cRespectCtx : Nat := 98
def cGetFails : Nat := 99

def rowMatches (q : List Nat) (dbSide : Bool) (r : Record) (row : Row) : Bool :=
  row.name == r.name
    && (!(q.contains cDistributionDID) || row.dist == r.dist)
    && (!(q.contains cRepositoryName) || row.repo == r.repo)
    && (!(q.contains cHasFixedInVersion) || row.fixed)
    && (!dbSide || row.inRange)

/-- One step of the de-duplicating append: a vulnerability whose id is already
    in the list is dropped. -/
def dedupStep (l : List Vuln) (v : Vuln) : List Vuln :=
  if l.any (fun x => x.id == v.id) then l else l ++ [v]

def dedupAppend (old : List Vuln) (hits : List Vuln) : List Vuln := hits.foldl dedupStep old

/-- The vulnerabilities of the table that answer one record. -/
def hits (rows : List Row) (q : List Nat) (dbSide : Bool) (r : Record) : List Vuln :=
  (rows.filter (rowMatches q dbSide r)).map (·.vuln)

/-- One record of the loop in `Get`: `res[r.Package.ID]` is created if absent
    and extended by the new hits. -/
def getStep (rows : List Row) (q : List Nat) (dbSide : Bool) (acc : MOut) (r : Record) : MOut :=
  upd r.pkg (fun o => dedupAppend (o.getD []) (hits rows q dbSide r)) acc

/-- The successful part of `Get`. -/
def answer (rows : List Row) (q : List Nat) (dbSide : Bool) (recs : List Record) : MOut :=
  recs.foldl (getStep rows q dbSide) []

/-- `stubStore.Get` as a `Match.Store`. -/
def storeGet (rows : List Row) : Store := fun cancelled q dbSide recs =>
  if q.contains cGetFails || (cancelled && q.contains cRespectCtx) then none
  else some (answer rows q dbSide recs)

end ClairModel.MatchStore
