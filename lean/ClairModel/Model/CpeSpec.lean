/-
  C19 — the reading of the two NIST specifications the theorems are stated
  against.  The documents are not available offline; what is written here is
  the reading used, and it is part of the trusted base of property C19 (the
  Go harness has an independent transcription of the same reading in
  go/internal/c19/spec.go and checks the implementation against it).

  NISTIR 7696 (CPE Name Matching), Table 6-2 "Enumeration of Attribute
  Comparison Set Relations" (an unset attribute reads as ANY, NISTIR 7695
  §5.4.2):

     source          target            relation
     ANY             ANY               EQUAL
     ANY             NA                SUPERSET
     ANY             i                 SUPERSET
     NA              ANY               SUBSET
     NA              NA                EQUAL
     NA              i                 DISJOINT
     i               ANY               SUBSET
     i               NA                DISJOINT
     i               i                 EQUAL          (case-insensitive)
     i               k                 DISJOINT
     m + wild cards  ANY               SUBSET
     m + wild cards  NA                DISJOINT
     m1 + wild cards m2                SUPERSET or DISJOINT (pattern match)
     anything        m + wild cards    undefined      (the code answers Invalid)

  Wild cards (NISTIR 7695 §5.3.2, NISTIR 7696 §6.3 and its reference
  implementation): an unquoted `*` stands for any sequence of characters
  (including none), each unquoted `?` for one character or none; they appear
  only at the two ends of a value.  A quoted character (`\x`) is the literal
  character `x` — one character, also in the target.  Comparison ignores case.

  Core Lean only.
-/
import ClairModel.Lib.CpeTypes

namespace ClairModel.CpeSpec
open ClairModel.CpeTypes

/-- Table 6-2, as the outcome for (source kind, source has an unquoted
    wildcard, target kind, target has an unquoted wildcard). -/
def attrOut (sk : Kind) (sw : Bool) (tk : Kind) (tw : Bool) : Out :=
  match tk, tw with
  | .set, true => .rel .invalid
  | _, _ =>
    match sk with
    | .unset | .any =>
      (match tk with
       | .unset | .any => .rel .equal
       | .na => .rel .superset
       | .set => .rel .superset)
    | .na =>
      (match tk with
       | .unset | .any => .rel .subset
       | .na => .rel .equal
       | .set => .rel .disjoint)
    | .set =>
      (match tk with
       | .unset | .any => .rel .subset
       | .na => .rel .disjoint
       | .set => if sw then .pat .superset .disjoint else .fold .equal .disjoint)

/-- Mirror image of a relation when source and target are swapped. -/
def mirror : Rel → Rel
  | .superset => .subset
  | .subset => .superset
  | r => r

/-! ### wild cards -/

inductive Tok where
  | lit (c : Nat)
  | star
  | q
  deriving DecidableEq, Repr

def tokOf (c : Nat) : Tok := if c = 42 then .star else if c = 63 then .q else .lit c

/-- A value string as a pattern: `\x` is the literal `x`, unquoted `*` and `?`
    are wild cards, everything else is itself. -/
def tokensAux (esc : Bool) : List Nat → List Tok
  | [] => []
  | c :: rest =>
    if esc then .lit c :: tokensAux false rest
    else if c = 92 then tokensAux true rest
    else tokOf c :: tokensAux false rest

def tokens (s : List Nat) : List Tok := tokensAux false s

/-- The characters a wildcard-free value string stands for. -/
def unquoteAux (esc : Bool) : List Nat → List Nat
  | [] => []
  | c :: rest =>
    if esc then c :: unquoteAux false rest
    else if c = 92 then unquoteAux true rest
    else c :: unquoteAux false rest

def unquote (s : List Nat) : List Nat := unquoteAux false s

/-- `f` holds of some suffix of the list (including the list itself and []). -/
def anySuffix (f : List Nat → Bool) : List Nat → Bool
  | [] => f []
  | c :: t => f (c :: t) || anySuffix f t

/-- Glob semantics: `*` any sequence, `?` one character or none. -/
def glob : List Tok → List Nat → Bool
  | [], t => t.isEmpty
  | .lit c :: p, t =>
    (match t with
     | [] => false
     | d :: t' => c == d && glob p t')
  | .q :: p, t =>
    glob p t ||
      (match t with
       | [] => false
       | _ :: t' => glob p t')
  | .star :: p, t => anySuffix (glob p) t

def lowerC (c : Nat) : Nat := if 65 ≤ c ∧ c ≤ 90 then c + 32 else c

/-- Does the source value (with wild cards) match the target value? -/
def globMatches (src tgt : List Nat) : Bool :=
  glob (tokens (src.map lowerC)) (unquote (tgt.map lowerC))

end ClairModel.CpeSpec
