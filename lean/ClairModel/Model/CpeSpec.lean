/-
  C19 — the reading of the two NIST specifications the theorems are stated
  against.  The documents are not available offline; what is written here is
  the reading used, and it is part of the trusted base of property C19 (the
  Go harness has an independent transcription of the same reading in
  go/internal/c19/spec.go and checks the implementation against it).

  NISTIR 7696 (CPE Name Matching), Table 6-2 "Enumeration of Attribute
  Comparison Set Relations" (an unset attribute reads as ANY, NISTIR 7695
  §5.4.2):

     source          target            relation
     ANY             ANY               EQUAL
     ANY             NA                SUPERSET
     ANY             i                 SUPERSET
     NA              ANY               SUBSET
     NA              NA                EQUAL
     NA              i                 DISJOINT
     i               ANY               SUBSET
     i               NA                DISJOINT
     i               i                 EQUAL          (case-insensitive)
     i               k                 DISJOINT
     m + wild cards  ANY               SUBSET
     m + wild cards  NA                DISJOINT
     m1 + wild cards m2                SUPERSET or DISJOINT (pattern match)
     anything        m + wild cards    undefined      (the code answers Invalid)

  Wild cards (NISTIR 7695 §5.3.2, NISTIR 7696 §6.3 and its reference
  implementation): an unquoted `*` stands for any sequence of characters
  (including none), each unquoted `?` for one character or none; they appear
  only at the two ends of a value.  A quoted character (`\x`) is the literal
  character `x` — one character, also in the target.  Comparison ignores case.

  Core Lean only.
-/
import ClairModel.Lib.CpeTypes

namespace ClairModel.CpeSpec
open ClairModel.CpeTypes

/-- Table 6-2, as the outcome for (source kind, source has an unquoted
    wildcard, target kind, target has an unquoted wildcard). -/
def attrOut (sk : Kind) (sw : Bool) (tk : Kind) (tw : Bool) : Out :=
  match tk, tw with
  | .set, true => .rel .invalid
  | _, _ =>
    match sk with
    | .unset | .any =>
      (match tk with
       | .unset | .any => .rel .equal
       | .na => .rel .superset
       | .set => .rel .superset)
    | .na =>
      (match tk with
       | .unset | .any => .rel .subset
       | .na => .rel .equal
       | .set => .rel .disjoint)
    | .set =>
      (match tk with
       | .unset | .any => .rel .subset
       | .na => .rel .disjoint
       | .set => if sw then .pat .superset .disjoint else .fold .equal .disjoint)

/-- Mirror image of a relation when source and target are swapped. -/
def mirror : Rel → Rel
  | .superset => .subset
  | .subset => .superset
  | r => r

/-! ### wild cards -/

inductive Tok where
  | lit (c : Nat)
  | star
  | q
  deriving DecidableEq, Repr

def tokOf (c : Nat) : Tok := if c = 42 then .star else if c = 63 then .q else .lit c

/-- A value string as a pattern: `\x` is the literal `x`, unquoted `*` and `?`
    are wild cards, everything else is itself. -/
def tokensAux (esc : Bool) : List Nat → List Tok
  | [] => []
  | c :: rest =>
    if esc then .lit c :: tokensAux false rest
    else if c = 92 then tokensAux true rest
    else tokOf c :: tokensAux false rest

def tokens (s : List Nat) : List Tok := tokensAux false s

/-- The characters a wildcard-free value string stands for. -/
def unquoteAux (esc : Bool) : List Nat → List Nat
  | [] => []
  | c :: rest =>
    if esc then c :: unquoteAux false rest
    else if c = 92 then unquoteAux true rest
    else c :: unquoteAux false rest

def unquote (s : List Nat) : List Nat := unquoteAux false s

/-- `f` holds of some suffix of the list (including the list itself and []). -/
def anySuffix (f : List Nat → Bool) : List Nat → Bool
  | [] => f []
  | c :: t => f (c :: t) || anySuffix f t

/-- Glob semantics: `*` any sequence, `?` one character or none. -/
def glob : List Tok → List Nat → Bool
  | [], t => t.isEmpty
  | .lit c :: p, t =>
    (match t with
     | [] => false
     | d :: t' => c == d && glob p t')
  | .q :: p, t =>
    glob p t ||
      (match t with
       | [] => false
       | _ :: t' => glob p t')
  | .star :: p, t => anySuffix (glob p) t

def lowerC (c : Nat) : Nat := if 65 ≤ c ∧ c ≤ 90 then c + 32 else c

/-- Does the source value (with wild cards) match the target value? -/
def globMatches (src tgt : List Nat) : Bool :=
  glob (tokens (src.map lowerC)) (unquote (tgt.map lowerC))

/-! ### attribute-value strings (NISTIR 7695 §5.3.2)

  A value string is printable ASCII without spaces; letters, digits and the
  underscore stand for themselves, every other character must be quoted with a
  backslash; the two special characters may appear unquoted only at the ends:
  one `*` or a run of `?` in front, and one `*` or a run of `?` at the end.  A
  single `*` and a single quoted hyphen are not value strings (they would read
  as ANY and NA). -/

/-- The special characters at one end of a value: `none` = one `*`,
    `some n` = a run of `n` question marks (`some 0` = nothing). -/
def leadStr : Option Nat → List Nat
  | none => [42]
  | some n => List.replicate n 63

/-- Letter, digit or underscore. -/
def unreservedC (c : Nat) : Bool :=
  (48 ≤ c && c ≤ 57) || (65 ≤ c && c ≤ 90) || (97 ≤ c && c ≤ 122) || c == 95

/-- The part of a value between the special characters: unquoted letters,
    digits, underscores, and quoted pairs `\x` (scanner with escape state). -/
def bodyStr (esc : Bool) : List Nat → Bool
  | [] => !esc
  | c :: rest =>
    if esc then bodyStr false rest
    else if c = 92 then bodyStr true rest
    else unreservedC c && bodyStr false rest

/-- Printable ASCII, no space. -/
def printableC (c : Nat) : Bool := c < 127 && !(c == 32 || (9 ≤ c && c ≤ 13))

/-- The value strings `validate` accepts (theorem `validate_accepts_iff`).
    Compared with the text of the naming specification this is lenient: any
    character may be quoted (also a letter or a control character) and `**` is
    accepted — both recorded findings; the body may be empty and a `?`-run and
    an asterisk may be combined at the two ends (`??`, `?*`), which the grammars
    of the specification leave open. -/
def ValueGrammar (s : List Nat) : Prop :=
  s.all printableC = true ∧ s ≠ [42] ∧ s ≠ [92, 45] ∧
    ∃ l body r, s = leadStr l ++ body ++ leadStr r ∧ bodyStr false body = true

/-! ### formatted strings (NISTIR 7695 §6.2, Figure 6-3; cpe-naming_2.3.xsd)

     formstring = "cpe:2.3:" part ":" vendor ":" product ":" version ":" update ":"
                  edition ":" lang ":" sw_edition ":" target_sw ":" target_hw ":" other
     part       = "h" / "o" / "a" / "*" / "-"
     avstring   = ( [ "*" / 1*"?" ] 1*( unreserved / quoted ) [ "*" / 1*"?" ] ) / "*" / "-"
     unreserved = ALPHA / DIGIT / "-" / "." / "_"
     quoted     = "\" ( "\" / "*" / "?" / punc )
     punc       = ! " # $ % & ' ( ) + , / : ; < = > @ [ ] ^ ` { | } ~

     lang       = ( 2*3ALPHA [ "-" ( 2ALPHA / 3DIGIT ) ] ) / "*" / "-" -/

def puncC (c : Nat) : Bool :=
  [33, 34, 35, 36, 37, 38, 39, 40, 41, 43, 44, 47, 58, 59, 60, 61, 62, 64, 91, 93, 94, 96, 123, 124, 125, 126].contains c

def fsUnreservedC (c : Nat) : Bool := unreservedC c || c == 45 || c == 46

/-- `1*( unreserved / quoted )`, scanner with escape state. -/
def fsBodyStr (esc : Bool) : List Nat → Bool
  | [] => !esc
  | c :: rest =>
    if esc then (c == 92 || c == 42 || c == 63 || puncC c) && fsBodyStr false rest
    else if c = 92 then fsBodyStr true rest
    else fsUnreservedC c && fsBodyStr false rest

/-- An avstring.  The body is required to be non-empty, as in the XSD pattern;
    the ABNF of the report (`spec_chrs *body2`) can be read as admitting values
    of special characters only (`??`, `?*`).  The theorems use this smaller
    grammar where they say "is accepted"; where they say "is accepted although
    not in the grammar" they avoid the open shapes (only `**`, which the
    report's text rules out in words, is claimed). -/
def AvString (c : List Nat) : Prop :=
  c = [42] ∨ c = [45] ∨
    ∃ l body r, c = leadStr l ++ body ++ leadStr r ∧ body ≠ [] ∧ fsBodyStr false body = true

def PartString (c : List Nat) : Prop := c = [97] ∨ c = [111] ∨ c = [104] ∨ c = [42] ∨ c = [45]

def alphaC (c : Nat) : Bool := (65 ≤ c && c ≤ 90) || (97 ≤ c && c ≤ 122)
def digitC (c : Nat) : Bool := 48 ≤ c && c ≤ 57

/-- `2*3ALPHA [ "-" ( 2ALPHA / 3DIGIT ) ]` -/
def langTagB (c : List Nat) : Bool :=
  match c with
  | [a, b] => alphaC a && alphaC b
  | [a, b, x] => alphaC a && alphaC b && alphaC x
  | [a, b, h, x, y] => alphaC a && alphaC b && h == 45 && alphaC x && alphaC y
  | [a, b, h, x, y, z] =>
    (alphaC a && alphaC b && h == 45 && digitC x && digitC y && digitC z) ||
      (alphaC a && alphaC b && alphaC h && x == 45 && alphaC y && alphaC z)
  | [a, b, d, h, x, y, z] => alphaC a && alphaC b && alphaC d && h == 45 && digitC x && digitC y && digitC z
  | _ => false

def LangString (c : List Nat) : Prop := c = [42] ∨ c = [45] ∨ langTagB c = true

/-- "cpe:2.3" followed by eleven components, each introduced by a colon; the
    first is a part, the seventh a language. -/
def FormattedString (s : List Nat) : Prop :=
  ∃ part rest, rest.length = 10 ∧ PartString part ∧ (∀ c ∈ rest, AvString c) ∧
    (∀ c, rest[5]? = some c → LangString c) ∧
    s = [99, 112, 101, 58, 50, 46, 51] ++ (part :: rest).flatMap fun c => 58 :: c

/-! ### URI binding of a value (NISTIR 7695 §6.1.2: transform_for_uri, pct_encode)

  Letters, digits and the underscore pass unchanged; a quoted character is
  percent-encoded, except the hyphen and the period, which are written as they
  are; the unquoted `?` becomes `%01` and the unquoted `*` becomes `%02`. -/

def hexDigit (n : Nat) : Nat := if n < 10 then 48 + n else 87 + n

def pctEncode (c : Nat) : List Nat := [37, hexDigit (c / 16), hexDigit (c % 16)]

def transformURIAux (esc : Bool) : List Nat → List Nat
  | [] => []
  | c :: rest =>
    if esc then (if c = 45 ∨ c = 46 then [c] else pctEncode c) ++ transformURIAux false rest
    else if c = 92 then transformURIAux true rest
    else if c = 63 then 37 :: 48 :: 49 :: transformURIAux false rest
    else if c = 42 then 37 :: 48 :: 50 :: transformURIAux false rest
    else c :: transformURIAux false rest

def transformURI (v : List Nat) : List Nat := transformURIAux false v

def lowerAlnumC (c : Nat) : Bool := (48 ≤ c && c ≤ 57) || (97 ≤ c && c ≤ 122)

/-- A value string a URI can carry (URIs do not preserve case): lower-case
    letters, digits, underscore and the special characters unquoted; backslash,
    special characters, punctuation, hyphen and period quoted. -/
def uriValueAux (esc : Bool) : List Nat → Bool
  | [] => !esc
  | c :: rest =>
    if esc then (c == 92 || c == 42 || c == 63 || c == 45 || c == 46 || puncC c) && uriValueAux false rest
    else if c = 92 then uriValueAux true rest
    else (lowerAlnumC c || c == 95 || c == 63 || c == 42) && uriValueAux false rest

/-! ### URI binding of a name (NISTIR 7695 §6.1.2: bind_to_URI, bind_value_for_URI, pack, trim)

     uri := "cpe:/"
     FOREACH a IN (part, vendor, product, version, update, edition, language)
       IF a = edition THEN v := pack(ed, sw_ed, t_sw, t_hw, oth)   ; each bound with bind_value_for_URI
       ELSE v := bind_value_for_URI(get(w, a))
       uri := strcat(uri, v, ":")
     RETURN trim(uri)                                                ; trailing colons removed

     bind_value_for_URI(s): ANY -> "", NA -> "-", else transform_for_uri(s)
     pack: if sw_ed, t_sw, t_hw and oth are all "" then ed
           else "~" ed "~" sw_ed "~" t_sw "~" t_hw "~" oth

  An unset attribute reads as ANY (§5.4.2). -/

def bindValueURI (k : Kind) (v : List Nat) : List Nat :=
  match k with
  | .unset | .any => []
  | .na => [45]
  | .set => transformURI v

def packURI (ed sw tsw thw oth : List Nat) : List Nat :=
  if sw = [] ∧ tsw = [] ∧ thw = [] ∧ oth = [] then ed
  else 126 :: ed ++ 126 :: sw ++ 126 :: tsw ++ 126 :: thw ++ 126 :: oth

/-- `trim`: trailing colons removed. -/
def trimColons (s : List Nat) : List Nat := (s.reverse.dropWhile (· == 58)).reverse

/-- `bind_to_URI` of a name given as its eleven (kind, value string)
    attributes in the order part, vendor, product, version, update, edition,
    language, sw_edition, target_sw, target_hw, other. -/
def bindURI (w : List (Kind × List Nat)) : List Nat :=
  let b := fun (i : Nat) => match w[i]? with
    | some a => bindValueURI a.1 a.2
    | none => []
  [99, 112, 101, 58, 47] ++
    trimColons (b 0 ++ 58 :: (b 1 ++ 58 :: (b 2 ++ 58 :: (b 3 ++ 58 :: (b 4 ++ 58 ::
      (packURI (b 5) (b 7) (b 8) (b 9) (b 10) ++ 58 :: (b 6 ++ [58])))))))

end ClairModel.CpeSpec
