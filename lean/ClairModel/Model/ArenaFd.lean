/-
  The descriptor layer of the fetch arena: which file descriptors of the process the code of
  libindex/fetcher.go and libindex/tempfile_linux.go holds, as numbers in the process's
  descriptor table (POSIX: `open` returns the lowest free number, so a closed number is
  handed out again).

    openTemp            O_TMPFILE file, write-only descriptor            owner `tmp k`
    a.rc.Swap(key, rc)  the same descriptor now belongs to the rc         owner `rc r`
    tempFile.Reopen     `Fd()`; -1 ⇒ errStale; open("/proc/self/fd/N")    owner `priv t`
    f.Close / r.val.Close / deferred f.Close on the error paths           the entry is freed
    everything else in the process (sockets of the HTTP client, ...)      owner `ext`

  `fstep` runs one transition of the arena machine (Model/Arena.lean) and applies what that
  transition does to the table.  `Reopen` looks the file up BY NUMBER (`rcNum r`, the number
  the os.File was opened with), exactly as the path "/proc/self/fd/N" does.

  `cached = true` is the hazard variant (seeded change C10-1): the number is cached when the
  file is opened and Reopen no longer asks `Fd()` whether the file is still open, so after
  the rc's file was closed it opens whatever file has been given that number since.
  tempfile_unix.go (unix, not linux: a named file reopened by path, removed on Close) is not
  compiled on this platform and is not modelled.
-/
import ClairModel.Model.Arena

namespace ClairModel.ArenaFd
open ClairModel.Arena

inductive Owner where
  | rc (r : Nat)
  | tmp (k : Nat)
  | priv (t : Nat)
  | ext
deriving DecidableEq, Repr

structure Ent where
  owner : Owner
  ino : Nat
deriving DecidableEq, Repr

abbrev Tab := List (Option Ent)

/-- What descriptor `n` refers to. -/
def look (tab : Tab) (n : Nat) : Option Ent := tab.getD n none

/-- `open`: the lowest free number. -/
def alloc (tab : Tab) (e : Ent) : Tab × Nat :=
  let n := tab.findIdx Option.isNone
  if n < tab.length then (tab.set n (some e), n) else (tab ++ [some e], n)

/-- `close` of the descriptor(s) an object owns. -/
def closeOwner (tab : Tab) (o : Owner) : Tab :=
  tab.map fun e => match e with
    | some x => if x.owner = o then none else some x
    | none => none

/-- The descriptor changes hands (the temp file of a flight becomes the rc's file). -/
def retag (tab : Tab) (o o' : Owner) : Tab :=
  tab.map fun e => match e with
    | some x => if x.owner = o then some { x with owner := o' } else some x
    | none => none

/-- The number of the (first) descriptor an object owns. -/
def fdOf (tab : Tab) (o : Owner) : Option Nat :=
  let n := tab.findIdx fun e => match e with
    | some x => x.owner = o
    | none => false
  if n < tab.length then some n else none

structure FState where
  a : Arena.State := {}
  tab : Tab := []
  nino : Nat := 0                        -- inodes created so far
  rcIno : Nat → Nat := fun _ => 0        -- the inode of the file that became rc r
  rcNum : Nat → Nat := fun _ => 0        -- the number rc r's os.File was opened with

def finit : FState := {}

inductive FOp where
  | base (op : Op)
  | extOpen                 -- some other part of the process opens a descriptor
  | extClose (n : Nat)      -- ... or closes one of its own
deriving DecidableEq, Repr

/-- The rc whose reference task `t` gives up in this transition, if any. -/
def releasedRc (a : Arena.State) : Op → Option Nat
  | .retry t => match a.tasks[t]? with
    | some (.staleRef _ r) => some r
    | _ => none
  | .init t false => match a.tasks[t]? with
    | some (.opened _ r) => some r
    | _ => none
  | .close t => match a.tasks[t]? with
    | some (.holding _ r) => some r
    | _ => none
  | _ => none

/-- `r.val.Close()` ran in this transition: the rc's file was open before and is closed now. -/
def closeIfDied (a a' : Arena.State) (tab : Tab) : Option Nat → Tab
  | some r => if (a.rc r).fileOpen && !(a'.rc r).fileOpen then closeOwner tab (.rc r) else tab
  | none => tab

/-- `tempFile.Reopen` of rc `r` for task `t`: a new descriptor on the file that descriptor
    number `rcNum r` refers to. -/
def reopen (s : FState) (t r : Nat) : Tab :=
  match look s.tab (s.rcNum r) with
  | some e => (alloc s.tab ⟨.priv t, e.ino⟩).1
  | none => s.tab

/-- The arena transition.  The hazard variant answers `Val` from the cached number instead
    of asking the file whether it is still open. -/
def arenaStep (cached : Bool) (s : FState) (op : Op) : Arena.State × Out :=
  if cached then
    match op with
    | .val t =>
      match s.a.tasks[t]? with
      | some (.reffed k r) =>
        if (look s.tab (s.rcNum r)).isSome then (setTask s.a t (.opened k r), .valOk)
        else ({ setTask s.a t (.staleRef k r) with stales := upd s.a.stales t (s.a.stales t + 1) }, .valStale)
      | _ => (s.a, .bad)
    | _ => step s.a op
  else step s.a op

/-- openTemp: a new file, a new descriptor; it stays open while the flight goes on. -/
def openTmp (s : FState) (k : Nat) : FState :=
  { s with tab := (alloc s.tab ⟨.tmp k, s.nino⟩).1, nino := s.nino + 1 }

/-- `f.Close()` of the task's private descriptor, then `r.Close()`. -/
def closeHandle (s : FState) (a' : Arena.State) (t : Nat) (op : Op) : FState :=
  { s with tab := closeIfDied s.a a' (closeOwner s.tab (.priv t)) (releasedRc s.a op) }

/-- What the transition `op` of the arena machine (outcome `out`, new arena state `a'`) does
    to the descriptor table. -/
def effects (s : FState) (op : Op) (out : Out) (a' : Arena.State) : FState :=
  match op, out with
  | .fnet k _, .fetched => openTmp s k
  | .freq k, .requested => openTmp s k
  | .fbody k _, .neterr =>
    -- the deferred `f.Close()` of the error paths
    { s with tab := closeOwner s.tab (.tmp k) }
  | .cancel t, .leaderCancelled =>
    -- a transfer in progress fails with its leader's context: the same deferred Close
    match s.a.tasks[t]? with
    | some (.waiting k) =>
      match s.a.flight k with
      | some f => if f.phase = .requesting then { s with tab := closeOwner s.tab (.tmp k) } else s
      | none => s
    | _ => s
  | .fstore k, .stored =>
    match fdOf s.tab (.tmp k) with
    | some n =>
      { s with tab := retag s.tab (.tmp k) (.rc s.a.nrc),
               rcIno := upd s.rcIno s.a.nrc (match look s.tab n with
                 | some e => e.ino
                 | none => 0),
               rcNum := upd s.rcNum s.a.nrc n }
    | none => s
  | .fstore k, .double => { s with tab := closeOwner s.tab (.tmp k) }
  | .val t, .valOk =>
    match s.a.tasks[t]? with
    | some (.reffed _ r) => { s with tab := reopen s t r }
    | _ => s
  | .init t false, .initErr => closeHandle s a' t op
  | .close t, .closedOk => closeHandle s a' t op
  | .retry _, .retried => { s with tab := closeIfDied s.a a' s.tab (releasedRc s.a op) }
  | _, _ => s

def fstepG (cached : Bool) (s : FState) : FOp → FState × Out
  | .extOpen => ({ s with tab := (alloc s.tab ⟨.ext, s.nino⟩).1, nino := s.nino + 1 }, .state)
  | .extClose n =>
    match look s.tab n with
    | some ⟨.ext, _⟩ => ({ s with tab := s.tab.set n none }, .state)
    | _ => (s, .bad)
  | .base op =>
    let res := arenaStep cached s op
    ({ effects s op res.2 res.1 with a := res.1 }, res.2)

/-- The code as it is. -/
def fstep : FState → FOp → FState × Out := fstepG false

/-- The hazard variant: Reopen through a cached descriptor number, no staleness check. -/
def fstepCached : FState → FOp → FState × Out := fstepG true

/-- The descriptors the arena code holds, by kind: (write-only temp files of rcs, temp files
    of flights that are not stored yet, private read-only descriptors of tasks). -/
def counts (tab : Tab) : Nat × Nat × Nat :=
  (tab.countP fun e => match e with
     | some ⟨.rc _, _⟩ => true
     | _ => false,
   tab.countP fun e => match e with
     | some ⟨.tmp _, _⟩ => true
     | _ => false,
   tab.countP fun e => match e with
     | some ⟨.priv _, _⟩ => true
     | _ => false)

/-- How many private descriptors refer to inode `i`. -/
def readersOf (tab : Tab) (i : Nat) : Nat :=
  tab.countP fun e => match e with
    | some ⟨.priv _, j⟩ => i == j
    | _ => false

end ClairModel.ArenaFd
