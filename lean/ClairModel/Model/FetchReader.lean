/-
  Model of what consumers of a realized layer can read (property C09).

    layer.go     Layer.Reader (one fileAdapter per call: an io.SectionReader of
                 the spool file's size with its own cursor; Read, ReadAt, Seek
                 and WriteTo dispatch to it), Close of the fetch proxy

  A scanner obtains a reader with `Layer.Reader()` and uses the sequential
  interface (`Read`, `io.Copy`, `Seek`) or the offset interface (`ReadAt`).
  Several scanners do so on the same Layer, one after the other or
  interleaved.  `payload` is the content of the spool file (the `View.tar`
  payload of Model/Fetch.lean).

  io.SectionReader (base 0, limit = size of the file):
    Read(p)        off >= limit: EOF; else at most limit-off bytes at off, off += n
    ReadAt(p,off)  off < 0 or off >= size: EOF; else at most limit-off bytes at off
    Seek(o,w)      w = 0,1,2: o relative to 0 / off / limit; other w: error;
                   result < 0: error; else off := result
  io.Copy(w, r)    Read until EOF: everything from off to the limit
  After `FetchProxy.Close` the file is closed: `Layer.Reader()` fails (Stat),
  reads through a reader obtained earlier fail without delivering a byte
  (the position checks come first), Seek is arithmetic and still answers.
  Core Lean only.
-/
import ClairModel.Lib.Bytes

namespace ClairModel.FetchReader
open ClairModel ClairModel.Bytes

/-- One operation of a consumer on its reader. -/
inductive ROp where
  | open_                          -- `Layer.Reader()`: a new reader, cursor at 0
  | read (n : Nat)                 -- `Read` with a buffer of n bytes
  | readAt (off : Int) (n : Nat)   -- `ReadAt`
  | seek (whence : Nat) (off : Int)
  | copy                           -- `io.Copy(w, rd)` / `io.ReadAll(rd)`
deriving DecidableEq, Repr

inductive ROut where
  | opened
  | bytes (b : Bytes)
  | eof                            -- (0, io.EOF)
  | pos (p : Nat)
  | err
deriving DecidableEq, Repr

/-- The Layer as its consumers see it. `rd c` is the cursor of consumer `c`'s
    reader (`none`: it has not called `Layer.Reader()`). -/
structure LState where
  payload : Bytes
  closed : Bool := false
  rd : Nat → Option Nat := fun _ => none

def LState.set (s : LState) (c : Nat) (p : Nat) : LState :=
  { s with rd := fun i => if i = c then some p else s.rd i }

/-- `Seek`: the new offset, `none` = error. -/
def seekTo (size pos whence : Nat) (off : Int) : Option Nat :=
  let base : Option Int :=
    if whence = 0 then some 0 else if whence = 1 then some (pos : Int) else if whence = 2 then some (size : Int) else none
  match base with
  | none => none
  | some b => if b + off < 0 then none else some (b + off).toNat

/-- One operation of consumer `c`. -/
def step (s : LState) (c : Nat) : ROp → LState × ROut
  | .open_ => if s.closed then (s, .err) else (s.set c 0, .opened)
  | .read n =>
    match s.rd c with
    | none => (s, .err)
    | some p =>
      if s.payload.length ≤ p then (s, .eof)
      else if s.closed then (s, .err)
      else (s.set c (p + ((s.payload.drop p).take n).length), .bytes ((s.payload.drop p).take n))
  | .readAt off n =>
    match s.rd c with
    | none => (s, .err)
    | some _ =>
      if off < 0 ∨ (s.payload.length : Int) ≤ off then (s, .eof)
      else if s.closed then (s, .err)
      else (s, .bytes ((s.payload.drop off.toNat).take n))
  | .seek whence off =>
    match s.rd c with
    | none => (s, .err)
    | some p =>
      match seekTo s.payload.length p whence off with
      | none => (s, .err)
      | some q => (s.set c q, .pos q)
  | .copy =>
    match s.rd c with
    | none => (s, .err)
    | some p =>
      if s.payload.length ≤ p then (s, .bytes [])
      else if s.closed then (s, .err)
      else (s.set c s.payload.length, .bytes (s.payload.drop p))

/-- A schedule: operations tagged with the consumer issuing them, in the order
    they happen. -/
def run (s : LState) : List (Nat × ROp) → LState × List (Nat × ROut)
  | [] => (s, [])
  | (c, op) :: rest =>
    let (s1, o) := step s c op
    let (s2, os) := run s1 rest
    (s2, (c, o) :: os)

/-- `FetchProxy.Close`. -/
def LState.close (s : LState) : LState := { s with closed := true }

end ClairModel.FetchReader
