/-
  python / ruby / java matchers on strings: the generic OSV `Vulnerable`
  (Model/Matchers.lean) instantiated with the version schemes modelled for
  property C12 (Model/Pep440.lean, Model/Gem.lean, Model/Maven.lean).
  Core Lean only.
-/
import ClairModel.Model.Matchers
import ClairModel.Model.Pep440
import ClairModel.Model.Gem
import ClairModel.Model.Maven

namespace ClairModel.Matchers

/-- `pep440.Parse` / `(*pep440.Version).Compare` -/
def pythonScheme : Scheme Pep440.Ver := { parse := Pep440.parse, cmp := Pep440.cmp }

/-- `ruby.NewVersion` / `ruby.Version.Compare` -/
def rubyScheme : Scheme (List Gem.Seg) := { parse := Gem.parse, cmp := Gem.cmp }

/-- `java.parseMavenVersion` / `(*mavenVersion).Compare` -/
def javaScheme : Scheme Maven.MV := { parse := Maven.parse, cmp := Maven.cmp }

/-- python/matcher.go -/
def vulnerablePython (p : Pkg) (v : Vuln) : Out := vulnerableOsv pythonScheme p v

/-- ruby/matcher.go -/
def vulnerableRuby (p : Pkg) (v : Vuln) : Out := vulnerableOsv rubyScheme p v

/-- java/matcher.go -/
def vulnerableJava (p : Pkg) (v : Vuln) : Out := vulnerableOsv javaScheme p v

end ClairModel.Matchers
