/-
  Model of pkg/rhctag/version.go: `Parse` (with `upToDot`), the projection
  `Version(min)`, and `Compare`, which is go-rpm-version's
  `NewVersion(Original).Compare` — so that library's `NewVersion`, `Compare`
  and `rpmvercmp` are modelled here too (the version pinned in go.mod, read in
  the module cache).  ASCII input.  Core Lean only.
-/
import ClairModel.Model.Version

namespace ClairModel.RhcTag
open ClairModel.Order ClairModel.Version

/-! ### go-rpm-version -/

inductive Tok where
  | alpha (s : List Char)
  | num (s : List Char)
  | tilde
  deriving Repr, DecidableEq

def spanP (p : Char → Bool) : List Char → List Char × List Char
  | [] => ([], [])
  | c :: cs => if p c then let (a, b) := spanP p cs; (c :: a, b) else ([], c :: cs)

/-- `alphanumPattern.FindAllString(s, -1)` for `([a-zA-Z]+)|([0-9]+)|(~)`:
    maximal letter runs, maximal digit runs, single tildes; everything else
    separates.  `fuel` ≥ length. -/
def tokens : Nat → List Char → List Tok
  | 0, _ => []
  | _, [] => []
  | fuel + 1, c :: cs =>
    if isAlpha c then .alpha (c :: (spanP isAlpha cs).1) :: tokens fuel (spanP isAlpha cs).2
    else if isDigit c then .num (c :: (spanP isDigit cs).1) :: tokens fuel (spanP isDigit cs).2
    else if c = '~' then .tilde :: tokens fuel cs
    else tokens fuel cs

def trimZeros : List Char → List Char
  | [] => []
  | c :: cs => if c = '0' then trimZeros cs else c :: cs

/-- One round of the segment loop of `rpmvercmp`; `eq` = go on. -/
def tokCmp : Tok → Tok → Ordering
  | .tilde, .tilde => .eq
  | .tilde, _ => .lt
  | _, .tilde => .gt
  | .num _, .alpha _ => .gt
  | .alpha _, .num _ => .lt
  | .num a, .num b =>
    let a' := trimZeros a
    let b' := trimZeros b
    if a'.length > b'.length then .gt
    else if b'.length > a'.length then .lt
    else strCmp a' b'
  | .alpha a, .alpha b => strCmp a b

/-- The loop over the common prefix and the rules for the longer list. -/
def segsCmp : List Tok → List Tok → Ordering
  | [], [] => .eq
  | .tilde :: _, [] => .lt
  | _ :: _, [] => .gt
  | [], .tilde :: _ => .gt
  | [], _ :: _ => .lt
  | a :: as, b :: bs => (tokCmp a b).then (segsCmp as bs)

/-- `rpmvercmp`. -/
def rpmvercmp (a b : List Char) : Ordering :=
  if a = b then .eq else segsCmp (tokens a.length a) (tokens b.length b)

structure Rpm where
  epoch : Int
  version : List Char
  release : List Char
  deriving Repr, DecidableEq

/-- `unicode.IsSpace` (`strings.TrimLeftFunc(epoch, unicode.IsSpace)`). -/
def isSpace (c : Char) : Bool := uniIsSpace c

def dropSpace : List Char → List Char
  | [] => []
  | c :: cs => if isSpace c then dropSpace cs else c :: cs

/-- Cut at the first occurrence of `sep`. -/
def cut (sep : Char) : List Char → List Char × Option (List Char)
  | [] => ([], none)
  | c :: cs => if c = sep then ([], some cs) else
    let (h, t) := cut sep cs; (c :: h, t)

/-- `version.NewVersion`: the epoch is what stands before the first `:` (0
    when there is none or `Atoi` fails on it), the version what stands before
    the first `-` of the remainder, the release what follows it. -/
def newVersion (s : List Char) : Rpm :=
  let c := cut ':' s
  let epoch : Int := match c.2 with
    | none => 0
    | some _ => (atoi (dropSpace c.1)).getD 0
  let rest := match c.2 with
    | none => s
    | some r => r
  { epoch := epoch, version := (cut '-' rest).1, release := (cut '-' rest).2.getD [] }

/-- `Version.Compare` of go-rpm-version. -/
def rpmCmp (a b : Rpm) : Ordering :=
  if a = b then .eq else
  (intCmp a.epoch b.epoch).then ((rpmvercmp a.version b.version).then (rpmvercmp a.release b.release))

/-! ### rhctag -/

structure Tag where
  original : List Char
  major : Int
  minor : Int
  deriving Repr, DecidableEq

/-- `upToDot`: `none` = error; otherwise the value and the remainder. -/
def upToDot (s : List Char) : Option (Int × List Char) :=
  match cut '.' s with
  | (h, some r) =>
    if h.isEmpty then (atoi s).map (·, [])      -- dotIndex = 0: fall through to Atoi(s)
    else (atoi h).map (·, r)
  | (_, none) => (atoi s).map (·, [])

/-- `strings.HasPrefix(s, "v")` ⇒ `s[1:]`. -/
def stripV : List Char → List Char
  | 'v' :: r => r
  | s => s

/-- "strip revision": cut at the first `-` when it is not the first byte
    (`dashIndex > 0`). -/
def stripRev (c : List Char) : List Char :=
  if (cut '-' c).2.isSome && !(cut '-' c).1.isEmpty then (cut '-' c).1 else c

/-- The two `upToDot` calls of `Parse` on the canonical text. -/
def parseCanon (s canonical : List Char) : Option Tag :=
  match upToDot canonical with
  | none => none
  | some mr =>
    match upToDot mr.2 with
    | none => some { original := s, major := mr.1, minor := 0 }
    | some nr => some { original := s, major := mr.1, minor := nr.1 }

/-- `rhctag.Parse`. -/
def parse (s : List Char) : Option Tag := parseCanon s (stripRev (stripV s))

/-- `(*Version).Version(min)`. -/
def project (t : Tag) (min : Bool) : Version :=
  { kind := ['r', 'h', 'c', 't', 'a', 'g'],
    v := [toInt32 t.major, toInt32 t.minor, if min then 0 else maxInt32, 0, 0, 0, 0, 0, 0, 0] }

/-- `(*Version).Compare`. -/
def cmp (a b : Tag) : Ordering := rpmCmp (newVersion a.original) (newVersion b.original)

/-! ### the fragment on which the projection is monotone -/

/-- The tokens after the optional `v` (when `v` is asked for, it must be there). -/
def afterV (v : Bool) (toks : List Tok) : Option (List Tok) :=
  if v then (match toks with
    | .alpha ['v'] :: r => some r
    | _ => none)
  else some toks

/-- `plain v t`: the text has no `:`; the rpm tokens of its version part (the
    text before the first `-`) are — after a `v` token iff `v` — the number
    `Major`, then either nothing (and `Minor = 0`) or the number `Minor`; both
    numbers below 2^31. -/
def plain (v : Bool) (t : Tag) : Bool :=
  !t.original.contains ':' &&
  (match afterV v (tokens (cut '-' t.original).1.length (cut '-' t.original).1) with
   | some (.num dM :: rest) =>
     decide ((natOfDigits dM : Int) = t.major) && decide (t.major < 2147483648) &&
     (match rest with
      | [] => decide (t.minor = 0)
      | .num dm :: _ => decide ((natOfDigits dm : Int) = t.minor) && decide (t.minor < 2147483648)
      | _ => false)
   | _ => false)

/-! ### the same fragment recognised on the text alone -/

/-- End of the text, or a `-` (start of the release). -/
def endOrDash : List Char → Bool
  | [] => true
  | c :: _ => c = '-'

/-- End of the text, a `-` or a `.`. -/
def endDashDot : List Char → Bool
  | [] => true
  | c :: _ => c = '-' || c = '.'

/-- `digits`, `digits.` or `digits.digits` followed by the end of the text, a
    `-` (or, after the second number, a `.`): the two numbers (the second is 0
    when absent). -/
def shapeBody (s : List Char) : Option (Nat × Nat) :=
  if (spanP isDigit s).1.isEmpty then none else
  match (spanP isDigit s).2 with
  | '.' :: r1 =>
    if (spanP isDigit r1).1.isEmpty then
      (if endOrDash r1 then some (natOfDigits (spanP isDigit s).1, 0) else none)
    else if endDashDot (spanP isDigit r1).2 then
      some (natOfDigits (spanP isDigit s).1, natOfDigits (spanP isDigit r1).1)
    else none
  | r => if endOrDash r then some (natOfDigits (spanP isDigit s).1, 0) else none

def hasV : List Char → Bool
  | 'v' :: _ => true
  | _ => false

/-- The string-level fragment: no `:` anywhere, an optional `v`, then
    `shapeBody` with both numbers below 2^31.  Returns (v present, Major, Minor). -/
def shapeNums (s : List Char) : Option (Bool × Nat × Nat) :=
  if s.contains ':' then none else
  match shapeBody (stripV s) with
  | none => none
  | some mm => if mm.1 < 2147483648 && mm.2 < 2147483648 then some (hasV s, mm.1, mm.2) else none

end ClairModel.RhcTag
