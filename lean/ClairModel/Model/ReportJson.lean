/-
  C17 — the JSON form of the report types, as trees.

  `encoding/json` itself (text ⇄ tree, struct/map/slice plumbing) is trusted;
  what is modelled here is what claircore decides: which fields are carried
  under which key (`json:"…"` tags, regenerated from the sources and compared
  in Props/C17 `report_tags_match_model`), which are dropped (`json:"-"`),
  which are omitted when empty, how nil and empty maps/slices differ, and the
  text codecs of the leaf types (Digest, Version, Severity, ArchOp — models of
  Model/Codec.lean; cpe.WFN and time.Time — parameters, instantiated in the
  driver).

    indexreport.go vulnerabilityreport.go package.go vulnerability.go
    distribution.go repository.go environment.go version.go (Range)

  Decoding follows encoding/json's rules for these Go types: `null` is a no-op,
  an absent key leaves the zero value, a JSON value of the wrong kind is an
  error, keys match exactly or else case-insensitively, unknown keys are
  ignored, a later map key replaces an earlier one.  Core Lean only.
-/
import ClairModel.Model.Codec

namespace ClairModel.ReportJson
open ClairModel.Bytes ClairModel.Codec

/-- A JSON document as a tree. -/
inductive J where
  | null
  | bool (b : Bool)
  | num (n : Int)
  | str (s : Bytes)
  | arr (xs : List J)
  | obj (kv : List (Bytes × J))
deriving Repr, Inhabited

/-! ### keys -/

def lowerC (c : Nat) : Nat := if 65 ≤ c ∧ c ≤ 90 then c + 32 else c
/-- encoding/json's case folding, on ASCII. -/
def fold (k : Bytes) : Bytes := k.map lowerC

/-- The value a struct field named `name` receives from the object `kv`:
    the entry with exactly that key, else the first one equal under folding. -/
def look (kv : List (Bytes × J)) (name : Bytes) : Option J :=
  match kv.find? (fun p => p.1 == name) with
  | some p => some p.2
  | none => (kv.find? (fun p => fold p.1 == fold name)).map (·.2)

/-- One struct field on the encoding side: its key and its value, `none` when
    `omitempty` drops it. -/
structure Block where
  key : Bytes
  val : Option J

def render (bs : List Block) : List (Bytes × J) :=
  bs.filterMap fun b => b.val.map fun v => (b.key, v)

def valOf (bs : List Block) (k : Bytes) : Option J :=
  (bs.find? fun b => b.key == k).bind (·.val)

/-- No two keys of the list are equal under case folding. -/
def distinctFold : List Bytes → Bool
  | [] => true
  | k :: ks => ks.all (fun k' => fold k' != fold k) && distinctFold ks

/-! ### Go maps -/

/-- A Go `map[string]β`: nil, or its entries (keys distinct). -/
abbrev GoMap (β : Type) := Option (List (Bytes × β))

/-- `m[k] = v` -/
def insertKV {β : Type} (k : Bytes) (v : β) : List (Bytes × β) → List (Bytes × β)
  | [] => [(k, v)]
  | (k', v') :: t => if k' = k then (k, v) :: t else (k', v') :: insertKV k v t

def mapGet {β : Type} (m : GoMap β) (k : Bytes) : Option β :=
  match m with
  | none => none
  | some kv => (kv.find? fun p => p.1 == k).map (·.2)

/-! ### leaf codecs -/

/-- A `TextMarshaler`/`TextUnmarshaler` pair as functions: `enc` (`none` =
    error) and `dec` into a receiver (`none` = error). -/
structure LeafCodec (α : Type) where
  zero : α
  enc : α → Option Bytes
  dec : α → Bytes → Option α

/-- Digest (`none` = the zero Digest). -/
def digestCodec : LeafCodec (Option Digest) :=
  ⟨none, fun d => some (digestText d), fun _ t => (digestParse t).map some⟩

def versionCodec : LeafCodec Version :=
  ⟨Version.zero, fun v => some (versionMarshal v), versionUnmarshal⟩

/-- An enum over a stringer table: a member is its number. -/
def severityCodec (name : Bytes) (idx : List Nat) : LeafCodec Nat :=
  ⟨0, enumMarshal name idx, fun _ t => match severityUnmarshal name idx t with | .ok n => some n | .err => none⟩

def archOpCodec (name : Bytes) (idx : List Nat) : LeafCodec Nat :=
  ⟨0, enumMarshal name idx, fun _ t => match archOpUnmarshal name idx t with | .ok n => some n | .err => none⟩

/-! ### field decoders (what a field of each Go kind does with `look kv name`) -/

/-- `string` field. -/
def dStr : Option J → Option Bytes
  | none => some []
  | some .null => some []
  | some (.str s) => some s
  | some _ => none

/-- `bool` field. -/
def dBool : Option J → Option Bool
  | none => some false
  | some .null => some false
  | some (.bool b) => some b
  | some _ => none

/-- A field whose type implements `TextUnmarshaler` (decoded into the zero value). -/
def dText {α : Type} (c : LeafCodec α) : Option J → Option α
  | none => some c.zero
  | some .null => some c.zero
  | some (.str s) => c.dec c.zero s
  | some _ => none

/-- A pointer field: `null`/absent is nil, anything else goes to the pointee's decoder. -/
def dPtr {α : Type} (d : J → Option α) : Option J → Option (Option α)
  | none => some none
  | some .null => some none
  | some j => (d j).map some

/-- A map field with element decoder `d` (later keys replace earlier ones). -/
def dMap {β : Type} (d : J → Option β) : Option J → Option (GoMap β)
  | none => some none
  | some .null => some none
  | some (.obj kv) =>
    (kv.mapM fun p => (d p.2).map fun v => (p.1, v)).map fun l =>
      some (l.foldl (fun acc p => insertKV p.1 p.2 acc) [])
  | some _ => none

/-- A slice field with element decoder `d`: `null` is the nil slice, `[]` the empty one. -/
def dSlice {β : Type} (d : J → Option β) : Option J → Option (Option (List β))
  | none => some none
  | some .null => some none
  | some (.arr xs) => (xs.mapM d).map some
  | some _ => none

/-- element of `[]string` -/
def dStrElem : J → Option Bytes
  | .null => some []
  | .str s => some s
  | _ => none

/-- element of a container of pointers -/
def dPtrElem {α : Type} (d : J → Option α) : J → Option (Option α)
  | .null => some none
  | j => (d j).map some

/-! ### field encoders -/

def eStr (k : Bytes) (s : Bytes) : Block := ⟨k, some (.str s)⟩
def eStrOmit (k : Bytes) (s : Bytes) : Block := ⟨k, if s = [] then none else some (.str s)⟩
def eBool (k : Bytes) (b : Bool) : Block := ⟨k, some (.bool b)⟩
def ePtr {α : Type} (e : α → J) : Option α → J
  | none => .null
  | some x => e x
def eMap {β : Type} (e : β → J) : GoMap β → J
  | none => .null
  | some kv => .obj (kv.map fun p => (p.1, e p.2))
def eSlice {β : Type} (e : β → J) : Option (List β) → J
  | none => .null
  | some xs => .arr (xs.map e)

/-! ### keys of the structs (json tags; compared with the sources in Props/C17) -/

def kId : Bytes := [105, 100]
def kName : Bytes := [110, 97, 109, 101]
def kVersion : Bytes := [118, 101, 114, 115, 105, 111, 110]
def kKind : Bytes := [107, 105, 110, 100]
def kSource : Bytes := [115, 111, 117, 114, 99, 101]
def kNormalizedVersion : Bytes := [110, 111, 114, 109, 97, 108, 105, 122, 101, 100, 95, 118, 101, 114, 115, 105, 111, 110]
def kModule : Bytes := [109, 111, 100, 117, 108, 101]
def kArch : Bytes := [97, 114, 99, 104]
def kCpe : Bytes := [99, 112, 101]
def kDid : Bytes := [100, 105, 100]
def kVersionCodeName : Bytes := [118, 101, 114, 115, 105, 111, 110, 95, 99, 111, 100, 101, 95, 110, 97, 109, 101]
def kVersionId : Bytes := [118, 101, 114, 115, 105, 111, 110, 95, 105, 100]
def kPrettyName : Bytes := [112, 114, 101, 116, 116, 121, 95, 110, 97, 109, 101]
def kKey : Bytes := [107, 101, 121]
def kUri : Bytes := [117, 114, 105]
def kPackageDb : Bytes := [112, 97, 99, 107, 97, 103, 101, 95, 100, 98]
def kIntroducedIn : Bytes := [105, 110, 116, 114, 111, 100, 117, 99, 101, 100, 95, 105, 110]
def kDistributionId : Bytes := [100, 105, 115, 116, 114, 105, 98, 117, 116, 105, 111, 110, 95, 105, 100]
def kRepositoryIds : Bytes := [114, 101, 112, 111, 115, 105, 116, 111, 114, 121, 95, 105, 100, 115]
def kLower : Bytes := [91]
def kUpper : Bytes := [41]
def kUpdater : Bytes := [117, 112, 100, 97, 116, 101, 114]
def kDescription : Bytes := [100, 101, 115, 99, 114, 105, 112, 116, 105, 111, 110]
def kIssued : Bytes := [105, 115, 115, 117, 101, 100]
def kLinks : Bytes := [108, 105, 110, 107, 115]
def kSeverity : Bytes := [115, 101, 118, 101, 114, 105, 116, 121]
def kNormalizedSeverity : Bytes := [110, 111, 114, 109, 97, 108, 105, 122, 101, 100, 95, 115, 101, 118, 101, 114, 105, 116, 121]
def kPackage : Bytes := [112, 97, 99, 107, 97, 103, 101]
def kDistribution : Bytes := [100, 105, 115, 116, 114, 105, 98, 117, 116, 105, 111, 110]
def kRepository : Bytes := [114, 101, 112, 111, 115, 105, 116, 111, 114, 121]
def kFixedInVersion : Bytes := [102, 105, 120, 101, 100, 95, 105, 110, 95, 118, 101, 114, 115, 105, 111, 110]
def kRange : Bytes := [114, 97, 110, 103, 101]
def kArchOp : Bytes := [97, 114, 99, 104, 95, 111, 112]
def kManifestHash : Bytes := [109, 97, 110, 105, 102, 101, 115, 116, 95, 104, 97, 115, 104]
def kState : Bytes := [115, 116, 97, 116, 101]
def kPackages : Bytes := [112, 97, 99, 107, 97, 103, 101, 115]
def kDistributions : Bytes := [100, 105, 115, 116, 114, 105, 98, 117, 116, 105, 111, 110, 115]
def kEnvironments : Bytes := [101, 110, 118, 105, 114, 111, 110, 109, 101, 110, 116, 115]
def kSuccess : Bytes := [115, 117, 99, 99, 101, 115, 115]
def kErr : Bytes := [101, 114, 114]
def kVulnerabilities : Bytes := [118, 117, 108, 110, 101, 114, 97, 98, 105, 108, 105, 116, 105, 101, 115]
def kPackageVulnerabilities : Bytes :=
  [112, 97, 99, 107, 97, 103, 101, 95, 118, 117, 108, 110, 101, 114, 97, 98, 105, 108, 105, 116, 105, 101, 115]
def kEnrichments : Bytes := [101, 110, 114, 105, 99, 104, 109, 101, 110, 116, 115]

/-! ### the Go types -/

/-- claircore.Package without its `Source` pointer. -/
structure Pkg (W : Type) where
  id : Bytes
  name : Bytes
  version : Bytes
  kind : Bytes
  /-- `json:"-"` -/
  packageDB : Bytes
  /-- `json:"-"` -/
  filepath : Bytes
  /-- `json:"-"` -/
  repositoryHint : Bytes
  nver : Version
  module : Bytes
  arch : Bytes
  cpe : W

/-- claircore.Package: the package and the chain its `Source` pointers lead
    through (`[]` = nil Source). -/
structure Package (W : Type) where
  head : Pkg W
  sources : List (Pkg W)

structure Dist (W : Type) where
  id : Bytes
  did : Bytes
  name : Bytes
  version : Bytes
  versionCodeName : Bytes
  versionID : Bytes
  arch : Bytes
  cpe : W
  prettyName : Bytes

structure Repo (W : Type) where
  id : Bytes
  name : Bytes
  key : Bytes
  uri : Bytes
  cpe : W

structure Env where
  packageDB : Bytes
  introducedIn : Option Digest
  distributionID : Bytes
  repositoryIDs : Option (List Bytes)

structure Range where
  lower : Version
  upper : Version

structure Vuln (W T : Type) where
  id : Bytes
  updater : Bytes
  name : Bytes
  description : Bytes
  issued : T
  links : Bytes
  severity : Bytes
  normalizedSeverity : Nat
  package : Option (Package W)
  dist : Option (Dist W)
  repo : Option (Repo W)
  fixedInVersion : Bytes
  range : Option Range
  archOp : Nat

structure File where
  path : Bytes
  kind : Bytes

structure IndexReport (W : Type) where
  hash : Option Digest
  state : Bytes
  packages : GoMap (Option (Package W))
  distributions : GoMap (Option (Dist W))
  repositories : GoMap (Option (Repo W))
  environments : GoMap (Option (List (Option Env)))
  success : Bool
  err : Bytes
  /-- `json:"-"` -/
  files : GoMap File

structure VulnReport (W T : Type) where
  hash : Option Digest
  packages : GoMap (Option (Package W))
  distributions : GoMap (Option (Dist W))
  repositories : GoMap (Option (Repo W))
  environments : GoMap (Option (List (Option Env)))
  vulnerabilities : GoMap (Option (Vuln W T))
  packageVulnerabilities : GoMap (Option (List Bytes))
  enrichments : GoMap (Option (List J))

/-- The leaf codecs the report encoders are built over. -/
structure Leaves (W T : Type) where
  wfn : LeafCodec W
  time : LeafCodec T
  sev : LeafCodec Nat
  arch : LeafCodec Nat

/-! ### encoders (`json.Marshal`; `none` = a leaf's MarshalText failed) -/

section
variable {W T : Type} (L : Leaves W T)

/-- The fields of a Package as blocks, given the texts of its two leaves and
    the encoding of its Source. -/
def pkgBlocksOf (p : Pkg W) (src : Option J) (nv cp : Bytes) : List Block :=
  [eStr kId p.id, eStr kName p.name, eStr kVersion p.version, eStrOmit kKind p.kind,
    ⟨kSource, src⟩, ⟨kNormalizedVersion, some (.str nv)⟩, eStrOmit kModule p.module, eStrOmit kArch p.arch,
    ⟨kCpe, some (.str cp)⟩]

def pkgBlocks (p : Pkg W) (src : Option J) : Option (List Block) := do
  let nv ← versionCodec.enc p.nver
  let cp ← L.wfn.enc p.cpe
  pure (pkgBlocksOf p src nv cp)

/-- The package `p` whose Source chain is `rest`. -/
def encChain (p : Pkg W) : List (Pkg W) → Option J
  | [] => (pkgBlocks L p none).map fun bs => .obj (render bs)
  | q :: qs => do
    let s ← encChain q qs
    let bs ← pkgBlocks L p (some s)
    pure (.obj (render bs))

def encPackage (p : Package W) : Option J := encChain L p.head p.sources

def distBlocksOf (d : Dist W) (cp : Bytes) : List Block :=
  [eStr kId d.id, eStr kDid d.did, eStr kName d.name, eStr kVersion d.version,
    eStr kVersionCodeName d.versionCodeName, eStr kVersionId d.versionID, eStr kArch d.arch,
    ⟨kCpe, some (.str cp)⟩, eStr kPrettyName d.prettyName]

def encDist (d : Dist W) : Option J := (L.wfn.enc d.cpe).map fun cp => .obj (render (distBlocksOf d cp))

def repoBlocksOf (r : Repo W) (cp : Bytes) : List Block :=
  [eStrOmit kId r.id, eStrOmit kName r.name, eStrOmit kKey r.key, eStrOmit kUri r.uri, ⟨kCpe, some (.str cp)⟩]

def encRepo (r : Repo W) : Option J := (L.wfn.enc r.cpe).map fun cp => .obj (render (repoBlocksOf r cp))

def envBlocks (e : Env) : List Block :=
  [eStr kPackageDb e.packageDB, ⟨kIntroducedIn, some (.str (digestText e.introducedIn))⟩,
    eStr kDistributionId e.distributionID, ⟨kRepositoryIds, some (eSlice J.str e.repositoryIDs)⟩]

def encEnv (e : Env) : J := .obj (render (envBlocks e))

def rangeBlocks (r : Range) : List Block :=
  [⟨kLower, some (.str (versionMarshal r.lower))⟩, ⟨kUpper, some (.str (versionMarshal r.upper))⟩]

def encRange (r : Range) : J := .obj (render (rangeBlocks r))

/-- A pointer whose pointee's encoder can fail: nil is `null`. -/
def encOptPtr {α : Type} (e : α → Option J) : Option α → Option J
  | none => some .null
  | some x => e x

/-- The value of an `omitempty` pointer field (`none` inside = dropped). -/
def omitPtr {α : Type} (e : α → Option J) : Option α → Option (Option J)
  | none => some none
  | some x => (e x).map some

/-- The value of the `arch_op,omitempty` field. -/
def omitArch (c : LeafCodec Nat) (n : Nat) : Option (Option J) :=
  if n = 0 then some none else (c.enc n).map fun t => some (.str t)

def vulnBlocksOf (v : Vuln W T) (iss sev : Bytes) (pk : J) (di re ao : Option J) : List Block :=
  [eStr kId v.id, eStr kUpdater v.updater, eStr kName v.name, eStr kDescription v.description,
    ⟨kIssued, some (.str iss)⟩, eStr kLinks v.links, eStr kSeverity v.severity,
    ⟨kNormalizedSeverity, some (.str sev)⟩, ⟨kPackage, some pk⟩, ⟨kDistribution, di⟩, ⟨kRepository, re⟩,
    eStr kFixedInVersion v.fixedInVersion, ⟨kRange, v.range.map encRange⟩, ⟨kArchOp, ao⟩]

def encVuln (v : Vuln W T) : Option J := do
  let iss ← L.time.enc v.issued
  let sev ← L.sev.enc v.normalizedSeverity
  let pk ← encOptPtr (encPackage L) v.package
  let di ← omitPtr (encDist L) v.dist
  let re ← omitPtr (encRepo L) v.repo
  let ao ← omitArch L.arch v.archOp
  pure (.obj (render (vulnBlocksOf v iss sev pk di re ao)))

/-- A map whose element encoder can fail. -/
def encMapM {β : Type} (e : β → Option J) : GoMap β → Option J
  | none => some .null
  | some kv => (kv.mapM fun p => (e p.2).map fun j => (p.1, j)).map .obj

def encEnvs : GoMap (Option (List (Option Env))) → J :=
  eMap (eSlice (ePtr encEnv))

def irBlocksOf (r : IndexReport W) (pk di re : J) : List Block :=
  [⟨kManifestHash, some (.str (digestText r.hash))⟩, eStr kState r.state, ⟨kPackages, some pk⟩,
    ⟨kDistributions, some di⟩, ⟨kRepository, some re⟩, ⟨kEnvironments, some (encEnvs r.environments)⟩,
    eBool kSuccess r.success, eStr kErr r.err]

def encIR (r : IndexReport W) : Option J := do
  let pk ← encMapM (encOptPtr (encPackage L)) r.packages
  let di ← encMapM (encOptPtr (encDist L)) r.distributions
  let re ← encMapM (encOptPtr (encRepo L)) r.repositories
  pure (.obj (render (irBlocksOf r pk di re)))

def vrBlocksOf (r : VulnReport W T) (pk di re vu : J) : List Block :=
  [⟨kManifestHash, some (.str (digestText r.hash))⟩, ⟨kPackages, some pk⟩,
    ⟨kDistributions, some di⟩, ⟨kRepository, some re⟩, ⟨kEnvironments, some (encEnvs r.environments)⟩,
    ⟨kVulnerabilities, some vu⟩,
    ⟨kPackageVulnerabilities, some (eMap (eSlice J.str) r.packageVulnerabilities)⟩,
    ⟨kEnrichments, some (eMap (eSlice id) r.enrichments)⟩]

def encVR (r : VulnReport W T) : Option J := do
  let pk ← encMapM (encOptPtr (encPackage L)) r.packages
  let di ← encMapM (encOptPtr (encDist L)) r.distributions
  let re ← encMapM (encOptPtr (encRepo L)) r.repositories
  let vu ← encMapM (encOptPtr (encVuln L)) r.vulnerabilities
  pure (.obj (render (vrBlocksOf r pk di re vu)))

/-! ### decoders (`json.Unmarshal` into a zero value; `none` = error) -/

/-- The fields of a Package other than `Source`. -/
def decPkgFlat (kv : List (Bytes × J)) : Option (Pkg W) := do
  let id ← dStr (look kv kId)
  let name ← dStr (look kv kName)
  let version ← dStr (look kv kVersion)
  let kind ← dStr (look kv kKind)
  let nver ← dText versionCodec (look kv kNormalizedVersion)
  let module ← dStr (look kv kModule)
  let arch ← dStr (look kv kArch)
  let cpe ← dText L.wfn (look kv kCpe)
  pure ⟨id, name, version, kind, [], [], [], nver, module, arch, cpe⟩

/-- How deep a `Source` chain the decoder follows: well inside encoding/json's
    own nesting limit (10000), beyond which the real decoder returns an error. -/
def maxChain : Nat := 9000

/-- A Package object and its `source` chain. -/
def decChain : Nat → J → Option (Pkg W × List (Pkg W))
  | 0, _ => none
  | n + 1, .obj kv => do
    let p ← decPkgFlat L kv
    match look kv kSource with
    | none => pure (p, [])
    | some .null => pure (p, [])
    | some j => do
      let r ← decChain n j
      pure (p, r.1 :: r.2)
  | _ + 1, _ => none

def decPackage (j : J) : Option (Package W) := (decChain L maxChain j).map fun r => ⟨r.1, r.2⟩

def decDist : J → Option (Dist W)
  | .obj kv => do
    let id ← dStr (look kv kId)
    let did ← dStr (look kv kDid)
    let name ← dStr (look kv kName)
    let version ← dStr (look kv kVersion)
    let vcn ← dStr (look kv kVersionCodeName)
    let vid ← dStr (look kv kVersionId)
    let arch ← dStr (look kv kArch)
    let cpe ← dText L.wfn (look kv kCpe)
    let pn ← dStr (look kv kPrettyName)
    pure ⟨id, did, name, version, vcn, vid, arch, cpe, pn⟩
  | _ => none

def decRepo : J → Option (Repo W)
  | .obj kv => do
    let id ← dStr (look kv kId)
    let name ← dStr (look kv kName)
    let key ← dStr (look kv kKey)
    let uri ← dStr (look kv kUri)
    let cpe ← dText L.wfn (look kv kCpe)
    pure ⟨id, name, key, uri, cpe⟩
  | _ => none

def decEnv : J → Option Env
  | .obj kv => do
    let db ← dStr (look kv kPackageDb)
    let ii ← dText digestCodec (look kv kIntroducedIn)
    let di ← dStr (look kv kDistributionId)
    let ri ← dSlice dStrElem (look kv kRepositoryIds)
    pure ⟨db, ii, di, ri⟩
  | _ => none

def decRange : J → Option Range
  | .obj kv => do
    let lo ← dText versionCodec (look kv kLower)
    let up ← dText versionCodec (look kv kUpper)
    pure ⟨lo, up⟩
  | _ => none

def decVuln : J → Option (Vuln W T)
  | .obj kv => do
    let id ← dStr (look kv kId)
    let updater ← dStr (look kv kUpdater)
    let name ← dStr (look kv kName)
    let description ← dStr (look kv kDescription)
    let issued ← dText L.time (look kv kIssued)
    let links ← dStr (look kv kLinks)
    let severity ← dStr (look kv kSeverity)
    let ns ← dText L.sev (look kv kNormalizedSeverity)
    let pk ← dPtr (decPackage L) (look kv kPackage)
    let di ← dPtr (decDist L) (look kv kDistribution)
    let re ← dPtr (decRepo L) (look kv kRepository)
    let fixed ← dStr (look kv kFixedInVersion)
    let range ← dPtr decRange (look kv kRange)
    let ao ← dText L.arch (look kv kArchOp)
    pure ⟨id, updater, name, description, issued, links, severity, ns, pk, di, re, fixed, range, ao⟩
  | _ => none

def decEnvs : Option J → Option (GoMap (Option (List (Option Env)))) :=
  dMap fun j => dSlice (dPtrElem decEnv) (some j)

def decIRObj (kv : List (Bytes × J)) : Option (IndexReport W) := do
  let hash ← dText digestCodec (look kv kManifestHash)
  let state ← dStr (look kv kState)
  let pk ← dMap (dPtrElem (decPackage L)) (look kv kPackages)
  let di ← dMap (dPtrElem (decDist L)) (look kv kDistributions)
  let re ← dMap (dPtrElem (decRepo L)) (look kv kRepository)
  let en ← decEnvs (look kv kEnvironments)
  let su ← dBool (look kv kSuccess)
  let er ← dStr (look kv kErr)
  pure ⟨hash, state, pk, di, re, en, su, er, none⟩

def zeroIR : IndexReport W := ⟨none, [], none, none, none, none, false, [], none⟩

/-- `json.Unmarshal(doc, &IndexReport{})` -/
def decIR : J → Option (IndexReport W)
  | .null => some zeroIR
  | .obj kv => decIRObj L kv
  | _ => none

def decVRObj (kv : List (Bytes × J)) : Option (VulnReport W T) := do
  let hash ← dText digestCodec (look kv kManifestHash)
  let pk ← dMap (dPtrElem (decPackage L)) (look kv kPackages)
  let di ← dMap (dPtrElem (decDist L)) (look kv kDistributions)
  let re ← dMap (dPtrElem (decRepo L)) (look kv kRepository)
  let en ← decEnvs (look kv kEnvironments)
  let vu ← dMap (dPtrElem (decVuln L)) (look kv kVulnerabilities)
  let pv ← dMap (fun j => dSlice dStrElem (some j)) (look kv kPackageVulnerabilities)
  let er ← dMap (fun j => dSlice (fun x => some x) (some j)) (look kv kEnrichments)
  pure ⟨hash, pk, di, re, en, vu, pv, er⟩

def zeroVR : VulnReport W T := ⟨none, none, none, none, none, none, none, none⟩

def decVR : J → Option (VulnReport W T)
  | .null => some zeroVR
  | .obj kv => decVRObj L kv
  | _ => none

end

/-! ### the field table the encoders and decoders above are written against

  (Go name, JSON key, omitempty, `json:"-"`, type as written in the source.)
  Props/C17 `report_tags_match_model` compares it with the table regenerated
  from the sources on every run. -/

def expectedTags : List (String × List (String × List Nat × Bool × Bool × String)) := [
  ("IndexReport", [
    ("Hash", kManifestHash, false, false, "Digest"),
    ("State", kState, false, false, "string"),
    ("Packages", kPackages, false, false, "map[string]*Package"),
    ("Distributions", kDistributions, false, false, "map[string]*Distribution"),
    ("Repositories", kRepository, false, false, "map[string]*Repository"),
    ("Environments", kEnvironments, false, false, "map[string][]*Environment"),
    ("Success", kSuccess, false, false, "bool"),
    ("Err", kErr, false, false, "string"),
    ("Files", [], false, true, "map[string]File")]),
  ("VulnerabilityReport", [
    ("Hash", kManifestHash, false, false, "Digest"),
    ("Packages", kPackages, false, false, "map[string]*Package"),
    ("Distributions", kDistributions, false, false, "map[string]*Distribution"),
    ("Repositories", kRepository, false, false, "map[string]*Repository"),
    ("Environments", kEnvironments, false, false, "map[string][]*Environment"),
    ("Vulnerabilities", kVulnerabilities, false, false, "map[string]*Vulnerability"),
    ("PackageVulnerabilities", kPackageVulnerabilities, false, false, "map[string][]string"),
    ("Enrichments", kEnrichments, false, false, "map[string][]json.RawMessage")]),
  ("Package", [
    ("ID", kId, false, false, "string"),
    ("Name", kName, false, false, "string"),
    ("Version", kVersion, false, false, "string"),
    ("Kind", kKind, true, false, "string"),
    ("Source", kSource, true, false, "*Package"),
    ("PackageDB", [], false, true, "string"),
    ("Filepath", [], false, true, "string"),
    ("RepositoryHint", [], false, true, "string"),
    ("NormalizedVersion", kNormalizedVersion, true, false, "Version"),
    ("Module", kModule, true, false, "string"),
    ("Arch", kArch, true, false, "string"),
    ("CPE", kCpe, true, false, "cpe.WFN")]),
  ("Vulnerability", [
    ("ID", kId, false, false, "string"),
    ("Updater", kUpdater, false, false, "string"),
    ("Name", kName, false, false, "string"),
    ("Description", kDescription, false, false, "string"),
    ("Issued", kIssued, false, false, "time.Time"),
    ("Links", kLinks, false, false, "string"),
    ("Severity", kSeverity, false, false, "string"),
    ("NormalizedSeverity", kNormalizedSeverity, false, false, "Severity"),
    ("Package", kPackage, false, false, "*Package"),
    ("Dist", kDistribution, true, false, "*Distribution"),
    ("Repo", kRepository, true, false, "*Repository"),
    ("FixedInVersion", kFixedInVersion, false, false, "string"),
    ("Range", kRange, true, false, "*Range"),
    ("ArchOperation", kArchOp, true, false, "ArchOp")]),
  ("Distribution", [
    ("ID", kId, false, false, "string"),
    ("DID", kDid, false, false, "string"),
    ("Name", kName, false, false, "string"),
    ("Version", kVersion, false, false, "string"),
    ("VersionCodeName", kVersionCodeName, false, false, "string"),
    ("VersionID", kVersionId, false, false, "string"),
    ("Arch", kArch, false, false, "string"),
    ("CPE", kCpe, false, false, "cpe.WFN"),
    ("PrettyName", kPrettyName, false, false, "string")]),
  ("Repository", [
    ("ID", kId, true, false, "string"),
    ("Name", kName, true, false, "string"),
    ("Key", kKey, true, false, "string"),
    ("URI", kUri, true, false, "string"),
    ("CPE", kCpe, true, false, "cpe.WFN")]),
  ("Environment", [
    ("PackageDB", kPackageDb, false, false, "string"),
    ("IntroducedIn", kIntroducedIn, false, false, "Digest"),
    ("DistributionID", kDistributionId, false, false, "string"),
    ("RepositoryIDs", kRepositoryIds, false, false, "[]string")]),
  ("Range", [
    ("Lower", kLower, false, false, "Version"),
    ("Upper", kUpper, false, false, "Version")])]


/-! ### what JSON does not carry -/

section
variable {W T : Type}

/-- A Package with its `json:"-"` fields (PackageDB, Filepath, RepositoryHint) zeroed. -/
def stripPkg (p : Pkg W) : Pkg W := { p with packageDB := [], filepath := [], repositoryHint := [] }
def stripPackage (p : Package W) : Package W := ⟨stripPkg p.head, p.sources.map stripPkg⟩
def stripPkgMap : GoMap (Option (Package W)) → GoMap (Option (Package W)) :=
  Option.map (List.map fun p => (p.1, p.2.map stripPackage))
def stripVuln (v : Vuln W T) : Vuln W T := { v with package := v.package.map stripPackage }
def stripIR (r : IndexReport W) : IndexReport W := { r with packages := stripPkgMap r.packages, files := none }
def stripVR (r : VulnReport W T) : VulnReport W T :=
  { r with packages := stripPkgMap r.packages,
           vulnerabilities := r.vulnerabilities.map (List.map fun p => (p.1, p.2.map stripVuln)) }

/-! ### indexreport.go `IndexRecords`, and a scan as a function of them -/

structure Record (W : Type) where
  package : Package W
  dist : Option (Dist W)
  repo : Option (Repo W)

def stripRecord (r : Record W) : Record W := { r with package := stripPackage r.package }

/-- `report.Distributions[id]`: nil when absent (or stored as nil). -/
def ptrAt {β : Type} (m : GoMap (Option β)) (k : Bytes) : Option β := (mapGet m k).bind id

/-- The records of one environment of one package; `none` = nil dereference. -/
def envRecords (r : IndexReport W) (p : Package W) : Option Env → Option (List (Record W))
  | none => none
  | some e =>
    match e.repositoryIDs with
    | none => some [⟨p, ptrAt r.distributions e.distributionID, none⟩]
    | some [] => some [⟨p, ptrAt r.distributions e.distributionID, none⟩]
    | some ids => some (ids.map fun i => ⟨p, ptrAt r.distributions e.distributionID, ptrAt r.repositories i⟩)

/-- The environments of package id `k`: `report.Environments[pkg.ID]` (nil slice when absent). -/
def envsOf (r : IndexReport W) (k : Bytes) : List (Option Env) := ((mapGet r.environments k).bind id).getD []

/-- The records of one entry of `report.Packages`; `none` = nil dereference. -/
def pkgRecords (r : IndexReport W) (e : Bytes × Option (Package W)) : Option (List (Record W)) :=
  match e.2 with
  | none => none
  | some p => ((envsOf r p.head.id).mapM (envRecords r p)).map List.flatten

/-- `IndexReport.IndexRecords` (map iteration in list order); `none` = it
    dereferences a nil *Package or *Environment and panics. -/
def indexRecords (r : IndexReport W) : Option (List (Record W)) :=
  match r.packages with
  | none => some []
  | some kv => (kv.mapM (pkgRecords r)).map List.flatten

/-- What the matchers, the store and the controllers compute from the records:
    the vulnerabilities, which package has which, and the enrichments. -/
structure Findings (W T : Type) where
  vulnerabilities : GoMap (Option (Vuln W T))
  packageVulnerabilities : GoMap (Option (List Bytes))
  enrichments : GoMap (Option (List J))

/-- `libvuln.Scan` / `matcher.Match` / `EnrichedMatch` as a function of the
    index report, for an arbitrary `core` (every matcher, store and enricher):
    the report's own maps are passed through, the rest is computed from the
    records.  `none` = `IndexRecords` panicked. -/
def scan (core : List (Record W) → Findings W T) (r : IndexReport W) : Option (VulnReport W T) :=
  (indexRecords r).map fun recs =>
    let f := core recs
    ⟨r.hash, r.packages, r.distributions, r.repositories, r.environments,
      f.vulnerabilities, f.packageVulnerabilities, f.enrichments⟩

end

end ClairModel.ReportJson
