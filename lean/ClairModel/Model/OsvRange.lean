/-
  Model of the SEMVER branch of `(*ecs).Insert` (updater/osv/osv.go): the
  loop over `r.Events` that builds `vers []*rangeVer`, and the loop over
  `vers` that finishes each range (implicit +∞, removal of inverted ranges).
  Only what decides WHICH VERSIONS a vulnerability covers is modelled here:
  `semverRange` and `fixedInVersion`; the rest of `Insert` (severity, package,
  repository, ECOSYSTEM encodings) belongs to C14's model.

  `vers` holds pointers, `vs` is the current one.  The model keeps the cells
  already superseded (`closed`), the current cell and whether the current cell
  is already the last entry of `vers` (`curIn`): a closing event after the
  first one updates the recorded cell in place (the `vers[n-1] != vs` test of
  the code as fixed by b974568a).  Core Lean only.
-/
import ClairModel.Model.Semver

namespace ClairModel.OsvRange
open ClairModel.Order ClairModel.Version

/-- `rangeEvent`: the four strings. -/
structure Event where
  introduced : List Char := []
  fixed : List Char := []
  lastAffected : List Char := []
  limit : List Char := []
  deriving Repr, DecidableEq

/-- The zero `claircore.Version`. -/
def zeroV : Version := { kind := [], v := [0, 0, 0, 0, 0, 0, 0, 0, 0, 0] }

def semverKind : List Char := ['s', 'e', 'm', 'v', 'e', 'r']

/-- `rangeVer` (the SEMVER part). -/
structure Cell where
  lower : Version := zeroV
  upper : Version := zeroV
  fixedIn : List Char := []
  deriving Repr, DecidableEq

structure St where
  closed : List Cell := []       -- entries of `vers` that are no longer `vs`
  cur : Cell := {}               -- `*vs`
  curIn : Bool := false          -- `vs` is the last entry of `vers`
  seen : Bool := false           -- `seenIntroduced`
  deriving Repr, DecidableEq

/-- `V[0] = 65535`. -/
def setV0 (v : List Int) : List Int :=
  match v with
  | [] => []
  | _ :: r => 65535 :: r

/-- `vs = &rangeVer{…}`: what was recorded of the old cell stays in `vers`;
    an old cell that was never recorded is lost. -/
def St.fresh (s : St) : St :=
  { s with closed := if s.curIn then s.closed ++ [s.cur] else s.closed, cur := {}, curIn := false }

/-- One event; `last` = it is the last of the range; `hasVersions` =
    `len(af.Versions) != 0`. -/
def step (hasVersions last : Bool) (s : St) (ev : Event) : St :=
  if !ev.introduced.isEmpty then
    let s := if s.seen then s.fresh else s
    let lower :=
      if ev.introduced = ['0'] then { s.cur.lower with kind := semverKind }
      else match Semver.parse ev.introduced with
        | some v => Semver.project v
        | none => s.cur.lower
    -- `vers = append(vers, vs)` when this is the last event; then `continue`.
    -- A second record of a cell already recorded is a second entry.
    let s := { s with cur := { s.cur with lower := lower }, seen := true }
    if last then (if s.curIn then { s with closed := s.closed ++ [s.cur] } else { s with curIn := true }) else s
  else
    let cur :=
      if !ev.fixed.isEmpty then
        (match Semver.parse ev.fixed with
         | some v => { s.cur with upper := Semver.project v, fixedIn := ev.fixed }
         | none => s.cur)
      else if !ev.lastAffected.isEmpty && hasVersions then s.cur
      else if !ev.lastAffected.isEmpty then
        (match Semver.parse ev.lastAffected with
         | some v => { s.cur with upper := Semver.project (Semver.incPatch v) }
         | none => s.cur)
      else if ev.limit = ['*'] then
        { s.cur with upper := { kind := semverKind, v := setV0 s.cur.upper.v } }
      else s.cur
    { s with cur := cur, curIn := true }

/-- The event loop; an event is the last one when nothing follows it. -/
def run (hasVersions : Bool) : St → List Event → St
  | s, [] => s
  | s, e :: r => run hasVersions (step hasVersions r.isEmpty s e) r

/-- `vers` after the event loop.  (A cell recorded twice — `introduced` as the
    last event after a closing event of the same cell — appears twice: both
    entries are the same pointer, so both show the final contents.) -/
def St.vers (s : St) : List Cell := s.closed ++ (if s.curIn then [s.cur] else [])

/-- The second loop on one cell: implicit +∞ when the upper bound was never
    set; `none` = removed because `Lower.Compare(&Upper) == 1`. -/
def finish (c : Cell) : Option Cell :=
  let upper := if c.upper.kind.isEmpty then { kind := c.lower.kind, v := setV0 c.upper.v } else c.upper
  if Version.cmp c.lower upper = .gt then none else some { c with upper := upper }

/-- The ranges of the vulnerabilities `Insert` creates for one SEMVER range. -/
def ranges (hasVersions : Bool) (evs : List Event) : List Cell :=
  ((run hasVersions {} evs).vers).filterMap finish

def cellRange (c : Cell) : Range := { lower := c.lower, upper := c.upper }

/-- Is the (projected) version inside one of the ranges? -/
def covers (cells : List Cell) (v : Version) : Bool := cells.any fun c => contains (cellRange c) v

/-! ### event lists that describe intervals -/

/-- How an interval ends. -/
inductive Close where
  | none                                  -- no closing event: unbounded
  | fixed (s : List Char)
  | lastAffected (s : List Char)
  | limitStar
  deriving Repr, DecidableEq

/-- `introduced` (a version or "0") and at most one closing event. -/
structure Interval where
  intro : List Char
  close : Close
  deriving Repr, DecidableEq

def closeEvents : Close → List Event
  | .none => []
  | .fixed s => [{ fixed := s }]
  | .lastAffected s => [{ lastAffected := s }]
  | .limitStar => [{ limit := ['*'] }]

/-- The events of a list of intervals, in the order given. -/
def eventsOf : List Interval → List Event
  | [] => []
  | iv :: rest => { introduced := iv.intro } :: (closeEvents iv.close ++ eventsOf rest)

def Close.textOK : Close → Bool
  | .fixed s => !s.isEmpty
  | .lastAffected s => !s.isEmpty
  | _ => true

/-- Every `introduced` and every closing version is a non-empty string, and
    every interval but the last has its closing event. -/
def wellShaped : List Interval → Bool
  | [] => true
  | [iv] => !iv.intro.isEmpty && iv.close.textOK
  | iv :: rest => !iv.intro.isEmpty && iv.close.textOK && iv.close != .none && wellShaped rest

def infV : Version := { kind := semverKind, v := [65535, 0, 0, 0, 0, 0, 0, 0, 0, 0] }

/-- The lower bound an `introduced` event leaves in a fresh cell. -/
def lowerOf (intro : List Char) : Version :=
  if intro = ['0'] then { kind := semverKind, v := zeroV.v }
  else match Semver.parse intro with
    | some v => Semver.project v
    | none => zeroV

/-- The cell of one interval as the event loop leaves it. -/
def cellOf (hasVersions : Bool) (iv : Interval) : Cell :=
  match iv.close with
  | .none => { lower := lowerOf iv.intro }
  | .fixed s =>
    (match Semver.parse s with
     | some v => { lower := lowerOf iv.intro, upper := Semver.project v, fixedIn := s }
     | none => { lower := lowerOf iv.intro })
  | .lastAffected s =>
    if hasVersions then { lower := lowerOf iv.intro } else
    (match Semver.parse s with
     | some v => { lower := lowerOf iv.intro, upper := Semver.project (Semver.incPatch v) }
     | none => { lower := lowerOf iv.intro })
  | .limitStar => { lower := lowerOf iv.intro, upper := infV }

/-! ### what the intervals mean (OSV schema), on parsed versions -/

/-- All three numbers are in `[0, MaxInt32)` (so that `patch + 1` still fits). -/
def small (v : Semver.SV) : Bool :=
  decide (0 ≤ v.major) && decide (v.major < 2147483647) && decide (0 ≤ v.minor) && decide (v.minor < 2147483647) &&
  decide (0 ≤ v.patch) && decide (v.patch < 2147483647)

/-- The text is a semantic version without pre-release and with small numbers. -/
def cleanText (s : List Char) : Bool :=
  match Semver.parse s with
  | some v => v.pre.isEmpty && small v
  | none => false

def Interval.clean (iv : Interval) : Bool :=
  (iv.intro = ['0'] || cleanText iv.intro) &&
  (match iv.close with
   | .fixed s => cleanText s
   | .lastAffected s => cleanText s
   | _ => true)

/-- `introduced ≤ v` ("0" is below everything). -/
def lowerAffected (intro : List Char) (v : Semver.SV) : Bool :=
  intro = ['0'] ||
    (match Semver.parse intro with
     | some a => Semver.cmp a v != .gt
     | none => false)

/-- `v < fixed`, `v ≤ last_affected`; no closing event or `limit: "*"` leave
    the interval unbounded. -/
def upperAffected (c : Close) (v : Semver.SV) : Bool :=
  match c with
  | .none => true
  | .limitStar => true
  | .fixed s => (match Semver.parse s with
    | some b => Semver.cmp v b == .lt
    | none => false)
  | .lastAffected s => (match Semver.parse s with
    | some b => Semver.cmp v b != .gt
    | none => false)

/-- The schema's reading of one interval, with Masterminds' `Compare` as the order. -/
def affectedBy (iv : Interval) (v : Semver.SV) : Bool :=
  lowerAffected iv.intro v && upperAffected iv.close v

def Close.isLastAffected : Close → Bool
  | .lastAffected _ => true
  | _ => false

end ClairModel.OsvRange
