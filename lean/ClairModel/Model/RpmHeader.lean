/-
  C06 — model of rpm/internal/rpm/header.go (`Header.Parse` = loadArenas,
  verifyRegion, verifyInfo; `ReadData`) and of `Info.Load` in rpm/native_db.go.
  Core Lean only.  Every Go bounds check is an explicit error, every unchecked
  index / type assertion an explicit `panic` outcome.

  The tables (`tagTable`, `wantTags`, the Go type each case of `Info.Load`
  asserts and whether the assertion is checked) come from Gen/Rpm.lean, which
  is regenerated from the sources on every run.
-/
import ClairModel.Gen.Rpm

namespace ClairModel.RpmHeader
open ClairModel.Gen

abbrev Bytes := List UInt8

def be32 (b : Bytes) (off : Nat) : Nat :=
  match b.drop off with
  | x0 :: x1 :: x2 :: x3 :: _ => x0.toNat * 16777216 + x1.toNat * 65536 + x2.toNat * 256 + x3.toNat
  | _ => 0

def two31 : Nat := 2147483648
def two32 : Nat := 4294967296

/-- reinterpret a uint32 as int32 -/
def toInt32 (n : Nat) : Int := if n ≥ two31 then (n : Int) - (two32 : Int) else (n : Int)

/-- int32 arithmetic wraps -/
def wrap32 (x : Int) : Int := (x + (two31 : Int)) % (two32 : Int) - (two31 : Int)

structure Entry where
  tag : Int
  typ : Nat
  offset : Int
  count : Nat
  deriving Repr, DecidableEq

/-- `EntryInfo.UnmarshalBinary` on the 16 bytes at `off` -/
def parseEntry (b : Bytes) (off : Nat) : Entry :=
  ⟨toInt32 (be32 b off), be32 b (off + 4), toInt32 (be32 b (off + 8)), be32 b (off + 12)⟩

structure Header where
  entries : List Entry
  data : Bytes
  /-- the region tag found by verifyRegion; 0 when there is none ("bdb" headers) -/
  region : Int
  deriving Repr

def tagsMax : Nat := 0xffff
def dataMax : Nat := 0x0fffffff
def sizeMax : Nat := 256 * 1024 * 1024

/-- the checks of `loadArenas` on the two counts and the input size -/
def arenasOK (len tagsCt dataSz : Nat) : Bool :=
  decide (tagsCt ≤ tagsMax) && decide (dataSz ≤ dataMax) &&
  decide (8 + 16 * tagsCt + dataSz < sizeMax) && (8 + 16 * tagsCt + dataSz == len) && (tagsCt != 0)

/-- `loadArenas`: the two counts, checked against the input size. -/
def loadArenas (b : Bytes) : Option (Nat × Nat) :=
  if b.length < 8 then none
  else if arenasOK b.length (be32 b 0) (be32 b 4) then some (be32 b 0, be32 b 4) else none

def entriesOf (b : Bytes) (tagsCt : Nat) : List Entry :=
  (List.range tagsCt).map fun i => parseEntry b (8 + 16 * i)

def isRegionTag (t : Int) : Bool :=
  t == Rpm.tagHeaderSignatures || t == Rpm.tagHeaderImmutable || t == Rpm.tagHeaderImage

inductive RegionRes
  | noRegion            -- errNoRegion: "probably a bdb database"
  | bad
  | ok (tag : Int)
  deriving Repr, DecidableEq

/-- the checks on the region entry itself: BIN, 16 bytes, inside the data
    (`off := region.offset + 16` in int32; the ReadAt of the trailer fails for
    a negative or past-the-end offset) -/
def regionFieldsOK (region : Entry) (dataLen : Nat) : Bool :=
  (region.typ == Rpm.typeBin) && (region.count == 16) &&
  decide (0 ≤ wrap32 (region.offset + 16)) && decide (wrap32 (region.offset + 16) ≤ (dataLen : Int)) &&
  decide (0 ≤ region.offset) && decide (region.offset < (dataLen : Int))

/-- the checks on the region trailer found at `region.offset` in the data -/
def trailerOK (region : Entry) (tagsCt : Nat) (data : Bytes) : Bool :=
  let tr := parseEntry data region.offset.toNat
  let toff := wrap32 (-tr.offset)
  let rIdxLen := Int.tdiv toff 16
  let ttag := if region.tag == Rpm.tagHeaderSignatures && tr.tag == Rpm.tagHeaderImage
              then Rpm.tagHeaderSignatures else tr.tag
  (ttag == region.tag) && (tr.typ == Rpm.typeBin) && (tr.count == 16) &&
  (Int.tmod toff 16 == 0) && decide (rIdxLen ≤ ((16 * tagsCt : Nat) : Int)) &&
  decide (wrap32 (region.offset + 16) ≤ (data.length : Int))

/-- `verifyRegion` on the first entry. -/
def verifyRegion (region : Entry) (tagsCt : Nat) (data : Bytes) : RegionRes :=
  if !isRegionTag region.tag then .noRegion
  else if regionFieldsOK region data.length && trailerOK region tagsCt data then .ok region.tag
  else .bad

def alignment (typ : Nat) : Nat :=
  if typ == Rpm.typeInt16 then 2 else if typ == Rpm.typeInt32 then 4 else if typ == Rpm.typeInt64 then 8 else 1

inductive Cls | null | numeric | string | binary | none
  deriving DecidableEq, Repr

def classOf (typ : Nat) : Cls :=
  if typ == Rpm.typeNull then .null
  else if typ == Rpm.typeChar || typ == Rpm.typeInt8 || typ == Rpm.typeInt16 || typ == Rpm.typeInt32 || typ == Rpm.typeInt64 then .numeric
  else if typ == Rpm.typeString || typ == Rpm.typeStringArray || typ == Rpm.typeI18nString then .string
  else if typ == Rpm.typeBin then .binary
  else .none

/-- `tagByValue[key]` then `tagTable[i].Type`: the last row for the tag wins. -/
def lookupTagType (tag : Int) : Option Nat :=
  (Rpm.tagTable.reverse.find? (fun r => r.1 == tag)).map (·.2)

def checkTagType (tag : Int) (typ : Nat) : Bool :=
  match lookupTagType tag with
  | some t => t == typ || classOf t == classOf typ
  | none => true

/-- the switch of `verifyInfo` for one entry; `true` = no arm fired -/
def entryOK (isBDB typecheck : Bool) (dataSz : Nat) (e : Entry) : Bool :=
  decide (0 ≤ e.offset) &&                                      -- prev (always 0) > offset
  !(decide (e.tag < Rpm.tagHeaderI18nTable) && !isBDB) &&
  decide (Rpm.typeChar ≤ e.typ) && decide (e.typ ≤ Rpm.typeI18nString) &&
  decide (1 ≤ e.count) && decide (e.count ≤ dataSz) &&
  (e.offset.toNat % alignment e.typ == 0) &&
  decide (e.offset ≤ (dataSz : Int)) &&
  !(typecheck && !checkTagType e.tag e.typ)

/-- `Header.Parse` -/
def parse (b : Bytes) : Option Header :=
  match loadArenas b with
  | none => none
  | some (tagsCt, dataSz) =>
    let ents := entriesOf b tagsCt
    let data := (b.drop (8 + 16 * tagsCt)).take dataSz
    match ents with
    | [] => none
    | e0 :: rest =>
      match verifyRegion e0 tagsCt data with
      | .bad => none
      | .noRegion =>
        if ents.all (entryOK true false dataSz) then some ⟨ents, data, 0⟩ else none
      | .ok rt =>
        let typecheck := rt == Rpm.tagHeaderImmutable || rt == Rpm.tagHeaderImage
        if rest.all (entryOK false typecheck dataSz) then some ⟨ents, data, rt⟩ else none

/-! ### ReadData -/

inductive Val
  | str (s : Bytes)
  | strs (ss : List Bytes)
  | i32s (vs : List Int)
  | bytes (b : Bytes)
  | i8s (n : Nat)
  | i16s (n : Nat)
  | u64s (n : Nat)
  deriving Repr, DecidableEq

/-- the dynamic Go type of the value, as written in a type assertion -/
def Val.goType : Val → String
  | .str _ => "string"
  | .strs _ => "[]string"
  | .i32s _ => "[]int32"
  | .bytes _ => "[]byte"
  | .i8s _ => "[]int8"
  | .i16s _ => "[]int16"
  | .u64s _ => "[]uint64"

/-- split at NUL like `splitCString` under a bufio.Scanner: NUL-terminated
    tokens, then a final unterminated token if anything is left. -/
def cTokens : Bytes → Bytes → List Bytes
  | [], acc => if acc.isEmpty then [] else [acc.reverse]
  | c :: cs, acc => if c == 0 then acc.reverse :: cTokens cs [] else cTokens cs (c :: acc)

def padTo (n : Nat) (ss : List Bytes) : List Bytes :=
  let t := ss.take n
  t ++ List.replicate (n - t.length) []

def i32At (b : Bytes) (i : Nat) : Int := toInt32 (be32 b (4 * i))

/-- `ReadData`; `none` = an error is returned.  (The 64 KiB token limit of
    bufio.Scanner is not modelled; see design/C06.md.) -/
def readData (data : Bytes) (e : Entry) : Option Val :=
  let off := e.offset.toNat
  let dataSz := data.length
  let fits (sz : Nat) : Bool := e.offset ≥ 0 && off + e.count * sz ≤ dataSz
  if e.typ == Rpm.typeBin || e.typ == Rpm.typeChar then
    if e.offset ≥ 0 && off < dataSz && off + e.count ≤ dataSz then some (.bytes ((data.drop off).take e.count)) else none
  else if e.typ == Rpm.typeStringArray || e.typ == Rpm.typeI18nString then
    some (.strs (padTo e.count (cTokens (data.drop off) [])))
  else if e.typ == Rpm.typeString then
    let rest := data.drop off
    if rest.contains 0 then some (.str (rest.takeWhile (· != 0))) else none
  else if e.typ == Rpm.typeInt64 then if fits 8 then some (.u64s e.count) else none
  else if e.typ == Rpm.typeInt32 then
    if fits 4 then some (.i32s ((List.range e.count).map (i32At (data.drop off)))) else none
  else if e.typ == Rpm.typeInt16 then if fits 2 then some (.i16s e.count) else none
  else if e.typ == Rpm.typeInt8 then if fits 1 then some (.i8s e.count) else none
  else none

/-- bytes that ReadData's own `make` calls request for the entry -/
def allocOf (e : Entry) : Nat :=
  if e.typ == Rpm.typeStringArray || e.typ == Rpm.typeI18nString then 16 * e.count
  else if e.typ == Rpm.typeInt64 then 8 * e.count
  else if e.typ == Rpm.typeInt32 then 4 * e.count
  else if e.typ == Rpm.typeInt16 then 2 * e.count
  else e.count

/-! ### Info.Load -/

structure Info where
  name : Bytes := []
  version : Bytes := []
  release : Bytes := []
  source : Bytes := []
  module : Bytes := []
  arch : Bytes := []
  digest : Bytes := []
  sigLen : Nat := 0
  digestAlgo : Int := 0
  epoch : Int := 0
  deriving Repr, DecidableEq

inductive Out
  | parseErr
  | loadErr
  | panic
  | ok (i : Info)
  deriving Repr, DecidableEq

/-- the assertion table: (tag, asserted Go type, checked) -/
abbrev Asserts := List (Int × String × Bool)

inductive Step
  | next (i : Info)
  | err
  | panic
  deriving Repr, DecidableEq

/-- the body of one `case` after the assertion succeeded -/
def assign (guardEmpty : Bool) (tag : Int) (v : Val) (i : Info) : Step :=
  match v with
  | .str s =>
    if tag == 1000 then .next { i with name := s }
    else if tag == 1001 then .next { i with version := s }
    else if tag == 1002 then .next { i with release := s }
    else if tag == 1044 then .next { i with source := s }
    else if tag == 5096 then .next { i with module := s }
    else if tag == 1022 then .next { i with arch := s }
    else .next i
  | .i32s vs =>
    if tag == 1003 then (match vs with | [] => .panic | x :: _ => .next { i with epoch := x })
    else if tag == 5093 then (match vs with | [] => .panic | x :: _ => .next { i with digestAlgo := x })
    else .next i                                         -- dirindex
  | .strs ss =>
    if tag == 5092 then (match ss with | [] => .panic | x :: _ => .next { i with digest := x })
    else if tag == 5000 then
      -- `name[1:]` of an empty name panics unless the loop skips empty names
      if !guardEmpty && ss.any (·.isEmpty) then .panic else .next i
    else .next i                                         -- dirnames, basenames
  | .bytes b => if tag == 259 then .next { i with sigLen := b.length } else .next i
  | _ => .next i

/-- one iteration of the loop over `h.Infos` -/
def loadEntry (asserts : Asserts) (guardEmpty : Bool) (data : Bytes) (e : Entry) (i : Info) : Step :=
  if !Rpm.wantTags.contains e.tag then .next i else
  match readData data e with
  | none => .err
  | some v =>
    match asserts.find? (fun a => a.1 == e.tag) with
    | none => .next i                                    -- no case for the tag
    | some (_, ty, checked) =>
      if v.goType == ty then assign guardEmpty e.tag v i
      else if checked then .err else .panic

def loadLoop (asserts : Asserts) (guardEmpty : Bool) (data : Bytes) : List Entry → Info → Out
  | [], i => .ok i       -- the file name loop that follows runs under `recover`
  | e :: es, i =>
    match loadEntry asserts guardEmpty data e i with
    | .next i' => loadLoop asserts guardEmpty data es i'
    | .err => .loadErr
    | .panic => .panic

def load (asserts : Asserts) (guardEmpty : Bool) (h : Header) : Out :=
  loadLoop asserts guardEmpty h.data h.entries {}

/-- `Header.Parse` followed by `Info.Load`, with the tables of the current sources. -/
def run (b : Bytes) : Out :=
  match parse b with
  | none => .parseErr
  | some h => load Rpm.loadAsserts Rpm.filenamesGuardsEmpty h

/-- the assertion table of the code before the fix: same types, bare `v.(T)` -/
def uncheckedAsserts : Asserts := Rpm.loadAsserts.map fun a => (a.1, a.2.1, false)

end ClairModel.RpmHeader
