/-
  C14 — OSV advisories: updater/osv/osv.go `(*updater).Parse` (the skip of
  withdrawn / unaffected advisories) and `(*ecs).Insert` (severity selection,
  the range-event state machine, per-ecosystem encoding, inverted-range
  removal, package and repository).

  Modelled on the decoded `advisory`.  Parameters (not modelled): the CVSS
  rating of a vector (`fromCVSS2/3`, C18), whether `withdrawn` lies in the
  past, and `semver.NewVersion` (each version string comes with its parse:
  major, minor, patch, "has a pre-release part").

  Pointer aliasing in `Insert`.  `vers = append(vers, vs)` stores a *pointer*
  to the current range cell; later events keep mutating that cell, so every
  entry of `vers` pointing at it shows the cell's final content.  Only the
  current cell is ever mutated, and the entries for one cell are contiguous,
  so the model keeps: the already closed entries, the current cell, and how
  many times the current cell has been appended.
  Core Lean only.
-/
import ClairModel.Model.FeedCommon

namespace ClairModel.Feeds

/-- Result of `semver.NewVersion` on a string: `none` = error. -/
abbrev SemverParse := Option (Nat × Nat × Nat × Bool)

/-- `rangeEvent`, each version string with its parse. -/
structure OsvEvent where
  introduced : String := ""
  fixed : String := ""
  lastAffected : String := ""
  limit : String := ""
  introducedV : SemverParse := none
  fixedV : SemverParse := none
  lastAffectedV : SemverParse := none
deriving Repr, DecidableEq

structure OsvRange where
  type : String
  events : List OsvEvent
deriving Repr

structure OsvAffected where
  ecosystem : String
  name : String
  purl : String
  hasVersions : Bool          -- len(af.Versions) != 0
  ranges : List OsvRange
deriving Repr

/-- One entry of `advisory.Severity` with the rating `fromCVSS2/3` gives its
    score (0 = Unknown when it returns an error). -/
structure OsvSeverity where
  type : String
  score : String
  rating : Nat
deriving Repr

structure OsvAdvisory where
  id : String
  summary : String
  withdrawnPast : Bool        -- !Withdrawn.IsZero() && now.After(Withdrawn)
  severities : List OsvSeverity
  dbSeverity : Option String  -- database_specific.severity when it decodes as a string
  refs : List String
  affected : List OsvAffected
  published : String := ""    -- `published` as canonical time ("" = absent)
deriving Repr

/-- The five ecosystems `Insert` knows by name. -/
structure OsvEcosystems where
  go : String
  maven : String
  npm : String
  pypi : String
  rubygems : String

def OsvEcosystems.known (e : OsvEcosystems) (s : String) : Bool :=
  s == e.go || s == e.maven || s == e.npm || s == e.pypi || s == e.rubygems

/-- Maven, PyPI, RubyGems: the ecosystems whose ECOSYSTEM ranges are encoded as a query string. -/
def OsvEcosystems.encoded (e : OsvEcosystems) (s : String) : Bool :=
  s == e.maven || s == e.pypi || s == e.rubygems

/-! ### severity -/

/-- The loop over `a.Severity`: the last CVSS_V3 / CVSS_V2 entry wins. -/
def osvCvss : List OsvSeverity → String × Nat → String × Nat
  | [], acc => acc
  | s :: rest, acc =>
    if s.type = "CVSS_V3" ∨ s.type = "CVSS_V2" then osvCvss rest (s.score, s.rating) else osvCvss rest acc

/-- `proto.Severity`, `proto.NormalizedSeverity`. `dbSev` is `severityFromDBString`. -/
def osvSeverity (dbSev : String → Nat) (a : OsvAdvisory) : String × Nat :=
  let r := osvCvss a.severities ("", 0)
  if r.1 = "" then
    match a.dbSeverity with
    | some s => (s, dbSev s)
    | none => r
  else r

/-! ### `url.Values.Encode` -/

def hexUpper (n : Nat) : Char := if n < 10 then Char.ofNat (48 + n) else Char.ofNat (55 + n)

/-- `url.QueryEscape`. -/
def queryEscape (s : String) : String :=
  String.ofList (s.toUTF8.toList.flatMap fun b =>
    let n := b.toNat
    if (48 ≤ n ∧ n ≤ 57) ∨ (65 ≤ n ∧ n ≤ 90) ∨ (97 ≤ n ∧ n ≤ 122) ∨ n = 45 ∨ n = 95 ∨ n = 46 ∨ n = 126 then [Char.ofNat n]
    else if n = 32 then ['+']
    else ['%', hexUpper (n / 16), hexUpper (n % 16)])

/-- `Encode` of values added under the keys "fixed", "introduced", "lastAffected":
    keys in sorted order, the values of a key in insertion order. -/
def encodeValues (vals : List (String × String)) : String :=
  let part (k : String) := (vals.filter fun p => p.1 == k).map fun p => k ++ "=" ++ queryEscape p.2
  "&".intercalate (part "fixed" ++ part "introduced" ++ part "lastAffected")

/-! ### the range cell and the event machine -/

/-- `rangeVer`. `hasRange` = `semverRange != nil`; `eco` = the `url.Values` additions in order. -/
structure Cell where
  hasRange : Bool := true
  lower : Ver := {}
  upper : Ver := {}
  fixed : String := ""
  eco : List (String × String) := []
deriving Repr, DecidableEq, Inhabited

/-- `claircore.FromSemver`. -/
def fromSemver (p : Nat × Nat × Nat × Bool) : Ver :=
  { kind := "semver", v0 := 0, v1 := p.1, v2 := p.2.1, v3 := p.2.2.1 }

/-- `IncPatch` then `FromSemver`: a pre-release is only stripped. -/
def incPatch (p : Nat × Nat × Nat × Bool) : Ver :=
  if p.2.2.2 then fromSemver p else { kind := "semver", v0 := 0, v1 := p.1, v2 := p.2.1, v3 := p.2.2.1 + 1 }

structure EvState where
  closed : List Cell := []   -- entries of `vers` pointing at earlier cells
  cur : Cell := {}           -- the cell `vs` points at
  curCount : Nat := 0        -- how many entries of `vers` point at it
  seen : Bool := false       -- seenIntroduced
deriving Repr, DecidableEq

/-- `vers = append(vers, vs)` at the two "introduced is the last event" sites. -/
def EvState.append (s : EvState) : EvState := { s with curCount := s.curCount + 1 }

/-- The append at the end of the event loop body (osv.go as fixed): skipped when
    the last entry of `vers` already points at the current cell. -/
def EvState.appendOnce (s : EvState) : EvState :=
  if s.curCount = 0 then { s with curCount := 1 } else s

/-- `vs = &rangeVer{…}`: the entries of the old cell are final now. -/
def EvState.fresh (s : EvState) (c : Cell) : EvState :=
  { s with closed := s.closed ++ List.replicate s.curCount s.cur, cur := c, curCount := 0 }

/-- `vers` at the end of the event loop. -/
def EvState.vers (s : EvState) : List Cell := s.closed ++ List.replicate s.curCount s.cur

/-- One event of a SEMVER range. -/
def stepSemver (hasVersions : Bool) (last : Bool) (s : EvState) (ev : OsvEvent) : EvState :=
  if ev.introduced ≠ "" then
    let s := if s.seen then s.fresh { hasRange := true } else s
    let s := { s with seen := true }
    let c := s.cur
    let c :=
      if ev.introduced = "0" then { c with lower := { c.lower with kind := "semver" } }
      else match ev.introducedV with
        | some p => { c with lower := fromSemver p }
        | none => c
    let s := { s with cur := c }
    if last then s.append else s
  else
    let c := s.cur
    let c :=
      if ev.fixed ≠ "" then
        match ev.fixedV with
        | some p => { c with upper := fromSemver p, fixed := ev.fixed }
        | none => c
      else if ev.lastAffected ≠ "" ∧ hasVersions then c
      else if ev.lastAffected ≠ "" then
        match ev.lastAffectedV with
        | some p => { c with upper := incPatch p }
        | none => c
      else if ev.limit = "*" then { c with upper := { c.upper with kind := "semver", v0 := 65535 } }
      else c
    ({ s with cur := c }).appendOnce

/-- One event of an ECOSYSTEM range of Maven / PyPI / RubyGems. -/
def stepEncoded (last : Bool) (s : EvState) (ev : OsvEvent) : EvState :=
  let s := { s with cur := { s.cur with hasRange := false } }
  if ev.introduced ≠ "" then
    let s := if s.seen then s.fresh { hasRange := false } else s
    let s := { s with seen := true }
    let c := s.cur
    let c := if ev.introduced = "0" then c else { c with eco := c.eco ++ [("introduced", ev.introduced)] }
    let s := { s with cur := c }
    if last then s.append else s
  else
    let c := s.cur
    let c :=
      if ev.fixed ≠ "" then { c with eco := c.eco ++ [("fixed", ev.fixed)] }
      else if ev.lastAffected ≠ "" then { c with eco := c.eco ++ [("lastAffected", ev.lastAffected)] }
      else c
    ({ s with cur := c }).appendOnce

/-- One event of an ECOSYSTEM range of any other ecosystem: only `fixed` is
    recorded, in the one cell of the range. -/
def stepOther (s : EvState) (ev : OsvEvent) : EvState :=
  let c := s.cur
  let c := if ev.introduced = "" ∧ ev.fixed ≠ "" then { c with fixed := ev.fixed } else c
  ({ s with cur := c }).appendOnce

/-- Which of the four loops a range runs. -/
inductive RangeMode where
  | semver | encoded | other | plain | error
deriving Repr, DecidableEq

def rangeMode (eco : OsvEcosystems) (type ecosystem : String) : RangeMode :=
  if type = "SEMVER" then .semver
  else if type = "ECOSYSTEM" then
    if eco.encoded ecosystem then .encoded
    else if ecosystem = eco.go ∨ ecosystem = eco.npm then .error
    else .other
  else .plain

/-- The event loop of one range; `last` is known from the remaining list. -/
def runEvents (mode : RangeMode) (hasVersions : Bool) : EvState → List OsvEvent → EvState
  | s, [] => s
  | s, ev :: rest =>
    let last := rest.isEmpty
    let s' := match mode with
      | .semver => stepSemver hasVersions last s ev
      | .encoded => stepEncoded last s ev
      | .other => stepOther s ev
      | .plain => s.appendOnce
      | .error => s
    runEvents mode hasVersions s' rest

/-- The implicit `+∞` upper bound of a cell whose upper version was never set. -/
def finalRange (c : Cell) : Rng :=
  let up := if c.upper.kind = "" then { c.upper with kind := c.lower.kind, v0 := 65535 } else c.upper
  { lower := c.lower, upper := up }

/-- The vulnerability of one entry of `vers`; `none` = removed (lower above upper). -/
def cellVuln (eco : OsvEcosystems) (proto : Vuln) (ecosystem : String) (c : Cell) : Option Vuln :=
  let fixed := if ¬ c.eco.isEmpty ∧ eco.encoded ecosystem then encodeValues c.eco else c.fixed
  if c.hasRange then
    let r := finalRange c
    if r.lower.cmp r.upper = .gt then none
    else some { proto with range := some r, fixed := fixed }
  else some { proto with range := none, fixed := fixed }

/-- `LookupRepository`: the name and the URI of the table. -/
def osvRepoKey (uris : List (String × String)) (name : String) : String :=
  name ++ "||" ++ ((uris.find? fun p => p.1 == name).map (·.2)).getD ""

/-- One range of one affected package; `none` = `Insert` returns an error. -/
def osvRange (eco : OsvEcosystems) (proto : Vuln) (af : OsvAffected) (r : OsvRange) : Option (List Vuln) :=
  if r.type = "GIT" then some [] else
  let mode := rangeMode eco r.type af.ecosystem
  if mode = .error ∧ ¬ r.events.isEmpty then none else
  let known := eco.known af.ecosystem
  let proto := { proto with hasPkg := true, pkgName := if known then af.name else af.purl,
                            pkgKind := if known then "binary" else "", pkgHint := af.ecosystem }
  some ((runEvents mode af.hasVersions {} r.events).vers.filterMap (cellVuln eco proto af.ecosystem))

def osvRanges (eco : OsvEcosystems) (proto : Vuln) (af : OsvAffected) : List OsvRange → Option (List Vuln)
  | [] => some []
  | r :: rs =>
    match osvRange eco proto af r with
    | none => none
    | some vs => (osvRanges eco proto af rs).map (vs ++ ·)

def osvAffecteds (eco : OsvEcosystems) (proto : Vuln) : List OsvAffected → Option (List Vuln)
  | [] => some []
  | af :: afs =>
    match osvRanges eco proto af af.ranges with
    | none => none
    | some vs => (osvAffecteds eco proto afs).map (vs ++ ·)

/-- `advisory.GitOnly`. -/
def gitOnly (a : OsvAdvisory) : Bool :=
  !a.affected.isEmpty && a.affected.all fun af => af.ranges.all fun r => r.type == "GIT"

/-- `Insert` for one advisory. -/
def osvInsert (eco : OsvEcosystems) (dbSev : String → Nat) (uris : List (String × String))
    (updater repoName : String) (a : OsvAdvisory) : Option (List Vuln) :=
  if gitOnly a then some [] else
  let sv := osvSeverity dbSev a
  let proto : Vuln := { updater := updater, name := a.id, desc := a.summary, links := " ".intercalate a.refs,
                        sev := sv.1, nsev := sv.2, repo := osvRepoKey uris repoName, issued := a.published }
  osvAffecteds eco proto a.affected

/-- `Parse` over the advisories of one ecosystem dump: withdrawn (in the past)
    and advisories without `affected` are skipped; an `Insert` error aborts.
    Every vulnerability still carries its own affected entry's ecosystem as
    `pkgHint` here; see `shareHints`. -/
def osvParseRaw (eco : OsvEcosystems) (dbSev : String → Nat) (uris : List (String × String))
    (updater repoName : String) : List OsvAdvisory → Option (List Vuln)
  | [] => some []
  | a :: rest =>
    if a.withdrawnPast ∨ a.affected.isEmpty then osvParseRaw eco dbSev uris updater repoName rest
    else match osvInsert eco dbSev uris updater repoName a with
      | none => none
      | some vs => (osvParseRaw eco dbSev uris updater repoName rest).map (vs ++ ·)

/-- `LookupPackage`: the `claircore.Package` records of one `Parse` are shared
    by name (the version part of the key is always empty), and
    `RepositoryHint` is written when the record is created (osv.go as fixed:
    `novel` used to be the map's "found" flag, so the hint was only written on a
    later lookup).  So every vulnerability shows the ecosystem of the FIRST
    returned vulnerability with the same package name. -/
def shareHints (vs : List Vuln) : List Vuln :=
  vs.map fun v =>
    match vs.find? (fun w => w.pkgName == v.pkgName) with
    | some w => { v with pkgHint := w.pkgHint }
    | none => v

def osvParse (eco : OsvEcosystems) (dbSev : String → Nat) (uris : List (String × String))
    (updater repoName : String) (advs : List OsvAdvisory) : Option (List Vuln) :=
  (osvParseRaw eco dbSev uris updater repoName advs).map shareHints

end ClairModel.Feeds
