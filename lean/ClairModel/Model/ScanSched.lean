/-
  `LayerScanner.Scan` (indexer/layerscanner.go) with its errgroup, under an
  explicit schedule: the main loop (layer by layer: context check,
  de-duplication by digest, one closure per configured scanner handed to
  `g.Go`, which blocks while `SetLimit` closures are running) and the closures
  (context check, then `scanLayer`: LayerScanned, the scanner, one Index* call
  per non-nil result slice, SetLayerScanned). Every store / scanner call is one
  atomic step; a step is granted to one participant at a time. The first
  closure that returns an error cancels the group's context: closures not yet
  started return at once, calls of running closures fail with the context's
  error, the main loop stops at the next layer. `g.Wait` returns that first
  error.

  The harness parks the real goroutines at the hook points of
  layerscanner.go (`layerscanner.launch/start/done/layer/wait`) and at the entry
  of every store / scanner call, grants one step at a time, and writes the
  schedule it used into the operation line; this machine replays it.

  The per-closure program is `ScanPar.tstep` (so the interleaving theorem of
  Proofs/ScanPar carries over); the bookkeeping of a call (position, trace
  letter, failed flag, cancellation) is `Indexer.enter`. Core Lean only.
-/
import ClairModel.Model.ScanPar
import ClairModel.Model.IndexerExt

namespace ClairModel.ScanSched
open ClairModel.Indexer

/-- A closure handed to `g.Go`. -/
structure Thread where
  l : Layer
  s : Scanner
  started : Bool := false          -- past its own `select ctx.Done()`
  pc : ScanPar.Pc := .start
  deriving Repr

def Thread.par (t : Thread) : ScanPar.Thread := { l := t.l, s := t.s, pc := t.pc }
def Thread.finished (t : Thread) : Bool := t.pc == .finished

structure SState where
  w : W                               -- store and call environment
  gdead : Bool := false               -- the errgroup's context is cancelled
  gerr : Option ErrClass := none      -- what `g.Wait()` returns
  ths : List Thread := []             -- closures in the order they were handed to `g.Go`
  todo : List Layer                   -- layers the main loop has not visited (it is parked before the head's context check)
  cur : Layer := 0
  pend : List Scanner := []           -- closures of the current layer not handed over yet: main is blocked in `g.Go`
  seen : List Layer := []             -- the `dedupe` map
  bad : Bool := false                 -- the schedule named a participant that cannot move

/-- One entry of a schedule: who moves, and (for a closure's call) how the call ends. -/
inductive Who | main | th (i : Nat)
  deriving DecidableEq, Repr

structure Grant where
  who : Who
  f : Fault := .ok

def active (ss : SState) : Nat := (ss.ths.filter fun t => !t.finished).length

/-- The main loop hands closures to `g.Go` while a slot is free. -/
def advance (limit : Nat) : Nat → SState → SState
  | 0, ss => ss
  | fuel + 1, ss =>
    match ss.pend with
    | [] => ss
    | s :: rest =>
      if active ss < limit then advance limit fuel { ss with pend := rest, ths := ss.ths ++ [{ l := ss.cur, s := s }] }
      else ss

/-- The oracle of one call: the granted fault, or the context's error once the group is cancelled. -/
def oneCall (gdead : Bool) (f : Fault) : Oracle := fun _ => if gdead then .canceled else f

/-- `storing k` with no k-th slice is not a call: go on to `marking`. -/
def settle (sem : Sem) (t : Thread) : Thread :=
  match t.pc with
  | .storing k => if ((toStore sem t.s t.l)[k]?).isNone then { t with pc := .marking } else t
  | _ => t

/-- The call a running closure makes next, granted with fault `f`: the new
    world, the closure afterwards, and the error it returns if it ends with one. -/
def thCall (sem : Sem) (gdead : Bool) (w : W) (t : Thread) (f : Fault) : W × Thread × Option ErrClass :=
  let o := oneCall gdead f
  match t.pc with
  | .start =>
    match w.call o 'L' with
    | (w, v) =>
      match v.err with
      | some c => (w, { t with pc := .finished }, some c)
      | none =>
        if w.st.layerScanned t.l t.s then (w, { t with pc := .finished }, none)
        else if sem.real t.s then
          -- the built-in scanner is not a numbered call
          match doScan sem o t.l t.s w with
          | (w, some c) => (w, { t with pc := .finished }, some c)
          | (w, none) => (w, settle sem { t with pc := .storing 0 }, none)
        else (w, { t with pc := .scanning }, none)
  | .scanning =>
    match doScan sem o t.l t.s w with
    | (w, some c) => (w, { t with pc := .finished }, some c)
    | (w, none) => (w, settle sem { t with pc := .storing 0 }, none)
  | .storing k =>
    match (toStore sem t.s t.l)[k]? with
    | none => (w, { t with pc := .marking }, none)
    | some g =>
      match w.call o 'I' with
      | (w, v) =>
        let w := if v.effect then { w with st := w.st.insertRows t.l t.s g } else w
        match v.err with
        | some c => (w, { t with pc := .finished }, some c)
        | none => (w, settle sem { t with pc := .storing (k + 1) }, none)
  | .marking =>
    match w.call o 'K' with
    | (w, v) =>
      let w := if v.effect then { w with st := w.st.setLayerScanned t.l t.s } else w
      (w, { t with pc := .finished }, v.err)
  | .finished => (w, t, none)

/-- A closure ended with `r`: the errgroup keeps the first error and cancels. -/
def ended (ss : SState) (r : Option ErrClass) : SState :=
  match r with
  | none => ss
  | some c => { ss with gdead := true, gerr := if ss.gerr.isSome then ss.gerr else some c }

def step (sem : Sem) (run : List Scanner) (limit : Nat) (ss : SState) (g : Grant) : SState × Unit :=
  match g.who with
  | .main =>
    match ss.pend, ss.todo with
    | [], l :: rest =>
      if ss.gdead || ss.w.e.dead then ({ ss with todo := [] }, ())                 -- `break Layers`
      else if l ∈ ss.seen then ({ ss with todo := rest }, ())                      -- `continue`
      else (advance limit (run.length + 1) { ss with todo := rest, cur := l, seen := l :: ss.seen, pend := run }, ())
    | _, _ => ({ ss with bad := true }, ())
  | .th i =>
    match ss.ths[i]? with
    | none => ({ ss with bad := true }, ())
    | some t =>
      if t.finished then ({ ss with bad := true }, ()) else
      if !t.started then
        -- the closure's own `select { case <-ctx.Done(): return context.Cause(ctx) ...`
        if ss.gdead || ss.w.e.dead then
          let cause := if ss.gerr.isSome then ss.gerr else some .can
          let ss := { ss with ths := ss.ths.set i { t with started := true, pc := .finished } }
          (advance limit (ss.pend.length + 1) (ended ss cause), ())
        else ({ ss with ths := ss.ths.set i { t with started := true } }, ())
      else
        match thCall sem (ss.gdead || ss.w.e.dead) ss.w t g.f with
        | (w, t', r) =>
          let ss := { ss with w := w, ths := ss.ths.set i t' }
          let ss := if t'.finished then ended ss r else ss
          -- a finished closure frees its slot: main goes on handing over
          (if t'.finished then advance limit (ss.pend.length + 1) ss else ss, ())

def init (w : W) (m : Manifest) : SState := { w := w, todo := m }

def complete (ss : SState) : Bool := ss.todo.isEmpty && ss.pend.isEmpty && ss.ths.all (·.finished)

def runSched (sem : Sem) (run : List Scanner) (limit : Nat) (ss : SState) (sched : List Grant) : SState :=
  sched.foldl (fun s g => (step sem run limit s g).1) ss

/-- `scanLayers` with `LayerScanner.Scan` run under a schedule. A schedule that
    does not fit (names a participant that cannot move, or stops before `Scan`
    can return) is reported as an ordinary error with the store left as it is. -/
def scanLayersSched (sched : List Grant) (limit : Nat) (off : Scanner → Bool) (sem : Sem) (cfg : Cfg) (m : Manifest)
    (w : W) (c : Ctl) : StateRet :=
  let ss := runSched sem (cfg.scanners.filter fun s => !off s) limit (init w m) sched
  if ss.bad || !complete ss then (w, c, .terminal, some .gen)
  else
    match ss.gerr with
    | some cl => (ss.w, c, .terminal, some cl)
    | none => (ss.w, c, .coalesce, none)

def stateFnSched (sched : List Grant) (limit : Nat) (off : Scanner → Bool) (sem : Sem) (o : Oracle) (cfg : Cfg) (m : Manifest) :
    StateFn
  | .scanLayers, w, c => scanLayersSched sched limit off sem cfg m w c
  | s, w, c => stateFn sem o cfg m s w c

/-- `Libindex.Index` with `LayerScanConcurrency = limit`, the scanner goroutines
    run under `sched`. -/
def indexSched (sched : List Grant) (limit : Nat) (off : Scanner → Bool) (sem : Sem) (o : Oracle) (cfg : Cfg) (m : Manifest)
    (st : Store) (dead0 : Bool) : IndexResult :=
  indexWith (stateFnSched sched limit off sem o cfg m) o cfg m st dead0

end ClairModel.ScanSched
