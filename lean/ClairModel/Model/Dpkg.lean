/-
  Model of dpkg/scanner.go `parseStatus` (+ what `loadDatabase`/`Scan` do with
  its result) and of the per-file loop of dpkg/distroless_scanner.go, on top of
  the `ReadMIMEHeader` call sequence of Model/Rfc822.lean.

  `parseStatus` as of the repaired code (fix 13d4ec9f): a header returned
  together with `io.EOF` is processed.  Core Lean only.
-/
import ClairModel.Model.Rfc822

namespace ClairModel.Dpkg
open ClairModel.Bytes ClairModel.Rfc822

/-- the fields of `claircore.Package` the status file determines
    (Kind = binary, Source.Kind = source and PackageDB are constants of the scan) -/
structure Pkg where
  name : Bytes
  version : Bytes
  arch : Bytes
  srcName : Bytes
  srcVersion : Bytes
  deriving DecidableEq, Repr

/-- `packages`: the `bin` map (insertion-ordered association list keyed by
    name) and the `src` map name ↦ version. -/
structure PState where
  bin : List Pkg
  src : List (Bytes × Bytes)
  deriving DecidableEq, Repr

def PState.empty : PState := ⟨[], []⟩

/-! ### byte-string constants (hoisted; all are canonical MIME keys) -/
def kStatus : Bytes := [83, 116, 97, 116, 117, 115]
def kPackage : Bytes := [80, 97, 99, 107, 97, 103, 101]
def kVersion : Bytes := [86, 101, 114, 115, 105, 111, 110]
def kArchitecture : Bytes := [65, 114, 99, 104, 105, 116, 101, 99, 116, 117, 114, 101]
def kSource : Bytes := [83, 111, 117, 114, 99, 101]
def kPortVersion : Bytes := [80, 111, 114, 116, 45, 86, 101, 114, 115, 105, 111, 110]
def kDefaultFeatures : Bytes := [68, 101, 102, 97, 117, 108, 116, 45, 70, 101, 97, 116, 117, 114, 101, 115]
def kFeature : Bytes := [70, 101, 97, 116, 117, 114, 101]
def wInstalled : Bytes := [105, 110, 115, 116, 97, 108, 108, 101, 100]
def wOk : Bytes := [111, 107]

/-- ASCII white space of `strings.Fields` -/
def isSpace (c : Nat) : Bool := c == 32 || (9 ≤ c && c ≤ 13)

/-- `strings.Fields` on ASCII input -/
def fieldsAux : Bytes → Bytes → List Bytes
  | [], cur => if cur.isEmpty then [] else [cur.reverse]
  | c :: cs, cur =>
    if isSpace c then (if cur.isEmpty then fieldsAux cs [] else cur.reverse :: fieldsAux cs [])
    else fieldsAux cs (c :: cur)

def fields (s : Bytes) : List Bytes := fieldsAux s []

/-- the Status test of `parseStatus`: a word `ok` and a word `installed` -/
def statusInstalled (v : Bytes) : Bool :=
  let ws := fields v
  ws.contains wOk && ws.contains wInstalled

def isParen (c : Nat) : Bool := c == 40 || c == 41

def dropParensLeft : Bytes → Bytes
  | [] => []
  | c :: cs => if isParen c then dropParensLeft cs else c :: cs

def dropParensRight : Bytes → Bytes
  | [] => []
  | c :: cs =>
    match dropParensRight cs with
    | [] => if isParen c then [] else [c]
    | r => c :: r

/-- `strings.Trim(ver, "()")` -/
def trimParens (s : Bytes) : Bytes := dropParensRight (dropParensLeft s)

/-- the `Source` field: `name (version)` or `name` -/
def splitSource (src v : Bytes) : Bytes × Bytes :=
  match cut 32 src with
  | some (n, r) => (n, trimParens r)
  | none => (src, v)

def lookupSrc : List (Bytes × Bytes) → Bytes → Option Bytes
  | [], _ => none
  | (k, v) :: r, n => if k = n then some v else lookupSrc r n

/-- `found.bin[name] = p` -/
def binInsert : List Pkg → Pkg → List Pkg
  | [], p => [p]
  | q :: r, p => if q.name = p.name then p :: r else q :: binInsert r p

inductive Proc where
  | ok (ps : PState)
  | fail      -- "dpkg: invalid package: missing required fields"
  | notDb     -- errNotDpkgDB
  deriving DecidableEq, Repr

/-- a required field is missing: a vcpkg file is skipped, anything else is an error -/
def missingResult (h : Hdr) : Proc :=
  if h.has kPortVersion || h.has kDefaultFeatures || h.has kFeature then .notDb else .fail

/-- the package of a valid installed stanza is added; `src` is the `Source` field -/
def addPkg (ps : PState) (name v arch src : Bytes) : PState :=
  if src.isEmpty then ⟨binInsert ps.bin ⟨name, v, arch, name, v⟩, ps.src⟩
  else
    let s := splitSource src v
    match lookupSrc ps.src s.1 with
    | some sv' => ⟨binInsert ps.bin ⟨name, v, arch, s.1, sv'⟩, ps.src⟩
    | none => ⟨binInsert ps.bin ⟨name, v, arch, s.1, s.2⟩, ps.src ++ [(s.1, s.2)]⟩

/-- body of the `for` loop of `parseStatus` for one header -/
def processHdr (ps : PState) (h : Hdr) : Proc :=
  if !statusInstalled (h.get kStatus) then .ok ps
  else if (h.get kPackage).isEmpty || (h.get kVersion).isEmpty || (h.get kArchitecture).isEmpty then missingResult h
  else .ok (addPkg ps (h.get kPackage) (h.get kVersion) (h.get kArchitecture) (h.get kSource))

/-- `parseStatus` over the `ReadMIMEHeader` call results: a non-empty header
    with a nil error or `io.EOF` is processed; an empty header with a nil
    error, or a `ProtocolError`, restarts; `io.EOF` ends; any other error (here:
    the "message too large" of the leading-space path) is returned, as of /repo
    dd58a366 + 02113a58. -/
def parseEvents (ps : PState) : List Ev → Proc
  | [] => .ok ps
  | e :: es =>
    match e.err with
    | .ok =>
      if e.hdr.isEmpty then parseEvents ps es
      else match processHdr ps e.hdr with
        | .ok ps' => parseEvents ps' es
        | r => r
    | .eof =>
      if e.hdr.isEmpty then .ok ps else processHdr ps e.hdr
    | .proto => parseEvents ps es
    | .tooLarge => .fail

def parseStatus (file : Bytes) : Proc := parseEvents PState.empty (calls file)

/-- What `Scanner.Scan` reports for one database: `none` = Scan fails;
    a database that is "not a dpkg database" is skipped. -/
def scanDb (file : Bytes) : Option (List Pkg) :=
  match parseStatus file with
  | .ok ps => some ps.bin
  | .notDb => some []
  | .fail => none

/-! ### distroless: one file of `status.d` -/

/-- `DistrolessScanner` (as of fix 3d16edb5): every non-empty header (nil error
    or EOF) is a package, no Status filter; a non-empty `Source` is split like
    in `parseStatus` (`name (version)`, else the binary's version), each package
    has its own source object. The loop stops at EOF and at any
    non-ProtocolError condition (an empty header with a nil error,
    `errMessageTooLarge`). A package without source is shown with empty source fields. -/
def distrolessPkg (h : Hdr) : Pkg :=
  let src := h.get kSource
  if src.isEmpty then ⟨h.get kPackage, h.get kVersion, h.get kArchitecture, [], []⟩
  else
    let s := splitSource src (h.get kVersion)
    ⟨h.get kPackage, h.get kVersion, h.get kArchitecture, s.1, s.2⟩

def distrolessEvents : List Ev → List Pkg
  | [] => []
  | e :: es =>
    match e.err with
    | .ok => if e.hdr.isEmpty then [] else distrolessPkg e.hdr :: distrolessEvents es
    | .eof => if e.hdr.isEmpty then [] else [distrolessPkg e.hdr]
    | .proto => distrolessEvents es
    | .tooLarge => []

def distrolessFile (file : Bytes) : List Pkg := distrolessEvents (calls file)

end ClairModel.Dpkg
