/-
  C05 — the channel protocol of `EnrichedMatch`'s matching phase
  (internal/matcher/match.go): one sender ("pipeline watcher"), `lim` workers,
  one collector; unbuffered `mCh`, `vCh` buffered with capacity `lim`; the
  errgroup context `mctx` (cancelled by the first worker error, by the
  caller's Context, and when `mg.Wait` returns).  Core Lean only.

  One transition per channel operation / return:

    handoff w     `mCh <- m` in the sender's select meets worker w's `range mCh`
    senderBreak   the sender's select takes `<-mctx.Done()` : `break Send`
    closeM        the sender has left the loop: `close(mCh)`
    check w b     worker w's non-blocking `select { case <-mctx.Done(): return mctx.Err() default: }`
                  (b = it saw Done)
    finish w ok   `Controller.Match` returned; ok → the worker is at `vCh <- vs`,
                  ¬ok → it returns the error and the errgroup cancels `mctx`
    sendV w       `vCh <- vs`
    workerExit w  `range mCh` ends because `mCh` is closed: `return nil`
    senderWait    `mg.Wait()` returns (all workers returned): `mctx` is cancelled,
                  the sender's return value is fixed: the first worker error,
                  else `ctx.Err()` as it is now
    closeV        the deferred `close(vCh)`; the sender returns
    collect       the collector receives one result from `vCh`
    collectorEnd  `range vCh` ends because `vCh` is closed and drained
    cancelParent  the caller cancels its Context (any time)

  Sending on or closing a closed channel is recorded as a panic, so "no send
  on closed" and "closed once" are the theorem that `panicked` stays false.
-/
namespace ClairModel.MatchProto

inductive WPhase where
  | idle
  | got (m : Nat)
  | running (m : Nat)
  | sending (m : Nat)
  | retNil
  | retErr
deriving DecidableEq, Repr, Inhabited

inductive SPhase where
  | sending | waiting | closing | done
deriving DecidableEq, Repr, Inhabited

structure State where
  lim : Nat
  /-- matchers the sender has not handed out yet -/
  toSend : List Nat
  sender : SPhase
  /-- the sender took `break Send` -/
  broke : Bool
  workers : List WPhase
  /-- content of `vCh` -/
  buf : List Nat
  mCloses : Nat
  vCloses : Nat
  collectorDone : Bool
  /-- results the collector has folded into the report, in order -/
  collected : List Nat
  /-- `mctx.Done()` is closed -/
  cancelled : Bool
  parentCancelled : Bool
  /-- some worker returned an error -/
  failed : Bool
  /-- what the sender (hence `vg.Wait`, hence `EnrichedMatch`) returned: an error? -/
  senderErr : Bool
  panicked : Bool
deriving Repr, Inhabited

def init (lim : Nat) (ms : List Nat) : State :=
  { lim := lim, toSend := ms, sender := .sending, broke := false,
    workers := List.replicate lim .idle, buf := [], mCloses := 0, vCloses := 0,
    collectorDone := false, collected := [], cancelled := false, parentCancelled := false,
    failed := false, senderErr := false, panicked := false }

inductive Op where
  | handoff (w : Nat)
  | senderBreak
  | closeM
  | check (w : Nat) (seesCancel : Bool)
  | finish (w : Nat) (ok : Bool)
  | sendV (w : Nat)
  | workerExit (w : Nat)
  | senderWait
  | closeV
  | collect
  | collectorEnd
  | cancelParent
deriving DecidableEq, Repr

inductive Out where
  | ok
  | disabled     -- the operation cannot happen in this state (state unchanged)
  | panic        -- send on / close of a closed channel
deriving DecidableEq, Repr

def returned : WPhase → Bool
  | .retNil => true
  | .retErr => true
  | _ => false

def allReturned (ws : List WPhase) : Bool := ws.all returned

def step (s : State) : Op → State × Out
  | .handoff w =>
    match s.sender, s.broke, s.toSend, s.workers[w]? with
    | .sending, false, m :: rest, some .idle =>
      ({ s with toSend := rest, workers := s.workers.set w (.got m) }, .ok)
    | _, _, _, _ => (s, .disabled)
  | .senderBreak =>
    match s.sender, s.broke, s.toSend, s.cancelled with
    | .sending, false, _ :: _, true => ({ s with broke := true }, .ok)
    | _, _, _, _ => (s, .disabled)
  | .closeM =>
    if s.sender = .sending ∧ (s.toSend = [] ∨ s.broke = true) then
      if s.mCloses = 0 then ({ s with sender := .waiting, mCloses := 1 }, .ok)
      else ({ s with sender := .waiting, mCloses := s.mCloses + 1, panicked := true }, .panic)
    else (s, .disabled)
  | .check w sees =>
    match s.workers[w]? with
    | some (.got m) =>
      if sees then
        if s.cancelled then ({ s with workers := s.workers.set w .retErr, failed := true }, .ok)
        else (s, .disabled)
      else ({ s with workers := s.workers.set w (.running m) }, .ok)
    | _ => (s, .disabled)
  | .finish w ok =>
    match s.workers[w]? with
    | some (.running m) =>
      if ok then ({ s with workers := s.workers.set w (.sending m) }, .ok)
      else ({ s with workers := s.workers.set w .retErr, failed := true, cancelled := true }, .ok)
    | _ => (s, .disabled)
  | .sendV w =>
    match s.workers[w]? with
    | some (.sending m) =>
      if s.vCloses ≠ 0 then ({ s with panicked := true }, .panic)
      else if s.buf.length < s.lim then
        ({ s with workers := s.workers.set w .idle, buf := s.buf ++ [m] }, .ok)
      else (s, .disabled)
    | _ => (s, .disabled)
  | .workerExit w =>
    match s.workers[w]? with
    | some .idle =>
      if s.mCloses ≠ 0 then ({ s with workers := s.workers.set w .retNil }, .ok) else (s, .disabled)
    | _ => (s, .disabled)
  | .senderWait =>
    if s.sender = .waiting ∧ allReturned s.workers = true then
      ({ s with sender := .closing, cancelled := true,
                senderErr := s.failed || s.parentCancelled }, .ok)
    else (s, .disabled)
  | .closeV =>
    if s.sender = .closing then
      if s.vCloses = 0 then ({ s with sender := .done, vCloses := 1 }, .ok)
      else ({ s with sender := .done, vCloses := s.vCloses + 1, panicked := true }, .panic)
    else (s, .disabled)
  | .collect =>
    match s.collectorDone, s.buf with
    | false, m :: rest => ({ s with buf := rest, collected := s.collected ++ [m] }, .ok)
    | _, _ => (s, .disabled)
  | .collectorEnd =>
    if s.collectorDone = false ∧ s.buf = [] ∧ s.vCloses ≠ 0 then ({ s with collectorDone := true }, .ok)
    else (s, .disabled)
  | .cancelParent =>
    if s.parentCancelled then (s, .disabled)
    else ({ s with parentCancelled := true, cancelled := true }, .ok)

/-- Every goroutine of the phase has returned. -/
def final (s : State) : Bool :=
  s.sender == .done && s.collectorDone && allReturned s.workers

/-- The operation can happen (it is not refused). -/
def enabled (s : State) (op : Op) : Bool := (step s op).2 != .disabled

/-- The honest variant of `check`: a worker that proceeds has not seen `Done`
    closed, i.e. `seesCancel` is the current value of `cancelled`.  (The
    machine also accepts a worker proceeding while `cancelled` is set: the
    errgroup cancels `mctx` a moment after the failing worker's function
    returned, and the model's flag is set at the return.) -/
def honest (s : State) : Op → Bool
  | .check _ sees => sees == s.cancelled
  | .cancelParent => false
  | _ => true

/-- Termination measure: every enabled transition decreases it. -/
def wWeight : WPhase → Nat
  | .idle => 1
  | .got _ => 5
  | .running _ => 4
  | .sending _ => 3
  | .retNil => 0
  | .retErr => 0

def sumW : List WPhase → Nat
  | [] => 0
  | w :: ws => wWeight w + sumW ws

def sWeight : SPhase → Nat
  | .sending => 3
  | .waiting => 2
  | .closing => 1
  | .done => 0

def measure (s : State) : Nat :=
  6 * s.toSend.length + sumW s.workers + s.buf.length + sWeight s.sender
    + (if s.broke then 0 else 1) + (if s.collectorDone then 0 else 1)
    + (if s.parentCancelled then 0 else 1)

/-- Matchers held by workers. -/
def heldOf : WPhase → List Nat
  | .got m => [m]
  | .running m => [m]
  | .sending m => [m]
  | _ => []

def held : List WPhase → List Nat
  | [] => []
  | w :: ws => heldOf w ++ held ws

end ClairModel.MatchProto
