/-
  Model of the zip-of-zips offline export and import
    updater/offline.go      (Updater.Fetch, Updater.Parse, the export header)
    updater/offline_v1.go   (exportV1, addUpdater, importV1)
    updater/updater.go      (Updater.updaters: the list both halves iterate)

  What is abstract:
    * a file of the outer zip is (updater name, part) instead of the path
      `name/part`: `updaters` refuses names containing '/', so the path
      determines both (the correspondence run compares real paths);
    * an updater's fetched data (its inner zip) is the pair of record-token
      lists its `ParseVulnerability` / `ParseEnrichment` read back from it;
    * a uuid is a natural number (the k-th `uuid.New()` of `addUpdater`);
    * the order in which the workers' results reach the collector goroutine is
      a parameter (`order`);
    * an updater's `Fetch` reports `ErrUnchanged` exactly when it is handed its
      own current fingerprint (the contract of driver.Updater.Fetch; the fake
      updaters of the harness behave so).
  Core Lean only.
-/
namespace ClairModel.OfflineV1

/-- One updater a factory hands out. -/
structure Upd where
  name : String
  fp : String                 -- the fingerprint its Fetch returns
  fetchErr : Bool := false    -- its Fetch returns an error (other than ErrUnchanged)
  hasV : Bool := true         -- implements VulnerabilityParser
  hasE : Bool := false        -- implements EnrichmentParser
  vulns : List Nat := []      -- what ParseVulnerability yields from what Fetch wrote
  enrich : List Nat := []     -- what ParseEnrichment yields
deriving DecidableEq, Repr

/-! ### `Updater.updaters` -/

def hasSlash (s : String) : Bool := s.toList.contains '/'

/-- Keep the first updater of every name. -/
def dedup : List Upd → List String → List Upd
  | [], _ => []
  | u :: us, seen => if seen.contains u.name then dedup us seen else u :: dedup us (u.name :: seen)

/-- `updaters`: names with '/' are refused, a repeated name is dropped, the
    result is sorted by name. -/
def updaters (raw : List Upd) : List Upd :=
  (dedup (raw.filter fun u => !hasSlash u.name) []).mergeSort (fun a b => decide (a.name ≤ b.name))

/-! ### The outer zip -/

inductive Part where
  | dir                                   -- `name/`
  | fingerprint (fp : String)             -- `name/fingerprint`
  | ref (r : Nat)                         -- `name/ref`
  | data (vulns enrich : List Nat)        -- `name/data` (the updater's own zip, zstd)
deriving DecidableEq, Repr

structure ZFile where
  name : String
  part : Part
deriving DecidableEq, Repr

/-- The export: `config.json` (not a `ZFile`; always present) followed by these. -/
abbrev Zip := List ZFile

def fpOf (z : Zip) (name : String) : Option String :=
  z.findSome? fun f => if f.name == name then (match f.part with | .fingerprint fp => some fp | _ => none) else none

def refOf (z : Zip) (name : String) : Option Nat :=
  z.findSome? fun f => if f.name == name then (match f.part with | .ref r => some r | _ => none) else none

def dataOf (z : Zip) (name : String) : Option (List Nat × List Nat) :=
  z.findSome? fun f => if f.name == name then (match f.part with | .data v e => some (v, e) | _ => none) else none

def hasDir (z : Zip) (name : String) : Bool :=
  z.any fun f => f.name == name && f.part == .dir

/-! ### Export -/

/-- The fingerprints of a previous export, by updater name (`pfps`); "" if the
    previous export has no such updater. -/
def prevFingerprints (prev : Option Zip) (name : String) : String :=
  match prev with
  | none => ""
  | some z => (fpOf z name).getD ""

/-- `fetchOne` succeeds: the updater's Fetch neither fails nor reports
    `ErrUnchanged` (it is handed the previous fingerprint `pf name`). -/
def exported (pf : String → String) (u : Upd) : Bool :=
  !u.fetchErr && !(pf u.name != "" && pf u.name == u.fp)

/-- `addUpdater`: directory entry, fingerprint, a fresh ref, the data. -/
def addUpdater (u : Upd) (ref : Nat) : Zip :=
  [⟨u.name, .dir⟩, ⟨u.name, .fingerprint u.fp⟩, ⟨u.name, .ref ref⟩, ⟨u.name, .data u.vulns u.enrich⟩]

/-- `exportV1` when the workers' results arrive in the order `order` (a
    permutation of the exported updaters) and `addUpdater` draws `refs`. -/
def writeAll : List Upd → List Nat → Zip
  | [], _ => []
  | _ :: _, [] => []            -- not reached: uuid.New() always returns
  | u :: us, r :: rs => addUpdater u r ++ writeAll us rs

/-- Put the exported updaters in the order given by names; `none` if `order`
    is not a permutation of their names. -/
def arrangeU (us : List Upd) : List String → Option (List Upd)
  | [] => if us.isEmpty then some [] else none
  | n :: ns =>
    match us.find? (·.name == n) with
    | none => none
    | some u =>
      match arrangeU (us.filter fun x => !(x.name == n)) ns with
      | none => none
      | some r => some (u :: r)

def exportV1 (prev : Option Zip) (raw : List Upd) (order : List String) (refs : List Nat) : Option Zip :=
  match arrangeU ((updaters raw).filter (exported (prevFingerprints prev))) order with
  | none => none
  | some us => some (writeAll us refs)

/-! ### Import -/

inductive Call where
  | vulns (ref : Nat) (name fp : String) (vs : List Nat)
  | enrich (ref : Nat) (name fp : String) (es : List Nat)
deriving DecidableEq, Repr

/-- One iteration of `importV1`'s loop. `none`: `Parse` returns an error. -/
def importOne (z : Zip) (u : Upd) : Option (List Call) :=
  if !hasDir z u.name then some []            -- "no import, skipping"
  else
    match dataOf z u.name with
    | none => none
    | some (vs, es) =>
      if !u.hasV && !u.hasE then none         -- parseOne: "did nothing"
      else
        match fpOf z u.name, refOf z u.name with
        | some fp, some r =>
          some ((if u.hasV && !vs.isEmpty then [Call.vulns r u.name fp vs] else []) ++
                (if u.hasE && !es.isEmpty then [Call.enrich r u.name fp es] else []))
        | _, _ => none

/-- The loop: the store calls made, and whether `Parse` returned nil (it returns
    at the first error; the calls made before it stay made). -/
def importList (z : Zip) : List Upd → List Call × Bool
  | [] => ([], true)
  | u :: us =>
    match importOne z u with
    | none => ([], false)
    | some cs => let (r, ok) := importList z us; (cs ++ r, ok)

/-- `importV1` with the importing side's factories handing out `raw`. -/
def importV1 (raw : List Upd) (z : Zip) : List Call × Bool := importList z (updaters raw)

/-- `Updater.Parse`'s dispatch on the export header (the zip comment). -/
def parseAccepts (header : String) : Bool := header == "1"

end ClairModel.OfflineV1
