/-
  C05 — the channel protocol of `EnrichedMatch`'s enrichment phase
  (internal/matcher/match.go): one sender, `lim` workers, one collector;
  unbuffered `eCh`, `rCh` buffered with capacity `lim`; the workers share an
  atomic counter `ct` (initially `lim`): each worker decrements it when it
  returns and the one that brings it to zero closes `rCh`.  `ectx` is the
  errgroup context; before `eg.Wait` returns it is cancelled only by the
  caller's Context (a worker returns an error only after seeing it done).
  Core Lean only.

    handoff w      `eCh <- e` in the sender's select meets worker w's `range eCh`
    senderBreak    the sender's select takes `<-ectx.Done()` : `break Send`
    closeE         `close(eCh)`; the sender returns nil
    enrich w res   `Enrich` returned: res = false → error or no message (`continue`),
                   res = true → the worker is at its `select { rCh <- &res … }`
    sendR w        the select sends on `rCh`
    workerCancel w the select takes `<-ectx.Done()`: the worker returns the error
    workerExit w   `range eCh` ends because `eCh` is closed: `return nil`
                   (both returns run the deferred decrement; at zero `close(rCh)`)
    collect        the collector receives one entry from `rCh`
    collectorEnd   `range rCh` ends because `rCh` is closed and drained
    cancelParent   the caller cancels its Context
-/
namespace ClairModel.EnrichProto

inductive WPhase where
  | idle
  | running (e : Nat)
  | sending (e : Nat)
  | retNil
  | retErr
deriving DecidableEq, Repr, Inhabited

structure State where
  lim : Nat
  toSend : List Nat
  senderDone : Bool
  broke : Bool
  workers : List WPhase
  buf : List Nat
  eCloses : Nat
  rCloses : Nat
  /-- the atomic counter -/
  ct : Nat
  collectorDone : Bool
  collected : List Nat
  /-- enrichers whose result was an error or empty (skipped by design) -/
  skipped : List Nat
  cancelled : Bool
  /-- some worker returned `ectx.Err()`: `eg.Wait` (hence EnrichedMatch) returns an error -/
  workerErr : Bool
  panicked : Bool
deriving Repr, Inhabited

def init (lim : Nat) (es : List Nat) : State :=
  { lim := lim, toSend := es, senderDone := false, broke := false,
    workers := List.replicate lim .idle, buf := [], eCloses := 0, rCloses := 0, ct := lim,
    collectorDone := false, collected := [], skipped := [], cancelled := false,
    workerErr := false, panicked := false }

inductive Op where
  | handoff (w : Nat)
  | senderBreak
  | closeE
  | enrich (w : Nat) (res : Bool)
  | sendR (w : Nat)
  | workerCancel (w : Nat)
  | workerExit (w : Nat)
  | collect
  | collectorEnd
  | cancelParent
deriving DecidableEq, Repr

inductive Out where
  | ok
  | disabled
  | panic
deriving DecidableEq, Repr

def returned : WPhase → Bool
  | .retNil => true
  | .retErr => true
  | _ => false

def allReturned (ws : List WPhase) : Bool := ws.all returned

/-- A worker returns: the deferred function decrements the counter and closes
    `rCh` when it reaches zero. -/
def workerReturns (s : State) (w : Nat) (p : WPhase) (err : Bool) : State × Out :=
  let s' := { s with workers := s.workers.set w p, ct := s.ct - 1,
                     workerErr := s.workerErr || err }
  if s.ct - 1 = 0 then
    if s.rCloses = 0 then ({ s' with rCloses := 1 }, .ok)
    else ({ s' with rCloses := s.rCloses + 1, panicked := true }, .panic)
  else (s', .ok)

def step (s : State) : Op → State × Out
  | .handoff w =>
    match s.senderDone, s.broke, s.toSend, s.workers[w]? with
    | false, false, e :: rest, some .idle =>
      ({ s with toSend := rest, workers := s.workers.set w (.running e) }, .ok)
    | _, _, _, _ => (s, .disabled)
  | .senderBreak =>
    match s.senderDone, s.broke, s.toSend, s.cancelled with
    | false, false, _ :: _, true => ({ s with broke := true }, .ok)
    | _, _, _, _ => (s, .disabled)
  | .closeE =>
    if s.senderDone = false ∧ (s.toSend = [] ∨ s.broke = true) then
      if s.eCloses = 0 then ({ s with senderDone := true, eCloses := 1 }, .ok)
      else ({ s with senderDone := true, eCloses := s.eCloses + 1, panicked := true }, .panic)
    else (s, .disabled)
  | .enrich w res =>
    match s.workers[w]? with
    | some (.running e) =>
      if res then ({ s with workers := s.workers.set w (.sending e) }, .ok)
      else ({ s with workers := s.workers.set w .idle, skipped := s.skipped ++ [e] }, .ok)
    | _ => (s, .disabled)
  | .sendR w =>
    match s.workers[w]? with
    | some (.sending e) =>
      if s.rCloses ≠ 0 then ({ s with panicked := true }, .panic)
      else if s.buf.length < s.lim then
        ({ s with workers := s.workers.set w .idle, buf := s.buf ++ [e] }, .ok)
      else (s, .disabled)
    | _ => (s, .disabled)
  | .workerCancel w =>
    match s.workers[w]? with
    | some (.sending _) => if s.cancelled then workerReturns s w .retErr true else (s, .disabled)
    | _ => (s, .disabled)
  | .workerExit w =>
    match s.workers[w]? with
    | some .idle => if s.eCloses ≠ 0 then workerReturns s w .retNil false else (s, .disabled)
    | _ => (s, .disabled)
  | .collect =>
    match s.collectorDone, s.buf with
    | false, e :: rest => ({ s with buf := rest, collected := s.collected ++ [e] }, .ok)
    | _, _ => (s, .disabled)
  | .collectorEnd =>
    if s.collectorDone = false ∧ s.buf = [] ∧ s.rCloses ≠ 0 then ({ s with collectorDone := true }, .ok)
    else (s, .disabled)
  | .cancelParent =>
    if s.cancelled then (s, .disabled) else ({ s with cancelled := true }, .ok)

def final (s : State) : Bool := s.senderDone && s.collectorDone && allReturned s.workers

/-- Transitions of the code itself (not the caller's cancellation). -/
def internal : Op → Bool
  | .cancelParent => false
  | _ => true

def wWeight : WPhase → Nat
  | .idle => 1
  | .running _ => 4
  | .sending _ => 3
  | .retNil => 0
  | .retErr => 0

def sumW : List WPhase → Nat
  | [] => 0
  | w :: ws => wWeight w + sumW ws

def measure (s : State) : Nat :=
  5 * s.toSend.length + sumW s.workers + s.buf.length
    + (if s.senderDone then 0 else 1) + (if s.broke then 0 else 1)
    + (if s.collectorDone then 0 else 1) + (if s.cancelled then 0 else 1)

def heldOf : WPhase → List Nat
  | .running e => [e]
  | .sending e => [e]
  | _ => []

def held : List WPhase → List Nat
  | [] => []
  | w :: ws => heldOf w ++ held ws

/-- Workers that have not returned. -/
def notRet : List WPhase → Nat
  | [] => 0
  | w :: ws => (if returned w then 0 else 1) + notRet ws

end ClairModel.EnrichProto
