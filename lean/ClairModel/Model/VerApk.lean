/-
  Model of github.com/knqyf263/go-apk-version as pinned by /repo's go.mod
  (v0.0.0-20200609155635-041fdbb8563f, version.go), a port of apk-tools'
  version.c: the tokenizer (`nextToken`, `getToken`) over a `bufio.Reader`,
  `Valid`, `compare`.

  The reader is modelled by the unread text and the rune a following
  `UnreadRune` would push back (`none` when `UnreadRune` fails: after a
  `ReadRune` at end of input, a `Peek`, a `Discard`, or another `UnreadRune`).
  Go `int` arithmetic on token values wraps at 64 bits.
  Strings are ASCII, as `List Char`.  Core Lean only.
-/
import ClairModel.Lib.Order
import ClairModel.Model.VerCommon

namespace ClairModel.VerApk
open ClairModel.Order ClairModel.VerCommon

/-- Token types with their Go values (`tokenInvalid = -1 … tokenEnd = 6`). -/
inductive Tok
  | invalid | digitOrZero | digit | letter | suffix | suffixNo | revisionNo | tEnd
  deriving DecidableEq, Repr

def Tok.val : Tok → Int
  | .invalid => -1
  | .digitOrZero => 0
  | .digit => 1
  | .letter => 2
  | .suffix => 3
  | .suffixNo => 4
  | .revisionNo => 5
  | .tEnd => 6

structure Reader where
  rest : Str
  last : Option Char := none      -- what `UnreadRune` would restore
  deriving Repr

/-- `ReadRune`: the rune (0 at end of input) and whether one was read. -/
def Reader.read (r : Reader) : Char × Bool × Reader :=
  match r.rest with
  | [] => (Char.ofNat 0, false, { rest := [], last := none })
  | c :: cs => (c, true, { rest := cs, last := some c })

/-- `UnreadRune` (its error is ignored by the library). -/
def Reader.unread (r : Reader) : Reader :=
  match r.last with
  | some c => { rest := c :: r.rest, last := none }
  | none => r

/-- `Peek(n)` as far as the library uses it: the bytes available, up to `n`. -/
def Reader.peek (r : Reader) (n : Nat) : Str × Reader := (r.rest.take n, { r with last := none })

def Reader.discard (r : Reader) (n : Nat) : Reader := { rest := r.rest.drop n, last := none }

/-- 64-bit two's complement wrap-around of Go's `int`. -/
def wrap64 (x : Int) : Int :=
  let m : Int := 18446744073709551616
  let y := x % m
  if y ≥ 9223372036854775808 then y - m else y

/-- `nextToken` -/
def nextToken (rd : Reader) (tokenType : Tok) : Tok × Reader :=
  let (r, got, rd) := rd.read
  let n0 : Tok := if got then .invalid else .tEnd
  let (n, rd) : Tok × Reader :=
    if (tokenType = .digit || tokenType = .digitOrZero) && isLower r then (.letter, rd)
    else if tokenType = .letter && isDigit r then (.digit, rd)
    else if tokenType = .suffix && isDigit r then (.suffixNo, rd)
    else if r = '.' then (.digitOrZero, rd)
    else if r = '_' then (.suffix, rd)
    else if r = '-' then
      let (_, got2, rd2) := rd.read
      if got2 then (.revisionNo, rd2) else (.invalid, rd2)
    else (n0, rd)
  let rd := if n = .tEnd || n = .letter || n = .digit || n = .suffixNo then rd.unread else rd
  if n.val < tokenType.val then
    if (n = .digitOrZero && tokenType = .digit) || (n = .suffix && tokenType = .suffixNo) ||
       (n = .digit && tokenType = .letter) then (n, rd)
    else (.invalid, rd)
  else (n, rd)

def preSuffixes : List Str := ["alpha".toList, "beta".toList, "pre".toList, "rc".toList]
def postSuffixes : List Str := ["cvs".toList, "svn".toList, "git".toList, "hg".toList, "p".toList]

/-- Index of the first suffix that the reader's text starts with. -/
def matchSuffix (rd : Reader) : List Str → Nat → Option (Nat × Nat)
  | [], _ => none
  | s :: ss, i => if (rd.peek s.length).1 = s then some (i, s.length) else matchSuffix rd ss (i + 1)

/-- Leading zeros of a `tokenDigitOrZero`: one `value -= 1` per `'0'`. -/
def zeros : Str → Int → Int × Str
  | '0' :: cs, v => zeros cs (v - 1)
  | cs, v => (v, cs)

/-- The digit loop of `getToken`: `value = value*10 + digit` while digits follow. -/
def digits : Str → Int → Int × Str
  | c :: cs, v => if isDigit c then digits cs (wrap64 (v * 10 + digitVal c)) else (v, c :: cs)
  | [], v => (v, [])

/-- The `switch tokenType` of `getToken`: value, the forced next token type
    (`nt`, `INVALID` = none) and the reader after the token; `none` = the
    `return -1, tokenInvalid` of an unknown suffix / unexpected type. -/
def tokenBody (rd : Reader) (tokenType : Tok) : Option (Int × Tok × Reader) :=
  match tokenType with
  | .digitOrZero =>
    match rd.rest with
    | c :: cs =>
      if c = '0' then
        -- "Leading zero digits get a special treatment"
        some ((zeros cs (-1)).1, .digit, { rest := (zeros cs (-1)).2, last := none })
      else some ((digits rd.rest 0).1, .invalid, { rest := (digits rd.rest 0).2, last := none })
    | [] => some ((digits rd.rest 0).1, .invalid, { rest := (digits rd.rest 0).2, last := none })
  | .digit | .suffixNo | .revisionNo =>
    some ((digits rd.rest 0).1, .invalid, { rest := (digits rd.rest 0).2, last := none })
  | .letter => some ((rd.read.1.toNat : Int), .invalid, rd.read.2.2)
  | .suffix =>
    match matchSuffix rd preSuffixes 0 with
    | some (i, n) => some ((i : Int) - 4, .invalid, rd.discard n)
    | none =>
      match matchSuffix rd postSuffixes 0 with
      | some (i, n) => some ((i : Int), .invalid, rd.discard n)
      | none => none
  | _ => none

/-- What follows the switch: `Peek(1)` at end of input gives `END`, a forced
    type stands, otherwise `nextToken` decides. -/
def finish (value : Int) (nt : Tok) (rd : Reader) (tokenType : Tok) : Int × Tok × Reader :=
  let rd : Reader := { rd with last := none }                   -- `Peek(1)`
  if rd.rest = [] then (value, .tEnd, rd)                        -- … gives io.EOF
  else if nt ≠ .invalid then (value, nt, rd)
  else (value, (nextToken rd tokenType).1, (nextToken rd tokenType).2)

/-- `getToken`: value of the token of type `tokenType` at the reader, the
    type of the token after it, and the reader there. -/
def getToken (rd : Reader) (tokenType : Tok) : Int × Tok × Reader :=
  match tokenBody rd tokenType with
  | none => (-1, .invalid, rd)
  | some (value, nt, rd') => finish value nt rd' tokenType

/-- The loop of `Valid`. -/
def validLoop : Nat → Reader → Tok → Bool
  | 0, _, _ => false
  | fuel + 1, rd, t =>
    if t = .tEnd then true
    else if t = .invalid then false
    else
      let (_, t', rd') := getToken rd t
      validLoop fuel rd' t'

/-- `Valid` -/
def valid (ver : Str) : Bool := validLoop (2 * ver.length + 4) { rest := ver } .digit

/-- What the loop of `compare` leaves behind. -/
structure LoopOut where
  r1 : Reader
  r2 : Reader
  at' : Tok
  bt : Tok
  av : Int
  bv : Int

/-- A tokenizer that has run out of fuel reports `INVALID` (each side may
    take `2·len + 4` tokens; more than two tokens per character never occur). -/
def eff (fuel : Nat) (t : Tok) : Tok := if fuel = 0 then .invalid else t

/-- The lock-step loop of `compare`:
    `for at == bt && at != tokenEnd && at != tokenInvalid && av == bv { … }`. -/
def cmpLoop : Nat → Nat → Reader → Reader → Tok → Tok → Int → Int → LoopOut
  | fa + 1, fb + 1, r1, r2, at', bt, av, bv =>
    if at' = bt ∧ at' ≠ .tEnd ∧ at' ≠ .invalid ∧ av = bv then
      let (av', at'', r1') := getToken r1 at'
      let (bv', bt', r2') := getToken r2 bt
      cmpLoop fa fb r1' r2' at'' bt' av' bv'
    else ⟨r1, r2, at', bt, av, bv⟩
  | fa, fb, r1, r2, at', bt, av, bv => ⟨r1, r2, eff fa at', eff fb bt, av, bv⟩

/-- The decisions after the loop. -/
def decide' (o : LoopOut) : Ordering :=
  -- "value of this token differs?"
  if o.av < o.bv then .lt
  else if o.av > o.bv then .gt
  -- "both have TOKEN_END or TOKEN_INVALID next?"
  else if o.at' = o.bt then .eq
  else
    -- "the non-terminating version is greater unless it's a suffix indicating pre-release"
    if o.at' = .suffix ∧ (getToken o.r1 o.at').1 < 0 then .lt
    else if o.bt = .suffix ∧ (getToken o.r2 o.bt).1 < 0 then .gt
    else if o.at'.val > o.bt.val then .lt
    else if o.at'.val < o.bt.val then .gt
    else .eq

/-- `compare`, transcribed statement by statement (the lock-step loop, then
    the decisions after it). -/
def compareLoop (ver1 ver2 : Str) : Ordering :=
  decide' (cmpLoop (2 * ver1.length + 4) (2 * ver2.length + 4) { rest := ver1 } { rest := ver2 } .digit .digit 0 0)

/-! ### The same comparison as a scan over two token streams

Each `getToken` call reads only its own reader and its own previous token
type, so the two sides of the lock-step loop are independent streams
`(type₀ = DIGIT, value₀), (type₁, value₁), …` ending with `END` or `INVALID`.
The loop walks both while the types agree and the values agree; what follows
the loop decides on the first difference: a different value, else a different
type (a pre-release suffix, whose value is negative, sorts lowest; otherwise
the token type with the smaller number wins).  `Proofs/VerApk.lean` proves the
two formulations equal (`compareLoop_eq_compare`); both are also compared with
the real code on every run (`apkcmp`, `apkcmp2`). -/

/-- The stream of `(token type, value)` of a version from a reader position;
    the last element is the terminal type (`END` / `INVALID`) with value 0.
    `fuel` bounds the length (more than two tokens per character never occur). -/
def toks : Nat → Reader → Tok → List (Tok × Int)
  | 0, _, _ => [(.invalid, 0)]
  | fuel + 1, rd, t =>
    if t = .tEnd ∨ t = .invalid then [(t, 0)]
    else
      let (v, t', rd') := getToken rd t
      (t, v) :: toks fuel rd' t'

def tokens (ver : Str) : List (Tok × Int) := toks (2 * ver.length + 4) { rest := ver } .digit

/-- The decision on one pair of stream elements; `eq` = keep walking. -/
def elemCmp (a b : Tok × Int) : Ordering :=
  if a.1 = b.1 then
    -- same token type: the loop goes on while the values agree
    if a.1 = .tEnd ∨ a.1 = .invalid then .eq           -- "both have TOKEN_END or TOKEN_INVALID next"
    else if a.2 < b.2 then .lt                          -- "value of this token differs?"
    else if a.2 > b.2 then .gt
    else .eq
  else if a.1 = .suffix ∧ a.2 < 0 then .lt              -- pre-release suffix on the left
  else if b.1 = .suffix ∧ b.2 < 0 then .gt              -- … on the right
  else if a.1.val > b.1.val then .lt                    -- `if at > bt return apkVersionLess`
  else if a.1.val < b.1.val then .gt
  else .eq

/-- `compare` as the scan of the two streams. -/
def compare (ver1 ver2 : Str) : Ordering := lexCmp elemCmp (tokens ver1) (tokens ver2)

end ClairModel.VerApk
