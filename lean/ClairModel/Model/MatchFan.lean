/-
  C05 — the goroutine structure of `Match` (internal/matcher/match.go, the
  older entry point): one fan-out goroutine that starts one goroutine per
  matcher and then waits for them (`sync.WaitGroup`), the matcher goroutines,
  and the caller's own loop that collects from `ctrlC` (buffered, capacity
  `lim` = GOMAXPROCS).  Core Lean only.

  One transition per goroutine start / channel operation / return:

    spawn        the fan-out goroutine executes `go func() {…}()` for the next
                 matcher of the slice (matcher number `spawned`)
    finish i ok  matcher i's `Controller.Match` returned; ok → the goroutine is
                 at `ctrlC <- vulns`, ¬ok → it appends its error to `errs`
                 under the mutex and returns (`wg.Done()`)
    send i       `ctrlC <- vulns` completes, the goroutine returns (`wg.Done()`)
    fanWait      the loop is over and `wg.Wait()` returns (counter is zero)
    closeC       the deferred `close(ctrlC)`; the fan-out goroutine returns
    collect      the caller receives one result from `ctrlC`
    collectorEnd `range ctrlC` ends (closed and drained); `Match` returns
                 `vr, errors.Join(errs...)`

  `wg.Add(len(matchers))` precedes the loop, so the counter starts at the number
  of matchers.  `Match` never looks at its Context itself (the controllers get
  it), so there is no cancellation transition.  Sending on or closing a closed
  channel is recorded as a panic.
-/
namespace ClairModel.MatchFan

inductive GPhase where
  | unborn
  | running
  | sending
  | doneOk
  | doneErr
deriving DecidableEq, Repr, Inhabited

inductive FPhase where
  | spawning | closing | done
deriving DecidableEq, Repr, Inhabited

structure State where
  lim : Nat
  /-- one phase per matcher of the slice -/
  gs : List GPhase
  /-- goroutines started so far -/
  spawned : Nat
  fan : FPhase
  /-- the WaitGroup counter -/
  wg : Nat
  /-- content of `ctrlC` -/
  buf : List Nat
  closes : Nat
  /-- matchers whose error was appended to `errs`, in order -/
  errs : List Nat
  /-- results the caller has folded into the report, in order -/
  collected : List Nat
  collectorDone : Bool
  panicked : Bool
deriving Repr, Inhabited

def init (lim n : Nat) : State :=
  { lim := lim, gs := List.replicate n .unborn, spawned := 0, fan := .spawning, wg := n,
    buf := [], closes := 0, errs := [], collected := [], collectorDone := false, panicked := false }

inductive Op where
  | spawn
  | finish (i : Nat) (ok : Bool)
  | send (i : Nat)
  | fanWait
  | closeC
  | collect
  | collectorEnd
deriving DecidableEq, Repr

inductive Out where
  | ok
  | disabled
  | panic
deriving DecidableEq, Repr

def step (s : State) : Op → State × Out
  | .spawn =>
    match s.fan, s.gs[s.spawned]? with
    | .spawning, some .unborn =>
      ({ s with gs := s.gs.set s.spawned .running, spawned := s.spawned + 1 }, .ok)
    | _, _ => (s, .disabled)
  | .finish i ok =>
    match s.gs[i]? with
    | some .running =>
      if ok then ({ s with gs := s.gs.set i .sending }, .ok)
      else ({ s with gs := s.gs.set i .doneErr, errs := s.errs ++ [i], wg := s.wg - 1 }, .ok)
    | _ => (s, .disabled)
  | .send i =>
    match s.gs[i]? with
    | some .sending =>
      if s.closes ≠ 0 then ({ s with panicked := true }, .panic)
      else if s.buf.length < s.lim then
        ({ s with gs := s.gs.set i .doneOk, buf := s.buf ++ [i], wg := s.wg - 1 }, .ok)
      else (s, .disabled)
    | _ => (s, .disabled)
  | .fanWait =>
    if s.fan = .spawning ∧ s.spawned = s.gs.length ∧ s.wg = 0 then ({ s with fan := .closing }, .ok)
    else (s, .disabled)
  | .closeC =>
    if s.fan = .closing then
      if s.closes = 0 then ({ s with fan := .done, closes := 1 }, .ok)
      else ({ s with fan := .done, closes := s.closes + 1, panicked := true }, .panic)
    else (s, .disabled)
  | .collect =>
    match s.collectorDone, s.buf with
    | false, m :: rest => ({ s with buf := rest, collected := s.collected ++ [m] }, .ok)
    | _, _ => (s, .disabled)
  | .collectorEnd =>
    if s.collectorDone = false ∧ s.buf = [] ∧ s.closes ≠ 0 then ({ s with collectorDone := true }, .ok)
    else (s, .disabled)

def gDone : GPhase → Bool
  | .doneOk => true
  | .doneErr => true
  | _ => false

/-- Every goroutine has returned and `Match` has left its loop. -/
def final (s : State) : Bool :=
  s.fan == .done && s.collectorDone && s.gs.all gDone

/-- The run consists of transitions that happen. -/
def allOk (s : State) : List Op → Bool
  | [] => true
  | op :: ops => (step s op).2 == .ok && allOk (step s op).1 ops

/-- Termination measure. -/
def gWeight : GPhase → Nat
  | .unborn => 4
  | .running => 3
  | .sending => 2
  | .doneOk => 0
  | .doneErr => 0

def sumG : List GPhase → Nat
  | [] => 0
  | g :: gs => gWeight g + sumG gs

def fWeight : FPhase → Nat
  | .spawning => 2
  | .closing => 1
  | .done => 0

def measure (s : State) : Nat :=
  sumG s.gs + s.buf.length + fWeight s.fan + (if s.collectorDone then 0 else 1)

/-- Indices of the goroutines in a given phase. -/
def indicesOf (p : GPhase) (gs : List GPhase) : List Nat :=
  (List.range gs.length).filter fun i => gs[i]? == some p

end ClairModel.MatchFan
