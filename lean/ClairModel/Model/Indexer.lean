/-
  Executable model of the claircore indexer: `libindex.Libindex.Index` =
  lock + `controller.Controller.Index/run` over an `indexer.Store`, with the
  state functions checkManifest, fetchLayers (reduce), scanLayers
  (`LayerScanner.Scan` / `scanLayer` at concurrency 1), coalesce,
  indexManifest, indexFinished, transcribed statement by statement, and a
  fault oracle that decides the fate of every datastore / realizer / scanner
  call by its position in the call sequence.

  Code map (all under /repo):
    indexer/controller/controller.go   run, setState, Index      -> runLoop, setState, index
    indexer/controller/checkmanifest.go                          -> checkManifest, filterUnscanned
    indexer/controller/reduce.go, fetchlayers.go                 -> reduce, reduceInner, fetchLayers
    indexer/controller/scanlayers.go, indexer/layerscanner.go    -> scanLayers, scanPairs, scanLayer, storeGroups
    indexer/controller/coalesce.go                               -> coalesce, gatherAll/Eco/Layer
    indexer/controller/indexmanifest.go, indexfinished.go        -> indexManifest, indexFinished
    datastore/postgres/*.go (through go/internal/memstore)       -> Store and its operations
  Core Lean only.
-/
import ClairModel.Lib.SortDedup

namespace ClairModel.Indexer
open ClairModel.SortDedup

/-! ## Vocabulary -/

/-- Kind of a scanner and of the artifacts it finds. -/
inductive Tag | pkg | dist | repo | file
  deriving DecidableEq, Repr

/-- A versioned scanner: the unique key of the `scanner` table. -/
structure Scanner where
  name : String
  version : String
  kind : Tag
  deriving DecidableEq, Repr

abbrev Layer := Nat
/-- A manifest is identified with its layer list (digests are content addresses). -/
abbrev Manifest := List Layer
abbrev Item := Nat

/-- One scan artifact: what kind of thing, which thing. -/
structure Row where
  tag : Tag
  item : Item
  deriving DecidableEq, Repr

/-- Canonical content of an index report. -/
abbrev Body := List Nat

/-- An ecosystem: scanners by kind (plus its coalescer, see `Sem.coal`). -/
structure Eco where
  ps : List Scanner
  ds : List Scanner
  rs : List Scanner
  fs : List Scanner
  deriving DecidableEq, Repr

/-- The configuration `libindex.New` was given: ecosystems in order. -/
abbrev Cfg := List Eco

/-- First occurrences. -/
def dedupS : List Scanner → List Scanner
  | [] => []
  | s :: rest => s :: (dedupS rest).filter (· != s)

/-- `indexer.EcosystemsToScanners` + `MergeVS`: package, distribution,
    repository, file scanners, ecosystem by ecosystem; a scanner that several
    ecosystems list (rpm in the rhel and the rpm ecosystem) is taken once. The
    code de-duplicates by name within a kind; two different scanners of one
    name and kind are outside the model (assumption of the property). -/
def Cfg.scanners (c : Cfg) : List Scanner :=
  dedupS (c.flatMap (·.ps) ++ c.flatMap (·.ds) ++ c.flatMap (·.rs) ++ c.flatMap (·.fs))

/-- What a coalescer is handed for one layer (`indexer.LayerArtifacts`). -/
structure LayerArts where
  layer : Layer
  pkgs : List Item
  pkgRepos : List Item
  dists : List Item
  repos : List Item
  files : List Item
  deriving DecidableEq, Repr

/-- The parts of the system that are parameters of the model: what a scanner
    finds in a layer (scanners are deterministic), which scanners are the real
    built-in ones (no fault point inside; they hand the store an empty result),
    the ecosystems' coalescers and the merge of their reports. -/
structure Sem where
  scan : Scanner → Layer → List Row
  real : Scanner → Bool
  coal : Eco → List LayerArts → Body
  merge : List Body → Body
  /-- ecosystems whose coalescer is the real built-in one (whiteout): no fault point inside -/
  realEco : Eco → Bool := fun _ => false

/-! ## Faults -/

inductive Fault
  | ok
  | err          -- ordinary error, no effect
  | canceled     -- error wrapping context.Canceled, context still live
  | deadline     -- error wrapping context.DeadlineExceeded, context still live
  | cancelCtx    -- caller's context cancelled during the call: returns Canceled, no effect
  | cancelAfter  -- the call succeeds; caller's context cancelled right after
  | crash        -- the process dies before this call
  | commitErr    -- effect applied, ordinary error returned (lost reply)
  deriving DecidableEq, Repr

inductive ErrClass | gen | can | dl
  deriving DecidableEq, Repr

abbrev Oracle := Nat → Fault

/-- Dynamic environment of one Index call. -/
structure Env where
  pos : Nat := 0
  dead : Bool := false        -- caller's context is cancelled
  crashed : Bool := false
  failed : Bool := false      -- some numbered call failed
  fetched : List Layer := []  -- layers realized for this call
  scans : List (Layer × Scanner) := []   -- stub Scan entries, newest first
  trace : List Char := []     -- call letters, newest first (lower case = failed)
  deriving Repr

structure Verdict where
  effect : Bool
  err : Option ErrClass

def lower (c : Char) : Char := Char.ofNat (c.toNat + 32)

/-- Entering call number `e.pos` with trace letter `c`. -/
def enter (o : Oracle) (e : Env) (c : Char) : Env × Verdict :=
  let e1 := { e with pos := e.pos + 1 }
  let bad (e' : Env) (cl : ErrClass) (eff : Bool) : Env × Verdict :=
    ({ e' with failed := true, trace := lower c :: e'.trace }, ⟨eff, some cl⟩)
  if e.crashed then bad e1 .gen false
  else if e.dead then bad e1 .can false
  else match o e.pos with
    | .ok => ({ e1 with trace := c :: e1.trace }, ⟨true, none⟩)
    | .err => bad e1 .gen false
    | .canceled => bad e1 .can false
    | .deadline => bad e1 .dl false
    | .cancelCtx => bad { e1 with dead := true } .can false
    | .crash => bad { e1 with crashed := true } .gen false
    | .cancelAfter => ({ e1 with dead := true, trace := c :: e1.trace }, ⟨true, none⟩)
    | .commitErr => bad e1 .gen true

/-! ## The store -/

inductive CState
  | terminal | checkManifest | fetchLayers | scanLayers | coalesce | indexManifest | indexError | indexFinished
  deriving DecidableEq, Repr

structure Report where
  success : Bool := false
  state : Option CState := none   -- `none` is the empty string of a fresh report
  err : Bool := false             -- Err ≠ ""
  body : Body := []
  deriving DecidableEq, Repr

structure ArtRow where
  layer : Layer
  scanner : Scanner
  row : Row
  deriving DecidableEq, Repr

structure Store where
  manifests : List Manifest := []
  scannedLayer : List (Layer × Scanner) := []
  rows : List ArtRow := []
  scannedManifest : List (Manifest × Scanner) := []
  reports : List (Manifest × Report) := []   -- newest first
  index : List (Manifest × Body) := []
  deriving Repr

namespace Store

def manifestScanned (st : Store) (m : Manifest) (vs : List Scanner) : Bool :=
  vs.all fun s => decide ((m, s) ∈ st.scannedManifest)

def layerScanned (st : Store) (l : Layer) (s : Scanner) : Bool :=
  decide ((l, s) ∈ st.scannedLayer)

def report? (st : Store) (m : Manifest) : Option Report :=
  (st.reports.find? fun p => p.1 == m).map (·.2)

/-- `XByLayer(l, ss)` for artifact kind `t`: the items stored for layer `l` by
    any scanner of `ss`. SQL gives a set; the model returns its canonical list. -/
def itemsBy (st : Store) (l : Layer) (ss : List Scanner) (t : Tag) : List Item :=
  canon ((st.rows.filter fun r => r.layer == l && (decide (r.scanner ∈ ss)) && r.row.tag == t).map (·.row.item))

def persistManifest (st : Store) (m : Manifest) : Store :=
  if m ∈ st.manifests then st else { st with manifests := m :: st.manifests }

/-- `IndexPackages/Distributions/Repositories/Files`: rows are unique, a
    conflicting insert does nothing. -/
def insertRows (st : Store) (l : Layer) (s : Scanner) (g : List Row) : Store :=
  { st with rows := (g.map fun r => ⟨l, s, r⟩) ++ st.rows }

def setLayerScanned (st : Store) (l : Layer) (s : Scanner) : Store :=
  { st with scannedLayer := (l, s) :: st.scannedLayer }

/-- Upsert keyed by manifest; fails when the manifest row does not exist. -/
def setIndexReport (st : Store) (m : Manifest) (r : Report) : Option Store :=
  if m ∈ st.manifests then some { st with reports := (m, r) :: st.reports } else none

def indexManifest (st : Store) (m : Manifest) (b : Body) : Store :=
  { st with index := (m, b) :: st.index }

/-- One transaction: scanned_manifest rows for `vs`, then the report upsert. -/
def setIndexFinished (st : Store) (m : Manifest) (vs : List Scanner) (r : Report) : Option Store :=
  if m ∈ st.manifests then
    some { st with scannedManifest := (vs.map fun s => (m, s)) ++ st.scannedManifest, reports := (m, r) :: st.reports }
  else none

/-- `DeleteManifests` for one digest (datastore/postgres/deletemanifests.go, one
    transaction per manifest): an unknown manifest is skipped; the manifest row
    goes, and with it (ON DELETE CASCADE, migration 04) its scanned_manifest
    rows, its report and its search-index rows; then every layer of the
    manifest that no remaining manifest refers to is deleted, and with it its
    scanned_layer rows and its scan artifacts. -/
def deleteManifest (st : Store) (m : Manifest) : Store :=
  if m ∈ st.manifests then
    let ms := st.manifests.filter (· != m)
    let gone : Layer → Bool := fun l => decide (l ∈ m) && ms.all fun m' => !decide (l ∈ m')
    { manifests := ms
      scannedLayer := st.scannedLayer.filter fun x => !gone x.1
      rows := st.rows.filter fun r => !gone r.layer
      scannedManifest := st.scannedManifest.filter fun x => x.1 != m
      reports := st.reports.filter fun x => x.1 != m
      index := st.index.filter fun x => x.1 != m }
  else st

/-- `DeleteManifests(ds...)`: the digests one after the other. -/
def deleteManifests (st : Store) (ms : List Manifest) : Store := ms.foldl deleteManifest st

/-- What `DeleteManifests` returns: the digests it found, in argument order
    (a digest given twice is found once). -/
def deleted : Store → List Manifest → List Manifest
  | _, [] => []
  | st, m :: ms => if m ∈ st.manifests then m :: deleted (st.deleteManifest m) ms else deleted st ms

end Store

/-! ## The controller -/

/-- World of one Index call: the store and the dynamic environment. -/
structure W where
  st : Store
  e : Env

def W.call (o : Oracle) (w : W) (c : Char) : W × Verdict :=
  match enter o w.e c with
  | (e, v) => ({ w with e := e }, v)

/-- Controller fields that change while indexing. -/
structure Ctl where
  vs : List Scanner      -- s.Vscnrs
  report : Report        -- s.report
  cur : CState           -- s.currentState
  deriving Repr

def setState (c : Ctl) (s : CState) : Ctl :=
  { c with cur := s, report := { c.report with state := some s } }

abbrev StateRet := W × Ctl × CState × Option ErrClass

/-- checkmanifest.go: the per-scanner `ManifestScanned` loop. -/
def filterUnscanned (o : Oracle) (m : Manifest) : List Scanner → W → W × Except ErrClass (List Scanner)
  | [], w => (w, .ok [])
  | s :: rest, w =>
    match w.call o 'M' with
    | (w, v) =>
      match v.err with
      | some c => (w, .error c)
      | none =>
        match filterUnscanned o m rest w with
        | (w', .error c) => (w', .error c)
        | (w', .ok l) => (w', .ok (if w.st.manifestScanned m [s] then l else s :: l))

def checkManifest (o : Oracle) (m : Manifest) (w : W) (c : Ctl) : StateRet :=
  match w.call o 'M' with
  | (w, v) =>
    match v.err with
    | some cl => (w, c, .terminal, some cl)
    | none =>
      if w.st.manifestScanned m c.vs then
        match w.call o 'G' with
        | (w, v) =>
          match v.err with
          | some cl => (w, c, .terminal, some cl)
          | none =>
            match w.st.report? m with
            | none => (w, c, .terminal, some .gen)
            | some r => (w, { c with report := r }, .terminal, none)
      else
        match filterUnscanned o m c.vs w with
        | (w, .error cl) => (w, c, .terminal, some cl)
        | (w, .ok vs') =>
          match w.call o 'P' with
          | (w, v) =>
            let w := if v.effect then { w with st := w.st.persistManifest m } else w
            match v.err with
            | some cl => (w, { c with vs := vs' }, .terminal, some cl)
            | none => (w, { c with vs := vs' }, .fetchLayers, none)

/-- reduce.go inner loop: is there a scanner that has not scanned `l`? -/
def reduceInner (o : Oracle) (l : Layer) : List Scanner → W → W × Except ErrClass Bool
  | [], w => (w, .ok false)
  | s :: rest, w =>
    match w.call o 'L' with
    | (w, v) =>
      match v.err with
      | some c => (w, .error c)
      | none => if w.st.layerScanned l s then reduceInner o l rest w else (w, .ok true)

def reduce (o : Oracle) (vs : List Scanner) : List Layer → W → W × Except ErrClass (List Layer)
  | [], w => (w, .ok [])
  | l :: ls, w =>
    match reduceInner o l vs w with
    | (w, .error c) => (w, .error c)
    | (w, .ok b) =>
      match reduce o vs ls w with
      | (w, .error c) => (w, .error c)
      | (w, .ok r) => (w, .ok (if b then l :: r else r))

def fetchLayers (o : Oracle) (m : Manifest) (w : W) (c : Ctl) : StateRet :=
  match reduce o c.vs m w with
  | (w, .error cl) => (w, c, .terminal, some cl)
  | (w, .ok toFetch) =>
    match w.call o 'Z' with
    | (w, v) =>
      let w := if v.effect then { w with e := { w.e with fetched := toFetch ++ w.e.fetched } } else w
      match v.err with
      | some cl => (w, c, .terminal, some cl)
      | none => (w, c, .scanLayers, none)

def rowsOf (t : Tag) (rows : List Row) : List Row := rows.filter fun r => r.tag == t

/-- `result.Store`: one store call per non-nil result slice, in the order
    packages, distributions, repositories, files. A stub scanner returns nil
    for an empty result; the built-in file scanner returns an empty slice. -/
def toStore (sem : Sem) (s : Scanner) (l : Layer) : List (List Row) :=
  ([Tag.pkg, Tag.dist, Tag.repo, Tag.file].map fun t => (t, rowsOf t (sem.scan s l))).filterMap fun p =>
    if p.2 ≠ [] ∨ (sem.real s ∧ p.1 = s.kind) then some p.2 else none

def storeGroups (o : Oracle) (l : Layer) (s : Scanner) : List (List Row) → W → W × Option ErrClass
  | [], w => (w, none)
  | g :: gs, w =>
    match w.call o 'I' with
    | (w, v) =>
      let w := if v.effect then { w with st := w.st.insertRows l s g } else w
      match v.err with
      | some c => (w, some c)
      | none => storeGroups o l s gs w

/-- `result.Do`: the scanner itself. A stub scanner is a numbered call and
    refuses a layer that was not realized; the built-in scanner needs the layer
    too but is not a fault point. -/
def doScan (sem : Sem) (o : Oracle) (l : Layer) (s : Scanner) (w : W) : W × Option ErrClass :=
  if sem.real s then
    if l ∈ w.e.fetched then (w, none) else (w, some .gen)
  else
    match w.call o 'S' with
    | (w, v) =>
      if v.err.isSome && !v.effect then (w, v.err)
      else if l ∈ w.e.fetched then
        ({ w with e := { w.e with scans := (l, s) :: w.e.scans } }, v.err)
      else
        ({ w with e := { w.e with failed := true, trace := 's' :: w.e.trace.tail } }, some .gen)

/-- layerscanner.go `scanLayer`. -/
def scanLayer (sem : Sem) (o : Oracle) (l : Layer) (s : Scanner) (w : W) : W × Option ErrClass :=
  match w.call o 'L' with
  | (w, v) =>
    match v.err with
    | some c => (w, some c)
    | none =>
      if w.st.layerScanned l s then (w, none) else
      match doScan sem o l s w with
      | (w, some c) => (w, some c)
      | (w, none) =>
        match storeGroups o l s (toStore sem s l) w with
        | (w, some c) => (w, some c)
        | (w, none) =>
          match w.call o 'K' with
          | (w, v) =>
            let w := if v.effect then { w with st := w.st.setLayerScanned l s } else w
            (w, v.err)

/-- `LayerScanner.Scan` at concurrency 1: pairs in order; the first error stops
    everything (errgroup cancels its context, the remaining closures return at
    once). With the caller's context dead no further pair starts; whether that
    surfaces as the closure's `context.Cause` or as `run`'s own context check
    is the same observation (error class Canceled, nothing persisted). -/
def scanPairs (sem : Sem) (o : Oracle) : List (Layer × Scanner) → W → W × Option ErrClass
  | [], w => (w, none)
  | (l, s) :: rest, w =>
    if w.e.dead then (w, some .can) else
    match scanLayer sem o l s w with
    | (w, some c) => (w, some c)
    | (w, none) => scanPairs sem o rest w

def dedupe : List Layer → List Layer
  | [] => []
  | l :: ls => l :: (dedupe ls).filter (· != l)

def pairs (cfg : Cfg) (m : Manifest) : List (Layer × Scanner) :=
  (dedupe m).flatMap fun l => cfg.scanners.map fun s => (l, s)

def scanLayers (sem : Sem) (o : Oracle) (cfg : Cfg) (m : Manifest) (w : W) (c : Ctl) : StateRet :=
  match scanPairs sem o (pairs cfg m) w with
  | (w, some cl) => (w, c, .terminal, some cl)
  | (w, none) => (w, c, .coalesce, none)

/-- One read call of coalesce.go. -/
def readCall (o : Oracle) (ch : Char) (w : W) : W × Option ErrClass :=
  match w.call o ch with
  | (w, v) => (w, v.err)

/-- coalesce.go: the five queries for one layer of one ecosystem. -/
def gatherLayer (o : Oracle) (eco : Eco) (l : Layer) (w : W) : W × Except ErrClass LayerArts :=
  match readCall o 'A' w with
  | (w, some c) => (w, .error c)
  | (w, none) =>
  match readCall o 'B' w with
  | (w, some c) => (w, .error c)
  | (w, none) =>
  match readCall o 'D' w with
  | (w, some c) => (w, .error c)
  | (w, none) =>
  match readCall o 'B' w with
  | (w, some c) => (w, .error c)
  | (w, none) =>
  match readCall o 'F' w with
  | (w, some c) => (w, .error c)
  | (w, none) =>
    (w, .ok { layer := l
              pkgs := w.st.itemsBy l eco.ps .pkg
              pkgRepos := w.st.itemsBy l eco.ps .repo
              dists := w.st.itemsBy l eco.ds .dist
              repos := w.st.itemsBy l eco.rs .repo
              files := w.st.itemsBy l eco.fs .file })

def gatherEco (o : Oracle) (eco : Eco) : List Layer → W → W × Except ErrClass (List LayerArts)
  | [], w => (w, .ok [])
  | l :: ls, w =>
    match gatherLayer o eco l w with
    | (w, .error c) => (w, .error c)
    | (w, .ok a) =>
      match gatherEco o eco ls w with
      | (w, .error c) => (w, .error c)
      | (w, .ok r) => (w, .ok (a :: r))

def gatherAll (sem : Sem) (o : Oracle) (m : Manifest) : List Eco → W → W × Except ErrClass (List Body)
  | [], w => (w, .ok [])
  | eco :: ecos, w =>
    match gatherEco o eco m w with
    | (w, .error c) => (w, .error c)
    | (w, .ok arts) =>
      match gatherAll sem o m ecos w with
      | (w, .error c) => (w, .error c)
      | (w, .ok r) => (w, .ok (sem.coal eco arts :: r))

/-- coalesce.go `g.Wait()`: the ecosystems' `Coalescer.Coalesce` calls, which run
    in goroutines next to the store queries above. The model (and the harness'
    stub coalescers) take the schedule in which every coalescer finishes after
    the last store query, in ecosystem order; each is a numbered call (letter
    `C`); the first error is what `g.Wait` returns, the errgroup cancels the
    others (they are not numbered any more). -/
def coalCalls (sem : Sem) (o : Oracle) : List Eco → W → W × Option ErrClass
  | [], w => (w, none)
  | eco :: ecos, w =>
    if sem.realEco eco then coalCalls sem o ecos w else
    match readCall o 'C' w with
    | (w, some c) => (w, some c)
    | (w, none) => coalCalls sem o ecos w

def coalesce (sem : Sem) (o : Oracle) (cfg : Cfg) (m : Manifest) (w : W) (c : Ctl) : StateRet :=
  match gatherAll sem o m cfg w with
  | (w, .error cl) => (w, c, .terminal, some cl)
  | (w, .ok bodies) =>
    match coalCalls sem o cfg w with
    | (w, some cl) => (w, c, .terminal, some cl)
    | (w, none) => (w, { c with report := { c.report with body := sem.merge bodies } }, .indexManifest, none)

def indexManifest (o : Oracle) (m : Manifest) (w : W) (c : Ctl) : StateRet :=
  match w.call o 'X' with
  | (w, v) =>
    let w := if v.effect then { w with st := w.st.indexManifest m c.report.body } else w
    match v.err with
    | some cl => (w, c, .terminal, some cl)
    | none => (w, c, .indexFinished, none)

def indexFinished (o : Oracle) (m : Manifest) (w : W) (c : Ctl) : StateRet :=
  let c := { c with report := { c.report with success := true } }
  match w.call o 'Y' with
  | (w, v) =>
    if v.effect then
      match w.st.setIndexFinished m c.vs c.report with
      | none => (w, c, .terminal, some .gen)
      | some st' => ({ w with st := st' }, c, .terminal, v.err)
    else (w, c, .terminal, v.err)

/-- `stateToStateFunc` (state.go). IndexError and Terminal have no entry. -/
def stateFn (sem : Sem) (o : Oracle) (cfg : Cfg) (m : Manifest) : CState → W → Ctl → StateRet
  | .checkManifest, w, c => checkManifest o m w c
  | .fetchLayers, w, c => fetchLayers o m w c
  | .scanLayers, w, c => scanLayers sem o cfg m w c
  | .coalesce, w, c => coalesce sem o cfg m w c
  | .indexManifest, w, c => indexManifest o m w c
  | .indexFinished, w, c => indexFinished o m w c
  | _, w, c => (w, c, .terminal, none)

/-- The `SetIndexReport` after every state function, and what follows it in
    `run`: `carry` is the error `run` still holds (`none` after the retry
    branch reset it). -/
def persistAndAdvance (o : Oracle) (m : Manifest) (w : W) (c : Ctl) (next : CState)
    (carry : Option ErrClass) : W × Ctl × Option ErrClass × Bool :=
  match w.call o 'R' with
  | (w, v) =>
    let res : Option Store × Option ErrClass :=
      if v.effect then
        match w.st.setIndexReport m c.report with
        | none => (none, some .gen)
        | some st' => (some st', v.err)
      else (none, v.err)
    let w := match res.1 with
      | some st' => { w with st := st' }
      | none => w
    match res.2 with
    | some cl =>
      let c := setState c .indexError
      (w, { c with report := { c.report with err := true } }, some cl, true)
    | none =>
      if next = .terminal then (w, c, carry, true)
      else (w, setState c next, carry, carry.isSome)   -- `for err == nil && ...`

/-- controller.go `run`. The last component of `persistAndAdvance` says the
    loop is left. -/
def runLoop (sem : Sem) (o : Oracle) (cfg : Cfg) (m : Manifest) : Nat → W → Ctl → W × Ctl × Option ErrClass
  | 0, w, c => (w, c, some .gen)   -- out of fuel: never reached with `fuel` (theorem `fuel_suffices`)
  | fuel + 1, w, c =>
    if c.cur = .terminal then (w, c, none) else
    match stateFn sem o cfg m c.cur w c with
    | (w, c, next, r) =>
      match r with
      | none =>
        if w.e.dead then (w, c, some .can)          -- state function ok, context dead
        else
          match persistAndAdvance o m w c next none with
          | (w, c, r', true) => (w, c, r')
          | (w, c, _, false) => runLoop sem o cfg m fuel w c
      | some .dl =>                                   -- retry := true ... err = nil
        match persistAndAdvance o m w c next none with
        | (w, c, r', true) => (w, c, r')
        | (w, c, _, false) => runLoop sem o cfg m fuel w c
      | some .can => (w, c, some .can)
      | some .gen =>
        let c := setState c .indexError
        let c := { c with report := { c.report with success := false, err := true } }
        match persistAndAdvance o m w c next (some .gen) with
        | (w, c, r', true) => (w, c, r')
        | (w, c, _, false) => runLoop sem o cfg m fuel w c

structure IndexResult where
  st : Store
  e : Env
  report : Option Report
  err : Option ErrClass

/-- Number of loop iterations that is always enough (six state functions). -/
def fuel : Nat := 8

/-- `Libindex.Index`: lock, context check, fresh controller, `run`. -/
def index (sem : Sem) (o : Oracle) (cfg : Cfg) (m : Manifest) (st : Store) (dead0 : Bool) : IndexResult :=
  if dead0 then { st := st, e := { dead := true }, report := none, err := some .can }
  else
    match runLoop sem o cfg m fuel ⟨st, {}⟩ { vs := cfg.scanners, report := {}, cur := .checkManifest } with
    | (w, c, r) => { st := w.st, e := w.e, report := some c.report, err := r }

/-! ## Histories -/

/-- One operation on a deployment: reconfigure (`libindex.New` on the same
    store), index a manifest under a fault oracle, or delete manifests. -/
inductive Op
  | config (cfg : Cfg)
  | index (m : Manifest) (o : Oracle) (dead0 : Bool)
  | delete (ms : List Manifest)   -- `Libindex.DeleteManifests`

structure World where
  cfg : Cfg := []
  st : Store := {}
  scans : List (Layer × Scanner) := []   -- every stub Scan entry so far, newest first

structure Out where
  report : Option Report := none
  err : Option ErrClass := none
  e : Env := {}
  deleted : List Manifest := []

def step (sem : Sem) (wd : World) : Op → World × Out
  | .config cfg => ({ wd with cfg := cfg }, {})
  | .index m o d =>
    let r := index sem o wd.cfg m wd.st d
    ({ wd with st := r.st, scans := r.e.scans ++ wd.scans }, { report := r.report, err := r.err, e := r.e })
  | .delete ms =>
    let st' := wd.st.deleteManifests ms
    -- the scan log keeps the entries whose scanned_layer row still exists
    ({ wd with st := st', scans := wd.scans.filter fun x => decide (x ∈ st'.scannedLayer) },
     { deleted := wd.st.deleted ms })

/-! ## The table of state.go, as the model uses it -/

def CState.name : CState → String
  | .terminal => "Terminal" | .checkManifest => "CheckManifest" | .fetchLayers => "FetchLayers"
  | .scanLayers => "ScanLayers" | .coalesce => "Coalesce" | .indexManifest => "IndexManifest"
  | .indexError => "IndexError" | .indexFinished => "IndexFinished"

/-- state → name of its state function. -/
def stateFuncTable : List (String × String) :=
  [("CheckManifest", "checkManifest"), ("FetchLayers", "fetchLayers"), ("ScanLayers", "scanLayers"),
   ("Coalesce", "coalesce"), ("IndexManifest", "indexManifest"), ("IndexFinished", "indexFinished")]

/-- state function → (state returned with a nil error, states returned with an error). -/
def returnTable : List (String × List String × List String) :=
  [("checkManifest", ["FetchLayers", "Terminal"], ["Terminal"]),
   ("fetchLayers", ["ScanLayers"], ["Terminal"]),
   ("scanLayers", ["Coalesce"], ["Terminal"]),
   ("coalesce", ["IndexManifest"], ["Terminal"]),
   ("indexManifest", ["IndexFinished"], ["Terminal"]),
   ("indexFinished", ["Terminal"], ["Terminal"])]

end ClairModel.Indexer
