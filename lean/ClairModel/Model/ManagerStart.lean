/-
  Manager.Start (libvuln/updates/manager.go): the periodic loop, as a layer
  over the machine of Model/Manager.lean.

      if m.interval == 0 { return error }
      m.Run(ctx)                                   -- the initial run
      t := time.NewTicker(m.interval)
      for { select { case <-ctx.Done(): return ctx.Err()
                     case <-t.C:        m.Run(ctx) } }

  A `Start` call `s` owns the runs it makes (`owner r = some s`); they all get
  the context handed to Start.  Events of the layer:

      sbegin s    Start is called; with interval 0 it returns its error at once
      tick s      the select takes `<-t.C` (whether a tick is there is the
                  environment's choice; so is taking it when ctx is done as well)
      sret s      the select takes `<-ctx.Done()`; Start returns ctx.Err()
      scancel s   the caller cancels Start's context
      inner e     an event of the run machine; `begin r` / `ret r` of an owned
                  run are tied to the loop position

  The inner state changes only through `Manager.step`, so every reachable
  inner state is reachable in the run machine alone (`Proofs/ManagerStart`)
  and all theorems about runs apply to the runs Start makes.  Core Lean only.
-/
import ClairModel.Model.Manager

namespace ClairModel.MgrStart
open ClairModel ClairModel.Manager

/-- Where a Start call is. -/
inductive SPc where
  | idle
  | inRun (k : Nat) (cur : Option Nat)   -- about to call / inside its k-th `m.Run(ctx)`; cur = the run once it began
  | selecting (k : Nat)                  -- in the select after its k-th run
  | returned (ctxErr : Bool)             -- false: the interval error; true: ctx.Err()
deriving DecidableEq, Repr

structure SEnv where
  env : Env
  owner : Nat → Option Nat       -- run ↦ the Start call that makes it
  interval : Nat → Nat           -- Start call ↦ m.interval

structure SState where
  m : State
  start : Nat → SPc
  sdead : Nat → Bool             -- the context handed to Start s is cancelled

def sinit (hist : List Op) : SState :=
  { m := init hist, start := fun _ => .idle, sdead := fun _ => false }

def SState.setStart (st : SState) (s : Nat) (p : SPc) : SState :=
  { st with start := fun s' => if s' = s then p else st.start s' }

inductive SEv where
  | inner (e : Ev)
  | sbegin (s : Nat)
  | tick (s : Nat)
  | sret (s : Nat)
  | scancel (s : Nat)
deriving DecidableEq, Repr

inductive SOut where
  | inner (o : Out)
  | ok
  | bad
  | intervalErr
  | ctxErr
deriving DecidableEq, Repr

/-- The run is between `begin` and `ret`. -/
def active (m : State) (r : Nat) : Bool :=
  (m.run r).pc != .notStarted && (m.run r).pc != .returned

/-- The run machine as an owned run `r` of Start call `s` finds it when it
    begins: the run gets Start's context, cancelled from the outset if that is. -/
def startCtx (se : SEnv) (st : SState) (s r : Nat) : State :=
  if st.sdead s then (step se.env st.m (.cancel r)).1 else st.m

def sstep (se : SEnv) (st : SState) : SEv → SState × SOut
  | .sbegin s =>
    match st.start s with
    | .idle =>
      if se.interval s = 0 then (st.setStart s (.returned false), .intervalErr)
      else (st.setStart s (.inRun 0 none), .ok)
    | _ => (st, .bad)
  | .tick s =>
    match st.start s with
    | .selecting k => (st.setStart s (.inRun (k + 1) none), .ok)
    | _ => (st, .bad)
  | .sret s =>
    match st.start s with
    | .selecting _ => if st.sdead s then (st.setStart s (.returned true), .ctxErr) else (st, .bad)
    | _ => (st, .bad)
  | .scancel s =>
    let st1 : SState := { st with sdead := fun s' => if s' = s then true else st.sdead s' }
    match st.start s with
    | .inRun _ (some r) => ({ st1 with m := (step se.env st.m (.cancel r)).1 }, .ok)
    | _ => (st1, .ok)
  | .inner (.begin r) =>
    match se.owner r with
    | none => let x := step se.env st.m (.begin r); ({ st with m := x.1 }, .inner x.2)
    | some s =>
      match st.start s with
      | .inRun k none =>
        let x := step se.env (startCtx se st s r) (.begin r)
        if x.2 = .bad then (st, .bad)
        else ({ st with m := x.1 }.setStart s (.inRun k (some r)), .inner x.2)
      | _ => (st, .bad)
  | .inner (.ret r) =>
    match se.owner r with
    | none => let x := step se.env st.m (.ret r); ({ st with m := x.1 }, .inner x.2)
    | some s =>
      match st.start s with
      | .inRun k (some r') =>
        let x := step se.env st.m (.ret r)
        if r' = r ∧ x.2 ≠ .bad then ({ st with m := x.1 }.setStart s (.selecting k), .inner x.2)
        else (st, .bad)
      | _ => (st, .bad)
  | .inner (.cancel r) =>
    match se.owner r with
    | none => let x := step se.env st.m (.cancel r); ({ st with m := x.1 }, .inner x.2)
    | some _ => (st, .bad)      -- an owned run has no context of its own
  | .inner e => let x := step se.env st.m e; ({ st with m := x.1 }, .inner x.2)

end ClairModel.MgrStart
