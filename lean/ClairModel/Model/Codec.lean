/-
  Models of the hand-written text/SQL codecs of the public model types:
    severity.go / archop.go   MarshalText, UnmarshalText, Scan (over the stringer tables)
    version.go                Version.MarshalText, UnmarshalText, String
    digest.go                 Digest.UnmarshalText / setChecksum / String
  The name/index tables are parameters here; Props/C17 instantiates them with
  the tables regenerated from the sources (Gen/Enums.lean).
-/
import ClairModel.Lib.Bytes

namespace ClairModel.Codec
open ClairModel.Bytes

/-! ### stringer-table enums -/

/-- `name[index[n]:index[n+1]]` -/
def slice (name : Bytes) (lo hi : Nat) : Bytes := (name.drop lo).take (hi - lo)

/-- `String()`/`MarshalText` of a member `n < card`; out-of-range values print
    as `Type(n)`, which the decoders do not accept — modelled as `none`. -/
def enumMarshal (name : Bytes) (idx : List Nat) (n : Nat) : Option Bytes :=
  if n + 1 < idx.length then some (slice name (idx.getD n 0) (idx.getD (n + 1) 0)) else none

/-- First position of `off` in the index table (`for n, off := range index`). -/
def findOff (off : Nat) : List Nat → Nat → Option Nat
  | [], _ => none
  | x :: xs, n => if x = off then some n else findOff off xs (n + 1)

inductive Dec where
  | ok (n : Nat)
  | err
deriving DecidableEq, Repr

/-- `Severity.UnmarshalText` (after the fix: an occurrence off a name boundary is an error). -/
def severityUnmarshal (name : Bytes) (idx : List Nat) (text : Bytes) : Dec :=
  match index name text with
  | none => .err
  | some i =>
    match findOff (i % 256) idx 0 with
    | some n => .ok n
    | none => .err

/-- `ArchOp.UnmarshalText`: unknown text decodes to the invalid member 0, never an error. -/
def archOpUnmarshal (name : Bytes) (idx : List Nat) (text : Bytes) : Dec :=
  match index name text with
  | none => .ok 0
  | some i =>
    match findOff (i % 256) idx 0 with
    | some n => .ok n
    | none => .ok 0

/-- `Scan` from an `int64` database value (after the fix: only `0 ≤ v < card`
    is accepted; negative values used to wrap around `uint`). -/
def enumScanInt (idx : List Nat) (v : Int) : Dec :=
  if v < 0 ∨ v ≥ (idx.length - 1 : Nat) then .err else .ok v.toNat

/-- A `database/sql/driver.Value` offered to a `Scan` method: `nil`, `string`,
    `[]byte`, `int64`, or one of the remaining kinds (`float64`, `bool`,
    `time.Time`) which no Scanner of these types looks at. -/
inductive Src where
  | null
  | str (b : Bytes)
  | bytes (b : Bytes)
  | int (v : Int)
  | other
deriving DecidableEq, Repr

/-- `Severity.Scan` / `ArchOp.Scan`: text goes to `UnmarshalText` (`unm`),
    `int64` to the range check, everything else is an error. -/
def enumScan (unm : Bytes → Dec) (idx : List Nat) : Src → Dec
  | .str b => unm b
  | .bytes b => unm b
  | .int v => enumScanInt idx v
  | .null => .err
  | .other => .err

/-- `Value()` of a member: its name as a `string`. -/
def enumValue (name : Bytes) (idx : List Nat) (n : Nat) : Option Src :=
  (enumMarshal name idx n).map .str

/-! ### claircore.Version text form -/

structure Version where
  kind : Bytes
  v : List Int      -- always ten slots
deriving DecidableEq, Repr

def Version.zero : Version := ⟨[], List.replicate 10 0⟩

/-- `Version.MarshalText` -/
def versionMarshal (x : Version) : Bytes :=
  if x.kind.isEmpty then [] else x.kind ++ 58 :: joinWith 46 (x.v.map showInt)

/-- Write `n` into slot `i`. -/
def setSlot (v : List Int) (i : Nat) (n : Int) : List Int := v.set i n

/-- The loop of `UnmarshalText` over the `.`-separated parts (after the fix:
    an eleventh part is an error rather than an index out of range). -/
def fillSlots (v : List Int) : List Bytes → Nat → Option (List Int)
  | [], _ => some v
  | p :: ps, i =>
    if i ≥ 10 then none else
    match parseInt32 p with
    | none => none
    | some n => fillSlots (setSlot v i n) ps (i + 1)

/-- `Version.UnmarshalText` into a receiver holding `old`.  After the fix the
    method starts from the zero Version, so `old` plays no part: a text without
    `:` gives the zero Version, and slots the text does not spell are zero. -/
def versionUnmarshal (_old : Version) (text : Bytes) : Option Version :=
  match cut 58 text with
  | none => some Version.zero
  | some (kind, rest) =>
    match fillSlots Version.zero.v (splitOn 46 rest) 0 with
    | none => none
    | some v => some ⟨kind, v⟩

/-- `Version.String()`: epoch `!`, then slots from the first to the last non-zero one. -/
def versionString (x : Version) : Bytes :=
  let v := x.v
  let epoch := v.getD 0 0
  let pre := if epoch ≠ 0 then showInt epoch ++ [33] else []
  let nz := (List.range 10).filter fun i => i ≥ 1 && v.getD i 0 ≠ 0
  let f := nz.head?.getD 1
  let l := nz.getLast?.getD 1
  pre ++ joinWith 46 (((v.drop f).take (l + 1 - f)).map showInt)

/-- `Version.Compare` for equal kinds: lexicographic over the ten slots. -/
def cmpSlots : List Int → List Int → Int
  | [], _ => 0
  | _, [] => 0
  | a :: as, b :: bs => if a > b then 1 else if a < b then -1 else cmpSlots as bs

/-! ### claircore.Digest -/

structure Digest where
  algo : Bytes
  checksum : Bytes
deriving DecidableEq, Repr

def sha256 : Bytes := [115, 104, 97, 50, 53, 54]
def sha512 : Bytes := [115, 104, 97, 53, 49, 50]

def digestSize (algo : Bytes) : Option Nat :=
  if algo = sha256 then some 32 else if algo = sha512 then some 64 else none

/-- `Digest.UnmarshalText` = cut at the first `:`, hex-decode, `setChecksum`. -/
def digestParse (t : Bytes) : Option Digest :=
  match cut 58 t with
  | none => none
  | some (algo, hx) =>
    match hexDecode hx with
    | none => none
    | some b =>
      match digestSize algo with
      | none => none
      | some sz => if b.length = sz then some ⟨algo, b⟩ else none

/-- `Digest.String()` of a digest built by `setChecksum`. -/
def digestRepr (d : Digest) : Bytes := d.algo ++ 58 :: hexEncode d.checksum

/-- `Digest.UnmarshalText` into a receiver (`none` = the zero Digest). After the
    fix a rejected text leaves the receiver as it was. Result: receiver after
    the call, and whether the returned error is nil. -/
def digestUnmarshal (old : Option Digest) (t : Bytes) : Option Digest × Bool :=
  match digestParse t with
  | some d => (some d, true)
  | none => (old, false)

/-- `Digest.Scan`: `nil` is accepted and gives the zero Digest (after the fix;
    it used to leave the receiver), a `string` is decoded (its error is
    returned), every other source type (`[]byte` included) is an error. -/
def digestScan (old : Option Digest) : Src → Option Digest × Bool
  | .null => (none, true)
  | .str t => digestUnmarshal old t
  | .bytes _ => (old, false)
  | .int _ => (old, false)
  | .other => (old, false)

/-- `Digest.Value()` / `MarshalText` / `String()`: the stored representation, `""` for the zero Digest. -/
def digestText : Option Digest → Bytes
  | none => []
  | some d => digestRepr d

/-! ### Version.UnmarshalText, with the receiver it leaves behind on error -/

/-- The slot loop, returning the slots as they are when it stops and whether it
    ran to the end. -/
def fillSlotsX (v : List Int) : List Bytes → Nat → List Int × Bool
  | [], _ => (v, true)
  | p :: ps, i =>
    if i ≥ 10 then (v, false) else
    match parseInt32 p with
    | none => (v, false)
    | some n => fillSlotsX (setSlot v i n) ps (i + 1)

/-- `Version.UnmarshalText`: receiver after the call and `err == nil`.  The
    method resets the receiver and then assigns `Kind` and the slots as it
    goes, so on an error the receiver holds the new kind and every slot parsed
    before the bad component (the rest zero) — never anything of `old`. -/
def versionUnmarshalX (_old : Version) (text : Bytes) : Version × Bool :=
  match cut 58 text with
  | none => (Version.zero, true)
  | some (kind, rest) =>
    let r := fillSlotsX Version.zero.v (splitOn 46 rest) 0
    (⟨kind, r.1⟩, r.2)

/-! ### toolkit/types/cpe/marshaling.go: the wrappers around C19's Unbind / BindFS

  The text codec itself (Unbind, Valid, BindFS) is C19's model; here it is a
  parameter, and what is modelled is what marshaling.go adds: the empty text,
  the dispatch of `Scan` over the source kinds and `strings.ToValidUTF8`. -/

/-- Width of the UTF-8 encoding at the head of `s` as `utf8.DecodeRune` sees it
    (1 for ASCII and for an invalid byte; `valid` tells which). -/
def utf8Width (s : Bytes) : Nat × Bool :=
  let cont (c : Nat) : Bool := 128 ≤ c && c ≤ 191
  match s with
  | [] => (0, true)
  | c :: r =>
    if c < 128 then (1, true)
    else if 194 ≤ c && c ≤ 223 then
      match r with
      | a :: _ => if cont a then (2, true) else (1, false)
      | _ => (1, false)
    else if 224 ≤ c && c ≤ 239 then
      match r with
      | a :: b :: _ =>
        let lo := if c = 224 then 160 else 128
        let hi := if c = 237 then 159 else 191
        if lo ≤ a && a ≤ hi && cont b then (3, true) else (1, false)
      | _ => (1, false)
    else if 240 ≤ c && c ≤ 244 then
      match r with
      | a :: b :: d :: _ =>
        let lo := if c = 240 then 144 else 128
        let hi := if c = 244 then 143 else 191
        if lo ≤ a && a ≤ hi && cont b && cont d then (4, true) else (1, false)
      | _ => (1, false)
    else (1, false)

/-- `strings.ToValidUTF8(s, "\uFFFD")`: each run of invalid bytes becomes one U+FFFD. -/
def toValidUTF8Aux : Nat → Bool → Bytes → Bytes
  | 0, _, _ => []
  | _ + 1, _, [] => []
  | n + 1, inv, c :: r =>
    let w := utf8Width (c :: r)
    if w.2 then (c :: r).take w.1 ++ toValidUTF8Aux n false ((c :: r).drop w.1)
    else (if inv then [] else [239, 191, 189]) ++ toValidUTF8Aux n true r

def toValidUTF8 (s : Bytes) : Bytes := toValidUTF8Aux s.length false s

/-- `(*WFN).UnmarshalText` into a receiver holding `old`: the empty text is the
    unset WFN `zero` (after the fix; it used to leave the receiver), anything
    else is `Unbind` (`none` = error, the receiver is then left alone, which
    the harness checks directly). -/
def wfnUnmarshalText {W : Type} (unbind : Bytes → Option W) (zero : W) (_old : W) (b : Bytes) : Option W :=
  if b.isEmpty then some zero else unbind b

/-- the body `Scan` runs on its string: the empty string "does not error and
    leaves the WFN in its current state" (documented in marshaling.go) -/
def wfnScanText {W : Type} (unbind : Bytes → Option W) (old : W) (s : Bytes) : Option W :=
  if s.isEmpty then some old else unbind s

/-- `(*WFN).Scan`: `string` as is, `[]byte` through `ToValidUTF8`, every other source an error. -/
def wfnScan {W : Type} (unbind : Bytes → Option W) (old : W) : Src → Option W
  | .str s => wfnScanText unbind old s
  | .bytes b => wfnScanText unbind old (toValidUTF8 b)
  | .null => none
  | .int _ => none
  | .other => none

end ClairModel.Codec
