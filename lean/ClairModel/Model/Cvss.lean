/-
  C18 — executable model of toolkit/types/cvss (parsers, printers, score
  equations of v2 / v3.0 / v3.1 / v4.0, QualitativeScore) and of the second,
  hand-written scorer in updater/osv/cvss.go (fromCVSS2 / fromCVSS3).

  Core Lean only.  Strings are byte lists (`List Nat`), numbers are exact
  rationals `Q` (numerator / positive denominator, never normalised), scores
  are integers scaled by ten.  The Go code computes in float64; this model
  evaluates the same expressions exactly, so it *is* the published equation
  wherever the code's expression is the specification's.  Table-like code
  (metric names, valid-value strings, weight tables, macrovector tables,
  band switches, the OSV switch tables) comes from `Gen.Cvss`, regenerated
  from the sources on every run.
-/
import ClairModel.Gen.Cvss

namespace ClairModel.Cvss
open ClairModel.Gen.Cvss

abbrev Bytes := List Nat

/-! ### bytes used below -/
def cSlash : Nat := 47
def cColon : Nat := 58
def cA : Nat := 65
def cC : Nat := 67
def cD : Nat := 68
def cF : Nat := 70
def cG : Nat := 71
def cH : Nat := 72
def cL : Nat := 76
def cM : Nat := 77
def cN : Nat := 78
def cO : Nat := 79
def cP : Nat := 80
def cR : Nat := 82
def cS : Nat := 83
def cT : Nat := 84
def cU : Nat := 85
def cW : Nat := 87
def cX : Nat := 88
def cl : Nat := 108
def cu : Nat := 117

/-! ### exact rationals -/

/-- `n / d` with `d > 0` (every constructor below keeps it positive). -/
structure Q where
  n : Int
  d : Nat
deriving Repr, DecidableEq

namespace Q
def ofInt (i : Int) : Q := ⟨i, 1⟩
/-- decimal literal: `dec 6420 1000` is 6.42 -/
def dec (i : Int) (scale : Nat) : Q := ⟨i, scale⟩
def add (a b : Q) : Q := ⟨a.n * b.d + b.n * a.d, a.d * b.d⟩
def sub (a b : Q) : Q := ⟨a.n * b.d - b.n * a.d, a.d * b.d⟩
def mul (a b : Q) : Q := ⟨a.n * b.n, a.d * b.d⟩
def pow (a : Q) : Nat → Q
  | 0 => ⟨1, 1⟩
  | k + 1 => mul (pow a k) a
def le (a b : Q) : Bool := decide (a.n * b.d ≤ b.n * a.d)
def lt (a b : Q) : Bool := decide (a.n * b.d < b.n * a.d)
def isZero (a : Q) : Bool := decide (a.n = 0)
def min (a b : Q) : Q := if le a b then a else b
def max (a b : Q) : Q := if le a b then b else a
instance : Add Q := ⟨add⟩
instance : Sub Q := ⟨sub⟩
instance : Mul Q := ⟨mul⟩
/-- ⌊a⌋ -/
def floor (a : Q) : Int := a.n / (a.d : Int)
/-- ⌈a⌉ -/
def ceil (a : Q) : Int := -((-a.n) / (a.d : Int))
/-- Go `int(x)`: truncation toward zero. -/
def trunc (a : Q) : Int := if 0 ≤ a.n then a.n / (a.d : Int) else -((-a.n) / (a.d : Int))
/-- Go `math.Round`: nearest integer, halves away from zero. -/
def roundHalfAway (a : Q) : Int :=
  if 0 ≤ a.n then (2 * a.n + a.d) / (2 * (a.d : Int)) else -((2 * (-a.n) + a.d) / (2 * (a.d : Int)))
/-- `a` is an integer plus exactly one half (a tie of `math.Round`). -/
def isHalf (a : Q) : Bool := decide ((2 * a.n) % (2 * (a.d : Int)) = (a.d : Int))
/-- `a` is an integer. -/
def isInt (a : Q) : Bool := decide (a.n % (a.d : Int) = 0)
end Q

def one : Q := Q.ofInt 1
def ten : Q := Q.ofInt 10
/-- a weight scaled by 1000 -/
def milli (i : Int) : Q := Q.dec i 1000
/-- a score scaled by 10 -/
def tenth (k : Int) : Q := Q.dec k 10

/-! ### byte-string helpers (the `strings` functions the code uses) -/

/-- `strings.HasPrefix s p` -/
def isPrefix : Bytes → Bytes → Bool
  | [], _ => true
  | _ :: _, [] => false
  | a :: p, b :: s => a == b && isPrefix p s

def stripPrefix : Bytes → Bytes → Option Bytes
  | [], s => some s
  | _ :: _, [] => none
  | a :: p, b :: s => if a = b then stripPrefix p s else none

/-- `strings.Index hay needle` (offset accumulates) -/
def indexOfFrom (needle : Bytes) : Bytes → Nat → Option Nat
  | [], off => if needle.isEmpty then some off else none
  | h :: t, off => if isPrefix needle (h :: t) then some off else indexOfFrom needle t (off + 1)

def indexOf (needle hay : Bytes) : Option Nat := indexOfFrom needle hay 0

/-- `strings.IndexByte s b` -/
def indexByteFrom (b : Nat) : Bytes → Nat → Option Nat
  | [], _ => none
  | h :: t, off => if h = b then some off else indexByteFrom b t (off + 1)

def indexByte (b : Nat) (s : Bytes) : Option Nat := indexByteFrom b s 0

/-- `strings.Split s sep` for a one-byte separator. -/
def splitOn (sep : Nat) : Bytes → List Bytes
  | [] => [[]]
  | c :: cs =>
    if c = sep then [] :: splitOn sep cs
    else match splitOn sep cs with
      | [] => [[c]]
      | p :: ps => (c :: p) :: ps

/-- `strings.Cut s sep` for a one-byte separator. -/
def cut (sep : Nat) : Bytes → Option (Bytes × Bytes)
  | [] => none
  | c :: cs =>
    if c = sep then some ([], cs)
    else match cut sep cs with
      | none => none
      | some (a, b) => some (c :: a, b)

/-- index of the first element equal to `x` -/
def findIdx (x : Bytes) : List Bytes → Nat → Option Nat
  | [], _ => none
  | y :: ys, off => if y = x then some off else findIdx x ys (off + 1)

/-- `strings.TrimRight s "/"` -/
def trimRightSlash (s : Bytes) : Bytes :=
  (s.reverse.dropWhile (· = cSlash)).reverse

/-! ### vectors -/

/-- A parsed vector: one packed byte per metric (0 = not present), as the Go
    structs `V2`/`V3`/`V4` hold them; `ver` is the v3 minor version. -/
structure Vec where
  ver : Nat
  mv : List Nat
deriving DecidableEq, Repr

def Vec.get (v : Vec) (i : Nat) : Nat := v.mv.getD i 0
def Vec.set (v : Vec) (i b : Nat) : Vec := { v with mv := v.mv.set i b }
def Vec.empty (n : Nat) : Vec := ⟨0, List.replicate n 0⟩
/-- some byte in positions `[lo, hi)` is set -/
def Vec.anySet (v : Vec) (lo hi : Nat) : Bool := ((v.mv.take hi).drop lo).any (· ≠ 0)

def nameOf (names : List Bytes) (m : Nat) : Bytes := names.getD m []

/-- one group of `marshalVector`: the text of the metrics `ms` and whether any
    of them is really set (`getString` returned no error). -/
def groupText (names : List Bytes) (getString : Nat → Bytes × Bool) : List Nat → Bytes × Bool
  | [] => ([], false)
  | m :: ms =>
    let gs := getString m
    let rest := groupText names getString ms
    if !gs.2 && gs.1.isEmpty then rest
    else (cSlash :: (nameOf names m ++ cColon :: (gs.1 ++ rest.1)), gs.2 || rest.2)

/-- `marshalVector` without the prefix: groups whose metrics are all unset
    are dropped. -/
def marshalGroups (names : List Bytes) (getString : Nat → Bytes × Bool) : List (Nat × Nat) → Bytes
  | [] => []
  | (lo, hi) :: gs =>
    let g := groupText names getString (List.range' lo (hi - lo))
    (if g.2 then g.1 else []) ++ marshalGroups names getString gs

def weightAt (W : List (List (Option Int))) (m idx : Nat) : Option Q :=
  match (W.getD m []).getD idx none with
  | none => none
  | some w => some (milli w)

/-- the case list of a band switch (`op` 0 `==`, 1 `<`, 2 `<=`), on score*10 -/
def bandOf : List (Nat × Int × Nat) → Option Nat → Int → Option Nat
  | [], dflt, _ => dflt
  | (op, bound, val) :: cs, dflt, k =>
    if (op = 0 ∧ k = bound) ∨ (op = 1 ∧ k < bound) ∨ (op = 2 ∧ k ≤ bound) then some val
    else bandOf cs dflt k

/-- `QualitativeScore` on score*10: 1 None … 5 Critical. -/
def rating (k : Int) : Nat := (bandOf qualCases qualDefault k).getD 0

/-! ### CVSS v2 -/

/-- the value alternatives of cvss_v2_parse.rl, per metric -/
def v2GrammarValues : List (List Bytes) := [
  [[cL], [cA], [cN]], [[cH], [cM], [cL]], [[cM], [cS], [cN]],
  [[cN], [cP], [cC]], [[cN], [cP], [cC]], [[cN], [cP], [cC]],
  [[cU], [cP, cO, cC], [cF], [cH], [cN, cD]],
  [[cO, cF], [cT, cF], [cW], [cU], [cN, cD]],
  [[cU, cC], [cU, cR], [cC], [cN, cD]],
  [[cN], [cL], [cL, cM], [cM, cH], [cH], [cN, cD]],
  [[cN], [cL], [cM], [cH], [cN, cD]],
  [[cL], [cM], [cH], [cN, cD]], [[cL], [cM], [cH], [cN, cD]], [[cL], [cM], [cH], [cN, cD]]]

/-- action `mark_value` of cvss_v2_parse.rl: the packed byte -/
def v2Pack (m : Nat) (s : Bytes) : Nat :=
  if m = 8 ∧ s = [cU, cR] then cu
  else if m = 9 ∧ s = [cL, cM] then cl
  else if m = 9 ∧ s = [cN, cD] then cX
  else if m = 10 ∧ s = [cN, cD] then cX
  else s.headD 0

/-- `v2Unparse` -/
def v2Unparse (m c : Nat) : Bytes :=
  if m = 6 then (if c = cP then [cP, cO, cC] else if c = cN then [cN, cD] else [c])
  else if m = 7 then (if c = cO then [cO, cF] else if c = cT then [cT, cF] else if c = cN then [cN, cD] else [c])
  else if m = 8 then (if c = cU then [cU, cC] else if c = cu then [cU, cR] else if c = cN then [cN, cD] else [c])
  else if m = 9 then (if c = cM then [cM, cH] else if c = cl then [cL, cM] else if c = cX then [cN, cD] else [c])
  else if m = 10 then (if c = cX then [cN, cD] else [c])
  else if m = 11 ∨ m = 12 ∨ m = 13 then (if c = cN then [cN, cD] else [c])
  else [c]

/-- one `NAME:VALUE` piece of the v2 grammar, for metric `m` -/
def v2Piece (m : Nat) (p : Bytes) : Option Nat :=
  match stripPrefix (nameOf v2Names m ++ [cColon]) p with
  | none => none
  | some val => if (v2GrammarValues.getD m []).contains val then some (v2Pack m val) else none

def v2Fill : List Nat → List Bytes → Vec → Option Vec
  | [], [], v => some v
  | m :: ms, p :: ps, v =>
    match v2Piece m p with
    | none => none
    | some b => v2Fill ms ps (v.set m b)
  | _, _, _ => none

def v2BaseIdx : List Nat := [0, 1, 2, 3, 4, 5]
def v2TemporalIdx : List Nat := [6, 7, 8]
def v2EnvIdx : List Nat := [9, 10, 11, 12, 13]

/-- `V2.UnmarshalText`: `base ("/" temporal)? ("/" environmental)?`, every
    metric in its fixed place. -/
def parse2 (s : Bytes) : Option Vec :=
  let ps := splitOn cSlash s
  let n := ps.length
  if n = 6 then v2Fill v2BaseIdx ps (Vec.empty 14)
  else if n = 9 then v2Fill (v2BaseIdx ++ v2TemporalIdx) ps (Vec.empty 14)
  else if n = 11 then v2Fill (v2BaseIdx ++ v2EnvIdx) ps (Vec.empty 14)
  else if n = 14 then v2Fill (v2BaseIdx ++ v2TemporalIdx ++ v2EnvIdx) ps (Vec.empty 14)
  else none

/-- `V2.getString` -/
def v2GetString (v : Vec) (m : Nat) : Bytes × Bool :=
  let b := v.get m
  if b = 0 ∧ m ≤ 5 then ([], false)
  else if b = 0 then ([cN, cD], false)
  else (v2Unparse m b, true)

/-- `V2.String` (marshalVector with the empty prefix, first `/` dropped) -/
def print2 (v : Vec) : Bytes :=
  (marshalGroups v2Names (v2GetString v) [(0, 6), (6, 9), (9, 14)]).drop 1

/-- `V2.getScore` -/
def v2ScoreByte (v : Vec) (m : Nat) : Nat :=
  let b := v.get m
  if m ≤ 5 then b
  else if m ≤ 8 ∧ b = 0 then cN
  else if m ≤ 13 ∧ b = 0 then (if m = 9 ∨ m = 10 then cX else cN)
  else b

/-- the weight `Score` looks up: `strings.Index` of the unparsed value in the
    valid-value string indexes the weight row (`none`: panic or NaN). -/
def v2Val (v : Vec) (m : Nat) : Option Q :=
  match indexOf (v2Unparse m (v2ScoreByte v m)) (v2Valid.getD m []) with
  | none => none
  | some idx => weightAt v2Weights m idx

def v2Environmental (v : Vec) : Bool := v.anySet 9 14
def v2Temporal (v : Vec) : Bool := v.anySet 6 9

/-- `v2Round` on a value, as score*10 -/
def v2Round10 (x : Q) : Int := Q.roundHalfAway (x * ten)

structure V2Vals where
  av : Q
  ac : Q
  au : Q
  c : Q
  i : Q
  a : Q
  e : Q
  rl : Q
  rc : Q
  cdp : Q
  td : Q
  cr : Q
  ir : Q
  ar : Q

def v2Vals (v : Vec) : Option V2Vals :=
  match v2Val v 0, v2Val v 1, v2Val v 2, v2Val v 3, v2Val v 4, v2Val v 5, v2Val v 6, v2Val v 7,
        v2Val v 8, v2Val v 9, v2Val v 10, v2Val v 11, v2Val v 12, v2Val v 13 with
  | some av, some ac, some au, some c, some i, some a, some e, some rl, some rc, some cdp, some td,
    some cr, some ir, some ar => some ⟨av, ac, au, c, i, a, e, rl, rc, cdp, td, cr, ir, ar⟩
  | _, _, _, _, _, _, _, _, _, _, _, _, _, _ => none

/-- the (adjusted) impact of `V2.Score` -/
def v2Impact (w : V2Vals) (env : Bool) : Q :=
  let raw := Q.dec 1041 100 * (one - (one - w.c * w.cr) * (one - w.i * w.ir) * (one - w.a * w.ar))
  if env then Q.min ten raw else raw

def v2Base10 (w : V2Vals) (env : Bool) : Int :=
  let exploitability := Q.ofInt 20 * w.av * w.ac * w.au
  let impact := v2Impact w env
  let fImpact := if impact.isZero then Q.ofInt 0 else Q.dec 1176 1000
  v2Round10 (((Q.dec 6 10 * impact) + (Q.dec 4 10 * exploitability) - Q.dec 15 10) * fImpact)

def v2Temporal10 (w : V2Vals) (base10 : Int) : Int :=
  v2Round10 (tenth base10 * w.e * w.rl * w.rc)

def v2Env10 (w : V2Vals) (temporal10 : Int) : Int :=
  v2Round10 ((tenth temporal10 + (ten - tenth temporal10) * w.cdp) * w.td)

/-- `V2.Score` as score*10 -/
def score2 (v : Vec) : Option Int :=
  match v2Vals v with
  | none => none
  | some w => some (v2Env10 w (v2Temporal10 w (v2Base10 w (v2Environmental v))))

/-! ### CVSS v3.0 / v3.1 -/

/-- the value classes of cvss_v3_parse.rl, per metric -/
def v3GrammarValues : List Bytes := [
  [cN, cA, cL, cP], [cL, cH], [cN, cL, cH], [cN, cR], [cU, cC], [cH, cL, cN], [cH, cL, cN], [cH, cL, cN],
  [cX, cH, cF, cP, cU], [cX, cU, cW, cT, cO], [cX, cC, cR, cU],
  [cX, cH, cM, cL], [cX, cH, cM, cL], [cX, cH, cM, cL],
  [cX, cN, cA, cL, cP], [cX, cL, cH], [cX, cN, cL, cH], [cX, cN, cR], [cX, cU, cC],
  [cX, cN, cL, cH], [cX, cN, cL, cH], [cX, cN, cL, cH]]

/-- "CVSS:3." -/
def v3Prefix : Bytes := [67, 86, 83, 83, 58, 51, 46]

/-- one `NAME:V` piece of the v3 grammar: (metric, byte) -/
def v3Piece (p : Bytes) : Option (Nat × Nat) :=
  match cut cColon p with
  | none => none
  | some (name, val) =>
    match findIdx name v3Names 0 with
    | none => none
    | some m =>
      match val with
      | [c] => if (v3GrammarValues.getD m []).contains c then some (m, c) else none
      | _ => none

/-- the metric loop with the duplicate check of `mark_metric` -/
def v3Fill : List Bytes → Vec → Option Vec
  | [], v => some v
  | p :: ps, v =>
    match v3Piece p with
    | none => none
    | some (m, c) => if v.get m ≠ 0 then none else v3Fill ps (v.set m c)

def baseComplete (v : Vec) (n : Nat) : Bool := (v.mv.take n).all (· ≠ 0)

/-- `V3.UnmarshalText`: `"CVSS:3." [01] ("/" NAME ":" VALUE)+`, any order, no
    metric twice, all eight base metrics present. -/
def parse3 (s : Bytes) : Option Vec :=
  match stripPrefix v3Prefix s with
  | none => none
  | some [] => none
  | some (d :: rest) =>
    if d = 48 ∨ d = 49 then
      match splitOn cSlash rest with
      | [] :: p :: ps =>
        match v3Fill (p :: ps) { (Vec.empty 22) with ver := d - 48 } with
        | none => none
        | some v => if baseComplete v 8 then some v else none
      | _ => none
    else none

def v3GetString (v : Vec) (m : Nat) : Bytes × Bool :=
  let b := v.get m
  if b = 0 then ([], false) else ([b], true)

/-- `V3.String` -/
def print3 (v : Vec) : Bytes :=
  v3Prefix ++ (48 + v.ver) :: marshalGroups v3Names (v3GetString v) [(0, 8), (8, 11), (11, 22)]

/-- `V3.getScore` -/
def v3ScoreByte (v : Vec) (m : Nat) : Nat :=
  let b := v.get m
  if 14 ≤ m ∧ (b = 0 ∨ b = cX) then v.get (m - 14)
  else if b = 0 then cX
  else b

def v3Val (v : Vec) (m : Nat) : Option Q :=
  match indexByte (v3ScoreByte v m) (v3Valid.getD m []) with
  | none => none
  | some idx => weightAt v3Weights m idx

/-- the Privileges Required weight after the Scope fix-up of `Score` -/
def v3PrVal (v : Vec) (scopeM prM : Nat) : Option Q :=
  if v3ScoreByte v scopeM = cC ∧ v3ScoreByte v prM = cL then some (Q.dec 68 100)
  else if v3ScoreByte v scopeM = cC ∧ v3ScoreByte v prM = cH then some (Q.dec 50 100)
  else v3Val v prM

def v3Environmental (v : Vec) : Bool := v.anySet 11 22
def v3Temporal (v : Vec) : Bool := v.anySet 8 11

/-- `v30Roundup`, as score*10 -/
def v30Roundup10 (x : Q) : Int := Q.ceil (x * ten)

/-- `v31Roundup`, as score*10 -/
def v31Roundup10 (x : Q) : Int :=
  let i := Q.trunc (x * Q.ofInt 100000)
  if i % 10000 = 0 then i / 10000 else i / 10000 + 1

def v3Roundup10 (ver : Nat) (x : Q) : Int := if ver = 0 then v30Roundup10 x else v31Roundup10 x

/-- impact sub-score -/
def v3Iss (v : Vec) (env : Bool) : Option Q :=
  if env then
    match v3Val v 11, v3Val v 12, v3Val v 13, v3Val v 19, v3Val v 20, v3Val v 21 with
    | some cr, some ir, some ar, some mc, some mi, some ma =>
      some (Q.min (Q.dec 915 1000) (one - ((one - cr * mc) * (one - ir * mi) * (one - ar * ma))))
    | _, _, _, _, _, _ => none
  else
    match v3Val v 5, v3Val v 6, v3Val v 7 with
    | some c, some i, some a => some (one - ((one - c) * (one - i) * (one - a)))
    | _, _, _ => none

/-- the scope used by the equations -/
def v3Scope (v : Vec) (env : Bool) : Nat :=
  let s := v3ScoreByte v 4
  if env then (let m := v3ScoreByte v 18; if m ≠ cX then m else s) else s

def v3Impact (ver : Nat) (env : Bool) (scope : Nat) (iss : Q) : Option Q :=
  let changeExp : Nat := if ver = 1 ∧ env then 13 else 15
  let issScale : Q := if env ∧ ver = 1 then Q.dec 9731 10000 else one
  if scope = cU then some (Q.dec 642 100 * iss)
  else if scope = cC then
    some (Q.dec 752 100 * (iss - Q.dec 29 1000) - (Q.dec 325 100 * Q.pow ((iss * issScale) - Q.dec 2 100) changeExp))
  else none

def v3Exploitability (v : Vec) (env : Bool) : Option Q :=
  if env then
    match v3Val v 14, v3Val v 15, v3PrVal v 18 16, v3Val v 17 with
    | some av, some ac, some pr, some ui => some (av * ac * pr * ui * Q.dec 822 100)
    | _, _, _, _ => none
  else
    match v3Val v 0, v3Val v 1, v3PrVal v 4 2, v3Val v 3 with
    | some av, some ac, some pr, some ui => some (av * ac * pr * ui * Q.dec 822 100)
    | _, _, _, _ => none

/-- the last two steps of `V3.Score`: base and temporal Roundup -/
def v3Finish (ver : Nat) (scope : Nat) (impact exploitability e rl rc : Q) : Int :=
  if Q.le impact (Q.ofInt 0) then 0
  else
    let scopeMod : Q := if scope = cC then Q.dec 108 100 else one
    let base10 := v3Roundup10 ver (Q.min (scopeMod * (impact + exploitability)) ten)
    v3Roundup10 ver (tenth base10 * e * rl * rc)

/-- `V3.Score` as score*10 (`none`: the code panics or propagates NaN; not
    reachable from a parsed vector). -/
def score3 (v : Vec) : Option Int :=
  if v.ver ≠ 0 ∧ v.ver ≠ 1 then none else
  let env := v3Environmental v
  let scope := v3Scope v env
  match v3Iss v env with
  | none => none
  | some iss =>
    match v3Impact v.ver env scope iss, v3Exploitability v env, v3Val v 8, v3Val v 9, v3Val v 10 with
    | some impact, some expl, some e, some rl, some rc => some (v3Finish v.ver scope impact expl e rl rc)
    | _, _, _, _, _ => none

/-! ### CVSS v4.0 -/

def v4GrammarValues : List Bytes := [
  [cN, cA, cL, cP], [cL, cH], [cN, cP], [cN, cL, cH], [cN, cP, cA],
  [cH, cL, cN], [cH, cL, cN], [cH, cL, cN], [cH, cL, cN], [cH, cL, cN], [cH, cL, cN],
  [cX, cA, cP, cU], [cX, cH, cM, cL], [cX, cH, cM, cL], [cX, cH, cM, cL],
  [cX, cN, cA, cL, cP], [cX, cL, cH], [cX, cN, cP], [cX, cN, cL, cH], [cX, cN, cP, cA],
  [cX, cH, cL, cN], [cX, cH, cL, cN], [cX, cH, cL, cN], [cX, cH, cL, cN],
  [cX, cH, cL, cN, cS], [cX, cH, cL, cN, cS],
  [cX, cN, cP], [cX, cN, 89], [cX, cA, cU, 73], [cX, cD, cC], [cX, cL, cM, cH]]

/-- the alternatives of Provider Urgency: X Clear Green Amber Red -/
def v4UrgencyValues : List Bytes := [
  [cX], [67, 108, 101, 97, 114], [71, 114, 101, 101, 110], [65, 109, 98, 101, 114], [82, 101, 100]]

/-- "CVSS:4.0" -/
def v4Prefix : Bytes := [67, 86, 83, 83, 58, 52, 46, 48]

/-- one `NAME:VALUE` piece for metric `m` -/
def v4Piece (m : Nat) (p : Bytes) : Option Nat :=
  match stripPrefix (nameOf v4Names m ++ [cColon]) p with
  | none => none
  | some val =>
    if m = 31 then (if v4UrgencyValues.contains val then some (val.headD 0) else none)
    else match val with
      | [c] => if (v4GrammarValues.getD m []).contains c then some c else none
      | _ => none

/-- fixed order; the eleven base metrics are mandatory, every later metric
    is optional. -/
def v4Fill : List Nat → List Bytes → Vec → Option Vec
  | [], [], v => some v
  | [], _ :: _, _ => none
  | m :: ms, [], v => if m < 11 then none else v4Fill ms [] v
  | m :: ms, p :: ps, v =>
    match v4Piece m p with
    | some b => v4Fill ms ps (v.set m b)
    | none => if m < 11 then none else v4Fill ms (p :: ps) v

/-- `V4.UnmarshalText` -/
def parse4 (s : Bytes) : Option Vec :=
  match stripPrefix v4Prefix s with
  | none => none
  | some rest =>
    match splitOn cSlash rest with
    | [] :: p :: ps => v4Fill (List.range 32) (p :: ps) (Vec.empty 32)
    | _ => none

def v4GetString (v : Vec) (m : Nat) : Bytes × Bool :=
  let b := v.get m
  if b = 0 then ([], false)
  else if m = 31 ∧ b = cC then ([67, 108, 101, 97, 114], true)
  else if m = 31 ∧ b = cG then ([71, 114, 101, 101, 110], true)
  else if m = 31 ∧ b = cA then ([65, 109, 98, 101, 114], true)
  else if m = 31 ∧ b = cR then ([82, 101, 100], true)
  else ([b], true)

/-- `V4.String` -/
def print4 (v : Vec) : Bytes :=
  v4Prefix ++ marshalGroups v4Names (v4GetString v) [(0, 11), (11, 12), (12, 26), (26, 32)]

/-- `V4.getScore` -/
def v4ScoreByte (v : Vec) (m : Nat) : Nat :=
  let b := v.get m
  if 11 ≤ m ∧ (b = 0 ∨ b = cX) then
    if 15 ≤ m ∧ m ≤ 25 then v.get (m - 15)
    else if m = 11 then cA
    else if m = 12 ∨ m = 13 ∨ m = 14 then cH
    else cX
  else b

/-- `V4.macrovector`: the levels of EQ1..EQ6 -/
def v4Macro (v : Vec) : List Nat :=
  let g := v4ScoreByte v
  let eq1 : Nat :=
    if g 0 = cN ∧ g 3 = cN ∧ g 4 = cN then 0
    else if (g 0 = cN ∨ g 3 = cN ∨ g 4 = cN) ∧ g 0 ≠ cP then 1 else 2
  let eq2 : Nat := if g 1 = cL ∧ g 2 = cN then 0 else 1
  let eq3 : Nat :=
    if g 5 = cH ∧ g 6 = cH then 0
    else if g 5 = cH ∨ g 6 = cH ∨ g 7 = cH then 1 else 2
  let eq4 : Nat :=
    if g 24 = cS ∨ g 25 = cS then 0
    else if g 8 = cH ∨ g 9 = cH ∨ g 10 = cH then 1 else 2
  let eq5 : Nat := if g 11 = cA ∨ g 11 = cX then 0 else if g 11 = cP then 1 else 2
  let eq6 : Nat :=
    if (g 12 = cH ∧ g 5 = cH) ∨ (g 13 = cH ∧ g 6 = cH) ∨ (g 14 = cH ∧ g 7 = cH) then 0 else 1
  [eq1, eq2, eq3, eq4, eq5, eq6]

def lookupMv : List (List Nat × Int) → List Nat → Option Int
  | [], _ => none
  | (k, s) :: rest, mv => if k = mv then some s else lookupMv rest mv

/-- `scoreData.macrovectorScore[mv]` (score*10), `none` when the key is absent -/
def v4MvScore (mv : List Nat) : Option Int := lookupMv v4MacrovectorScore mv

/-- the shortcut of `V4.Score`: all six impact metrics of the vector are N -/
def v4NoBaseImpact (v : Vec) : Bool :=
  v.get 5 = cN ∧ v.get 8 = cN ∧ v.get 6 = cN ∧ v.get 9 = cN ∧ v.get 7 = cN ∧ v.get 10 = cN

def bump (mv : List Nat) (i : Nat) : List Nat := mv.set i (mv.getD i 0 + 1)

/-- MSD of one equivalence class (`none` = NaN); `i = 5` is the combined EQ3+6 -/
def v4Msd (cur : List Nat) (value : Q) (i : Nat) : Option Q :=
  let sc (mv : List Nat) : Option Q := (v4MvScore mv).map tenth
  let s : Option Q :=
    if i = 5 then
      let e3 := cur.getD 2 0
      let e6 := cur.getD 5 0
      if (e3 = 1 ∧ e6 = 1) ∨ (e3 = 0 ∧ e6 = 1) then sc (bump cur 2)
      else if e3 = 1 ∧ e6 = 0 then sc (bump cur 5)
      else if e3 = 0 ∧ e6 = 0 then
        match sc (bump cur 2), sc (bump cur 5) with
        | some a, some b => some (Q.max a b)
        | _, _ => none
      else sc (bump (bump cur 2) 5)
    else sc (bump cur i)
  s.map fun s => value - s

/-- index into `maxFrag` / `eqDepth` (`scorecalc.ForEach`) -/
def v4EqIdx (cur : List Nat) (i : Nat) : Nat :=
  if i = 5 then cur.getD 5 0 + cur.getD 2 0 * 2 else cur.getD i 0

def v4Frags (cur : List Nat) (i : Nat) : List (List Nat) := ((v4MaxFrag.getD i []).getD (v4EqIdx cur i) [])

/-- `compose`: defined bytes of `f` overwrite -/
def composeMv : List Nat → List Nat → List Nat
  | a :: as, b :: bs => (if b = 0 then a else b) :: composeMv as bs
  | as, [] => as
  | [], _ => []

def v4ScoreMetrics : List Nat := [0, 3, 4, 1, 2, 5, 6, 7, 8, 9, 10, 12, 13, 14]

def idxOrNeg (b : Nat) (s : Bytes) : Int :=
  match indexByte b s with
  | none => -1
  | some i => (i : Int)

/-- `vecdiff` for one metric -/
def v4Diff (a b : Vec) (m : Nat) : Int :=
  let s0 := v4Valid.getD m []
  let s := if m = 9 ∨ m = 10 then cS :: s0 else s0
  idxOrNeg (v4ScoreByte a m) s - idxOrNeg (v4ScoreByte b m) s

/-- the first combination of maximal fragments that dominates `v`, as the
    list of per-metric differences (in `v4ScoreMetrics` order) -/
def v4FindUpper (v : Vec) (cur : List Nat) : Option (List Int) :=
  let cands : List (List Nat) :=
    (v4Frags cur 0).flatMap fun f1 =>
    (v4Frags cur 1).flatMap fun f2 =>
    (v4Frags cur 3).flatMap fun f4 =>
    (v4Frags cur 4).flatMap fun f5 =>
    (v4Frags cur 5).map fun f36 =>
      composeMv (composeMv (composeMv (composeMv (composeMv (List.replicate 32 0) f1) f2) f4) f5) f36
  let diffs := cands.map fun u => v4ScoreMetrics.map (v4Diff v ⟨0, u⟩)
  diffs.find? fun d => d.all (fun x => decide (0 ≤ x))

def sumAt (d : List Int) (idxs : List Nat) : Int := (idxs.map fun i => d.getD i 0).foldl (· + ·) 0

/-- Dist per equivalence class from the difference list -/
def v4Dist (d : Option (List Int)) (i : Nat) : Int :=
  match d with
  | none => 0
  | some d =>
    if i = 0 then sumAt d [0, 1, 2]
    else if i = 1 then sumAt d [3, 4]
    else if i = 3 then sumAt d [8, 9, 10]
    else if i = 5 then sumAt d [5, 6, 7, 11, 12, 13]
    else 0

def v4PropDist (cur : List Nat) (value : Q) (d : Option (List Int)) (i : Nat) : Option Q :=
  match v4Msd cur value i, (v4EqDepth.getD i []).getD (v4EqIdx cur i) none with
  | some msd, some depth => some (msd * Q.mk (v4Dist d i) depth.toNat)
  | _, _ => none

def v4Mean (ps : List (Option Q)) : Q :=
  let xs := ps.filterMap id
  if xs.isEmpty then Q.ofInt 0
  else (xs.foldl (· + ·) (Q.ofInt 0)) * Q.mk 1 xs.length

/-- the clamp and rounding at the end of `V4.Score`: the exact value before
    rounding, times ten -/
def v4Clamp (value mean : Q) : Q := Q.min (Q.max (value - mean) (Q.ofInt 0)) ten * ten

/-- `V4.Score`: (score*10, the exact clamped value*10 before `math.Round`) -/
def score4x (v : Vec) : Int × Q :=
  if v4NoBaseImpact v then (0, Q.ofInt 0) else
  let cur := v4Macro v
  let value := tenth ((v4MvScore cur).getD 0)
  let d := v4FindUpper v cur
  let mean := v4Mean ([0, 1, 3, 4, 5].map (v4PropDist cur value d))
  let x := v4Clamp value mean
  (Q.roundHalfAway x, x)

def score4 (v : Vec) : Int := (score4x v).1

/-! ### updater/osv/cvss.go -/

/-- `strconv.ParseInt(s, 10, 32)` succeeds -/
def parseInt32Ok (s : Bytes) : Bool :=
  let (neg, digits) := match s with
    | 43 :: r => (false, r)
    | 45 :: r => (true, r)
    | r => (false, r)
  if digits.isEmpty ∨ ¬ digits.all (fun c => decide (48 ≤ c ∧ c ≤ 57)) then false
  else
    let val := digits.foldl (fun acc c => acc * 10 + (c - 48)) 0
    if neg then decide (val ≤ 2147483648) else decide (val ≤ 2147483647)

def lookupBytes {α : Type} : List (Bytes × α) → Bytes → Option α
  | [], _ => none
  | (k, x) :: rest, key => if k = key then some x else lookupBytes rest key

/-- the metric loop of `fromCVSS3` / `fromCVSS2`: the `ns` array (weights
    scaled by 1000), `none` on any "bad metric" error -/
def osvFill (W : List (Bytes × Nat × List (Bytes × Int))) (ignored : List Bytes) :
    List Bytes → List Int → Option (List Int)
  | [], ns => some ns
  | m :: ms, ns =>
    match cut cColon m with
    | none => none
    | some (n, val) =>
      match lookupBytes W n with
      | some (slot, vals) =>
        match lookupBytes vals val with
        | none => none
        | some w => osvFill W ignored ms (ns.set slot w)
      | none => if ignored.contains n then osvFill W ignored ms ns else none

/-- "CVSS:3" -/
def osv3Prefix : Bytes := [67, 86, 83, 83, 58, 51]

/-- the arithmetic of `fromCVSS3` once `ns` is filled: the (exact) score it
    classifies.  Note the code's Roundup: `((float64(i) / 10_000) + 1) / 10.0`
    is not floored. -/
def osv3Core (ns : List Int) : Q :=
  let g (i : Nat) : Int := ns.getD i 0
  let changed := g 4 ≠ 0
  let pr : Int := if changed ∧ g 2 = 620 then 680 else if changed ∧ g 2 = 270 then 500 else g 2
  let iss := one - ((one - milli (g 5)) * (one - milli (g 6)) * (one - milli (g 7)))
  let imp : Q :=
    if changed then Q.dec 752 100 * (iss - Q.dec 29 1000) - Q.dec 325 100 * Q.pow (iss - Q.dec 2 100) 15
    else iss * Q.dec 642 100
  if Q.lt (Q.ofInt 0) imp then
    let exp := Q.dec 822 100 * milli (g 0) * milli (g 1) * milli pr * milli (g 3)
    let s0 := exp + imp
    let s1 := if changed then s0 * Q.dec 108 100 else s0
    let s2 := Q.min s1 ten
    let i := Q.trunc (s2 * Q.ofInt 100000)
    if i % 10000 = 0 then Q.mk i 100000
    else (Q.mk i 10000 + one) * Q.mk 1 10
  else Q.ofInt 0

/-- the score `fromCVSS3` classifies (exact), `none` = an error return -/
def osv3Score (s : Bytes) : Option Q :=
  match splitOn cSlash (trimRightSlash s) with
  | [] => none
  | label :: ms =>
    if ¬ isPrefix osv3Prefix label then none
    else if label.length < 8 then none
    else if ¬ parseInt32Ok (label.drop 7) then none
    else if ms.length + 1 < 9 then none
    else
      match osvFill osv3Weights osv3Ignored ms (List.replicate 8 0) with
      | none => none
      | some ns => some (osv3Core ns)

/-- a band switch on an exact score -/
def bandOfQ : List (Nat × Int × Nat) → Option Nat → Q → Option Nat
  | [], dflt, _ => dflt
  | (op, bound, val) :: cs, dflt, x =>
    let b := tenth bound
    if (op = 0 ∧ Q.le x b ∧ Q.le b x) ∨ (op = 1 ∧ Q.lt x b) ∨ (op = 2 ∧ Q.le x b) then some val
    else bandOfQ cs dflt x

/-- `fromCVSS3`: the claircore.Severity (0 Unknown … 5 Critical), `none` on error -/
def osv3 (s : Bytes) : Option Nat :=
  match osv3Score s with
  | none => none
  | some x => bandOfQ osv3Cases osv3Default x

/-- the arithmetic of `fromCVSS2` once `ns` is filled -/
def osv2Core (ns : List Int) : Q :=
  let g (i : Nat) : Q := milli (ns.getD i 0)
  let exploitability := Q.ofInt 20 * g 0 * g 1 * g 2
  let impact := Q.dec 1041 100 * (one - (one - g 3) * (one - g 4) * (one - g 5))
  let fImpact := if impact.isZero then Q.ofInt 0 else Q.dec 1176 1000
  let score := ((Q.dec 6 10 * impact) + (Q.dec 4 10 * exploitability) - Q.dec 15 10) * fImpact
  Q.min (tenth (Q.roundHalfAway (score * ten))) ten

def osv2Score (s : Bytes) : Option Q :=
  let ms := splitOn cSlash s
  if ms.length < 6 then none
  else
    match osvFill osv2Weights osv2Ignored ms (List.replicate 6 0) with
    | none => none
    | some ns => some (osv2Core ns)

/-- `fromCVSS2` -/
def osv2 (s : Bytes) : Option Nat :=
  match osv2Score s with
  | none => none
  | some x => bandOfQ osv2Cases osv2Default x

end ClairModel.Cvss
