/-
  C14 — severity normalisation.

  Every feed parser maps the source's severity string to a `claircore.Severity`
  with a `switch`; three shapes occur in the code:

  * `switch s { case "x": return … }`                     mode "exact"
  * `switch strings.ToLower(s) { case "x": return … }`    mode "lower"
  * `switch { case strings.EqualFold(s, "x"): … }`        mode "fold"

  The tables themselves are regenerated from the sources (Gen/Severity.lean);
  this file only says how a table is *applied*.  The OSV CVSS rating is a
  first-match band switch over the base score (in tenths).

  Core Lean only.
-/
namespace ClairModel.Feeds

/-- `unicode.ToLower` as far as it can matter for a comparison with an ASCII
    string: the only runes whose lower case is ASCII are `A`–`Z`, U+0130 (`İ` → `i`)
    and U+212A (Kelvin sign → `k`).  Every other rune stays non-ASCII, which is
    all the model needs of it. -/
def goLowerChar (c : Char) : Char :=
  if 'A' ≤ c ∧ c ≤ 'Z' then Char.ofNat (c.toNat + 32)
  else if c = Char.ofNat 0x130 then 'i'
  else if c = Char.ofNat 0x212A then 'k'
  else c

/-- Simple case folding as used by `strings.EqualFold`, as far as it can matter for
    a comparison with an ASCII string: `A`–`Z`, U+017F (long s) and U+212A (Kelvin). -/
def goFoldChar (c : Char) : Char :=
  if 'A' ≤ c ∧ c ≤ 'Z' then Char.ofNat (c.toNat + 32)
  else if c = Char.ofNat 0x17F then 's'
  else if c = Char.ofNat 0x212A then 'k'
  else c

/-- First entry with the given key, else the default (Go `switch`: first matching case). -/
def lookupL (t : List (List Char × Nat)) (d : Nat) (x : List Char) : Nat :=
  match t.find? (fun p => p.1 == x) with
  | some p => p.2
  | none => d

/-- How the case labels of a switch are compared: as written for "exact" and
    "lower" (the label is *not* lower-cased by the code), folded for "fold". -/
def codeKey (mode : String) (k : String) : List Char :=
  if mode == "fold" then k.toList.map goFoldChar else k.toList

/-- What the switch compares the labels with. -/
def codePoint (mode : String) (s : String) : List Char :=
  if mode == "exact" then s.toList
  else if mode == "lower" then s.toList.map goLowerChar
  else s.toList.map goFoldChar

/-- The severity a parser's switch assigns to the source string `s`. -/
def normalize (mode : String) (t : List (String × Nat)) (d : Nat) (s : String) : Nat :=
  lookupL (t.map fun p => (codeKey mode p.1, p.2)) d (codePoint mode s)

/-- How a documented string is read when the code compares case-insensitively:
    with the same folding (so `Low` in the RHEL table documents `low`, `LOW`, …). -/
def docKey (mode : String) (k : String) : List Char :=
  if mode == "exact" then k.toList
  else if mode == "lower" then k.toList.map goLowerChar
  else k.toList.map goFoldChar

/-- Rows of a documented table other than the catch-all `*` row. -/
def docRows (doc : List (String × Nat)) : List (String × Nat) := doc.filter fun p => p.1 != "*"

/-- The documented value for "any other string": the `*` row, else Unknown (0). -/
def docDefault (doc : List (String × Nat)) : Nat :=
  match doc.find? (fun p => p.1 == "*") with
  | some p => p.2
  | none => 0

/-- The documented severity of the source string `s`. -/
def docLookup (mode : String) (doc : List (String × Nat)) (s : String) : Nat :=
  lookupL ((docRows doc).map fun p => (docKey mode p.1, p.2)) (docDefault doc) (codePoint mode s)

/-- Decidable agreement of two tables on every key either mentions, and on the default. -/
def tablesAgree (a : List (List Char × Nat)) (da : Nat) (b : List (List Char × Nat)) (db : Nat) : Bool :=
  da == db && (a ++ b).all fun p => lookupL a da p.1 == lookupL b db p.1

/-- One comparison of the rating switch (`score == b`, `score < b`, `score <= b`), in tenths. -/
def bandHolds (op : String) (b k : Nat) : Bool :=
  if op == "==" then k == b else if op == "<" then k < b else if op == "<=" then k ≤ b else false

/-- The CVSS rating switch: first case that holds, `none` = the `default:` error. -/
def rate : List (String × Nat × Nat) → Nat → Option Nat
  | [], _ => none
  | (op, b, v) :: rest, k => if bandHolds op b k then some v else rate rest k

/-- The documented rating: the row whose score interval contains `k`. -/
def docRate : List (Nat × Nat × Nat) → Nat → Option Nat
  | [], _ => none
  | (lo, hi, v) :: rest, k => if lo ≤ k ∧ k ≤ hi then some v else docRate rest k

/-- Largest bound mentioned by a rating switch. -/
def bandsMax : List (String × Nat × Nat) → Nat
  | [] => 0
  | (_, b, _) :: rest => max b (bandsMax rest)

def docBandsMax : List (Nat × Nat × Nat) → Nat
  | [] => 0
  | (_, hi, _) :: rest => max hi (docBandsMax rest)

end ClairModel.Feeds
