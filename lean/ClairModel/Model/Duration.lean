/-
  C17 — duration.go: `claircore.Duration` is `time.Duration` with
  MarshalText = `time.Duration.String` and UnmarshalText = `time.ParseDuration`.
  Both are modelled here over `Int` (an int64 nanosecond count).

  `ParseDuration` multiplies the fraction by `unit/scale` in float64.  The
  model takes that one operation as a parameter `fracMul f unit k`
  (= uint64(float64(f) * (float64(unit) / 10^k))): the driver instantiates it
  with IEEE doubles, the theorems hold for every `fracMul` that is exact
  whenever 10^k divides the unit — which is the only case `String` produces.
  Core Lean only.
-/
import ClairModel.Lib.Bytes

namespace ClairModel.Duration
open ClairModel.Bytes

def two63 : Nat := 9223372036854775808

/-! ### time.Duration.String -/

/-- `p` decimal digits of `f`, most significant first (zero padded). -/
def padDigits : Nat → Nat → Bytes
  | 0, _ => []
  | p + 1, f => padDigits p (f / 10) ++ [48 + f % 10]

/-- drop trailing '0's -/
def trimZeros (l : Bytes) : Bytes := (l.reverse.dropWhile (· == 48)).reverse

/-- `fmtFrac`: ".digits" without trailing zeros, nothing when the fraction is 0. -/
def fmtFrac (f : Nat) (prec : Nat) : Bytes :=
  let ds := trimZeros (padDigits prec f)
  if ds.isEmpty then [] else 46 :: ds

def micro : Bytes := [194, 181]   -- "µ" U+00B5

def unitNs : Bytes := [110, 115]
def unitUs : Bytes := [194, 181, 115]   -- "µs", U+00B5
def unitMs : Bytes := [109, 115]
def unitS : Bytes := [115]
def unitM : Bytes := [109]
def unitH : Bytes := [104]

/-- The seconds group: `<secs%60>[.fraction]s`. -/
def secGroup (u : Nat) : Bytes := showNat (u / 1000000000 % 60) ++ (fmtFrac (u % 1000000000) 9 ++ (unitS ++ []))

/-- `Duration.format` of the magnitude `u` (nanoseconds). -/
def durationBody (u : Nat) : Bytes :=
  if u < 1000000000 then
    if u = 0 then showNat 0 ++ (unitS ++ [])
    else if u < 1000 then showNat u ++ (unitNs ++ [])
    else if u < 1000000 then showNat (u / 1000) ++ (fmtFrac (u % 1000) 3 ++ (unitUs ++ []))
    else showNat (u / 1000000) ++ (fmtFrac (u % 1000000) 6 ++ (unitMs ++ []))
  else
    let mins := u / 1000000000 / 60
    if mins = 0 then secGroup u
    else if mins / 60 = 0 then showNat (mins % 60) ++ (unitM ++ secGroup u)
    else showNat (mins / 60) ++ (unitH ++ (showNat (mins % 60) ++ (unitM ++ secGroup u)))

/-- `time.Duration(d).String()` -/
def durationString (d : Int) : Bytes :=
  if d < 0 then 45 :: durationBody d.natAbs else durationBody d.natAbs

/-! ### time.ParseDuration -/

/-- `leadingInt`: the leading digits as a number; `none` = overflow past 2^63. -/
def leadingInt : Nat → Bytes → Option (Nat × Bytes)
  | x, [] => some (x, [])
  | x, c :: cs =>
    if isDigit c then
      if x > two63 / 10 then none
      else
        let y := x * 10 + (c - 48)
        if y > two63 then none else leadingInt y cs
    else some (x, c :: cs)

/-- `leadingFraction`: value and number of the digits that were taken before
    overflow (`scale = 10^k`), and the rest after ALL the digits. -/
def leadingFraction : Nat → Nat → Bool → Bytes → Nat × Nat × Bytes
  | x, k, _, [] => (x, k, [])
  | x, k, ov, c :: cs =>
    if isDigit c then
      if ov then leadingFraction x k true cs
      else if x > (two63 - 1) / 10 then leadingFraction x k true cs
      else
        let y := x * 10 + (c - 48)
        if y > two63 then leadingFraction x k true cs else leadingFraction y (k + 1) false cs
    else (x, k, c :: cs)

/-- the unit: everything up to the next '.' or digit -/
def spanUnit : Bytes → Bytes × Bytes
  | [] => ([], [])
  | c :: cs => if c = 46 || isDigit c then ([], c :: cs) else
      let r := spanUnit cs
      (c :: r.1, r.2)

/-- `unitMap` -/
def unitOf (u : Bytes) : Option Nat :=
  if u = [110, 115] then some 1
  else if u = [117, 115] then some 1000
  else if u = [194, 181, 115] then some 1000          -- µs U+00B5
  else if u = [206, 188, 115] then some 1000          -- μs U+03BC
  else if u = [109, 115] then some 1000000
  else if u = [115] then some 1000000000
  else if u = [109] then some 60000000000
  else if u = [104] then some 3600000000000
  else none

/-- `(\.[0-9]*)?` : fraction value, number of digits counted into the scale,
    the rest, and whether any digit followed the point. -/
def parseFrac (s1 : Bytes) : Nat × Nat × Bytes × Bool :=
  match s1 with
  | 46 :: s2 =>
    let r := leadingFraction 0 0 false s2
    (r.1, r.2.1, r.2.2, r.2.2.length != s2.length)
  | _ => (0, 0, s1, false)

/-- One `[0-9]*(\.[0-9]*)?unit` group: its value in nanoseconds and what
    follows it (`none` = error). -/
def parseGroup (fracMul : Nat → Nat → Nat → Nat) (s : Bytes) : Option (Nat × Bytes) :=
  match s.head? with
  | none => none
  | some c =>
    if !(c = 46 || isDigit c) then none else
    match leadingInt 0 s with
    | none => none
    | some (v, s1) =>
      let pre := s1.length != s.length
      let fr := parseFrac s1
      if !pre && !fr.2.2.2 then none else
      let us := spanUnit fr.2.2.1
      if us.1.isEmpty then none else
      match unitOf us.1 with
      | none => none
      | some unit =>
        if v > two63 / unit then none else
        let v2 := if fr.1 > 0 then v * unit + fracMul fr.1 unit fr.2.1 else v * unit
        if fr.1 > 0 && v2 > two63 then none else some (v2, us.2)

/-- The loop over the groups; `d` is the sum so far (a uint64: two groups of
    2^63 wrap to 0, which the real code does not notice). -/
def parseLoop (fracMul : Nat → Nat → Nat → Nat) : Nat → Nat → Bytes → Option Nat
  | 0, _, _ => none
  | _ + 1, d, [] => some d
  | fuel + 1, d, c :: cs =>
    match parseGroup fracMul (c :: cs) with
    | none => none
    | some (v2, rest) =>
      let d' := (d + v2) % (2 * two63)
      if d' > two63 then none else parseLoop fracMul fuel d' rest

/-- `[-+]?` -/
def stripSign : Bytes → Bytes
  | 45 :: r => r
  | 43 :: r => r
  | s => s

/-- `time.ParseDuration` (`none` = error). -/
def parseDuration (fracMul : Nat → Nat → Nat → Nat) (s : Bytes) : Option Int :=
  let neg := s.head? == some 45
  let s1 := stripSign s
  if s1 = [48] then some 0
  else if s1 = [] then none
  else
    -- fuel: every group consumes at least two bytes, so this is never exhausted
    match parseLoop fracMul (s1.length + 4) 0 s1 with
    | none => none
    | some d =>
      if neg then some (-(d : Int))
      else if d > two63 - 1 then none else some (d : Int)

/-- The exact value of `f * unit / 10^k` when it is a whole number — what the
    float computation gives whenever `10^k` divides `unit`. -/
def fracMulExact (f unit k : Nat) : Nat := f * (unit / 10 ^ k)

/-- `Duration.UnmarshalText` into a receiver: a rejected text leaves it alone. -/
def durationUnmarshal (fracMul : Nat → Nat → Nat → Nat) (old : Int) (t : Bytes) : Int × Bool :=
  match parseDuration fracMul t with
  | some d => (d, true)
  | none => (old, false)

end ClairModel.Duration
