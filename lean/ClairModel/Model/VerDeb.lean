/-
  Model of github.com/knqyf263/go-deb-version as pinned by /repo's go.mod
  (v0.0.0-20190517075300-09fca494f03d, version.go): `NewVersion` with its
  validation, `compare` / `compareString` / `order` / `extract`,
  `Version.Compare`, `Version.String`.

  The library's `compare` is `for i := 0; ; i++ { … }` with no exit other
  than a difference: two different strings whose digit / non-digit parts are
  pairwise equal ("1.0" and "1.00") make it spin forever.  The model returns
  `none` for "does not return".

  Go's `int` results are modelled by their sign as `Ordering`.
  Strings are ASCII, as `List Char`.  Core Lean only.
-/
import ClairModel.Lib.Order
import ClairModel.Model.VerCommon

namespace ClairModel.VerDeb
open ClairModel.Order ClairModel.VerCommon

structure Version where
  epoch : Int
  upstream : Str
  revision : Str
  deriving DecidableEq, Repr

def upstreamSymbols : Str := ".-+~:_".toList
def revisionSymbols : Str := "+.~_".toList

/-- `verifyUpstreamVersion` -/
def validUpstream (s : Str) : Bool :=
  match s with
  | [] => false                                   -- "upstream_version is empty"
  | c :: _ =>
    isDigit c &&                                  -- "must start with digit"
    s.all fun x => isDigit x || isLetter x || upstreamSymbols.contains x

/-- `verifyDebianRevision` -/
def validRevision (s : Str) : Bool :=
  s.all fun x => isDigit x || isLetter x || revisionSymbols.contains x

/-- `NewVersion`; `none` = any of its errors. -/
def newVersion (ver : Str) : Option Version :=
  let ver := trimRight isSpace (trimLeft isSpace ver)            -- strings.TrimSpace
  let parsed : Option (Int × Str) :=
    match cut ':' ver with                                       -- SplitN(ver, ":", 2)
    | none => some (0, ver)
    | some (e, rest) =>
      match atoi e with
      | none => none                                             -- "epoch parse error"
      | some n => if n < 0 then none else some (n, rest)         -- "epoch is negative"
  match parsed with
  | none => none
  | some (epoch, rest) =>
    let (up, rev) : Str × Str :=
      match cutLast '-' rest with                                -- LastIndex(ver, "-")
      | some (u, r) => (u, r)
      | none => (rest, [])
    if !validUpstream up then none
    else if !validRevision rev then none
    else some { epoch := epoch, upstream := up, revision := rev }

def natStr (n : Nat) : Str := (toString n).toList

/-- `Version.String()` -/
def Version.toStr (v : Version) : Str :=
  (if v.epoch > 0 then natStr v.epoch.toNat ++ [':'] else []) ++ v.upstream ++
  (if v.revision ≠ [] then '-' :: v.revision else [])

/-- `order`: letters sort by code, `~` before everything (even the end, which
    counts 0), everything else after the letters. -/
def order (c : Char) : Int :=
  if isLetter c then (c.toNat : Int)
  else if c = '~' then -1
  else (c.toNat : Int) + 256

/-- `compareString`: position by position on `order`, the shorter string
    padded with 0.  (For different strings the Go loop always finds a
    difference, because `order` is injective and never 0 — see
    `Proofs/VerDeb.compareString_eq`.) -/
def compareString (s1 s2 : Str) : Ordering :=
  if s1 = s2 then .eq else lexCmpPad intCmp 0 (s1.map order) (s2.map order)

/-- Maximal runs of digits (`true`) and of non-digits (`false`), in order. -/
def runs : Str → List (Bool × Str)
  | [] => []
  | c :: cs =>
    match runs cs with
    | (d, r) :: rest => if d = isDigit c then (d, c :: r) :: rest else (isDigit c, [c]) :: (d, r) :: rest
    | [] => [(isDigit c, [c])]

/-- `strconv.Atoi` of a digit run with the error ignored: on overflow the
    value is `math.MaxInt64`. -/
def clampNum (ds : Str) : Nat :=
  let n := natOfDigits ds
  if n > 9223372036854775807 then 9223372036854775807 else n

/-- `extract`: the numbers and the non-digit strings; then `compare`
    prepends `""` to the strings when the text starts with a digit. -/
def numbers (s : Str) : List Nat := (runs s).filterMap fun (d, r) => if d then some (clampNum r) else none

def strings (s : Str) : List Str :=
  let ss := (runs s).filterMap fun (d, r) => if d then none else some r
  match s with
  | c :: _ => if isDigit c then [] :: ss else ss
  | [] => ss

/-- The `for i := 0; ; i++` loop of `compare`, `get(i)` being the head of the
    i-th tail with defaults `""` and `0`.  `fuel` bounds the iterations; the
    caller passes more than the longest list, after which all remaining
    comparisons are `"" = ""`, `0 = 0`: running out of fuel means the real loop
    never ends. -/
def cmpLoop : Nat → List Str → List Str → List Nat → List Nat → Option Ordering
  | 0, _, _, _, _ => none
  | fuel + 1, s1, s2, n1, n2 =>
    match compareString (s1.headD []) (s2.headD []) with
    | .eq =>
      match natCmp (n1.headD 0) (n2.headD 0) with
      | .eq => cmpLoop fuel s1.tail s2.tail n1.tail n2.tail
      | o => some o
    | o => some o

/-- `compare(v1, v2 string) int`; `none` = does not return. -/
def comparePart (v1 v2 : Str) : Option Ordering :=
  if v1 = v2 then some .eq else
  let s1 := strings v1; let s2 := strings v2
  let n1 := numbers v1; let n2 := numbers v2
  cmpLoop (s1.length + s2.length + n1.length + n2.length + 1) s1 s2 n1 n2

/-- `Version.Compare`; `none` = does not return. -/
def compare (v1 v2 : Version) : Option Ordering :=
  if v1 = v2 then some .eq                              -- reflect.DeepEqual
  else if v1.epoch > v2.epoch then some .gt
  else if v1.epoch < v2.epoch then some .lt
  else
    match comparePart v1.upstream v2.upstream with
    | none => none
    | some .eq => comparePart v1.revision v2.revision
    | some r => some r

end ClairModel.VerDeb
