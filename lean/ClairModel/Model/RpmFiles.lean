/-
  C06 — model of the file-name part of `Info.Load` (rpm/native_db.go): the
  `TagFilenames` arm, the loop over `basename` that indexes `dirindex` and
  `dirname` with values taken from the header (under a deferred `recover`),
  `path.Join`/`path.Clean`, and the `filePatterns` regular expression.
  Core Lean only.

  The regular expression is modelled alternative by alternative (the list of
  alternatives is regenerated from the source: Gen.Rpm.filePatterns, compared
  with `expectedPatterns` by a theorem).  Go's regexp steps through the text
  rune by rune; every construct of the six alternatives except one `.` stands
  next to ASCII bytes, where bytes and runes agree, and that one `.` (the
  unescaped dot of `package.json`) is modelled with Go's UTF-8 decoding.
-/
import ClairModel.Model.RpmHeader

namespace ClairModel.RpmFiles
open ClairModel.Gen
open ClairModel.RpmHeader (Entry Header Val readData)

abbrev Bytes := List UInt8

def slash : UInt8 := 47
def nl : UInt8 := 10

/-! ### path.Clean, path.Join -/

/-- `strings.Split(s, "/")` -/
def splitSlash : Bytes → Bytes → List Bytes
  | [], acc => [acc.reverse]
  | c :: cs, acc => if c == slash then acc.reverse :: splitSlash cs [] else splitSlash cs (c :: acc)

def joinSlash : List Bytes → Bytes
  | [] => []
  | [x] => x
  | x :: xs => x ++ slash :: joinSlash xs

def dotdot : Bytes := [46, 46]

/-- one path element against the stack of elements kept so far (top first):
    empty and "." are dropped, ".." removes the element before it, except at the
    root (dropped) and at the start of a relative path (kept) -/
def cleanStep (rooted : Bool) (stack : List Bytes) (c : Bytes) : List Bytes :=
  if c == [] || c == [46] then stack
  else if c == dotdot then
    match stack with
    | [] => if rooted then [] else [dotdot]
    | top :: rest => if !rooted && top == dotdot then dotdot :: stack else rest
  else c :: stack

/-- `path.Clean` -/
def clean (p : Bytes) : Bytes :=
  match p with
  | [] => [46]
  | c0 :: _ =>
    let rooted := c0 == slash
    let stack := (splitSlash p []).foldl (cleanStep rooted) []
    let out := joinSlash stack.reverse
    if rooted then slash :: out else if out.isEmpty then [46] else out

/-- `path.Join(dir, base)` -/
def join (dir base : Bytes) : Bytes :=
  if dir.isEmpty && base.isEmpty then []
  else if dir.isEmpty then clean base
  else clean (dir ++ slash :: base)

/-! ### utf8.DecodeRune: the width of the rune at the start of the bytes -/

def isCont (b : UInt8) : Bool := 0x80 ≤ b && b ≤ 0xBF

/-- 1 for ASCII and for every invalid or truncated sequence (Go yields
    U+FFFD, width 1), else the length of the well-formed sequence -/
def runeWidth : Bytes → Nat
  | [] => 0
  | b0 :: rest =>
    if b0 < 0x80 then 1
    else if b0 < 0xC2 then 1
    else if b0 ≤ 0xDF then
      match rest with
      | b1 :: _ => if isCont b1 then 2 else 1
      | _ => 1
    else if b0 ≤ 0xEF then
      match rest with
      | b1 :: b2 :: _ =>
        let lo : UInt8 := if b0 == 0xE0 then 0xA0 else 0x80
        let hi : UInt8 := if b0 == 0xED then 0x9F else 0xBF
        if lo ≤ b1 && b1 ≤ hi && isCont b2 then 3 else 1
      | _ => 1
    else if b0 ≤ 0xF4 then
      match rest with
      | b1 :: b2 :: b3 :: _ =>
        let lo : UInt8 := if b0 == 0xF0 then 0x90 else 0x80
        let hi : UInt8 := if b0 == 0xF4 then 0x8F else 0xBF
        if lo ≤ b1 && b1 ≤ hi && isCont b2 && isCont b3 then 4 else 1
      | _ => 1
    else 1

/-! ### filePatterns -/

def str (s : String) : Bytes := s.toUTF8.toList

def endsWith (s suf : Bytes) : Bool := suf.length ≤ s.length && s.drop (s.length - suf.length) == suf

def noNL (cs : List Bytes) : Bool := cs.all fun c => !c.contains nl

/-- `^.*/[^/]+SUF$` for a suffix without '/': the last path element ends with
    the suffix and is longer than it, there is a '/' before it and no newline
    before that '/' -/
def matchLastSuffix (s suf : Bytes) : Bool :=
  match (splitSlash s []).reverse with
  | last :: pre :: more => endsWith last suf && decide (suf.length < last.length) && noNL (pre :: more)
  | _ => false

/-- `^.*/site-packages/[^/]+\.egg-info/PKG-INFO$` -/
def matchEggInfo (s : Bytes) : Bool :=
  match (splitSlash s []).reverse with
  | l1 :: l2 :: l3 :: pre :: more =>
    l1 == str "PKG-INFO" && endsWith l2 (str ".egg-info") && decide ((str ".egg-info").length < l2.length) &&
    l3 == str "site-packages" && noNL (pre :: more)
  | _ => false

/-- `^.*/package.json$` for a dot that is `w` bytes wide -/
def matchPackageJsonW (s : Bytes) (w : Nat) : Bool :=
  let n := s.length
  decide (12 + w ≤ n) &&
  s.drop (n - 4) == str "json" &&
  (s.drop (n - 4 - w - 8)).take 8 == str "/package" &&
  runeWidth (s.drop (n - 4 - w)) == w &&
  (w != 1 || (s.drop (n - 5)).head? != some nl) &&
  !(s.take (n - 4 - w - 8)).contains nl

def matchPackageJson (s : Bytes) : Bool :=
  matchPackageJsonW s 1 || matchPackageJsonW s 2 || matchPackageJsonW s 3 || matchPackageJsonW s 4

/-- `^/usr/s?bin/[^/]+$` -/
def matchUsrBin (s : Bytes) : Bool :=
  match splitSlash s [] with
  | [a, b, c, d] => a.isEmpty && b == str "usr" && (c == str "bin" || c == str "sbin") && !d.isEmpty
  | _ => false

/-- `^/usr/libexec/[^/]+/[^/]+$` -/
def matchLibexec (s : Bytes) : Bool :=
  match splitSlash s [] with
  | [a, b, c, d, e] => a.isEmpty && b == str "usr" && c == str "libexec" && !d.isEmpty && !e.isEmpty
  | _ => false

/-- `filePatterns.MatchString` -/
def filePattern (s : Bytes) : Bool :=
  matchLastSuffix s (str ".jar") || matchEggInfo s || matchPackageJson s ||
  matchLastSuffix s (str ".gemspec") || matchUsrBin s || matchLibexec s

/-- the alternatives `filePattern` is a model of -/
def expectedPatterns : List String := [
  "^.*/[^/]+\\.jar$",
  "^.*/site-packages/[^/]+\\.egg-info/PKG-INFO$",
  "^.*/package.json$",
  "^.*/[^/]+\\.gemspec$",
  "^/usr/s?bin/[^/]+$",
  "^/usr/libexec/[^/]+/[^/]+$"]

/-! ### the arrays collected by the first loop of `Info.Load` -/

structure Arrays where
  dirnames : List Bytes := []
  basenames : List Bytes := []
  dirindexes : List Int := []
  /-- `i.Filenames` as the `TagFilenames` arm leaves it -/
  files : List Bytes := []
  deriving Repr, DecidableEq

/-- the `TagFilenames` arm: names that are not empty and do NOT match are
    recorded without their first byte -/
def filenamesArm (names : List Bytes) : List Bytes :=
  (names.filter fun n => !n.isEmpty && !filePattern n).map (·.drop 1)

/-- the four arms of the first loop that feed the file names (the loop is only
    replayed for headers `Info.Load` got through without an error) -/
def collect (data : Bytes) : List Entry → Arrays → Arrays
  | [], a => a
  | e :: es, a =>
    if !Rpm.wantTags.contains e.tag then collect data es a else
    match readData data e with
    | some (.strs ss) =>
      if e.tag == 1118 then collect data es { a with dirnames := ss }
      else if e.tag == 1117 then collect data es { a with basenames := ss }
      else if e.tag == 5000 then collect data es { a with files := a.files ++ filenamesArm ss }
      else collect data es a
    | some (.i32s vs) =>
      if e.tag == 1116 then collect data es { a with dirindexes := vs } else collect data es a
    | _ => collect data es a

/-- the loop `for j := range basename`: `none` = an index was out of range
    (Go panics) -/
def fileLoop (dirnames : List Bytes) (dirindexes : List Int) : List Bytes → Nat → List Bytes → Option (List Bytes)
  | [], _, acc => some acc
  | b :: bs, j, acc =>
    match dirindexes[j]? with
    | none => none
    | some ix =>
      if ix < 0 then none else
      match dirnames[ix.toNat]? with
      | none => none
      | some d =>
        let name := join d b
        fileLoop dirnames dirindexes bs (j + 1) (if filePattern name then acc ++ [name.drop 1] else acc)

inductive FilesOut
  | panic                      -- the index panic escapes `Info.Load`
  | files (fs : List Bytes)
  deriving Repr, DecidableEq

/-- `i.Filenames` after `Info.Load`; with the deferred `recover` in place an
    index panic leaves it nil -/
def fileNamesOf (underRecover : Bool) (a : Arrays) : FilesOut :=
  match fileLoop a.dirnames a.dirindexes a.basenames 0 a.files with
  | some fs => .files fs
  | none => if underRecover then .files [] else .panic

def fileNames (h : Header) : FilesOut :=
  fileNamesOf Rpm.fileLoopUnderRecover (collect h.data h.entries {})

end ClairModel.RpmFiles
