/-
  C04 — the vulnerability join itself.

    Rec      an IndexRecord: package, optional distribution, optional repository
    Vuln     a row of the `vuln` table as `updateVulnerabilities` writes it
    FExpr.eval   a matcher's Filter on a record (Gen/JoinMatchers)
    getQuery     the conjunction `buildGetQuery` builds for a record and a
                 constraint list, evaluated on a row (the switch, the column
                 names and the INSERT column map come from Gen/JoinQuery)
    reported     internal/matcher/controller.go: Filter, query, optional
                 version filtering, then Vulnerable unless authoritative

  `none`/`panic` outcomes stand for a nil dereference in the Go code
  (`record.Distribution.DID` with a nil Distribution, `Package.Source.Name`
  with a nil Source).  Core Lean only.
-/
import ClairModel.Model.JoinStr
import ClairModel.Gen.JoinQuery
import ClairModel.Gen.JoinMatchers

namespace ClairModel.Join
open ClairModel.Gen

structure Pkg where
  name : Bytes := []
  kind : Bytes := []
  module : Bytes := []
  arch : Bytes := []
  /-- `Package.Source` (name, kind); `none` = nil pointer -/
  src : Option (Bytes × Bytes) := some ([], [])
  /-- `NormalizedVersion.Kind` -/
  normKind : Bytes := []
  deriving Repr, BEq, DecidableEq

structure Rec where
  pkg : Pkg := {}
  dist : Option Dist := none
  repo : Option Repo := none
  deriving Repr, BEq, DecidableEq

/-- A row of `vuln`.  `dist`/`repo` are the zero values when the
    vulnerability had none; `versionKind = none` when it had no Range (NULL). -/
structure Vuln where
  pkgName : Bytes := []
  pkgKind : Bytes := []
  pkgModule : Bytes := []
  pkgArch : Bytes := []
  dist : Dist := {}
  repo : Repo := {}
  fixedIn : Bytes := []
  versionKind : Option Bytes := none
  deriving Repr, BEq, DecidableEq

/-! ### Go selector paths → fields

  The generated tables name fields by their Go selector path.  A path is
  decoded to a constructor once (`decodeRec`, `decodeVuln`, evaluated by the
  kernel on the concrete paths of the tables); the meaning of a constructor
  is a projection. -/

inductive DField where
  | did | name | version | versionCodeName | versionID | arch | cpe | prettyName
  deriving Repr, BEq, DecidableEq

inductive RpField where
  | name | key | uri
  deriving Repr, BEq, DecidableEq

/-- Fields of an IndexRecord the query builder or a Filter reads. -/
inductive RField where
  | pkgName | pkgKind | pkgModule | pkgArch | srcName | srcKind | normKind
  | dist (f : DField)
  | repo (f : RpField)
  deriving Repr, BEq, DecidableEq

/-- Fields of a Vulnerability stored in a column. -/
inductive VField where
  | pkgName | pkgKind | pkgModule | pkgArch | fixedIn
  | dist (f : DField)
  | repo (f : RpField)
  deriving Repr, BEq, DecidableEq

def DField.get : DField → Dist → Bytes
  | .did, d => d.did
  | .name, d => d.name
  | .version, d => d.version
  | .versionCodeName, d => d.versionCodeName
  | .versionID, d => d.versionID
  | .arch, d => d.arch
  | .cpe, d => d.cpe
  | .prettyName, d => d.prettyName

def RpField.get : RpField → Repo → Bytes
  | .name, r => r.name
  | .key, r => r.key
  | .uri, r => r.uri

def decodeDist (f : Bytes) : Option DField :=
  if f == [68, 73, 68] then some .did
  else if f == [78, 97, 109, 101] then some .name
  else if f == [86, 101, 114, 115, 105, 111, 110] then some .version
  else if f == [86, 101, 114, 115, 105, 111, 110, 67, 111, 100, 101, 78, 97, 109, 101] then some .versionCodeName
  else if f == [86, 101, 114, 115, 105, 111, 110, 73, 68] then some .versionID
  else if f == [65, 114, 99, 104] then some .arch
  else if f == [67, 80, 69] then some .cpe
  else if f == [80, 114, 101, 116, 116, 121, 78, 97, 109, 101] then some .prettyName
  else none

def decodeRepo (f : Bytes) : Option RpField :=
  if f == [78, 97, 109, 101] then some .name
  else if f == [75, 101, 121] then some .key
  else if f == [85, 82, 73] then some .uri
  else none

/-- Split `A.B.C` into `A` and `B.C`. -/
def splitPath (p : Bytes) : Bytes × Bytes :=
  match ClairModel.Bytes.cut 46 p with
  | some (a, b) => (a, b)
  | none => (p, [])

/-- `record.<path>` -/
def decodeRec (path : Bytes) : Option RField :=
  let (h, t) := splitPath path
  if h == [80, 97, 99, 107, 97, 103, 101] then                        -- Package
    if t == [78, 97, 109, 101] then some .pkgName
    else if t == [75, 105, 110, 100] then some .pkgKind
    else if t == [77, 111, 100, 117, 108, 101] then some .pkgModule
    else if t == [65, 114, 99, 104] then some .pkgArch
    else if t == [83, 111, 117, 114, 99, 101, 46, 78, 97, 109, 101] then some .srcName
    else if t == [83, 111, 117, 114, 99, 101, 46, 75, 105, 110, 100] then some .srcKind
    else if t == [78, 111, 114, 109, 97, 108, 105, 122, 101, 100, 86, 101, 114, 115, 105, 111, 110, 46, 75, 105, 110, 100] then some .normKind
    else none
  else if h == [68, 105, 115, 116, 114, 105, 98, 117, 116, 105, 111, 110] then (decodeDist t).map .dist
  else if h == [82, 101, 112, 111, 115, 105, 116, 111, 114, 121] then (decodeRepo t).map .repo
  else none

/-- `vuln.<path>` as `updateVulnerabilities` names it. -/
def decodeVuln (path : Bytes) : Option VField :=
  let (h, t) := splitPath path
  if h == [80, 97, 99, 107, 97, 103, 101] then
    if t == [78, 97, 109, 101] then some .pkgName
    else if t == [75, 105, 110, 100] then some .pkgKind
    else if t == [77, 111, 100, 117, 108, 101] then some .pkgModule
    else if t == [65, 114, 99, 104] then some .pkgArch
    else none
  else if h == [68, 105, 115, 116] then (decodeDist t).map .dist
  else if h == [82, 101, 112, 111] then (decodeRepo t).map .repo
  else if path == [70, 105, 120, 101, 100, 73, 110, 86, 101, 114, 115, 105, 111, 110] then some .fixedIn
  else none

inductive FieldVal where
  | unknown            -- not a path of the record type
  | nilDeref           -- Go would panic
  | val (b : Bytes)
  deriving Repr, BEq, DecidableEq

def RField.get : RField → Rec → FieldVal
  | .pkgName, r => .val r.pkg.name
  | .pkgKind, r => .val r.pkg.kind
  | .pkgModule, r => .val r.pkg.module
  | .pkgArch, r => .val r.pkg.arch
  | .srcName, r => (match r.pkg.src with | none => .nilDeref | some x => .val x.1)
  | .srcKind, r => (match r.pkg.src with | none => .nilDeref | some x => .val x.2)
  | .normKind, r => .val r.pkg.normKind
  | .dist f, r => (match r.dist with | none => .nilDeref | some d => .val (f.get d))
  | .repo f, r => (match r.repo with | none => .nilDeref | some x => .val (f.get x))

/-- `updateVulnerabilities` replaces a nil Dist/Repo by the zero value, so
    every field has a value. -/
def VField.get : VField → Vuln → Bytes
  | .pkgName, v => v.pkgName
  | .pkgKind, v => v.pkgKind
  | .pkgModule, v => v.pkgModule
  | .pkgArch, v => v.pkgArch
  | .fixedIn, v => v.fixedIn
  | .dist f, v => f.get v.dist
  | .repo f, v => f.get v.repo

def recField (path : Bytes) (r : Rec) : FieldVal :=
  match decodeRec path with
  | none => .unknown
  | some f => f.get r

/-- The field stored in a column of `vuln`, by the INSERT's column map. -/
def colField (col : Bytes) : Option VField :=
  match lookupFirst JoinQuery.insertColumns col with
  | none => none
  | some path => decodeVuln path

def rowCol (col : Bytes) (v : Vuln) : Option Bytes := (colField col).map (·.get v)

/-! ### Filter -/

/-- `some b`: the value; `none`: nil dereference (the process panics). -/
def FExpr.eval (r : Rec) : FExpr → Option Bool
  | .tt => some true
  | .ff => some false
  | .nonNil p =>
    if p == [68, 105, 115, 116, 114, 105, 98, 117, 116, 105, 111, 110] then some r.dist.isSome
    else if p == [82, 101, 112, 111, 115, 105, 116, 111, 114, 121] then some r.repo.isSome
    else if p == [80, 97, 99, 107, 97, 103, 101, 46, 83, 111, 117, 114, 99, 101] then some r.pkg.src.isSome
    else none
  | .eq p v => match recField p r with
    | .val x => some (x == v)
    | _ => none
  | .mem p vs => match recField p r with
    | .val x => some (vs.contains x)
    | _ => none
  | .and a b => match a.eval r with
    | some true => b.eval r
    | o => o
  | .or a b => match a.eval r with
    | some false => b.eval r
    | o => o
  | .not a => (a.eval r).map (!·)

/-! ### buildGetQuery -/

inductive QOut where
  | err        -- buildGetQuery returns an error (the record is skipped)
  | panic      -- nil dereference
  | ok (b : Bool)
  deriving Repr, BEq, DecidableEq

/-- `goqu.And(goqu.Ex{col: record.f}, …)` evaluated on a row. -/
def clauseHolds (cl : List (Bytes × Bytes)) (r : Rec) (v : Vuln) : QOut :=
  match cl with
  | [] => .ok true
  | (col, f) :: rest =>
    match recField f r, rowCol col v with
    | .val a, some b =>
      (match clauseHolds rest r v with
       | .ok t => .ok (a == b && t)
       | o => o)
    | .nilDeref, _ => .panic
    | _, _ => .err

def findCase (c : Bytes) : List QCase → Option QCase
  | [] => none
  | q :: qs => if q.constraint == c then some q else findCase c qs

/-- Is the part of the record a guarded constraint needs missing? -/
def guardedNil (c : Bytes) (r : Rec) : Bool :=
  JoinQuery.nilGuards.any fun g =>
    g.1 == c &&
      ((g.2 == [68, 105, 115, 116, 114, 105, 98, 117, 116, 105, 111, 110] && r.dist.isNone) ||
       (g.2 == [82, 101, 112, 111, 115, 105, 116, 111, 114, 121] && r.repo.isNone))

/-- What the loop body computes for one constraint not yet seen: the nil
    guards, then the switch. -/
def hereOut (c : Bytes) (r : Rec) (v : Vuln) : QOut :=
  if guardedNil c r then .err else
  match findCase c JoinQuery.switchCases with
  | none => .err
  | some q =>
    match q.field with
    | none => (match rowCol q.column v with
      | some x => .ok (!x.isEmpty)
      | none => .err)
    | some f => (match recField f r, rowCol q.column v with
      | .val a, some b => .ok (a == b)
      | .nilDeref, _ => .panic
      | _, _ => .err)

/-- The constraint loop; `seen` = constraints already handled (duplicates are skipped). -/
def constraintsHold (r : Rec) (v : Vuln) : List Bytes → List Bytes → QOut
  | [], _ => .ok true
  | c :: cs, seen =>
    if seen.contains c then constraintsHold r v cs seen else
    match hereOut c r v with
    | .ok t => (match constraintsHold r v cs (c :: seen) with
      | .ok t' => .ok (t && t')
      | o => o)
    | o => o

/-- Does the row satisfy the WHERE clause `buildGetQuery(record, {Matchers: cs,
    VersionFiltering: vf})` builds?  `inRange`: `vulnerable_range @> version`
    (evaluated by the database; an input here). -/
def getQuery (cs : List Bytes) (vf : Bool) (inRange : Bool) (r : Rec) (v : Vuln) : QOut :=
  match recField JoinQuery.nameGuard r with
  | .val [] => .err
  | .val _ =>
    (match clauseHolds JoinQuery.pkgClause r v with
     | .ok pk =>
       (let first : QOut :=
          match recField JoinQuery.srcGuard r with
          | .nilDeref => if JoinQuery.srcNilGuard then .ok pk else .panic
          | .unknown => .err
          | .val g =>
            if g.isEmpty then .ok pk else
            match clauseHolds JoinQuery.srcClause r v with
            | .ok sk => .ok (pk || sk)
            | o => o
        match first with
        | .ok f =>
          (match constraintsHold r v cs [] with
           | .ok t =>
             let ver := if vf then (v.versionKind == some r.pkg.normKind && inRange) else true
             .ok (f && t && ver)
           | o => o)
        | o => o)
     | o => o)
  | .nilDeref => .panic
  | .unknown => .err

/-! ### the controller -/

inductive Verdict where
  | notInterested
  | skipped          -- buildGetQuery returned an error for the record
  | panic
  | reported (b : Bool)
  deriving Repr, BEq, DecidableEq

/-- internal/matcher/controller.go for one record and one stored advisory.
    `opt`: the matcher's optional constraints are in force; `vulnerable`: the
    result of the matcher's `Vulnerable`. -/
def reported (m : MatcherT) (opt : Bool) (inRange vulnerable : Bool) (r : Rec) (v : Vuln) : Verdict :=
  match m.filter.eval r with
  | none => .panic
  | some false => .notInterested
  | some true =>
    let cs := if opt then m.query ++ m.queryOpt else m.query
    match getQuery cs m.versionFilter inRange r v with
    | .err => .skipped
    | .panic => .panic
    | .ok false => .reported false
    | .ok true => .reported (if m.versionFilter && m.authoritative then true else vulnerable)

/-- internal/matcher/controller.go for SEVERAL records of one package (one
    record per (package, repository) pair / environment) and one stored
    advisory.  Each record comes with its `inRange` and `Vulnerable` bits.
    `findInterested` keeps the records the Filter accepts; the store returns
    the advisory for the package if the query of ANY interested record selects
    it; `filter` then asks `Vulnerable` for EVERY interested record and
    appends the results, so the advisory is reported if any does. -/
def reportedMulti (m : MatcherT) (opt : Bool) (rs : List (Rec × Bool × Bool)) (v : Vuln) : Verdict :=
  if rs.any (fun x => m.filter.eval x.1 == none) then .panic else
  let interested := rs.filter fun x => m.filter.eval x.1 == some true
  if interested.isEmpty then .notInterested else
  let cs := if opt then m.query ++ m.queryOpt else m.query
  let qs := interested.map fun x => getQuery cs m.versionFilter x.2.1 x.1 v
  if qs.any (· == .panic) then .panic
  else if !qs.any (· == .ok true) then (if qs.all (· == .err) then .skipped else .reported false)
  else if m.versionFilter && m.authoritative then .reported true
  else .reported (interested.any fun x => x.2.2)

end ClairModel.Join
