/-
  C04 — the vulnerability join itself.

    Rec      an IndexRecord: package, optional distribution, optional repository
    Vuln     a row of the `vuln` table as `updateVulnerabilities` writes it
    FExpr.eval   a matcher's Filter on a record (Gen/JoinMatchers)
    getQuery     the conjunction `buildGetQuery` builds for a record and a
                 constraint list, evaluated on a row (the switch, the column
                 names and the INSERT column map come from Gen/JoinQuery)
    reported     internal/matcher/controller.go: Filter, query, optional
                 version filtering, then Vulnerable unless authoritative

  `none`/`panic` outcomes stand for a nil dereference in the Go code
  (`record.Distribution.DID` with a nil Distribution, `Package.Source.Name`
  with a nil Source).  Core Lean only.
-/
import ClairModel.Model.JoinStr
import ClairModel.Gen.JoinQuery
import ClairModel.Gen.JoinMatchers

namespace ClairModel.Join
open ClairModel.Gen

structure Pkg where
  name : Bytes := []
  kind : Bytes := []
  module : Bytes := []
  arch : Bytes := []
  /-- `Package.Source` (name, kind); `none` = nil pointer -/
  src : Option (Bytes × Bytes) := some ([], [])
  /-- `NormalizedVersion.Kind` -/
  normKind : Bytes := []
  deriving Repr, BEq, DecidableEq

structure Rec where
  pkg : Pkg := {}
  dist : Option Dist := none
  repo : Option Repo := none
  deriving Repr, BEq, DecidableEq

/-- A row of `vuln`.  `dist`/`repo` are the zero values when the
    vulnerability had none; `versionKind = none` when it had no Range (NULL). -/
structure Vuln where
  pkgName : Bytes := []
  pkgKind : Bytes := []
  pkgModule : Bytes := []
  pkgArch : Bytes := []
  dist : Dist := {}
  repo : Repo := {}
  fixedIn : Bytes := []
  versionKind : Option Bytes := none
  deriving Repr, BEq, DecidableEq

/-! ### Go selector paths → fields -/

def distField (f : Bytes) (d : Dist) : Option Bytes :=
  if f == [68, 73, 68] then some d.did                                   -- DID
  else if f == [78, 97, 109, 101] then some d.name                         -- Name
  else if f == [86, 101, 114, 115, 105, 111, 110] then some d.version      -- Version
  else if f == [86, 101, 114, 115, 105, 111, 110, 67, 111, 100, 101, 78, 97, 109, 101] then some d.versionCodeName
  else if f == [86, 101, 114, 115, 105, 111, 110, 73, 68] then some d.versionID
  else if f == [65, 114, 99, 104] then some d.arch
  else if f == [67, 80, 69] then some d.cpe
  else if f == [80, 114, 101, 116, 116, 121, 78, 97, 109, 101] then some d.prettyName
  else none

def repoField (f : Bytes) (r : Repo) : Option Bytes :=
  if f == [78, 97, 109, 101] then some r.name
  else if f == [75, 101, 121] then some r.key
  else if f == [85, 82, 73] then some r.uri
  else none

/-- Split `A.B.C` into `A` and `B.C`. -/
def splitPath (p : Bytes) : Bytes × Bytes :=
  match ClairModel.Bytes.cut 46 p with
  | some (a, b) => (a, b)
  | none => (p, [])

inductive FieldVal where
  | unknown            -- not a path of the record type
  | nilDeref           -- Go would panic
  | val (b : Bytes)
  deriving Repr, BEq, DecidableEq

/-- `record.<path>` -/
def recField (path : Bytes) (r : Rec) : FieldVal :=
  let (h, t) := splitPath path
  if h == [80, 97, 99, 107, 97, 103, 101] then                        -- Package
    if t == [78, 97, 109, 101] then .val r.pkg.name
    else if t == [75, 105, 110, 100] then .val r.pkg.kind
    else if t == [77, 111, 100, 117, 108, 101] then .val r.pkg.module
    else if t == [65, 114, 99, 104] then .val r.pkg.arch
    else if t == [83, 111, 117, 114, 99, 101, 46, 78, 97, 109, 101] then       -- Source.Name
      match r.pkg.src with | none => .nilDeref | some x => .val x.1
    else if t == [83, 111, 117, 114, 99, 101, 46, 75, 105, 110, 100] then      -- Source.Kind
      match r.pkg.src with | none => .nilDeref | some x => .val x.2
    else if t == [78, 111, 114, 109, 97, 108, 105, 122, 101, 100, 86, 101, 114, 115, 105, 111, 110, 46, 75, 105, 110, 100] then
      .val r.pkg.normKind
    else .unknown
  else if h == [68, 105, 115, 116, 114, 105, 98, 117, 116, 105, 111, 110] then   -- Distribution
    match r.dist with
    | none => .nilDeref
    | some d => match distField t d with | some v => .val v | none => .unknown
  else if h == [82, 101, 112, 111, 115, 105, 116, 111, 114, 121] then             -- Repository
    match r.repo with
    | none => .nilDeref
    | some x => match repoField t x with | some v => .val v | none => .unknown
  else .unknown

/-- `vuln.<path>` as `updateVulnerabilities` reads it (nil Dist/Repo already
    replaced by the zero values). -/
def vulnField (path : Bytes) (v : Vuln) : Option Bytes :=
  let (h, t) := splitPath path
  if h == [80, 97, 99, 107, 97, 103, 101] then
    if t == [78, 97, 109, 101] then some v.pkgName
    else if t == [75, 105, 110, 100] then some v.pkgKind
    else if t == [77, 111, 100, 117, 108, 101] then some v.pkgModule
    else if t == [65, 114, 99, 104] then some v.pkgArch
    else none
  else if h == [68, 105, 115, 116] then distField t v.dist                 -- Dist
  else if h == [82, 101, 112, 111] then repoField t v.repo                 -- Repo
  else if path == [70, 105, 120, 101, 100, 73, 110, 86, 101, 114, 115, 105, 111, 110] then some v.fixedIn
  else none

/-- The value stored in a column of `vuln`, by the INSERT's column map. -/
def rowCol (col : Bytes) (v : Vuln) : Option Bytes :=
  match lookupFirst JoinQuery.insertColumns col with
  | none => none
  | some path => vulnField path v

/-! ### Filter -/

/-- `some b`: the value; `none`: nil dereference (the process panics). -/
def FExpr.eval (r : Rec) : FExpr → Option Bool
  | .tt => some true
  | .ff => some false
  | .nonNil p =>
    if p == [68, 105, 115, 116, 114, 105, 98, 117, 116, 105, 111, 110] then some r.dist.isSome
    else if p == [82, 101, 112, 111, 115, 105, 116, 111, 114, 121] then some r.repo.isSome
    else if p == [80, 97, 99, 107, 97, 103, 101, 46, 83, 111, 117, 114, 99, 101] then some r.pkg.src.isSome
    else none
  | .eq p v => match recField p r with
    | .val x => some (x == v)
    | _ => none
  | .mem p vs => match recField p r with
    | .val x => some (vs.contains x)
    | _ => none
  | .and a b => match a.eval r with
    | some true => b.eval r
    | o => o
  | .or a b => match a.eval r with
    | some false => b.eval r
    | o => o
  | .not a => (a.eval r).map (!·)

/-! ### buildGetQuery -/

inductive QOut where
  | err        -- buildGetQuery returns an error (the record is skipped)
  | panic      -- nil dereference
  | ok (b : Bool)
  deriving Repr, BEq, DecidableEq

/-- `goqu.And(goqu.Ex{col: record.f}, …)` evaluated on a row. -/
def clauseHolds (cl : List (Bytes × Bytes)) (r : Rec) (v : Vuln) : QOut :=
  match cl with
  | [] => .ok true
  | (col, f) :: rest =>
    match recField f r, rowCol col v with
    | .val a, some b =>
      (match clauseHolds rest r v with
       | .ok t => .ok (a == b && t)
       | o => o)
    | .nilDeref, _ => .panic
    | _, _ => .err

def findCase (c : Bytes) : List QCase → Option QCase
  | [] => none
  | q :: qs => if q.constraint == c then some q else findCase c qs

/-- One constraint of the list; `seen` = constraints already handled (duplicates are skipped). -/
def constraintsHold (r : Rec) (v : Vuln) : List Bytes → List Bytes → QOut
  | [], _ => .ok true
  | c :: cs, seen =>
    if seen.contains c then constraintsHold r v cs seen else
    match findCase c JoinQuery.switchCases with
    | none => .err
    | some q =>
      let here : QOut := match q.field with
        | none => (match rowCol q.column v with
          | some x => .ok (!x.isEmpty)
          | none => .err)
        | some f => (match recField f r, rowCol q.column v with
          | .val a, some b => .ok (a == b)
          | .nilDeref, _ => .panic
          | _, _ => .err)
      match here with
      | .ok t => (match constraintsHold r v cs (c :: seen) with
        | .ok t' => .ok (t && t')
        | o => o)
      | o => o

/-- Does the row satisfy the WHERE clause `buildGetQuery(record, {Matchers: cs,
    VersionFiltering: vf})` builds?  `inRange`: `vulnerable_range @> version`
    (evaluated by the database; an input here). -/
def getQuery (cs : List Bytes) (vf : Bool) (inRange : Bool) (r : Rec) (v : Vuln) : QOut :=
  match recField JoinQuery.nameGuard r with
  | .val [] => .err
  | .val _ =>
    (match clauseHolds JoinQuery.pkgClause r v with
     | .ok pk =>
       (match recField JoinQuery.srcGuard r with
        | .nilDeref => .panic
        | .unknown => .err
        | .val g =>
          let first : QOut :=
            if g.isEmpty then .ok pk else
            match clauseHolds JoinQuery.srcClause r v with
            | .ok sk => .ok (pk || sk)
            | o => o
          match first with
          | .ok f =>
            (match constraintsHold r v cs [] with
             | .ok t =>
               let ver := if vf then (v.versionKind == some r.pkg.normKind && inRange) else true
               .ok (f && t && ver)
             | o => o)
          | o => o)
     | o => o)
  | .nilDeref => .panic
  | .unknown => .err

/-! ### the controller -/

inductive Verdict where
  | notInterested
  | skipped          -- buildGetQuery returned an error for the record
  | panic
  | reported (b : Bool)
  deriving Repr, BEq, DecidableEq

/-- internal/matcher/controller.go for one record and one stored advisory.
    `opt`: the matcher's optional constraints are in force; `vulnerable`: the
    result of the matcher's `Vulnerable`. -/
def reported (m : MatcherT) (opt : Bool) (inRange vulnerable : Bool) (r : Rec) (v : Vuln) : Verdict :=
  match m.filter.eval r with
  | none => .panic
  | some false => .notInterested
  | some true =>
    let cs := if opt then m.query ++ m.queryOpt else m.query
    match getQuery cs m.versionFilter inRange r v with
    | .err => .skipped
    | .panic => .panic
    | .ok false => .reported false
    | .ok true => .reported (if m.versionFilter && m.authoritative then true else vulnerable)

end ClairModel.Join
