/-
  Model of rpm/native_db.go `packagesFromDB` after `Info.Load`: what package is
  reported for the information read from one header (EVR construction, module
  stream, source NEVR splitting with the shared source map, the `gpg-pubkey`
  skip, the "malformed NEVR" error).  The header blob decoding itself
  (rpm/internal/rpm) is C06's model; the database containers (sqlite, ndb,
  bdb) are third-party/other code, reached here only through the differential
  run.  Core Lean only.
-/
import ClairModel.Lib.Bytes

namespace ClairModel.RpmPkg
open ClairModel.Bytes

structure Info where
  name : Bytes
  epoch : Int
  version : Bytes
  release : Bytes
  sourceNEVR : Bytes
  module : Bytes
  arch : Bytes
  deriving DecidableEq, Repr

structure Src where
  name : Bytes
  version : Bytes
  module : Bytes
  deriving DecidableEq, Repr

structure Pkg where
  name : Bytes
  version : Bytes
  arch : Bytes
  module : Bytes
  src : Option Src
  deriving DecidableEq, Repr

def sGpgPubkey : Bytes := [103, 112, 103, 45, 112, 117, 98, 107, 101, 121]
def sNone : Bytes := [40, 110, 111, 110, 101, 41]
def sSrcRpm : Bytes := [46, 115, 114, 99, 46, 114, 112, 109]

def countByte (c : Nat) (s : Bytes) : Nat := (s.filter (· == c)).length

/-- the text before the second `:` -/
def uptoSecondColon : Bytes → Bool → Bytes
  | [], _ => []
  | c :: cs, seen =>
    if c = 58 then (if seen then [] else c :: uptoSecondColon cs true)
    else c :: uptoSecondColon cs seen

/-- `modStream`: `name:stream` of a label with at least two colons, else empty -/
def moduleStream (m : Bytes) : Bytes := if countByte 58 m > 1 then uptoSecondColon m false else []

/-- `constructEVR` -/
def evr (i : Info) : Bytes :=
  (if i.epoch ≠ 0 then showInt i.epoch ++ [58] else []) ++ i.version ++ 45 :: i.release

/-- `strings.LastIndexByte`: split at the last occurrence of `c` -/
def cutLast (c : Nat) : Bytes → Option (Bytes × Bytes)
  | [] => none
  | x :: xs =>
    match cutLast c xs with
    | some (a, b) => some (x :: a, b)
    | none => if x = c then some ([], xs) else none

def trimSuffix (suf s : Bytes) : Bytes :=
  if isPrefix suf.reverse s.reverse then (s.reverse.drop suf.length).reverse else s

def trimPrefix (pre s : Bytes) : Bytes := if isPrefix pre s then s.drop pre.length else s

/-- name and version of a source NEVR: cut at the second-to-last `-`; `none` = "malformed NEVR" -/
def splitNEVR (nevr : Bytes) : Option (Bytes × Bytes) :=
  let s := trimSuffix sSrcRpm nevr
  match cutLast 45 s with
  | none => none
  | some (a, rel) =>
    match cutLast 45 a with
    | none => none
    | some (n, ver) => some (n, trimPrefix [48, 58] (ver ++ 45 :: rel))

def lookup : List (Bytes × Option Src) → Bytes → Option (Option Src)
  | [], _ => none
  | (k, v) :: r, n => if k = n then some v else lookup r n

/-- the loop of `packagesFromDB`; `none` = error -/
def packages (srcs : List (Bytes × Option Src)) : List Info → Option (List Pkg)
  | [] => some []
  | i :: is =>
    if i.name = sGpgPubkey then packages srcs is
    else
      let ms := moduleStream i.module
      match lookup srcs i.sourceNEVR with
      | some s =>
        (packages srcs is).map (fun r => ⟨i.name, evr i, i.arch, ms, s⟩ :: r)
      | none =>
        match splitNEVR i.sourceNEVR with
        | none => none
        | some (n, v) =>
          let s : Src := ⟨n, v, ms⟩
          (packages (srcs ++ [(i.sourceNEVR, some s)]) is).map (fun r => ⟨i.name, evr i, i.arch, ms, some s⟩ :: r)

def scan (is : List Info) : Option (List Pkg) := packages [(sNone, none)] is

end ClairModel.RpmPkg
