/-
  Model of rhel/repositoryscanner.go `mapContentSets` + `mappingFile.Get` +
  the loop of `Scan` that turns CPE names into repositories.

  Inputs are what the JSON decoders hand over (encoding/json is not modelled):
  the content manifests of the layer — name and directory, and either the
  decoded `content_sets` list, a syntax error, or another decoding error — and
  the repository-to-CPE mapping as an association list.  Whether a CPE name
  unbinds (`cpe.Unbind`, C19's) comes with the mapping.

  * `fs.Glob` of `root/buildinfo/content_manifests/*.json`, then of
    `usr/share/buildinfo/*.json`, each in file-name order; only the FIRST file
    is read;
  * a syntax error, or an empty `content_sets`, gives no repositories; another
    decoding error fails the scan;
  * the CPEs of every listed repository the mapping knows, without duplicates
    (a Go map: the driver sorts), those that do not unbind left out.

  Core Lean only.
-/
import ClairModel.Lib.Bytes

namespace ClairModel.RhelRepo
open ClairModel.Bytes

inductive Content where
  | sets (repos : List Bytes)
  | syntaxError
  | otherError
  deriving DecidableEq, Repr

structure Manifest where
  /-- 0 = root/buildinfo/content_manifests, 1 = usr/share/buildinfo -/
  dir : Nat
  name : Bytes
  content : Content
  deriving DecidableEq, Repr

/-- one repository of the mapping: its CPE names, each with "does it unbind" -/
abbrev Mapping := List (Bytes × List (Bytes × Bool))

/-- bytewise order of file names (`fs.ReadDir` sorts by name) -/
def bytesLt : Bytes → Bytes → Bool
  | [], [] => false
  | [], _ :: _ => true
  | _ :: _, [] => false
  | a :: as, b :: bs => if a < b then true else if b < a then false else bytesLt as bs

def insertBy {α : Type} (lt : α → α → Bool) (x : α) : List α → List α
  | [] => [x]
  | y :: ys => if lt x y then x :: y :: ys else y :: insertBy lt x ys

def sortBy {α : Type} (lt : α → α → Bool) : List α → List α
  | [] => []
  | x :: xs => insertBy lt x (sortBy lt xs)

/-- the order in which `mapContentSets` lists the manifests -/
def globOrder (ms : List Manifest) : List Manifest :=
  sortBy (fun a b => bytesLt a.name b.name) (ms.filter (·.dir == 0)) ++
  sortBy (fun a b => bytesLt a.name b.name) (ms.filter (·.dir != 0))

def lookup (m : Mapping) (r : Bytes) : Option (List (Bytes × Bool)) :=
  match m with
  | [] => none
  | (k, v) :: rest => if k == r then some v else lookup rest r

def dedup : List Bytes → List Bytes
  | [] => []
  | x :: xs => if xs.contains x then dedup xs else x :: dedup xs

/-- `mappingFile.Get` followed by the `cpe.Unbind` filter of `Scan` -/
def cpesOf (m : Mapping) (repos : List Bytes) : List Bytes :=
  dedup ((repos.flatMap fun r => (lookup m r).getD []).filterMap fun c => if c.2 then some c.1 else none)

inductive Res where
  | err
  | repos (cpes : List Bytes)
  deriving DecidableEq, Repr

def scan (m : Mapping) (ms : List Manifest) : Res :=
  match globOrder ms with
  | [] => .repos []
  | f :: _ =>
    match f.content with
    | .syntaxError => .repos []
    | .otherError => .err
    | .sets rs => .repos (cpesOf m rs)

end ClairModel.RhelRepo
