/-
  C01 — executable model of the coalescing layer of the indexer.

    linux/coalescer.go, packagesearcher.go, distsearcher.go   `linuxCoalesce`
    rhel/coalescer.go                                         `rhelCoalesce`
    python|java|ruby|nodejs/coalescer.go                      `langCoalesce`
    gobin/coalescer.go                                        `gobinCoalesce`
    whiteout/coalescer.go                                     `whCoalesce`
    indexer/controller/coalesce.go  MergeSR                   `mergeSR`
    whiteout/resolver.go  Resolve, fileIsDeleted, layerSorter `resolve`, `fileIsDeleted`
    indexreport.go  IndexRecords                              `indexRecords`

  Go maps are association lists (`aget`/`aset`: replace in place, else append);
  every statement about them is made through `aget`, so nothing depends on
  Go's (random) iteration order.  Digests are opaque strings.  Core Lean only.
-/
namespace ClairModel.Coalesce

/-! ### association lists standing for Go maps keyed by string -/

def aget {β : Type} (k : String) : List (String × β) → Option β
  | [] => none
  | (k', v) :: m => if k' = k then some v else aget k m

def aset {β : Type} (k : String) (v : β) : List (String × β) → List (String × β)
  | [] => [(k, v)]
  | (k', v') :: m => if k' = k then (k, v) :: m else (k', v') :: aset k v m

/-- `m[k] = append(m[k], vs...)` -/
def aappend {β : Type} (k : String) (vs : List β) (m : List (String × List β)) : List (String × List β) :=
  aset k ((aget k m).getD [] ++ vs) m

/-! ### the artifacts (claircore.Package etc., only the fields the code reads or the property names) -/

structure Pkg where
  id : String
  name : String
  version : String
  kind : String
  arch : String
  src : String
  db : String      -- PackageDB
  fp : String      -- Filepath
deriving DecidableEq, Repr, Inhabited

structure Dist where
  id : String
deriving DecidableEq, Repr, Inhabited

structure Repo where
  id : String
  name : String
  key : String
  uri : String
deriving DecidableEq, Repr, Inhabited

structure File where
  path : String
  kind : String
deriving DecidableEq, Repr, Inhabited

/-- indexer.LayerArtifacts -/
structure Layer where
  hash : String
  pkgs : List Pkg := []
  dists : List Dist := []
  repos : List Repo := []
  files : List File := []
deriving Repr, Inhabited

/-- claircore.Environment -/
structure Env where
  db : String
  intro : String
  distId : String := ""
  repoIds : List String := []
deriving DecidableEq, Repr, Inhabited

/-- claircore.IndexReport (the five maps) -/
structure Report where
  pkgs : List (String × Pkg) := []
  envs : List (String × List Env) := []
  dists : List (String × Dist) := []
  repos : List (String × Repo) := []
  files : List (String × File) := []
deriving Repr, Inhabited

/-- How a coalescer can fail: an `error` return, or a nil dereference. -/
inductive Fail where
  | err
  | panic
deriving DecidableEq, Repr, Inhabited

/-- Outcome of a coalescer. -/
abbrev Res := Except Fail Report

/-- `ir.Packages[pkg.ID] = pkg; ir.Environments[pkg.ID] = append(ir.Environments[pkg.ID], env)` -/
def Report.addPkgEnv (ir : Report) (p : Pkg) (e : Env) : Report :=
  { ir with pkgs := aset p.id p ir.pkgs, envs := aappend p.id [e] ir.envs }

/-- `ir.Packages[pkg.ID] = pkg; ir.Environments[pkg.ID] = []*Environment{env}` -/
def Report.setPkgEnv (ir : Report) (p : Pkg) (e : Env) : Report :=
  { ir with pkgs := aset p.id p ir.pkgs, envs := aset p.id [e] ir.envs }

/-! ### linux.Coalescer -/

/-- `keyify` after the fix (a struct key): name, database and version all equal. -/
def sameKey (p q : Pkg) : Bool := p.name = q.name ∧ p.db = q.db ∧ p.version = q.version

/-- `NewPackageSearcher` + `Search`: the first layer (hash, index) holding a package with the same key. -/
def pkgSearchFrom (p : Pkg) : List Layer → Nat → Option (String × Nat)
  | [], _ => none
  | a :: rest, i => if a.pkgs.any (sameKey p) then some (a.hash, i) else pkgSearchFrom p rest (i + 1)

def pkgSearch (arts : List Layer) (p : Pkg) : Option (String × Nat) := pkgSearchFrom p arts 0

/-- `NewDistSearcher`: per layer the first distribution, if any. -/
def distSlots (arts : List Layer) : List (Option Dist) := arts.map fun a => a.dists.head?

def firstSome {α : Type} : List (Option α) → Option α
  | [] => none
  | some x :: _ => some x
  | none :: rest => firstSome rest

/-- `DistSearcher.Search`: `none` = the out-of-bounds error; otherwise the
    layer's own distribution, else the nearest earlier one, else the nearest later one. -/
def distSearch (slots : List (Option Dist)) (n : Nat) : Option (Option Dist) :=
  if n ≥ slots.length then none else
  match slots.getD n none with
  | some d => some (some d)
  | none =>
    match firstSome (slots.take n).reverse with
    | some d => some (some d)
    | none => some (firstSome (slots.drop (n + 1)))

/-- One layer of the backwards walk: group this layer's packages by database, only for
    databases not yet recorded (`tmp`). -/
def groupNew (dbs : List (String × List Pkg)) : List Pkg → List (String × List Pkg) → List (String × List Pkg)
  | [], tmp => tmp
  | p :: rest, tmp =>
    if (aget p.db dbs).isSome then groupNew dbs rest tmp
    else groupNew dbs rest (aappend p.db [p] tmp)

/-- `for db, pkgs := range tmp { dbs[db] = pkgs }` -/
def mergeTmp (dbs : List (String × List Pkg)) : List (String × List Pkg) → List (String × List Pkg)
  | [] => dbs
  | (k, v) :: rest => mergeTmp (aset k v dbs) rest

/-- The walk `for i := len-1; i >= 0; i--`: the layer list is consumed from its end,
    which is `foldr` over the list. -/
def linuxDbs : List Layer → List (String × List Pkg)
  | [] => []
  | a :: rest => let dbs := linuxDbs rest; mergeTmp dbs (groupNew dbs a.pkgs [])

/-- The environment built for one package of the `dbs` map. -/
def linuxEnv (arts : List Layer) (slots : List (Option Dist)) (db : String) (pkg : Pkg) : Except Fail Env :=
  match pkgSearch arts pkg with
  | none => .error .panic                      -- `*introDigest` with a nil digest
  | some (h, i) =>
    match distSearch slots i with
    | none => .error .err
    | some d => .ok { db := db, intro := h, distId := (d.map (·.id)).getD "", repoIds := [] }

def linuxFill (arts : List Layer) (slots : List (Option Dist)) : List (String × Pkg) → Report → Res
  | [], ir => .ok ir
  | (db, pkg) :: rest, ir =>
    match linuxEnv arts slots db pkg with
    | .error f => .error f
    | .ok e => linuxFill arts slots rest (ir.addPkgEnv pkg e)

/-- all (db, pkg) pairs of the `dbs` map, database by database -/
def dbEntries (dbs : List (String × List Pkg)) : List (String × Pkg) :=
  dbs.flatMap fun e => e.2.map fun p => (e.1, p)

def setDists (ds : List Dist) (m : List (String × Dist)) : List (String × Dist) :=
  ds.foldl (fun m d => aset d.id d m) m

def linuxCoalesce (arts : List Layer) : Res :=
  let slots := distSlots arts
  let ir : Report := { dists := setDists (slots.filterMap id) [] }
  linuxFill arts slots (dbEntries (linuxDbs arts)) ir

/-! ### rhel.Coalescer -/

def rhelRepoKey : String := "rhel-cpe-repository"

def filterRH (rs : List Repo) : List Repo := rs.filter fun r => r.key = rhelRepoKey

/-- First loop: share Red Hat repositories forward.  Returns the layers and the final `prev`. -/
def shareFwd : List Layer → List Repo → List Layer × List Repo
  | [], prev => ([], prev)
  | a :: rest, prev =>
    let lr := filterRH a.repos
    if lr ≠ [] then
      let (r, p) := shareFwd rest lr
      (a :: r, p)
    else
      let (r, p) := shareFwd rest prev
      ({ a with repos := a.repos ++ prev } :: r, p)

/-- Second loop, over the reversed list (`prev` is *not* reset between the loops). -/
def rhelShare (arts : List Layer) : List Layer :=
  let (fwd, prev) := shareFwd arts []
  ((shareFwd fwd.reverse prev).1).reverse

/-- The first distribution found in any layer (`break`). -/
def firstDist : List Layer → Option Dist
  | [] => none
  | a :: rest => match a.dists with
    | d :: _ => some d
    | [] => firstDist rest

/-- State of the forward walk: `dbs[db].environments[id]` flattened to a map keyed by (db, id). -/
structure RhelWalk where
  cur : Option Dist
  dists : List (String × Dist)
  envs : List ((String × String) × Env)

def penvGet (db id : String) : List ((String × String) × Env) → Option Env
  | [] => none
  | ((d, i), e) :: rest => if d = db ∧ i = id then some e else penvGet db id rest

def rhelWalkPkgs (a : Layer) (distID : String) : List Pkg → List ((String × String) × Env) → List ((String × String) × Env)
  | [], envs => envs
  | p :: rest, envs =>
    match penvGet p.db p.id envs with
    | some _ => rhelWalkPkgs a distID rest envs
    | none =>
      rhelWalkPkgs a distID rest
        (envs ++ [((p.db, p.id), { db := p.db, intro := a.hash, distId := distID, repoIds := a.repos.map (·.id) })])

def rhelWalk : List Layer → RhelWalk → RhelWalk
  | [], w => w
  | a :: rest, w =>
    let (cur, dists) := match a.dists with
      | d :: _ => (some d, aset d.id d w.dists)
      | [] => (w.cur, w.dists)
    let distID := (cur.map (·.id)).getD ""
    rhelWalk rest { cur := cur, dists := dists, envs := rhelWalkPkgs a distID a.pkgs w.envs }

/-- `found` of the final loop for a package of layer `i`, given the layers after it:
    starts `true`; every later layer with packages resets it to whether that
    layer holds the same (id, database). -/
def rhelFound (p : Pkg) : List Layer → Bool → Bool
  | [], f => f
  | a :: rest, f =>
    if a.pkgs.isEmpty then rhelFound p rest f
    else rhelFound p rest (a.pkgs.any fun q => p.id = q.id ∧ p.db = q.db)

def rhelFinalPkgs (envs : List ((String × String) × Env)) (later : List Layer) : List Pkg → Report → Res
  | [], ir => .ok ir
  | p :: rest, ir =>
    if (aget p.id ir.pkgs).isSome then rhelFinalPkgs envs later rest ir
    else if rhelFound p later true then
      match penvGet p.db p.id envs with
      | none => .error .panic      -- `dbs[db].environments[id]` missing: nil map / nil environment
      | some e => rhelFinalPkgs envs later rest (ir.addPkgEnv p e)
    else rhelFinalPkgs envs later rest ir

def rhelFinal (envs : List ((String × String) × Env)) : List Layer → Report → Res
  | [], ir => .ok ir
  | a :: rest, ir =>
    match rhelFinalPkgs envs rest a.pkgs ir with
    | .ok ir' => rhelFinal envs rest ir'
    | .error f => .error f

def setRepos (rs : List Repo) (m : List (String × Repo)) : List (String × Repo) :=
  rs.foldl (fun m r => aset r.id r m) m

/-- the pre-loop: the first distribution of any layer is recorded and is the initial `curDist` -/
def rhelInit (arts : List Layer) : RhelWalk :=
  match firstDist arts with
  | some d => { cur := some d, dists := [(d.id, d)], envs := [] }
  | none => { cur := none, dists := [], envs := [] }

def rhelCoalesce (arts0 : List Layer) : Res :=
  let arts := rhelShare arts0
  let repos := arts.foldl (fun m a => setRepos a.repos m) []
  let w := rhelWalk arts (rhelInit arts)
  rhelFinal w.envs arts { repos := repos, dists := w.dists }

/-! ### python / java / ruby / nodejs coalescers (identical code) and gobin -/

def langLayerPkgs (a : Layer) (rs : List String) : List Pkg → Report → Report
  | [], ir => ir
  | p :: rest, ir => langLayerPkgs a rs rest (ir.setPkgEnv p { db := p.db, intro := a.hash, repoIds := rs })

def langFold : List Layer → Report → Report
  | [], ir => ir
  | a :: rest, ir =>
    if a.repos.isEmpty then langFold rest ir
    else
      let ir1 := { ir with repos := setRepos a.repos ir.repos }
      langFold rest (langLayerPkgs a (a.repos.map (·.id)) a.pkgs ir1)

def langCoalesce (arts : List Layer) : Res := .ok (langFold arts {})

def isGoRepo (r : Repo) : Bool := r.name = "go" ∧ r.uri = "https://pkg.go.dev/"

/-- `strings.HasPrefix(pkg.PackageDB, "go:")` -/
def hasGoPrefix (db : String) : Bool := "go:".toList.isPrefixOf db.toList

def gobinLayerPkgs (a : Layer) (rid : String) : List Pkg → Report → Report
  | [], ir => ir
  | p :: rest, ir =>
    if hasGoPrefix p.db then
      gobinLayerPkgs a rid rest (ir.setPkgEnv p { db := p.db, intro := a.hash, repoIds := [rid] })
    else gobinLayerPkgs a rid rest ir

def gobinFold : List Layer → Report → Report
  | [], ir => ir
  | a :: rest, ir =>
    let (rid, ir1) := match a.repos.find? isGoRepo with
      | some r => (r.id, { ir with repos := aset r.id r ir.repos })
      | none => ("", ir)
    gobinFold rest (gobinLayerPkgs a rid a.pkgs ir1)

def gobinCoalesce (arts : List Layer) : Res := .ok (gobinFold arts {})

/-! ### whiteout coalescer: `ir.Files[l.Hash.String()] = f` — one file per layer hash survives -/

def whCoalesce (arts : List Layer) : Res :=
  .ok { files := arts.foldl (fun m a => a.files.foldl (fun m f => aset a.hash f m) m) [] }

/-! ### controller.MergeSR -/

def mergeOne (src ir : Report) : Report :=
  { pkgs := ir.pkgs.foldl (fun m e => aset e.1 e.2 m) src.pkgs
    envs := ir.envs.foldl (fun m e => aappend e.1 e.2 m) src.envs
    dists := ir.dists.foldl (fun m e => aset e.1 e.2 m) src.dists
    repos := ir.repos.foldl (fun m e => aset e.1 e.2 m) src.repos
    files := ir.files.foldl (fun m e => aset e.1 e.2 m) src.files }

def mergeSR (src : Report) (rs : List Report) : Report := rs.foldl mergeOne src

/-! ### paths: the lexical functions of Go's path/filepath that `fileIsDeleted` uses -/

/-- `strings.Split(·, "/")` on the characters (structural, so the kernel can evaluate it) -/
def splitChars : List Char → List (List Char)
  | [] => [[]]
  | c :: cs =>
    if c = '/' then [] :: splitChars cs
    else match splitChars cs with
      | [] => [[c]]
      | x :: xs => (c :: x) :: xs

def splitSlash (s : String) : List String := (splitChars s.toList).map String.ofList

/-- `strings.Join(·, "/")` -/
def joinSlash : List String → List Char
  | [] => []
  | [x] => x.toList
  | x :: y :: rest => x.toList ++ '/' :: joinSlash (y :: rest)

/-- components of `path.Clean`: drop "" and ".", resolve ".." against the stack
    (kept when nothing to pop and the path is not rooted). -/
def cleanParts (rooted : Bool) : List String → List String → List String
  | [], acc => acc.reverse
  | c :: rest, acc =>
    if c = "" ∨ c = "." then cleanParts rooted rest acc
    else if c = ".." then
      match acc with
      | [] => if rooted then cleanParts rooted rest [] else cleanParts rooted rest [".."]
      | top :: accTail =>
        if top = ".." then cleanParts rooted rest (".." :: acc) else cleanParts rooted rest accTail
    else cleanParts rooted rest (c :: acc)

/-- `path.Clean` / `filepath.Clean` on unix. -/
def clean (p : String) : String :=
  if p = "" then "." else
  let rooted : Bool := p.toList.head? = some '/'
  let body := joinSlash (cleanParts rooted (splitSlash p) [])
  if rooted then String.ofList ('/' :: body) else if body.isEmpty then "." else String.ofList body

def dropTrailingSlashes (cs : List Char) : List Char := (cs.reverse.dropWhile (· = '/')).reverse

/-- what follows the last '/' -/
def afterLastSlash (cs : List Char) : List Char := (cs.reverse.takeWhile (· ≠ '/')).reverse

/-- up to and including the last '/' -/
def uptoLastSlash (cs : List Char) : List Char := (cs.reverse.dropWhile (· ≠ '/')).reverse

/-- `filepath.Base` -/
def base (p : String) : String :=
  if p = "" then "." else
  let cs := dropTrailingSlashes p.toList
  let b := afterLastSlash cs
  if b.isEmpty then "/" else String.ofList b

/-- `filepath.Dir` -/
def dir (p : String) : String := clean (String.ofList (uptoLastSlash p.toList))

/-- `filepath.Join` of two elements: empty elements are ignored, the rest joined and cleaned. -/
def join2 (a b : String) : String :=
  if a = "" ∧ b = "" then ""
  else if a = "" then clean b
  else if b = "" then clean a
  else clean (a ++ "/" ++ b)

def isPrefixParts : List String → List String → Bool
  | [], _ => true
  | _ :: _, [] => false
  | c :: cs, f :: fs => c = f && isPrefixParts cs fs

def whPrefix : List Char := ".wh.".toList

/-- whiteout/resolver.go `fileIsDeleted` -/
def fileIsDeleted (fp wh : String) : Bool :=
  let b := base wh
  let check : Option String :=
    if b = ".wh..wh..opq" then
      let c := dir wh
      if c = fp then none else some c
    else if whPrefix.isPrefixOf b.toList then some (join2 (dir wh) (String.ofList (b.toList.drop 4)))
    else none
  match check with
  | none => false
  | some c => isPrefixParts (splitSlash c) (splitSlash fp)

/-! ### whiteout.Resolver -/

/-- `newLayerSorter`: later occurrences of a hash overwrite earlier ones; missing = 0. -/
def sorterIdx (layers : List String) (h : String) : Nat :=
  let rec go : List String → Nat → Nat → Nat
    | [], _, acc => acc
    | l :: rest, i, acc => go rest (i + 1) (if l = h then i else acc)
  go layers 0 0

/-- the package's newest layer: first environment, replaced by any later one that `isChildOf` it -/
def pkgLayer (layers : List String) : List Env → String → String
  | [], cur => cur
  | e :: rest, cur =>
    if sorterIdx layers e.intro > sorterIdx layers cur then pkgLayer layers rest e.intro
    else pkgLayer layers rest cur

def whiteoutKind : String := "whiteout"

def pkgDeleted (layers : List String) (files : List (String × File)) (p : Pkg) (pl : String) : Bool :=
  files.any fun (h, f) =>
    f.kind = whiteoutKind && decide (sorterIdx layers h > sorterIdx layers pl) && fileIsDeleted p.fp f.path

/-- `none` = index out of range (`ir.Environments[pkgID][0]` for a package without environments). -/
def resolveLoop (layers : List String) (ir : Report) : List (String × Pkg) → Report → Option Report
  | [], acc => some acc
  | (id, p) :: rest, acc =>
    match aget id ir.envs with
    | none | some [] => none
    | some (e0 :: es) =>
      let pl := pkgLayer layers es e0.intro
      if pkgDeleted layers ir.files p pl then resolveLoop layers ir rest acc
      else resolveLoop layers ir rest { acc with pkgs := aset id p acc.pkgs, envs := aset id (e0 :: es) acc.envs }

def resolve (layers : List String) (ir : Report) : Option Report :=
  match resolveLoop layers ir ir.pkgs {} with
  | none => none
  | some fin => some { ir with pkgs := fin.pkgs, envs := fin.envs }

/-! ### IndexReport.IndexRecords -/

structure Record where
  pkg : Pkg
  dist : Option Dist
  repo : Option Repo
deriving Repr

def envRecords (ir : Report) (p : Pkg) (e : Env) : List Record :=
  if e.repoIds.isEmpty then [{ pkg := p, dist := aget e.distId ir.dists, repo := none }]
  else e.repoIds.map fun rid => { pkg := p, dist := aget e.distId ir.dists, repo := aget rid ir.repos }

def indexRecords (ir : Report) : List Record :=
  ir.pkgs.flatMap fun (_, p) => ((aget p.id ir.envs).getD []).flatMap (envRecords ir p)

/-! ### the whole coalesce step: every ecosystem's coalescer, MergeSR, the resolvers -/

inductive Kind where
  | linux | rhel | lang | gobin | wh
deriving DecidableEq, Repr

def coalesceKind : Kind → List Layer → Res
  | .linux => linuxCoalesce
  | .rhel => rhelCoalesce
  | .lang => langCoalesce
  | .gobin => gobinCoalesce
  | .wh => whCoalesce

def coalesceAll : List (Kind × List Layer) → Option (List Report)
  | [] => some []
  | (k, arts) :: rest =>
    match coalesceKind k arts, coalesceAll rest with
    | .ok r, some rs => some (r :: rs)
    | _, _ => none

/-- `coalesce` of the controller: `none` = an error/panic of a coalescer or of the resolver. -/
def indexCoalesce (layers : List String) (ecos : List (Kind × List Layer)) : Option Report :=
  match coalesceAll ecos with
  | none => none
  | some rs => resolve layers (mergeSR {} rs)

/-! ### the store reads of `controller.coalesce`

  For every ecosystem and every manifest layer `coalesce` reads the layer's packages, repositories,
  distributions and files from the store (`PackagesByLayer`, …).  `none` = one of those reads returned an
  error: the state returns `Terminal` with the error, no coalescer runs. -/

def allSome {α : Type} : List (Option α) → Option (List α)
  | [] => some []
  | none :: _ => none
  | some x :: rest => (allSome rest).map (x :: ·)

def packReads : List (Kind × List (Option Layer)) → Option (List (Kind × List Layer))
  | [] => some []
  | (k, rs) :: rest =>
    match allSome rs, packReads rest with
    | some arts, some more => some ((k, arts) :: more)
    | _, _ => none

/-- `coalesce` with its store reads: `none` = the Index call fails -/
def indexCoalesceReads (layers : List String) (reads : List (Kind × List (Option Layer))) : Option Report :=
  (packReads reads).bind (indexCoalesce layers)

end ClairModel.Coalesce
