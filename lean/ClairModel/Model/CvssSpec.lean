/-
  C18 — the published CVSS material the model is compared with, typed in from
  the FIRST specification documents (not from the Go code):

  * v2 guide section 3.2 (equations and metric value tables),
  * v3.0 / v3.1 specification section 7 (equations), 7.4 (metric values),
    Appendix A of v3.1 (Roundup), section 5 (qualitative severity rating scale),
  * docs/concepts/severity_mapping.md (OSV mapping).

  Core Lean only.  Weights are integers scaled by 1000, scores by 10.
-/
import ClairModel.Model.Cvss

namespace ClairModel.CvssSpec
open ClairModel.Cvss

/-- v2 guide 3.2.1–3.2.3: metric, then (value abbreviation, weight*1000). -/
def v2Table : List (Bytes × List (Bytes × Int)) := [
  ([cA, 86], [([cL], 395), ([cA], 646), ([cN], 1000)]),                       -- AV
  ([cA, cC], [([cH], 350), ([cM], 610), ([cL], 710)]),                        -- AC
  ([cA, cu], [([cM], 450), ([cS], 560), ([cN], 704)]),                        -- Au
  ([cC], [([cN], 0), ([cP], 275), ([cC], 660)]),                              -- C
  ([73], [([cN], 0), ([cP], 275), ([cC], 660)]),                              -- I
  ([cA], [([cN], 0), ([cP], 275), ([cC], 660)]),                              -- A
  ([69], [([cU], 850), ([cP, cO, cC], 900), ([cF], 950), ([cH], 1000), ([cN, cD], 1000)]),   -- E
  ([cR, cL], [([cO, cF], 870), ([cT, cF], 900), ([cW], 950), ([cU], 1000), ([cN, cD], 1000)]), -- RL
  ([cR, cC], [([cU, cC], 900), ([cU, cR], 950), ([cC], 1000), ([cN, cD], 1000)]),            -- RC
  ([cC, cD, cP], [([cN], 0), ([cL], 100), ([cL, cM], 300), ([cM, cH], 400), ([cH], 500), ([cN, cD], 0)]), -- CDP
  ([cT, cD], [([cN], 0), ([cL], 250), ([cM], 750), ([cH], 1000), ([cN, cD], 1000)]),         -- TD
  ([cC, cR], [([cL], 500), ([cM], 1000), ([cH], 1510), ([cN, cD], 1000)]),                   -- CR
  ([73, cR], [([cL], 500), ([cM], 1000), ([cH], 1510), ([cN, cD], 1000)]),                   -- IR
  ([cA, cR], [([cL], 500), ([cM], 1000), ([cH], 1510), ([cN, cD], 1000)])]                   -- AR

/-- v3.x specification 7.4: metric, then (value letter, weight*1000).  Scope
    has no weight (0); Privileges Required is listed with its Scope-Unchanged
    weights, the Changed ones are `prChanged`.  Modified metrics take the
    weights of their base metric; Not Defined (X) of E/RL/RC/CR/IR/AR is 1. -/
def v3Table : List (Bytes × List (Nat × Int)) := [
  ([cA, 86], [(cN, 850), (cA, 620), (cL, 550), (cP, 200)]),    -- AV
  ([cA, cC], [(cL, 770), (cH, 440)]),                          -- AC
  ([cP, cR], [(cN, 850), (cL, 620), (cH, 270)]),               -- PR (Scope Unchanged)
  ([cU, 73], [(cN, 850), (cR, 620)]),                          -- UI
  ([cS], [(cU, 0), (cC, 0)]),                                  -- S
  ([cC], [(cH, 560), (cL, 220), (cN, 0)]),                     -- C
  ([73], [(cH, 560), (cL, 220), (cN, 0)]),                     -- I
  ([cA], [(cH, 560), (cL, 220), (cN, 0)]),                     -- A
  ([69], [(cX, 1000), (cH, 1000), (cF, 970), (cP, 940), (cU, 910)]),       -- E
  ([cR, cL], [(cX, 1000), (cU, 1000), (cW, 970), (cT, 960), (cO, 950)]),   -- RL
  ([cR, cC], [(cX, 1000), (cC, 1000), (cR, 960), (cU, 920)]),              -- RC
  ([cC, cR], [(cX, 1000), (cH, 1500), (cM, 1000), (cL, 500)]),             -- CR
  ([73, cR], [(cX, 1000), (cH, 1500), (cM, 1000), (cL, 500)]),             -- IR
  ([cA, cR], [(cX, 1000), (cH, 1500), (cM, 1000), (cL, 500)]),             -- AR
  ([cM, cA, 86], [(cN, 850), (cA, 620), (cL, 550), (cP, 200)]),  -- MAV
  ([cM, cA, cC], [(cL, 770), (cH, 440)]),                        -- MAC
  ([cM, cP, cR], [(cN, 850), (cL, 620), (cH, 270)]),             -- MPR
  ([cM, cU, 73], [(cN, 850), (cR, 620)]),                        -- MUI
  ([cM, cS], [(cU, 0), (cC, 0)]),                                -- MS
  ([cM, cC], [(cH, 560), (cL, 220), (cN, 0)]),                   -- MC
  ([cM, 73], [(cH, 560), (cL, 220), (cN, 0)]),                   -- MI
  ([cM, cA], [(cH, 560), (cL, 220), (cN, 0)])]                   -- MA

/-- Privileges Required when Scope is Changed: L 0.68, H 0.5. -/
def prChanged : List (Nat × Int) := [(cN, 850), (cL, 680), (cH, 500)]

def lookupNat {α : Type} : List (Nat × α) → Nat → Option α
  | [], _ => none
  | (k, x) :: rest, key => if k = key then some x else lookupNat rest key

/-- weight of base metric `m` with value letter `c` (v3) -/
def w3 (m c : Nat) : Option Q := (lookupNat (v3Table.getD m ([], [])).2 c).map milli

/-- Roundup of the v3.0 specification: the smallest number, to one decimal
    place, that is equal to or higher than its input (as score*10). -/
def roundup30 (x : Q) : Int := Q.ceil (x * ten)

/-- Roundup of v3.1 Appendix A:
    `int_input = round_to_nearest_integer(input * 100000)`; if `int_input %
    10000 == 0` then `int_input / 100000.0` else `(floor(int_input / 10000) +
    1) / 10.0` (as score*10). -/
def roundup31 (x : Q) : Int :=
  let i := Q.roundHalfAway (x * Q.ofInt 100000)
  if i % 10000 = 0 then i / 10000 else i / 10000 + 1

/-- Impact (section 7.1): ISS = 1 − (1−C)(1−I)(1−A); Scope Unchanged 6.42·ISS,
    Changed 7.52·(ISS−0.029) − 3.25·(ISS−0.02)^15. -/
def impact3 (s c i a : Nat) : Option Q :=
  match w3 5 c, w3 6 i, w3 7 a with
  | some c, some i, some a =>
    let iss := one - ((one - c) * (one - i) * (one - a))
    if s = cC then some (Q.dec 752 100 * (iss - Q.dec 29 1000) - Q.dec 325 100 * Q.pow (iss - Q.dec 2 100) 15)
    else some (Q.dec 642 100 * iss)
  | _, _, _ => none

/-- Exploitability = 8.22 · AV · AC · PR · UI (PR by Scope). -/
def exploitability3 (s av ac pr ui : Nat) : Option Q :=
  match w3 0 av, w3 1 ac, (lookupNat (if s = cC then prChanged else (v3Table.getD 2 ([], [])).2) pr).map milli, w3 3 ui with
  | some av, some ac, some pr, some ui => some (Q.dec 822 100 * av * ac * pr * ui)
  | _, _, _, _ => none

/-- BaseScore: 0 if Impact ≤ 0; Unchanged Roundup(min(Impact + Exploitability, 10));
    Changed Roundup(min(1.08 · (Impact + Exploitability), 10)). -/
def baseScore3 (minor s : Nat) (impact exploitability : Q) : Int :=
  let roundup := if minor = 0 then roundup30 else roundup31
  if Q.le impact (Q.ofInt 0) then 0
  else if s = cC then roundup (Q.min (Q.dec 108 100 * (impact + exploitability)) ten)
  else roundup (Q.min (impact + exploitability) ten)

/-- v3.x base score (section 7.1) from the eight metric letters. -/
def base3 (minor av ac pr ui s c i a : Nat) : Option Int :=
  match impact3 s c i a, exploitability3 s av ac pr ui with
  | some impact, some exploitability => some (baseScore3 minor s impact exploitability)
  | _, _ => none

def lookupB {α : Type} : List (Bytes × α) → Bytes → Option α
  | [], _ => none
  | (k, x) :: rest, key => if k = key then some x else lookupB rest key

/-- weight of v2 metric `m` with value abbreviation `val` -/
def w2 (m : Nat) (val : Bytes) : Option Q := (lookupB (v2Table.getD m ([], [])).2 val).map milli

/-- v2 base score (guide 3.2.1): round_to_1_decimal(((0.6*Impact) +
    (0.4*Exploitability) − 1.5) * f(Impact)), no cap on Impact. -/
def base2 (av ac au c i a : Bytes) : Option Int :=
  match w2 0 av, w2 1 ac, w2 2 au, w2 3 c, w2 4 i, w2 5 a with
  | some av, some ac, some au, some c, some i, some a =>
    let impact := Q.dec 1041 100 * (one - (one - c) * (one - i) * (one - a))
    let exploitability := Q.ofInt 20 * av * ac * au
    let f := if impact.isZero then Q.ofInt 0 else Q.dec 1176 1000
    some (Q.roundHalfAway ((((Q.dec 6 10 * impact) + (Q.dec 4 10 * exploitability)) - Q.dec 15 10) * f * ten))
  | _, _, _, _, _, _ => none

/-! ### environmental scores -/

/-- v3 section 4.2 "Modified Base Metrics": a Modified metric that is Not
    Defined (X) — or absent from the vector (`0`) — takes the value of the
    corresponding Base metric.  `md` is the Modified letter, `b` the Base letter. -/
def modified3 (md b : Nat) : Nat := if md = 0 ∨ md = cX then b else md

/-- a metric absent from the vector is Not Defined (X) -/
def orX (b : Nat) : Nat := if b = 0 then cX else b

/-- Roundup by minor version -/
def roundup3 (minor : Nat) (x : Q) : Int := if minor = 0 then roundup30 x else roundup31 x

/-- ModifiedImpact (section 7.3) from the Modified Scope letter and MISS:
    Unchanged 6.42 × MISS; Changed, v3.0: 7.52 × (MISS − 0.029) − 3.25 × (MISS − 0.02)^15,
    v3.1: 7.52 × (MISS − 0.029) − 3.25 × (MISS × 0.9731 − 0.02)^13. -/
def mimpact3 (minor ms : Nat) (miss : Q) : Q :=
  if ms = cC then
    (if minor = 0 then Q.dec 752 100 * (miss - Q.dec 29 1000) - Q.dec 325 100 * Q.pow (miss - Q.dec 2 100) 15
     else Q.dec 752 100 * (miss - Q.dec 29 1000) - Q.dec 325 100 * Q.pow (miss * Q.dec 9731 10000 - Q.dec 2 100) 13)
  else Q.dec 642 100 * miss

/-- the argument of the inner Roundup: ModifiedImpact + ModifiedExploitability,
    times 1.08 when the Modified Scope is Changed (before the cap at 10) -/
def minner3 (ms : Nat) (mimpact mexpl : Q) : Q :=
  if ms = cC then Q.dec 108 100 * (mimpact + mexpl) else mimpact + mexpl

/-- EnvironmentalScore (section 7.3) from the eight effective Modified letters
    (`modified3`), the three requirement letters and the three temporal letters:
    MISS = Min(1 − (1−CR×MC)(1−IR×MI)(1−AR×MA), 0.915);
    ModifiedExploitability = 8.22 × MAV × MAC × MPR × MUI (MPR by Modified Scope);
    0 if ModifiedImpact ≤ 0, else
    Roundup(Roundup[Min(f × (ModifiedImpact + ModifiedExploitability), 10)] × E × RL × RC), f = 1 / 1.08. -/
def env3 (minor mav mac mpr mui ms mc mi ma cr ir ar e rl rc : Nat) : Option Int :=
  match w3 11 cr, w3 12 ir, w3 13 ar, w3 5 mc, w3 6 mi, w3 7 ma, exploitability3 ms mav mac mpr mui,
        w3 8 e, w3 9 rl, w3 10 rc with
  | some cr, some ir, some ar, some mc, some mi, some ma, some mexpl, some e, some rl, some rc =>
    let miss := Q.min (Q.dec 915 1000) (one - ((one - cr * mc) * (one - ir * mi) * (one - ar * ma)))
    let mimpact := mimpact3 minor ms miss
    if Q.le mimpact (Q.ofInt 0) then some 0
    else some (roundup3 minor (tenth (roundup3 minor (Q.min (minner3 ms mimpact mexpl) ten)) * e * rl * rc))
  | _, _, _, _, _, _, _, _, _, _ => none

/-- v2 guide 3.2.3, from the fourteen value abbreviations (ND where a metric is not in the vector):
    AdjustedImpact = min(10, 10.41 × (1 − (1−C×CR)(1−I×IR)(1−A×AR)));
    AdjustedBase = the base equation over AdjustedImpact;
    AdjustedTemporal = round_to_1_decimal(AdjustedBase × E × RL × RC);
    EnvironmentalScore = round_to_1_decimal((AdjustedTemporal + (10 − AdjustedTemporal) × CDP) × TD). -/
def env2 (av ac au c i a e rl rc cdp td cr ir ar : Bytes) : Option Int :=
  match w2 0 av, w2 1 ac, w2 2 au, w2 3 c, w2 4 i, w2 5 a, w2 6 e, w2 7 rl, w2 8 rc, w2 9 cdp, w2 10 td,
        w2 11 cr, w2 12 ir, w2 13 ar with
  | some av, some ac, some au, some c, some i, some a, some e, some rl, some rc, some cdp, some td,
    some cr, some ir, some ar =>
    let adjImpact := Q.min ten (Q.dec 1041 100 * (one - (one - c * cr) * (one - i * ir) * (one - a * ar)))
    let exploitability := Q.ofInt 20 * av * ac * au
    let f := if adjImpact.isZero then Q.ofInt 0 else Q.dec 1176 1000
    let adjBase := Q.roundHalfAway ((((Q.dec 6 10 * adjImpact) + (Q.dec 4 10 * exploitability)) - Q.dec 15 10) * f * ten)
    let adjTemporal := Q.roundHalfAway (tenth adjBase * e * rl * rc * ten)
    some (Q.roundHalfAway ((tenth adjTemporal + (ten - tenth adjTemporal) * cdp) * td * ten))
  | _, _, _, _, _, _, _, _, _, _, _, _, _, _ => none

/-- Qualitative severity rating scale (v3.1 section 5, v4.0 section 6), as
    inclusive ranges of score*10: 1 None, 2 Low, 3 Medium, 4 High, 5 Critical. -/
def ratingBands : List (Int × Int × Nat) := [(0, 0, 1), (1, 39, 2), (40, 69, 3), (70, 89, 4), (90, 100, 5)]

/-- docs/concepts/severity_mapping.md, "OSV Mapping", CVSSv3: base score range
    -> claircore.Severity (1 Negligible, 2 Low, 3 Medium, 4 High, 5 Critical). -/
def osvDocV3 : List (Int × Int × Nat) := [(0, 0, 1), (1, 39, 2), (40, 69, 3), (70, 89, 4), (90, 100, 5)]

/-- the same, CVSSv2 -/
def osvDocV2 : List (Int × Int × Nat) := [(0, 39, 2), (40, 69, 3), (70, 100, 4)]

def inBands : List (Int × Int × Nat) → Int → Option Nat
  | [], _ => none
  | (lo, hi, x) :: rest, k => if lo ≤ k ∧ k ≤ hi then some x else inBands rest k

/-- all six impact metrics, after the Modified metrics override the Base
    ones (Modified value unless absent or X), are None — "no impact" in the
    sense of specification section 8.2 -/
def v4EffectiveNoImpact (v : Vec) : Bool :=
  [5, 6, 7, 8, 9, 10].all fun m =>
    let md := v.get (m + 15)
    decide ((if md = 0 ∨ md = cX then v.get m else md) = cN)

/-- "CVSS:4.0/AV:N/AC:L/AT:N/PR:N/UI:N/VC:H/VI:H/VA:H/SC:H/SI:H/SA:H/MVC:N/MVI:N/MVA:N/MSC:N/MSI:N/MSA:N" -/
def v4ModifiedWitness : Bytes := [67, 86, 83, 83, 58, 52, 46, 48, 47, 65, 86, 58, 78, 47, 65, 67, 58, 76, 47, 65, 84, 58, 78,
  47, 80, 82, 58, 78, 47, 85, 73, 58, 78, 47, 86, 67, 58, 72, 47, 86, 73, 58, 72, 47, 86, 65, 58, 72,
  47, 83, 67, 58, 72, 47, 83, 73, 58, 72, 47, 83, 65, 58, 72,
  47, 77, 86, 67, 58, 78, 47, 77, 86, 73, 58, 78, 47, 77, 86, 65, 58, 78,
  47, 77, 83, 67, 58, 78, 47, 77, 83, 73, 58, 78, 47, 77, 83, 65, 58, 78]


/-- "AV:L/AC:H/Au:M/C:P/I:N/A:N/CDP:ND/TD:ND/CR:L/IR:ND/AR:ND" -/
def v2NegativeWitness : Bytes := [65, 86, 58, 76, 47, 65, 67, 58, 72, 47, 65, 117, 58, 77, 47, 67, 58, 80, 47, 73, 58, 78,
  47, 65, 58, 78, 47, 67, 68, 80, 58, 78, 68, 47, 84, 68, 58, 78, 68, 47, 67, 82, 58, 76, 47, 73, 82, 58, 78, 68,
  47, 65, 82, 58, 78, 68]


/-- The v4.0 MacroVector lookup table (specification section 8.3, incorporated
    by reference: `cvss_lookup.js` of the FIRST calculator), macrovector
    EQ1..EQ6 -> score*10, 270 rows.  No copy of the FIRST file is available
    offline: this is a transcription of the table as reviewed in
    toolkit/types/cvss/cvss_v4_score_data.go at the time this property was
    built (it agrees with the 41 recorded vector/score pairs of the package's
    fixture), kept here so that any later edit of a row in the Go source is
    detected (`v4_lookup_matches_published`). -/
def v4LookupPublished : List (List Nat × Int) := [
  ([0, 0, 0, 0, 0, 0], 100), ([0, 0, 0, 0, 0, 1], 99), ([0, 0, 0, 0, 1, 0], 98), ([0, 0, 0, 0, 1, 1], 95), ([0, 0, 0, 0, 2, 0], 95), ([0, 0, 0, 0, 2, 1], 92),
  ([0, 0, 0, 1, 0, 0], 100), ([0, 0, 0, 1, 0, 1], 96), ([0, 0, 0, 1, 1, 0], 93), ([0, 0, 0, 1, 1, 1], 87), ([0, 0, 0, 1, 2, 0], 91), ([0, 0, 0, 1, 2, 1], 81),
  ([0, 0, 0, 2, 0, 0], 93), ([0, 0, 0, 2, 0, 1], 90), ([0, 0, 0, 2, 1, 0], 89), ([0, 0, 0, 2, 1, 1], 80), ([0, 0, 0, 2, 2, 0], 81), ([0, 0, 0, 2, 2, 1], 68),
  ([0, 0, 1, 0, 0, 0], 98), ([0, 0, 1, 0, 0, 1], 95), ([0, 0, 1, 0, 1, 0], 95), ([0, 0, 1, 0, 1, 1], 92), ([0, 0, 1, 0, 2, 0], 90), ([0, 0, 1, 0, 2, 1], 84),
  ([0, 0, 1, 1, 0, 0], 93), ([0, 0, 1, 1, 0, 1], 92), ([0, 0, 1, 1, 1, 0], 89), ([0, 0, 1, 1, 1, 1], 81), ([0, 0, 1, 1, 2, 0], 81), ([0, 0, 1, 1, 2, 1], 65),
  ([0, 0, 1, 2, 0, 0], 88), ([0, 0, 1, 2, 0, 1], 80), ([0, 0, 1, 2, 1, 0], 78), ([0, 0, 1, 2, 1, 1], 70), ([0, 0, 1, 2, 2, 0], 69), ([0, 0, 1, 2, 2, 1], 48),
  ([0, 0, 2, 0, 0, 1], 92), ([0, 0, 2, 0, 1, 1], 82), ([0, 0, 2, 0, 2, 1], 72), ([0, 0, 2, 1, 0, 1], 79), ([0, 0, 2, 1, 1, 1], 69), ([0, 0, 2, 1, 2, 1], 50),
  ([0, 0, 2, 2, 0, 1], 69), ([0, 0, 2, 2, 1, 1], 55), ([0, 0, 2, 2, 2, 1], 27), ([0, 1, 0, 0, 0, 0], 99), ([0, 1, 0, 0, 0, 1], 97), ([0, 1, 0, 0, 1, 0], 95),
  ([0, 1, 0, 0, 1, 1], 92), ([0, 1, 0, 0, 2, 0], 92), ([0, 1, 0, 0, 2, 1], 85), ([0, 1, 0, 1, 0, 0], 95), ([0, 1, 0, 1, 0, 1], 91), ([0, 1, 0, 1, 1, 0], 90),
  ([0, 1, 0, 1, 1, 1], 83), ([0, 1, 0, 1, 2, 0], 84), ([0, 1, 0, 1, 2, 1], 71), ([0, 1, 0, 2, 0, 0], 92), ([0, 1, 0, 2, 0, 1], 81), ([0, 1, 0, 2, 1, 0], 82),
  ([0, 1, 0, 2, 1, 1], 71), ([0, 1, 0, 2, 2, 0], 72), ([0, 1, 0, 2, 2, 1], 53), ([0, 1, 1, 0, 0, 0], 95), ([0, 1, 1, 0, 0, 1], 93), ([0, 1, 1, 0, 1, 0], 92),
  ([0, 1, 1, 0, 1, 1], 85), ([0, 1, 1, 0, 2, 0], 85), ([0, 1, 1, 0, 2, 1], 73), ([0, 1, 1, 1, 0, 0], 92), ([0, 1, 1, 1, 0, 1], 82), ([0, 1, 1, 1, 1, 0], 80),
  ([0, 1, 1, 1, 1, 1], 72), ([0, 1, 1, 1, 2, 0], 70), ([0, 1, 1, 1, 2, 1], 59), ([0, 1, 1, 2, 0, 0], 84), ([0, 1, 1, 2, 0, 1], 70), ([0, 1, 1, 2, 1, 0], 71),
  ([0, 1, 1, 2, 1, 1], 52), ([0, 1, 1, 2, 2, 0], 50), ([0, 1, 1, 2, 2, 1], 30), ([0, 1, 2, 0, 0, 1], 86), ([0, 1, 2, 0, 1, 1], 75), ([0, 1, 2, 0, 2, 1], 52),
  ([0, 1, 2, 1, 0, 1], 71), ([0, 1, 2, 1, 1, 1], 52), ([0, 1, 2, 1, 2, 1], 29), ([0, 1, 2, 2, 0, 1], 63), ([0, 1, 2, 2, 1, 1], 29), ([0, 1, 2, 2, 2, 1], 17),
  ([1, 0, 0, 0, 0, 0], 98), ([1, 0, 0, 0, 0, 1], 95), ([1, 0, 0, 0, 1, 0], 94), ([1, 0, 0, 0, 1, 1], 87), ([1, 0, 0, 0, 2, 0], 91), ([1, 0, 0, 0, 2, 1], 81),
  ([1, 0, 0, 1, 0, 0], 94), ([1, 0, 0, 1, 0, 1], 89), ([1, 0, 0, 1, 1, 0], 86), ([1, 0, 0, 1, 1, 1], 74), ([1, 0, 0, 1, 2, 0], 77), ([1, 0, 0, 1, 2, 1], 64),
  ([1, 0, 0, 2, 0, 0], 87), ([1, 0, 0, 2, 0, 1], 75), ([1, 0, 0, 2, 1, 0], 74), ([1, 0, 0, 2, 1, 1], 63), ([1, 0, 0, 2, 2, 0], 63), ([1, 0, 0, 2, 2, 1], 49),
  ([1, 0, 1, 0, 0, 0], 94), ([1, 0, 1, 0, 0, 1], 89), ([1, 0, 1, 0, 1, 0], 88), ([1, 0, 1, 0, 1, 1], 77), ([1, 0, 1, 0, 2, 0], 76), ([1, 0, 1, 0, 2, 1], 67),
  ([1, 0, 1, 1, 0, 0], 86), ([1, 0, 1, 1, 0, 1], 76), ([1, 0, 1, 1, 1, 0], 74), ([1, 0, 1, 1, 1, 1], 58), ([1, 0, 1, 1, 2, 0], 59), ([1, 0, 1, 1, 2, 1], 50),
  ([1, 0, 1, 2, 0, 0], 72), ([1, 0, 1, 2, 0, 1], 57), ([1, 0, 1, 2, 1, 0], 57), ([1, 0, 1, 2, 1, 1], 52), ([1, 0, 1, 2, 2, 0], 52), ([1, 0, 1, 2, 2, 1], 25),
  ([1, 0, 2, 0, 0, 1], 83), ([1, 0, 2, 0, 1, 1], 70), ([1, 0, 2, 0, 2, 1], 54), ([1, 0, 2, 1, 0, 1], 65), ([1, 0, 2, 1, 1, 1], 58), ([1, 0, 2, 1, 2, 1], 26),
  ([1, 0, 2, 2, 0, 1], 53), ([1, 0, 2, 2, 1, 1], 21), ([1, 0, 2, 2, 2, 1], 13), ([1, 1, 0, 0, 0, 0], 95), ([1, 1, 0, 0, 0, 1], 90), ([1, 1, 0, 0, 1, 0], 88),
  ([1, 1, 0, 0, 1, 1], 76), ([1, 1, 0, 0, 2, 0], 76), ([1, 1, 0, 0, 2, 1], 70), ([1, 1, 0, 1, 0, 0], 90), ([1, 1, 0, 1, 0, 1], 77), ([1, 1, 0, 1, 1, 0], 75),
  ([1, 1, 0, 1, 1, 1], 62), ([1, 1, 0, 1, 2, 0], 61), ([1, 1, 0, 1, 2, 1], 53), ([1, 1, 0, 2, 0, 0], 77), ([1, 1, 0, 2, 0, 1], 66), ([1, 1, 0, 2, 1, 0], 68),
  ([1, 1, 0, 2, 1, 1], 59), ([1, 1, 0, 2, 2, 0], 52), ([1, 1, 0, 2, 2, 1], 30), ([1, 1, 1, 0, 0, 0], 89), ([1, 1, 1, 0, 0, 1], 78), ([1, 1, 1, 0, 1, 0], 76),
  ([1, 1, 1, 0, 1, 1], 67), ([1, 1, 1, 0, 2, 0], 62), ([1, 1, 1, 0, 2, 1], 58), ([1, 1, 1, 1, 0, 0], 74), ([1, 1, 1, 1, 0, 1], 59), ([1, 1, 1, 1, 1, 0], 57),
  ([1, 1, 1, 1, 1, 1], 57), ([1, 1, 1, 1, 2, 0], 47), ([1, 1, 1, 1, 2, 1], 23), ([1, 1, 1, 2, 0, 0], 61), ([1, 1, 1, 2, 0, 1], 52), ([1, 1, 1, 2, 1, 0], 57),
  ([1, 1, 1, 2, 1, 1], 29), ([1, 1, 1, 2, 2, 0], 24), ([1, 1, 1, 2, 2, 1], 16), ([1, 1, 2, 0, 0, 1], 71), ([1, 1, 2, 0, 1, 1], 59), ([1, 1, 2, 0, 2, 1], 30),
  ([1, 1, 2, 1, 0, 1], 58), ([1, 1, 2, 1, 1, 1], 26), ([1, 1, 2, 1, 2, 1], 15), ([1, 1, 2, 2, 0, 1], 23), ([1, 1, 2, 2, 1, 1], 13), ([1, 1, 2, 2, 2, 1], 6),
  ([2, 0, 0, 0, 0, 0], 93), ([2, 0, 0, 0, 0, 1], 87), ([2, 0, 0, 0, 1, 0], 86), ([2, 0, 0, 0, 1, 1], 72), ([2, 0, 0, 0, 2, 0], 75), ([2, 0, 0, 0, 2, 1], 58),
  ([2, 0, 0, 1, 0, 0], 86), ([2, 0, 0, 1, 0, 1], 74), ([2, 0, 0, 1, 1, 0], 74), ([2, 0, 0, 1, 1, 1], 61), ([2, 0, 0, 1, 2, 0], 56), ([2, 0, 0, 1, 2, 1], 34),
  ([2, 0, 0, 2, 0, 0], 70), ([2, 0, 0, 2, 0, 1], 54), ([2, 0, 0, 2, 1, 0], 52), ([2, 0, 0, 2, 1, 1], 40), ([2, 0, 0, 2, 2, 0], 40), ([2, 0, 0, 2, 2, 1], 22),
  ([2, 0, 1, 0, 0, 0], 85), ([2, 0, 1, 0, 0, 1], 75), ([2, 0, 1, 0, 1, 0], 74), ([2, 0, 1, 0, 1, 1], 55), ([2, 0, 1, 0, 2, 0], 62), ([2, 0, 1, 0, 2, 1], 51),
  ([2, 0, 1, 1, 0, 0], 72), ([2, 0, 1, 1, 0, 1], 57), ([2, 0, 1, 1, 1, 0], 55), ([2, 0, 1, 1, 1, 1], 41), ([2, 0, 1, 1, 2, 0], 46), ([2, 0, 1, 1, 2, 1], 19),
  ([2, 0, 1, 2, 0, 0], 53), ([2, 0, 1, 2, 0, 1], 36), ([2, 0, 1, 2, 1, 0], 34), ([2, 0, 1, 2, 1, 1], 19), ([2, 0, 1, 2, 2, 0], 19), ([2, 0, 1, 2, 2, 1], 8),
  ([2, 0, 2, 0, 0, 1], 64), ([2, 0, 2, 0, 1, 1], 51), ([2, 0, 2, 0, 2, 1], 20), ([2, 0, 2, 1, 0, 1], 47), ([2, 0, 2, 1, 1, 1], 21), ([2, 0, 2, 1, 2, 1], 11),
  ([2, 0, 2, 2, 0, 1], 24), ([2, 0, 2, 2, 1, 1], 9), ([2, 0, 2, 2, 2, 1], 4), ([2, 1, 0, 0, 0, 0], 88), ([2, 1, 0, 0, 0, 1], 75), ([2, 1, 0, 0, 1, 0], 73),
  ([2, 1, 0, 0, 1, 1], 53), ([2, 1, 0, 0, 2, 0], 60), ([2, 1, 0, 0, 2, 1], 50), ([2, 1, 0, 1, 0, 0], 73), ([2, 1, 0, 1, 0, 1], 55), ([2, 1, 0, 1, 1, 0], 59),
  ([2, 1, 0, 1, 1, 1], 40), ([2, 1, 0, 1, 2, 0], 41), ([2, 1, 0, 1, 2, 1], 20), ([2, 1, 0, 2, 0, 0], 54), ([2, 1, 0, 2, 0, 1], 43), ([2, 1, 0, 2, 1, 0], 45),
  ([2, 1, 0, 2, 1, 1], 22), ([2, 1, 0, 2, 2, 0], 20), ([2, 1, 0, 2, 2, 1], 11), ([2, 1, 1, 0, 0, 0], 75), ([2, 1, 1, 0, 0, 1], 55), ([2, 1, 1, 0, 1, 0], 58),
  ([2, 1, 1, 0, 1, 1], 45), ([2, 1, 1, 0, 2, 0], 40), ([2, 1, 1, 0, 2, 1], 21), ([2, 1, 1, 1, 0, 0], 61), ([2, 1, 1, 1, 0, 1], 51), ([2, 1, 1, 1, 1, 0], 48),
  ([2, 1, 1, 1, 1, 1], 18), ([2, 1, 1, 1, 2, 0], 20), ([2, 1, 1, 1, 2, 1], 9), ([2, 1, 1, 2, 0, 0], 46), ([2, 1, 1, 2, 0, 1], 18), ([2, 1, 1, 2, 1, 0], 17),
  ([2, 1, 1, 2, 1, 1], 7), ([2, 1, 1, 2, 2, 0], 8), ([2, 1, 1, 2, 2, 1], 2), ([2, 1, 2, 0, 0, 1], 53), ([2, 1, 2, 0, 1, 1], 24), ([2, 1, 2, 0, 2, 1], 14),
  ([2, 1, 2, 1, 0, 1], 24), ([2, 1, 2, 1, 1, 1], 12), ([2, 1, 2, 1, 2, 1], 5), ([2, 1, 2, 2, 0, 1], 10), ([2, 1, 2, 2, 1, 1], 3), ([2, 1, 2, 2, 2, 1], 1)]

/-- "CVSS:3.1/AV:P/AC:L/PR:N/UI:N/S:U/C:H/I:H/A:H/AV:N": not a vector (AV twice) -/
def osvDupWitnessA : Bytes := [67, 86, 83, 83, 58, 51, 46, 49, 47, 65, 86, 58, 80, 47, 65, 67, 58, 76, 47, 80, 82, 58, 78, 47, 85, 73, 58, 78, 47, 83, 58, 85, 47, 67, 58, 72, 47, 73, 58, 72, 47, 65, 58, 72, 47, 65, 86, 58, 78]

/-- "CVSS:3.1/AV:N/AC:L/PR:N/UI:N/S:U/C:H/I:H/A:H/AV:P": the same pieces, the first and the last exchanged -/
def osvDupWitnessB : Bytes := [67, 86, 83, 83, 58, 51, 46, 49, 47, 65, 86, 58, 78, 47, 65, 67, 58, 76, 47, 80, 82, 58, 78, 47, 85, 73, 58, 78, 47, 83, 58, 85, 47, 67, 58, 72, 47, 73, 58, 72, 47, 65, 58, 72, 47, 65, 86, 58, 80]

/-- "CVSS:3.1/E:X/RL:X/RC:X/CR:X/IR:X/AR:X/MAV:X/MAC:X": eight metrics, no base metric -/
def osvNoBaseWitness : Bytes := [67, 86, 83, 83, 58, 51, 46, 49, 47, 69, 58, 88, 47, 82, 76, 58, 88, 47, 82, 67, 58, 88, 47, 67, 82, 58, 88, 47, 73, 82, 58, 88, 47, 65, 82, 58, 88, 47, 77, 65, 86, 58, 88, 47, 77, 65, 67, 58, 88]

end ClairModel.CvssSpec
