/-
  Models of the parts of nodejs/packagescanner.go and ruby/packagescanner.go the
  repository wrote itself.

  nodejs: which paths the walk picks (regular file, base name not starting with
  `.wh.`, `node_modules/` somewhere in the path, ending in `/package.json`);
  the package is the decoded `name`/`version` (encoding/json is not modelled:
  the decoded strings are inputs), with the version normalised by
  Masterminds/semver + FromSemver (C12's model) when it parses.

  ruby: which paths are picked (the unanchored expression
  `.*/specifications/.+\.gemspec`), and what is read from a gemspec: every line
  (`bufio.ScanLines`, `strings.TrimSpace`) is matched against
  `^\S+\.\s*name\s*=\s*(?P<name>\S+)$` and the same for `version` (the last
  match of each wins); the captured text loses white space, a `.freeze`
  suffix and surrounding quote characters.  A line of 64 KiB or more makes the
  scanner fail and the gem is skipped.  ASCII white space only.

  Core Lean only.
-/
import ClairModel.Model.Semver
import ClairModel.Model.OsRelease

namespace ClairModel.LangScan
open ClairModel.Bytes
open ClairModel.Apk (trimSpace)
open ClairModel.OsRelease (scanLines)

def asc (s : String) : Bytes := s.toList.map Char.toNat

def lastComp (p : Bytes) : Bytes := (splitOn 47 p).getLast?.getD []

def contains (hay needle : Bytes) : Bool := (index hay needle).isSome

def isSuffix (suf s : Bytes) : Bool := isPrefix suf.reverse s.reverse

/-! ### nodejs -/

def nodePick (p : Bytes) : Bool :=
  !isPrefix (asc ".wh.") (lastComp p) && contains p (asc "node_modules/") && isSuffix (asc "/package.json") p

/-! ### ruby -/

/-- `.+\.gemspec` somewhere in `s`: at least one byte, then `.gemspec` -/
def someThenGemspec : Bytes → Bool
  | [] => false
  | _ :: cs => contains cs (asc ".gemspec")

/-- some occurrence of `/specifications/` is followed by `.+\.gemspec` -/
def specAt : Bytes → Bool
  | [] => false
  | c :: cs => (isPrefix (asc "/specifications/") (c :: cs) && someThenGemspec ((c :: cs).drop 16)) || specAt cs

/-- `.*/specifications/.+\.gemspec` (no newline in paths), not a whiteout -/
def gemPick (p : Bytes) : Bool := !isPrefix (asc ".wh.") (lastComp p) && specAt p

def isSp (c : Nat) : Bool := c == 32 || c == 9 || c == 10 || c == 11 || c == 12 || c == 13

/-- after the dot: `\s*<word>\s*=\s*(\S+)$`; the captured text -/
def afterDot (word : Bytes) (s : Bytes) : Option Bytes :=
  let s := s.dropWhile isSp
  if !isPrefix word s then none else
  let s := (s.drop word.length).dropWhile isSp
  match s with
  | 61 :: r =>
    let v := r.dropWhile isSp
    if !v.isEmpty && v.all (fun c => !isSp c) then some v else none
  | _ => none

/-- `^\S+\.` then `afterDot`: the dot is tried from the right (greedy `\S+`),
    within the leading run of non-space bytes, with at least one byte before it -/
def matchAssign (word : Bytes) (line : Bytes) : Option Bytes :=
  let rec go (seenOne : Bool) : Bytes → Option Bytes
    | [] => none
    | c :: cs =>
      if isSp c then none
      else
        match go true cs with
        | some v => some v
        | none => if c == 46 && seenOne then afterDot word cs else none
  go false line

def dropSuffix (suf s : Bytes) : Bytes := if isSuffix suf s then s.take (s.length - suf.length) else s

def isQuote (c : Nat) : Bool := c == 39 || c == 34

/-- `trim`: TrimSpace, TrimSuffix ".freeze", Trim quotes -/
def trimValue (s : Bytes) : Bytes :=
  let s := dropSuffix (asc ".freeze") (trimSpace s)
  ((s.dropWhile isQuote).reverse.dropWhile isQuote).reverse

structure Gem where
  name : Bytes
  version : Bytes
  deriving DecidableEq, Repr

def gemLine (g : Gem) (l : Bytes) : Gem :=
  let t := trimSpace l
  let g := match matchAssign (asc "name") t with
    | some v => { g with name := trimValue v }
    | none => g
  match matchAssign (asc "version") t with
  | some v => { g with version := trimValue v }
  | none => g

def maxToken : Nat := 65536

/-- does the scanner give up? A newline-terminated line must fit the 64 KiB
    buffer together with its newline; the unterminated last line may fill it
    (the layer's file reader reports the end of the file together with the last
    bytes, so the scanner knows it is at the end). -/
def tooLong : List Bytes → Bool
  | [] => false
  | [last] => last.length > maxToken
  | l :: rest => l.length ≥ maxToken || tooLong rest

/-- `none` = skipped (a line too long for the scanner, or name/version missing) -/
def gemspec (file : Bytes) : Option Gem :=
  let ls := scanLines file
  if tooLong (splitOn 10 file) then none
  else
    let g := ls.foldl gemLine ⟨[], []⟩
    if g.name.isEmpty || g.version.isEmpty then none else some g

end ClairModel.LangScan
