/-
  Model of concurrent users of one fetch arena (property C09).

    libindex/fetcher.go   fetchInto: `a.sf.DoChan(key, try)` with key =
                          desc.Digest; the function run inside a flight is
                          fetchUnlinkedFile over the description of the caller
                          that started it; every caller that finds a flight
                          under its key waits for that flight's result, then
                          takes its own reference (`Ref`, `Val`) and
                          initialises its own Layer from its own description.

  Users are tasks, each one `RealizeDescriptions` call with one description.
  The schedule decides when a task reaches the singleflight (`enter`), when
  the request of a flight is answered (`serve`), and when a finished task
  closes its FetchProxy (`close`).  Between `enter` of the leader and `serve`
  the download is in progress: later tasks naming the same digest string join
  it, whatever URI they name; tasks naming another digest string start their
  own flight, also when they name the same URI.

  The waiters of a finished flight are handled one after the other in task
  order.  A waiter whose `Layer.Init` fails drops its reference; if that was
  the last one the file is gone and the waiters after it find a stale file
  and start over (`retry`: the task is back before the singleflight).
  Core Lean only.
-/
import ClairModel.Model.Fetch

namespace ClairModel.FetchSched
open ClairModel ClairModel.Bytes ClairModel.Fetch

inductive TSt where
  | parked                 -- before `DoChan`
  | waiting                -- inside `DoChan`, waiting for the flight under its key
  | done (v : Option View) -- the call returned: a layer or an error
  | closed
deriving DecidableEq, Repr

structure Task where
  id : Nat
  req : Req
  st : TSt
deriving Repr

/-- A download in progress: the request has been sent on behalf of the
    leader's description and has not been answered yet. -/
structure Flight where
  key : Bytes
  uri : Bytes
  resp : Resp
  leader : Nat
deriving Repr

structure SState where
  arena : Arena := []
  tasks : List Task := []
  flights : List Flight := []
deriving Repr

inductive Res where
  | err
  | ok (v : View)
  | retry
deriving DecidableEq, Repr

inductive SOp where
  | spawn (id : Nat) (rq : Req)
  | enter (id : Nat)
  | serve (id : Nat)
  | close (id : Nat)
deriving Repr

inductive SOut where
  | parked
  | join
  | lead
  | results (rs : List (Nat × Res))
  | closed
  | bad
deriving DecidableEq, Repr

/-- One waiter of a flight that produced the file `payload` under `key`:
    `Ref`, `Val`, `Layer.Init` with the waiter's own description. `alive` says
    whether the file is still open. -/
def deliverOne (P : Params) (a : Arena) (key payload : Bytes) (alive : Bool) (t : Task) : Arena × Bool × Res :=
  if !alive then (a, false, .retry) else
  match initLayer P t.req.mt payload with
  | some v => (a.ref key payload, true, .ok v)
  | none => ((a.ref key payload).unref key, (((a.ref key payload).unref key).lookup key).isSome, .err)

/-- The waiters of one flight, in order. -/
def deliver (P : Params) (key : Bytes) (out : Option Bytes) : Arena → Bool → List Task → Arena × List (Nat × Res)
  | a, _, [] => (a, [])
  | a, alive, t :: ts =>
    match out with
    | none =>
      let (a', rs) := deliver P key out a alive ts
      (a', (t.id, .err) :: rs)
    | some payload =>
      let (a1, alive1, r) := deliverOne P a key payload alive t
      let (a2, rs) := deliver P key out a1 alive1 ts
      (a2, (t.id, r) :: rs)

def stOf : Res → TSt
  | .err => .done none
  | .ok v => .done (some v)
  | .retry => .parked

/-- Record the results in the task table. -/
def settle (tasks : List Task) (rs : List (Nat × Res)) : List Task :=
  tasks.map fun t =>
    match rs.find? (fun r => r.1 == t.id) with
    | some r => { t with st := stOf r.2 }
    | none => t

def findTask (s : SState) (id : Nat) : Option Task := s.tasks.find? (fun t => t.id == id)

def setSt (tasks : List Task) (id : Nat) (st : TSt) : List Task :=
  tasks.map fun t => if t.id == id then { t with st := st } else t

def step (P : Params) (s : SState) : SOp → SState × SOut
  | .spawn id rq =>
    match findTask s id with
    | some _ => (s, .bad)
    | none => ({ s with tasks := s.tasks ++ [⟨id, rq, .parked⟩] }, .parked)
  | .enter id =>
    match findTask s id with
    | none => (s, .bad)
    | some t =>
      if t.st ≠ .parked then (s, .bad) else
      match s.flights.find? (fun f => f.key == t.req.key) with
      | some _ => ({ s with tasks := setSt s.tasks id .waiting }, .join)
      | none =>
        let fr := fetchUnlinked P s.arena t.req.key t.req.uri t.req.resp
        if fr.requests = 0 then
          -- invalid description or a file already in the arena: the flight ends at once
          let (a, rs) := deliver P t.req.key fr.out s.arena true [t]
          ({ s with arena := a, tasks := settle s.tasks rs }, .results rs)
        else
          ({ s with tasks := setSt s.tasks id .waiting,
                    flights := s.flights ++ [⟨t.req.key, t.req.uri, t.req.resp, id⟩] }, .lead)
  | .serve id =>
    match s.flights.find? (fun f => f.leader == id) with
    | none => (s, .bad)
    | some f =>
      -- the arena was consulted when the flight began (a miss, or there would be no request)
      let out := (fetchUnlinked P [] f.key f.uri f.resp).out
      let ws := s.tasks.filter (fun t => t.st == .waiting && t.req.key == f.key)
      let (a, rs) := deliver P f.key out s.arena true ws
      ({ arena := a, tasks := settle s.tasks rs, flights := s.flights.filter (fun g => !(g.leader == id)) }, .results rs)
  | .close id =>
    match findTask s id with
    | none => (s, .bad)
    | some t =>
      match t.st with
      | .done (some _) => ({ s with arena := s.arena.unref t.req.key, tasks := setSt s.tasks id .closed }, .closed)
      | _ => (s, .bad)

def init : SState := {}

end ClairModel.FetchSched
