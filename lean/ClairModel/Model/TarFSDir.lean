/-
  Model of pkg/tarfs/file.go (C11): the directory handle returned by Open and
  its paging `ReadDir(n)`, `fs.ReadFile` over the view, and the mode / time
  part of `FileInfo` as far as it is a function of the header fields.

    DirH, DirH.readDir        struct dir, (*dir).ReadDir (fixed code 4525426c)
    DirH.readDirLegacy        the code before the fix (n = 0 and n < -1)
    readPages                 a sequence of ReadDir calls on one handle
    readFileFS                io/fs.ReadFile(view, name): Open, Stat, Read to EOF
    (dir).Read                answers (0, io.EOF): ReadFile of a directory is
                              the empty string without an error

  Core Lean only.
-/
import ClairModel.Model.TarFS

namespace ClairModel.TarFS

/-- `struct dir`: the sorted entries made by Open and the read position. -/
structure DirH (α : Type) where
  es : List α
  pos : Nat := 0
deriving Repr

/-- One answer of `ReadDir(n)`. -/
inductive Page (α : Type) where
  | entries (es : List α)      -- (es, nil)
  | eof                        -- (nil, io.EOF)
  | panic                      -- slice bounds out of range (legacy code only)
deriving Repr, DecidableEq

/-- The entries a call handed out. -/
def Page.got {α : Type} : Page α → List α
  | .entries es => es
  | _ => []

/-- `(*dir).ReadDir(n)`:

        es := d.es[d.pos:]
        if len(es) == 0 { if n <= 0 { return nil, nil }; return nil, io.EOF }
        end := min(len(es), n)
        if n <= 0 { end = len(es) }
        d.pos += end
        return es[:end], nil -/
def DirH.readDir {α : Type} (d : DirH α) (n : Int) : DirH α × Page α :=
  let len := d.es.length - d.pos          -- len(d.es[d.pos:])
  if len = 0 then (d, if n ≤ 0 then .entries [] else .eof)
  else
    let e := if n ≤ 0 then len else min len n.toNat
    ({ d with pos := d.pos + e }, .entries ((d.es.drop d.pos).take e))

/-- The code before 4525426c: only `n == -1` meant "all". -/
def DirH.readDirLegacy {α : Type} (d : DirH α) (n : Int) : DirH α × Page α :=
  let len := d.es.length - d.pos
  if len = 0 then (d, if n = -1 then .entries [] else .eof)
  else
    let e : Int := if n = -1 then len else min (len : Int) n
    if e < 0 then (d, .panic)
    else ({ d with pos := d.pos + e.toNat }, .entries ((d.es.drop d.pos).take e.toNat))

/-- A sequence of calls on one handle. -/
def readPages {α : Type} : DirH α → List Int → List (Page α)
  | _, [] => []
  | d, n :: ns =>
    let (d', p) := d.readDir n
    p :: readPages d' ns

/-- What `Open(name)` hands to a caller that pages through a directory: the
    handle, or the reason there is none. -/
def openDir (fs : FS) (name : Bytes) : Except String (DirH Entry) :=
  match openFS fs name with
  | .dir _ es => .ok { es := es }
  | .file _ _ => .error "notdir"
  | .err _ => .error "err"

/-- `io/fs.ReadFile(view, name)`: the view has no ReadFile method, so the file
    is opened, its size taken from Stat as a capacity hint and read to EOF.
    A directory handle answers every Read with (0, io.EOF): the result is the
    empty string and no error. -/
def readFileFS (fs : FS) (name : Bytes) : Except Err Bytes :=
  match openFS fs name with
  | .file _ d => .ok d
  | .dir _ _ => .ok []
  | .err e => .error e

/-! ### Where the answers of the code depend on Go's map iteration order

  `walkTo` finds the child of a directory by scanning a Go map. The scan is
  deterministic exactly when no directory has two children with one base name
  (members placed through a symbolic link under a second spelling make such
  twins). Children only go away in the final cleanup, so a twin that exists at
  any moment during `New` still exists when the member that made it has been
  added. `ambDuring` says whether the state after some member (or the state in
  which `add` failed) has a twin; if it never does, every scan during `New` met
  at most one match and the outcome of the code cannot depend on map order. -/

def hasDupBytes : List Bytes → Bool
  | [] => false
  | x :: xs => xs.contains x || hasDupBytes xs

def FS.dupNames (fs : FS) : Bool :=
  fs.inodes.any fun n =>
    match n.children with
    | some cs => hasDupBytes (cs.map fun c => baseOf (fs.ino c).name)
    | none => false

def ambDuring : FS → HL → List Member → Bool
  | _, _, [] => false
  | fs, hl, m :: ms =>
    match prepMember fs m with
    | none =>
      let fs' := dirOverLink fs m
      fs'.dupNames || ambDuring fs' hl ms
    | some ino =>
      match add addFuel fs hl ino.name ino true with
      | (fs', hl', none) => fs'.dupNames || ambDuring fs' hl' ms
      | (fs', _, some _) => fs'.dupNames

end ClairModel.TarFS
