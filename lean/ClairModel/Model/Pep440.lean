/-
  Model of pkg/pep440/version.go: the (unanchored, case-sensitive) regular
  expression as a hand-written recogniser that returns the capture groups the
  way Go's leftmost-first matcher does, `Parse`, the projection `Version()`
  onto the ten int32 slots, `String`, `Compare`.  Core Lean only.

  The recogniser.  Everything after the release segment is optional, so the
  first alternative the backtracking order tries always succeeds; this makes
  the match a deterministic left-to-right scan:
    * the match starts at the first decimal digit, or one byte earlier when
      that byte is `v`;
    * `epoch` is the first digit run when it is followed by `!` and a digit;
    * `release` is the longest `digits(.digits)*`;
    * `pre`:  [-_.]? then the FIRST of alpha|a|beta|b|c|rc|preview|pre that is
      a prefix (every alternative stands before its own prefixes since the
      `fix:` commit d16bae31), then [-_.]? and an optional number;
    * `post`: `-digits`, or [-_.]? (post|rev|r) [-_.]? digits?;
    * `dev`:  [-_.]? dev [-_.]? digits?;
    * the local version is matched by the expression but never read.
-/
import ClairModel.Model.Version

namespace ClairModel.Pep440
open ClairModel.Order ClairModel.Version

/-- The capture groups `Parse` reads (text of each, `none` when the group did
    not participate or matched the empty string — `Parse` skips both). -/
structure Groups where
  epoch : List Char := []
  release : List Char := []
  preL : List Char := []
  preN : List Char := []
  postN1 : List Char := []
  postN2 : List Char := []
  devN : List Char := []
  deriving Repr, DecidableEq

def isSep (c : Char) : Bool := c = '-' || c = '_' || c = '.'

/-- Longest prefix of digits and the rest. -/
def spanDigits : List Char → List Char × List Char
  | [] => ([], [])
  | c :: cs => if isDigit c then let (d, r) := spanDigits cs; (c :: d, r) else ([], c :: cs)

/-- `[-_\.]?` (greedy): drop one separator if there is one. -/
def optSep : List Char → List Char
  | [] => []
  | c :: cs => if isSep c then cs else c :: cs

/-- Strip `p` from the front of `s` if it is a prefix. -/
def stripPrefix (p s : List Char) : Option (List Char) :=
  match p, s with
  | [], s => some s
  | _ :: _, [] => none
  | a :: p', b :: s' => if a = b then stripPrefix p' s' else none

/-- First alternative (in the order written in the expression) that is a prefix. -/
def firstAlt : List (List Char) → List Char → Option (List Char × List Char)
  | [], _ => none
  | a :: as, s => match stripPrefix a s with
    | some r => some (a, r)
    | none => firstAlt as s

def preAlts : List (List Char) :=
  [['a', 'l', 'p', 'h', 'a'], ['a'], ['b', 'e', 't', 'a'], ['b'], ['c'], ['r', 'c'],
   ['p', 'r', 'e', 'v', 'i', 'e', 'w'], ['p', 'r', 'e']]
def postAlts : List (List Char) := [['p', 'o', 's', 't'], ['r', 'e', 'v'], ['r']]
def devAlts : List (List Char) := [['d', 'e', 'v']]

/-- `(\.[0-9]+)*` after the first number of the release: returns the matched
    text (with the dots) and the rest.  `fuel` bounds the recursion by the
    input length. -/
def releaseTail : Nat → List Char → List Char × List Char
  | 0, s => ([], s)
  | fuel + 1, s =>
    match s with
    | '.' :: r =>
      if (spanDigits r).1.isEmpty then ([], s)
      else ('.' :: (spanDigits r).1 ++ (releaseTail fuel (spanDigits r).2).1, (releaseTail fuel (spanDigits r).2).2)
    | _ => ([], s)

/-- `sep? label sep? digits?` with `label` the first matching alternative;
    returns (label, number text, rest) or `none` when the group does not match
    (in which case nothing is consumed). -/
def labelled (alts : List (List Char)) (s : List Char) : Option (List Char × List Char × List Char) :=
  -- the greedy leading `[-_\.]?` takes a separator when there is one; giving it
  -- back cannot help, because no label starts with a separator
  match firstAlt alts (optSep s) with
  | some (l, r) =>
    let (d, r') := spanDigits (optSep r)
    -- when no digits follow, the separator consumed by the second greedy
    -- `[-_\.]?` stays consumed (the optional number then matches empty)
    some (l, d, if d.isEmpty then optSep r else r')
  | none => none

/-- First alternative of the post group: `-digits`. -/
def postDash : List Char → Option (List Char × List Char)
  | '-' :: r => if (spanDigits r).1.isEmpty then none else some ((spanDigits r).1, (spanDigits r).2)
  | _ => none

/-- The post group: `-digits` first, else the labelled form; returns
    (post_n1, post_n2, rest). -/
def postGroup (s : List Char) : Option (List Char × List Char × List Char) :=
  match postDash s with
  | some (d, r) => some (d, [], r)
  | none =>
    match labelled postAlts s with
    | some (_, d, r) => some ([], d, r)
    | none => none

/-- The optional pre group: (label, number, rest); nothing consumed when it does not match. -/
def preGroup (s : List Char) : List Char × List Char × List Char :=
  match labelled preAlts s with
  | some (l, n, r) => (l, n, r)
  | none => ([], [], s)

/-- The optional post group: (post_n1, post_n2, rest). -/
def postGroupOpt (s : List Char) : List Char × List Char × List Char :=
  match postGroup s with
  | some (a, b, r) => (a, b, r)
  | none => ([], [], s)

/-- The optional dev group: its number. -/
def devGroup (s : List Char) : List Char :=
  match labelled devAlts s with
  | some (_, n, _) => n
  | none => []

/-- The expression from the release segment on: release, pre, post, dev. -/
def matchRest (epoch relStart : List Char) : Groups :=
  let dr := spanDigits relStart
  let tr := releaseTail dr.2.length dr.2
  let pre := preGroup tr.2
  let post := postGroupOpt pre.2.2
  { epoch := epoch, release := dr.1 ++ tr.1, preL := pre.1, preN := pre.2.1,
    postN1 := post.1, postN2 := post.2.1, devN := devGroup post.2.2 }

/-- `(?:(?P<epoch>[0-9]+)!)?`: the first digit run `d0` is the epoch only if
    `!` and then a digit follow (`r0` is the text after `d0`); returns the
    epoch group and where the release segment starts. -/
def epochSplit (s d0 r0 : List Char) : List Char × List Char :=
  match r0 with
  | '!' :: r1 => (match r1 with
      | c :: _ => if isDigit c then (d0, r1) else ([], s)
      | [] => ([], s))
  | _ => ([], s)

/-- Match the expression at the start of `s` (after the optional `v`). -/
def matchHere (s : List Char) : Option Groups :=
  let d := spanDigits s
  if d.1.isEmpty then none else
  let er := epochSplit s d.1 d.2
  some (matchRest er.1 er.2)

/-- Leftmost match: the first position where a digit stands, or a `v`
    directly followed by a digit. -/
def findMatch : List Char → Option Groups
  | [] => none
  | c :: cs =>
    if isDigit c then matchHere (c :: cs)
    else if c = 'v' then
      match cs with
      | d :: _ => if isDigit d then matchHere cs else findMatch cs
      | [] => none
    else findMatch cs

/-- `pep440.Version`. -/
structure Ver where
  epoch : Int := 0
  release : List Int := []
  label : List Char := []
  preN : Int := 0
  post : Int := 0
  dev : Int := 0
  deriving Repr, DecidableEq

def atoiAll : List (List Char) → Option (List Int)
  | [] => some []
  | x :: xs => match atoi x, atoiAll xs with
    | some n, some ns => some (n :: ns)
    | _, _ => none

def normLabel (l : List Char) : Option (List Char) :=
  if l = ['a'] || l = ['a', 'l', 'p', 'h', 'a'] then some ['a']
  else if l = ['b'] || l = ['b', 'e', 't', 'a'] then some ['b']
  else if l = ['r', 'c'] || l = ['c'] || l = ['p', 'r', 'e'] || l = ['p', 'r', 'e', 'v', 'i', 'e', 'w'] then some ['r', 'c']
  else none

/-- The `pre_l` case of `Parse`: an empty group is skipped. -/
def labelOf (l : List Char) : Option (List Char) := if l.isEmpty then some [] else normLabel l

/-- A group that is empty is skipped (field keeps its zero value). -/
def atoiOpt (s : List Char) : Option Int := if s.isEmpty then some 0 else atoi s

/-- `pep440.Parse`; `none` = error. -/
def parse (s : List Char) : Option Ver := do
  let g ← findMatch s
  let epoch ← atoiOpt g.epoch
  let release ← atoiAll (splitOn '.' g.release)
  let label ← labelOf g.preL
  let preN ← atoiOpt g.preN
  let post1 ← atoiOpt g.postN1
  let post2 ← atoiOpt g.postN2
  let dev ← atoiOpt g.devN
  pure { epoch := epoch, release := release, label := label, preN := preN,
         post := if g.postN2.isEmpty then post1 else post2, dev := dev }

def labelSlot (l : List Char) : Int :=
  if l = ['a'] then -3 else if l = ['b'] then -2 else if l = ['r', 'c'] then -1 else 0

/-- The release slots: the first five components converted with `int32`,
    missing ones zero. -/
def relSlots (r : List Int) : List Int :=
  let r5 := (r.take 5).map toInt32
  r5 ++ List.replicate (5 - r5.length) 0

/-- `(*Version).Version`: the projection onto the ten slots, including the
    promotion of a lone dev release into the pre-release label slot and the
    int32 wrap-around of every conversion. -/
def project (v : Ver) : Version :=
  let preL := labelSlot v.label
  let post := toInt32 v.post
  let (preL', dev) :=
    if v.dev ≠ 0 then
      (if v.post ≠ 0 || preL ≠ 0 then (preL, toInt32 (minInt32 + toInt32 v.dev))
       else (toInt32 (minInt32 + toInt32 v.dev), 0))
    else (preL, 0)
  { kind := ['p', 'e', 'p', '4', '4', '0'],
    v := [toInt32 v.epoch] ++ relSlots v.release ++ [preL', toInt32 v.preN, post, dev] }

/-- `(*Version).Compare`. -/
def cmp (a b : Ver) : Ordering := Version.cmp (project a) (project b)

/-- `(*Version).String`. -/
def toStr (v : Ver) : List Char :=
  (if v.epoch ≠ 0 then intStr v.epoch ++ ['!'] else []) ++
  joinWith ['.'] (v.release.map intStr) ++
  (if v.label ≠ [] then v.label ++ intStr v.preN else []) ++
  (if v.post ≠ 0 then ['.', 'p', 'o', 's', 't'] ++ intStr v.post else []) ++
  (if v.dev ≠ 0 then ['.', 'd', 'e', 'v'] ++ intStr v.dev else [])

/-! ### pkg/pep440/range.go -/

/-- The comparison operators of a version specifier (`op` in range.go). -/
inductive Op where
  | eq | ne | le | ge | lt | gt
  deriving Repr, DecidableEq

structure Criterion where
  op : Op
  v : Ver
  deriving Repr, DecidableEq

/-- `(*criterion).Match`: `cmp := v.Compare(&c.V)` against the operator. -/
def Criterion.matches (c : Criterion) (v : Ver) : Bool :=
  match c.op with
  | .eq => cmp v c.v == .eq
  | .ne => cmp v c.v != .eq
  | .le => cmp v c.v != .gt
  | .ge => cmp v c.v != .lt
  | .lt => cmp v c.v == .lt
  | .gt => cmp v c.v == .gt

/-- `Range.Match`: every criterion matches. -/
def rangeMatch (r : List Criterion) (v : Ver) : Bool := r.all (·.matches v)

/-- `unicode.IsSpace` (the runes `strings.Map(stripSpace, r)` removes; the
    text is a list of runes — ill-formed bytes are U+FFFD, which `strings.Map`
    writes out as such and which is not white space). -/
def isSpace (c : Char) : Bool := uniIsSpace c

def isOpChar (c : Char) : Bool := c = '~' || c = '=' || c = '!' || c = '<' || c = '>'

/-- `strings.LastIndexAny(r, "~=!<>") + 1`, as the split of the text there:
    (operator text, version text). -/
def splitAtLastOp (s : List Char) : List Char × List Char :=
  let k := (s.reverse.dropWhile (fun c => !isOpChar c)).length
  (s.take k, s.drop k)

/-- `int + 1` on a 64-bit platform. -/
def inc64 (x : Int) : Int := (x + 1 + 9223372036854775808) % 18446744073709551616 - 9223372036854775808

def incLast : List Int → List Int
  | [] => []
  | [x] => [inc64 x]
  | x :: xs => x :: incLast xs

/-- The upper bound of the compatible-release operator `~=V`: the release of
    `V` without its last segment, the new last segment incremented; same epoch;
    nothing else. -/
def compatUpper (v : Ver) : Ver :=
  { epoch := v.epoch, release := incLast (v.release.take (v.release.length - 1)) }

/-- The `switch o` of `ParseRange`: the criteria an operator text yields for
    the parsed version; `none` = "unknown range operator", or `~=` with fewer
    than two release segments. -/
def opCriteria (o : List Char) (v : Ver) : Option (List Criterion) :=
  if o = ['=', '='] then some [⟨.eq, v⟩]
  else if o = ['!', '='] then some [⟨.ne, v⟩]
  else if o = ['<', '='] then some [⟨.le, v⟩]
  else if o = ['>', '='] then some [⟨.ge, v⟩]
  else if o = ['<'] then some [⟨.lt, v⟩]
  else if o = ['>'] then some [⟨.gt, v⟩]
  else if o = ['~', '='] then
    (if v.release.length < 2 then none else some [⟨.ge, v⟩, ⟨.lt, compatUpper v⟩])
  else none

/-- One comma-separated part of `ParseRange`; `none` = error. -/
def parseCriterion (part : List Char) : Option (List Criterion) :=
  match parse (splitAtLastOp part).2 with
  | none => none
  | some v => opCriteria (splitAtLastOp part).1 v

def parseCriteria : List (List Char) → Option (List Criterion)
  | [] => some []
  | p :: ps => match parseCriterion p, parseCriteria ps with
    | some a, some b => some (a ++ b)
    | _, _ => none

/-- `ParseRange`. -/
def parseRange (s : List Char) : Option (List Criterion) :=
  parseCriteria (splitOn ',' (s.filter fun c => !isSpace c))

end ClairModel.Pep440
