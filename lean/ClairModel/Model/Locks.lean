/-
  Model of the process-local lock sources
    libvuln/updates/locks.go   (localLockSource)
    updater/locallocker.go     (localLocker)
  Both files contain the same code; one machine stands for both and the
  correspondence harness drives both implementations.

  Atomic transitions = the critical sections under the struct's mutex:
    tryLock      TryLock body
    lock         first test of the `for exists` loop in Lock (acquire or park)
    retest       a parked goroutine that was woken by Broadcast re-tests
    release      the closure returned by cancelfunc (sync.Once: first call only)
    cancelParent the caller's parent context is cancelled
    ctx          is the context returned with grant g still live?
    close        localLockSource.Close: a no-op (updater.localLocker has none)
  `sync.Cond.Broadcast` is modelled as "every parked goroutine becomes
  runnable"; which runnable goroutine re-tests first is not determined.
-/
namespace ClairModel.Locks

structure Waiter where
  tid : Nat
  key : Nat
  parent : Nat
  runnable : Bool
deriving DecidableEq, Repr

structure Grant where
  gid : Nat
  key : Nat
  parent : Nat
deriving DecidableEq, Repr

structure State where
  held : List Nat := []            -- keys of the map `m`
  active : List Grant := []        -- grants whose release closure has not fired
  issued : Nat := 0                -- grants handed out so far
  parked : List Waiter := []
  deadParents : List Nat := []
deriving Repr

def init : State := {}

inductive Op where
  | tryLock (k p : Nat)
  | lock (t k p : Nat)
  | retest (t : Nat)
  | release (g : Nat)
  | cancelParent (p : Nat)
  | ctx (g : Nat)
  | close                    -- Close(ctx): returns nil, touches nothing
deriving Repr

inductive Out where
  | acquired (g : Nat)
  | busy            -- TryLock on a held key: returned context is already cancelled
  | parked
  | released
  | noop            -- repeated release
  | ctxLive (b : Bool)
  | ok
  | bad             -- the operation is not enabled (harness bug, never produced by the code)
deriving DecidableEq, Repr

def acquire (s : State) (k p : Nat) : State × Out :=
  ({ s with held := k :: s.held,
            active := ⟨s.issued, k, p⟩ :: s.active,
            issued := s.issued + 1 }, .acquired s.issued)

def ctxLive (s : State) (g : Nat) : Bool :=
  match s.active.find? (fun gr => gr.gid == g) with
  | none => false
  | some gr => !(s.deadParents.contains gr.parent)

def step (s : State) : Op → State × Out
  | .tryLock k p => if k ∈ s.held then (s, .busy) else acquire s k p
  | .lock t k p =>
      if (s.parked.any fun w => w.tid == t) then (s, .bad)
      else if k ∈ s.held then
        ({ s with parked := s.parked ++ [⟨t, k, p, false⟩] }, .parked)
      else acquire s k p
  | .retest t =>
      match s.parked.find? (fun w => w.tid == t && w.runnable) with
      | none => (s, .bad)
      | some w =>
        if w.key ∈ s.held then
          ({ s with parked := s.parked.map fun w' =>
                if w'.tid == t then { w' with runnable := false } else w' }, .parked)
        else
          acquire { s with parked := s.parked.filter fun w' => !(w'.tid == t) } w.key w.parent
  | .release g =>
      match s.active.find? (fun gr => gr.gid == g) with
      | none => (s, .noop)
      | some gr =>
        ({ s with active := s.active.filter (fun gr' => !(gr'.gid == g)),
                  held := s.held.filter (fun k => !(k == gr.key)),
                  parked := s.parked.map fun w => { w with runnable := true } }, .released)
  | .cancelParent p => ({ s with deadParents := p :: s.deadParents }, .ok)
  | .ctx g => (s, .ctxLive (ctxLive s g))
  | .close => (s, .ok)

/-- The code before the `sync.Once` fix: every call of the release closure
    deletes the key, whoever holds it now.  Kept to state the defect. -/
def stepNoOnce (keyOf : Nat → Option Nat) (s : State) : Op → State × Out
  | .release g =>
      match s.active.find? (fun gr => gr.gid == g) with
      | some _ => step s (.release g)
      | none =>
        match keyOf g with
        | none => (s, .noop)
        | some k => ({ s with held := s.held.filter (fun k' => !(k' == k)),
                              parked := s.parked.map fun w => { w with runnable := true } }, .noop)
  | op => step s op

end ClairModel.Locks
