/-
  Extensions of the indexer model that sit around `Indexer.index`:

  * `runLoopWith` / `indexWith`: `controller.run` / `Libindex.Index` over an
    arbitrary table of state functions (the real table is a package variable,
    `stateToStateFunc`); `Proofs/IndexerExt.lean` shows that with the model's
    table they are `runLoop` / `index`, so every theorem about `index` is a
    theorem about `indexWith (stateFn ..)`.
  * `indexOff`: the same with the scanners that `indexer.configAndFilter`
    dropped from the LayerScanner (their `Configure` failed) — they stay in
    `Options.Vscnrs` and in the ecosystems' lists, but are never run.
  * `configAndFilter` and `newLib`: what `libindex.New` does before the first
    Index call (argument checks, scanner constructors, RegisterScanners, the
    state token, scanner configuration).
  Core Lean only.
-/
import ClairModel.Model.Indexer

namespace ClairModel.Indexer

/-! ## `run` over any state-function table -/

abbrev StateFn := CState → W → Ctl → StateRet

/-- controller.go `run`, with the table a parameter. Same text as `runLoop`. -/
def runLoopWith (fn : StateFn) (o : Oracle) (m : Manifest) : Nat → W → Ctl → W × Ctl × Option ErrClass
  | 0, w, c => (w, c, some .gen)
  | fuel + 1, w, c =>
    if c.cur = .terminal then (w, c, none) else
    match fn c.cur w c with
    | (w, c, next, r) =>
      match r with
      | none =>
        if w.e.dead then (w, c, some .can)
        else
          match persistAndAdvance o m w c next none with
          | (w, c, r', true) => (w, c, r')
          | (w, c, _, false) => runLoopWith fn o m fuel w c
      | some .dl =>
        match persistAndAdvance o m w c next none with
        | (w, c, r', true) => (w, c, r')
        | (w, c, _, false) => runLoopWith fn o m fuel w c
      | some .can => (w, c, some .can)
      | some .gen =>
        let c := setState c .indexError
        let c := { c with report := { c.report with success := false, err := true } }
        match persistAndAdvance o m w c next (some .gen) with
        | (w, c, r', true) => (w, c, r')
        | (w, c, _, false) => runLoopWith fn o m fuel w c

/-- `Libindex.Index` with the table a parameter. -/
def indexWith (fn : StateFn) (o : Oracle) (cfg : Cfg) (m : Manifest) (st : Store) (dead0 : Bool) : IndexResult :=
  if dead0 then { st := st, e := { dead := true }, report := none, err := some .can }
  else
    match runLoopWith fn o m fuel ⟨st, {}⟩ { vs := cfg.scanners, report := {}, cur := .checkManifest } with
    | (w, c, r) => { st := w.st, e := w.e, report := some c.report, err := r }

/-! ## Scanners whose configuration failed -/

/-- `LayerScanner.Scan` runs only the scanners `configAndFilter` kept. -/
def scanLayersOff (off : Scanner → Bool) (sem : Sem) (o : Oracle) (cfg : Cfg) (m : Manifest) (w : W) (c : Ctl) : StateRet :=
  match scanPairs sem o ((pairs cfg m).filter fun p => !off p.2) w with
  | (w, some cl) => (w, c, .terminal, some cl)
  | (w, none) => (w, c, .coalesce, none)

def stateFnOff (off : Scanner → Bool) (sem : Sem) (o : Oracle) (cfg : Cfg) (m : Manifest) : StateFn
  | .scanLayers, w, c => scanLayersOff off sem o cfg m w c
  | s, w, c => stateFn sem o cfg m s w c

/-- `Libindex.Index` of a deployment in which the scanners `off` were dropped
    by `configAndFilter`: everything but the LayerScanner still counts them. -/
def indexOff (off : Scanner → Bool) (sem : Sem) (o : Oracle) (cfg : Cfg) (m : Manifest) (st : Store) (dead0 : Bool) :
    IndexResult :=
  indexWith (stateFnOff off sem o cfg m) o cfg m st dead0

/-! ## `libindex.New` -/

/-- What `configAndFilter` looks at, per scanner. -/
structure Impl where
  s : Scanner
  configurable : Bool := false   -- implements indexer.ConfigurableScanner
  rpc : Bool := false            -- implements indexer.RPCScanner
  haveCfg : Bool := false        -- Options.ScannerConfig has a function under its kind and name
  fails : Bool := false          -- its Configure returns an error
  deriving DecidableEq, Repr

/-- One `Configure` call: through which interface, whether the deployment's
    function (rather than the no-op default) and an `*http.Client` were passed. -/
structure CfgEvent where
  s : Scanner
  rpc : Bool
  ownFunc : Bool
  client : Bool
  deriving DecidableEq, Repr

/-- layerscanner.go `configAndFilter` for one scanner: the call it makes (if
    any) and whether the scanner is kept. -/
def configOne (x : Impl) : Option CfgEvent × Bool :=
  if x.rpc then (some ⟨x.s, true, x.haveCfg, true⟩, !x.fails)            -- `csOK && rsOK` falls through to here
  else if x.configurable then (some ⟨x.s, false, x.haveCfg, false⟩, !x.fails)
  else (none, true)                                                        -- configuration for an unconfigurable scanner is skipped with a warning

def configAndFilter (xs : List Impl) : List CfgEvent × List Scanner :=
  (xs.filterMap fun x => (configOne x).1, (xs.filter fun x => (configOne x).2).map (·.s))

/-- `EcosystemsToScanners`: first scanner of each name per kind. -/
def dedupeByName : List Scanner → List Scanner
  | [] => []
  | s :: rest => s :: (dedupeByName rest).filter fun t => !(t.kind == s.kind && t.name == s.name)

/-- The arguments of `libindex.New` that decide how far it gets. -/
structure NewIn where
  locker : Bool := true        -- Options.Locker non-nil
  store : Bool := true
  arena : Bool := true
  client : Bool := true        -- the *http.Client argument non-nil
  /-- the scanner-constructor call (PackageScanners, DistributionScanners,
      RepositoryScanners of each ecosystem, in order; New walks them twice)
      that returns an error, if any -/
  ctorErr : Option Nat := none
  nctor : Nat := 0             -- constructor calls of one walk (3 per stub ecosystem + the whiteout ecosystem's 4)
  registerErr : Bool := false  -- Store.RegisterScanners fails
  impls : List Impl := []      -- configured scanners after de-duplication, MergeVS order
  deriving Repr

structure NewOut where
  ok : Bool
  ctorCalls : Nat              -- scanner-constructor calls made
  registered : Bool            -- RegisterScanners was called
  events : List CfgEvent
  running : List Scanner       -- what the LayerScanner will run
  deriving DecidableEq, Repr

/-- `libindex.New`, in the order of the code: nil checks of Locker, Store,
    FetchArena; the client check; EcosystemsToScanners; RegisterScanners;
    setState; NewLayerScanner (EcosystemsToScanners again, configAndFilter). -/
def newLib (i : NewIn) : NewOut :=
  let bad (n : Nat) (reg : Bool) : NewOut := ⟨false, n, reg, [], []⟩
  if !i.locker || !i.store || !i.arena || !i.client then bad 0 false
  else
    match i.ctorErr with
    | some k =>
      if k < i.nctor then bad (k + 1) false
      else if i.registerErr then bad i.nctor true
      else if k < 2 * i.nctor then bad (k + 1) true
      else
        let r := configAndFilter i.impls
        ⟨true, 2 * i.nctor, true, r.1, r.2⟩
    | none =>
      if i.registerErr then bad i.nctor true
      else
        let r := configAndFilter i.impls
        ⟨true, 2 * i.nctor, true, r.1, r.2⟩

end ClairModel.Indexer
