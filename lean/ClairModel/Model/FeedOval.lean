/-
  C14 — OVAL feeds, modelled on the decoded `oval.Root` (goval-parser):

  * pkg/ovalutil/rpm.go   `RPMDefsToVulns`, `walkCriterion`, `getEnabledModules`, `mapArchOp`
  * pkg/ovalutil/dpkg.go  `DpkgDefsToVulns`, `validVersion`
  * pkg/ovalutil/links.go `Links`
  * the `protoVulns` closures of oracle/parser.go, suse/parser.go,
    photon/parser.go, rhel/parser.go, ubuntu/updater.go

  Identifier lookup (`Tests.Lookup`, `Objects.Lookup`, `States.Lookup`,
  `Variables.Lookup`) is modelled as an association list from identifier to
  (kind, payload); identifiers are assumed distinct within a document.
  Core Lean only.
-/
import ClairModel.Model.FeedCommon

namespace ClairModel.Feeds

/-! ### the criteria tree -/

/-- `oval.Criterion`: the referenced test and the comment. -/
structure Criterion where
  testRef : String
  comment : String
deriving DecidableEq, Repr

/-- `oval.Criteria`: nested criteria and the criterions of this node (the
    decoder collects the two kinds of children into two slices). -/
inductive Criteria where
  | node (subs : List Criteria) (leaves : List Criterion)
deriving Repr

mutual
/-- `walkCriterion`: depth first, nested criteria before the node's own criterions. -/
def walk : Criteria → List Criterion
  | .node subs leaves => walkList subs ++ leaves
def walkList : List Criteria → List Criterion
  | [] => []
  | c :: cs => walk c ++ walkList cs
end

/-! ### string search for the module comment -/

def isPrefixOf : List Char → List Char → Bool
  | [], _ => true
  | _ :: _, [] => false
  | p :: ps, c :: cs => p == c && isPrefixOf ps cs

/-- Index of the first occurrence of `pat` in `s`. -/
def indexOf? (pat : List Char) : List Char → Option Nat
  | [] => if pat.isEmpty then some 0 else none
  | c :: cs => if isPrefixOf pat (c :: cs) then some 0 else (indexOf? pat cs).map (· + 1)

/-- Index of the last occurrence of `pat` in `s`. -/
def lastIndexOf? (pat : List Char) : List Char → Option Nat
  | [] => if pat.isEmpty then some 0 else none
  | c :: cs =>
    match lastIndexOf? pat cs with
    | some i => some (i + 1)
    | none => if isPrefixOf pat (c :: cs) then some 0 else none

/-- `moduleCommentRegex` = `(Module )(.*)( is enabled)` on a comment without
    line breaks: the text between the first "Module " and the last
    " is enabled" after it (leftmost match, greedy `.*`). -/
def moduleOfComment (comment : String) : Option String :=
  let s := comment.toList
  match indexOf? "Module ".toList s with
  | none => none
  | some i =>
    let rest := s.drop (i + 7)
    match lastIndexOf? " is enabled".toList rest with
    | none => none
    | some j => some (String.ofList (rest.take j))

/-- `getEnabledModules`: one entry per criterion whose comment names a
    non-empty module (duplicates are kept). -/
def enabledModules (cris : List Criterion) : List String :=
  cris.filterMap fun c =>
    match moduleOfComment c.comment with
    | some m => if m ≠ "" then some m else none
    | none => none

/-! ### tests, objects, states -/

/-- A test of any kind: its element name and the object / state references. -/
structure OvalTest where
  kind : String
  objRefs : List String
  stateRefs : List String
deriving Repr

/-- An object of any kind. `name`/`varRef` are the rpminfo name, or the
    dpkginfo `<name>` body and its `var_ref` attribute. -/
structure OvalObject where
  kind : String
  name : String
  varRef : String := ""
deriving Repr

/-- `oval.Arch`: the operation (goval `Operation` value) and the body. -/
structure OvalArch where
  op : Nat
  body : String
deriving Repr

/-- A state of any kind, with the two children the walkers read. -/
structure OvalState where
  kind : String
  evr : Option String
  arch : Option OvalArch
deriving Repr

structure OvalRoot where
  tests : List (String × OvalTest)
  objects : List (String × OvalObject)
  states : List (String × OvalState)
  variables : List (String × List String)
deriving Repr

def assoc? {β : Type} (l : List (String × β)) (k : String) : Option β :=
  (l.find? fun p => p.1 == k).map (·.2)

/-- `mapArchOp`: goval `OpEquals`=1, `OpNotEquals`=2, `OpPatternMatch`=11 → claircore 1, 2, 3; else 0. -/
def mapArchOp (op : Nat) : Nat :=
  if op = 1 then 1 else if op = 2 then 2 else if op = 11 then 3 else 0

/-- What one criterion contributes. -/
inductive Leaf where
  | skip                                   -- `continue`
  | malformed                              -- a test without object reference: the walker returns an error
  | pkg (name : String) (state : Option OvalState) (varRef : String)
deriving Repr

/-- The per-criterion part of both walkers: test lookup (kind filter), first
    object reference, object lookup (kind filter), optional first state
    reference, state lookup, EVR presence. -/
def resolveLeaf (testKind objKind stateKind : String) (root : OvalRoot) (c : Criterion) : Leaf :=
  match assoc? root.tests c.testRef with
  | none => .skip
  | some t =>
    if t.kind ≠ testKind then .skip else
    match t.objRefs with
    | [] => .malformed
    | oref :: _ =>
      match assoc? root.objects oref with
      | none => .skip
      | some o =>
        if o.kind ≠ objKind then .skip else
        match t.stateRefs with
        | [] => .pkg o.name none o.varRef
        | sref :: _ =>
          match assoc? root.states sref with
          | none => .skip
          | some st =>
            if st.kind ≠ stateKind then .skip else
            match st.evr with
            | none => .skip
            | some _ => .pkg o.name (some st) o.varRef

/-! ### definitions and prototype vulnerabilities -/

/-- `oval.Definition` as far as the parsers read it. -/
structure OvalDef where
  id : String
  title : String
  desc : String
  severity : String
  refUrls : List String          -- metadata>reference ref_url
  advRefs : List String          -- advisory>ref
  bugs : List String             -- advisory>bug
  cveHrefs : List String         -- advisory>cve href
  platforms : List (List String) -- metadata>affected → platform
  cpes : List (String × Bool)    -- advisory>affected_cpe_list>cpe, with "cpe.Unbind succeeds"
  criteria : Criteria
  issued : String := ""          -- advisory>issued as canonical time ("" = the zero time)
deriving Repr

/-- `deduplicate`: first occurrences, empty strings dropped. -/
def dedupLinks : List String → List String → List String
  | [], _ => []
  | l :: ls, seen =>
    if l ≠ "" ∧ ¬ seen.contains l then l :: dedupLinks ls (l :: seen) else dedupLinks ls seen

/-- `ovalutil.Links`. -/
def ovalLinks (d : OvalDef) : String :=
  " ".intercalate (dedupLinks (d.refUrls ++ d.advRefs ++ d.bugs ++ d.cveHrefs) [])

/-- A prototype vulnerability function: `none` = it returned an error (the
    definition is skipped). -/
abbrev ProtoFn := OvalDef → Option (List Vuln)

/-- suse / photon: one prototype carrying the updater's distribution.  photon
    copies the advisory's issue date, suse does not (`withIssued`). -/
def protoSingle (sev : String → Nat) (updater dist : String) (withIssued : Bool := false) : ProtoFn := fun d =>
  some [{ updater := updater, name := d.title, desc := d.desc, links := ovalLinks d,
          sev := d.severity, nsev := sev d.severity, dist := dist,
          issued := if withIssued then d.issued else "" }]

/-- ubuntu: as above but the `Severity` string is not copied. -/
def protoUbuntu (sev : String → Nat) (updater dist : String) : ProtoFn := fun d =>
  some [{ updater := updater, name := d.title, desc := d.desc, links := ovalLinks d,
          nsev := sev d.severity, dist := dist, issued := d.issued }]

/-- oracle: one prototype per known platform string of every `affected`
    element; none known → error. -/
def protoOracle (sev : String → Nat) (updater : String) (platformDist : List (String × String)) : ProtoFn := fun d =>
  let vs := d.platforms.flatMap fun ps => ps.filterMap fun p =>
    (assoc? platformDist p).map fun dist =>
      ({ updater := updater, name := d.title, desc := d.desc, links := ovalLinks d,
         sev := d.severity, nsev := sev d.severity, dist := dist, issued := d.issued } : Vuln)
  if vs.isEmpty then none else some vs

/-- `definitionTypeRegex` = `^oval\:com\.redhat\.([a-z]+)\:def\:\d+$`: the
    lower-case word between the fixed prefix and `:def:<digits>`. -/
def rhelDefType (id : String) : Option String :=
  let s := id.toList
  let pre := "oval:com.redhat.".toList
  if ¬ isPrefixOf pre s then none else
  let rest := s.drop pre.length
  let word := rest.takeWhile fun c => 'a' ≤ c ∧ c ≤ 'z'
  let tail := rest.drop word.length
  let mid := ":def:".toList
  if word.isEmpty ∨ ¬ isPrefixOf mid tail then none else
  let digits := tail.drop mid.length
  if digits.isEmpty ∨ ¬ digits.all (fun c => '0' ≤ c ∧ c ≤ '9') then none else
  some (String.ofList word)

/-- First failing `cpe.Unbind` aborts the definition; empty entries are skipped. -/
def rhelCpes : List (String × Bool) → Option (List String)
  | [] => some []
  | (c, ok) :: rest =>
    if c = "" then rhelCpes rest
    else if ¬ ok then none
    else (rhelCpes rest).map (c :: ·)

/-- rhel: definition type from the identifier; `unaffected`, `none` (and `cve`
    when unpatched vulnerabilities are ignored) yield no prototype; otherwise
    one prototype per non-empty affected CPE, as repository. -/
def protoRhel (sev : String → Nat) (updater dist : String) (ignoreUnpatched : Bool)
    (tUnaffected tNone tCve : String) (repoKey : String := "rhel-cpe-repository") : ProtoFn := fun d =>
  match rhelDefType d.id with
  | none => none
  | some t =>
    if t = tUnaffected ∨ t = tNone ∨ (ignoreUnpatched ∧ t = tCve) then some [] else
    (rhelCpes d.cpes).map fun cs => cs.map fun c =>
      ({ updater := updater, name := d.title, desc := d.desc, links := ovalLinks d,
         sev := d.severity, nsev := sev d.severity, dist := dist, issued := d.issued,
         repo := c ++ "|" ++ repoKey ++ "|" } : Vuln)

/-! ### RPMDefsToVulns -/

/-- The vulnerability for (prototype, package criterion, module): the package
    with name, module and kind; the state's EVR as fixed version; the state's
    arch as arch operation and package arch. -/
def rpmVuln (p : Vuln) (name : String) (state : Option OvalState) (m : String) : Vuln :=
  let v := { p with hasPkg := true, pkgName := name, pkgModule := m, pkgKind := "binary" }
  match state with
  | none => v
  | some st =>
    let v := { v with fixed := st.evr.getD "" }
    match st.arch with
    | none => v
    | some a => { v with archOp := mapArchOp a.op, pkgArch := a.body }

/-- The vulnerabilities of one resolved criterion: enabled modules × prototypes. -/
def rpmEmit (mods : List String) (protos : List Vuln) (name : String) (state : Option OvalState) : List Vuln :=
  mods.flatMap fun m => protos.map fun p => rpmVuln p name state m

/-- Criterions of one definition, in order; `none` = the walker returns an error
    (a test of the wanted kind without object reference). -/
def rpmLeaves (root : OvalRoot) (mods : List String) (protos : List Vuln) : List Criterion → Option (List Vuln)
  | [] => some []
  | c :: cs =>
    match resolveLeaf "rpminfo_test" "rpminfo_object" "rpminfo_state" root c with
    | .malformed => none
    | .skip => rpmLeaves root mods protos cs
    | .pkg name st _ => (rpmLeaves root mods protos cs).map (rpmEmit mods protos name st ++ ·)

/-- One definition. -/
def rpmDef (root : OvalRoot) (proto : ProtoFn) (d : OvalDef) : Option (List Vuln) :=
  match proto d with
  | none => some []
  | some protos =>
    let cris := walk d.criteria
    let mods := enabledModules cris
    let mods := if mods.isEmpty then [""] else mods
    rpmLeaves root mods protos cris

/-- `RPMDefsToVulns`; `none` = error. -/
def rpmDefsToVulns (root : OvalRoot) (proto : ProtoFn) : List OvalDef → Option (List Vuln)
  | [] => some []
  | d :: ds =>
    match rpmDef root proto d with
    | none => none
    | some vs => (rpmDefsToVulns root proto ds).map (vs ++ ·)

/-! ### DpkgDefsToVulns -/

/-- Unicode `White_Space` as `strings.TrimSpace` sees it. -/
def isGoSpace (c : Char) : Bool :=
  let n := c.toNat
  n == 0x20 || (0x09 ≤ n && n ≤ 0x0D) || n == 0x85 || n == 0xA0 || n == 0x1680 ||
  (0x2000 ≤ n && n ≤ 0x200A) || n == 0x2028 || n == 0x2029 || n == 0x202F || n == 0x205F || n == 0x3000

def trimSpace (s : List Char) : List Char :=
  ((s.dropWhile isGoSpace).reverse.dropWhile isGoSpace).reverse

/-- A character of the class `[-_A-Za-z0-9.+:~]`. -/
def isVersionChar (c : Char) : Bool :=
  ('a' ≤ c && c ≤ 'z') || ('A' ≤ c && c ≤ 'Z') || ('0' ≤ c && c ≤ '9') ||
  c == '-' || c == '_' || c == '.' || c == '+' || c == ':' || c == '~'

/-- `validVersion` = `\A([0-9]+:)?[-_A-Za-z0-9.+:~]+(-[A-Za-z0-9+.~]+)?\z`.  The
    optional prefix and suffix only use characters of the middle class, so the
    language is: non-empty, every character in the class. -/
def validVersion (s : List Char) : Bool := !s.isEmpty && s.all isVersionChar

/-- `nameLookupFunc` of ubuntu/updater.go: the name itself, or the values of
    the referenced constant variable (none if the reference does not resolve). -/
def dpkgNames (root : OvalRoot) (name varRef : String) : List String :=
  if varRef = "" then [name] else (assoc? root.variables varRef).getD []

/-- The vulnerability for (prototype, package name) of a dpkg criterion. -/
def dpkgVuln (p : Vuln) (n : String) (state : Option OvalState) : Vuln :=
  let v := { p with hasPkg := true, pkgName := n, pkgKind := "binary" }
  match state with
  | none => v
  | some st =>
    let v := { v with fixed := st.evr.getD "" }
    match st.arch with
    | none => v
    | some a => { v with archOp := mapArchOp a.op, pkgArch := a.body }

/-- Whether a state lets its criterion through: its (trimmed) EVR must be a valid version. -/
def dpkgStateOk (state : Option OvalState) : Bool :=
  match state with
  | none => true
  | some st => validVersion (trimSpace (st.evr.getD "").toList)

/-- The vulnerabilities of one resolved dpkg criterion: prototypes × names.  A
    state whose (trimmed) EVR is not a valid version yields nothing; a state's
    arch goes onto the package (dpkg.go as fixed: before, `vuln.Package.Arch = …`
    dereferenced the prototype's nil package). -/
def dpkgEmit (protos : List Vuln) (names : List String) (state : Option OvalState) : List Vuln :=
  if dpkgStateOk state then protos.flatMap fun p => names.map fun n => dpkgVuln p n state else []

def dpkgLeaves (root : OvalRoot) (protos : List Vuln) : List Criterion → Option (List Vuln)
  | [] => some []
  | c :: cs =>
    match resolveLeaf "dpkginfo_test" "dpkginfo_object" "dpkginfo_state" root c with
    | .malformed => none
    | .skip => dpkgLeaves root protos cs
    | .pkg name st varRef =>
      (dpkgLeaves root protos cs).map (dpkgEmit protos (dpkgNames root name varRef) st ++ ·)

def dpkgDef (root : OvalRoot) (proto : ProtoFn) (d : OvalDef) : Option (List Vuln) :=
  match proto d with
  | none => some []
  | some protos => dpkgLeaves root protos (walk d.criteria)

/-- `DpkgDefsToVulns`; `none` = error. -/
def dpkgDefsToVulns (root : OvalRoot) (proto : ProtoFn) : List OvalDef → Option (List Vuln)
  | [] => some []
  | d :: ds =>
    match dpkgDef root proto d with
    | none => none
    | some vs => (dpkgDefsToVulns root proto ds).map (vs ++ ·)

end ClairModel.Feeds
