/-
  Model of ruby/version.go: the anchored expression `anchoredVersion` as a
  recogniser, `NewVersion`, `partitionSegments`, `canonicalize`, the two
  segment comparisons and the padded `Compare`.  Core Lean only.
-/
import ClairModel.Model.Version

namespace ClairModel.Gem
open ClairModel.Order ClairModel.Version

/-- `\s` of Go's regexp: tab, newline, form feed, carriage return, space. -/
def isWs (c : Char) : Bool := c = '\t' || c = '\n' || c = '\x0c' || c = '\r' || c = ' '

def dropWs : List Char → List Char
  | [] => []
  | c :: cs => if isWs c then dropWs cs else c :: cs

/-- `strings.TrimSpace` restricted to what can reach it (the expression has
    already excluded every other white space). -/
def trim (s : List Char) : List Char := (dropWs (dropWs s).reverse).reverse

def allNonEmpty (p : Char → Bool) (parts : List (List Char)) : Bool :=
  parts.all fun x => !x.isEmpty && x.all p

def isAlnumDash (c : Char) : Bool := isAlnum c || c = '-'

/-- Split at the first `-`. -/
def cutDash : List Char → List Char × Option (List Char)
  | [] => ([], none)
  | c :: cs => if c = '-' then ([], some cs) else
    let (h, t) := cutDash cs; (c :: h, t)

/-- The body `[0-9]+(\.[0-9a-zA-Z]+)*(-[0-9A-Za-z-]+(\.[0-9A-Za-z-]+)*)?`
    as a full match. -/
def bodyOk (b : List Char) : Bool :=
  let (h, t) := cutDash b
  let hp := splitOn '.' h
  let headOk := match hp with
    | [] => false
    | first :: rest => !first.isEmpty && first.all isDigit && allNonEmpty isAlnum rest
  let tailOk := match t with
    | none => true
    | some t => allNonEmpty isAlnumDash (splitOn '.' t)
  headOk && tailOk

/-- `anchoredVersion.MatchString`. -/
def valid (s : List Char) : Bool :=
  let b := trim s
  b.isEmpty || bodyOk b

inductive Seg where
  | num (digits : List Char)
  | str (text : List Char)
  deriving Repr, DecidableEq

def Seg.isZero : Seg → Bool
  | .num d => d.all (· = '0')
  | .str _ => false

def Seg.isStr : Seg → Bool
  | .str _ => true
  | .num _ => false

/-- `strings.ReplaceAll(version, "-", ".pre.")`. -/
def replaceDash : List Char → List Char
  | [] => []
  | c :: cs => if c = '-' then ['.', 'p', 'r', 'e', '.'] ++ replaceDash cs else c :: replaceDash cs

/-- `partitionSegments` (the prerelease flag is `segs.any isStr`). -/
def partition (v : List Char) : List Seg :=
  ((splitOn '.' v).filter (fun p => !p.isEmpty)).map fun p =>
    if p.all isDigit then Seg.num p else Seg.str p

/-- Drop trailing zero numeric segments. -/
def dropTrailingZeros (l : List Seg) : List Seg :=
  (l.reverse.dropWhile Seg.isZero).reverse

/-- Segments before the first string segment, and from it on. -/
def spanNoStr : List Seg → List Seg × List Seg
  | [] => ([], [])
  | s :: ss => if s.isStr then ([], s :: ss) else
    let (a, b) := spanNoStr ss; (s :: a, b)

/-- `canonicalize` after `partitionSegments`. -/
def canonSegs (segs : List Seg) : List Seg :=
  let s1 := dropTrailingZeros segs
  if segs.any Seg.isStr then
    let (pre, rest) := spanNoStr s1
    if rest.isEmpty then s1 else dropTrailingZeros pre ++ rest
  else s1

/-- `NewVersion`; `none` = `errInvalidVersion`. -/
def parse (s : List Char) : Option (List Seg) :=
  if !valid s then none else
  let v := trim s
  let v := if v.isEmpty then ['0'] else v
  some (canonSegs (partition (replaceDash v)))

/-- numeric against numeric: the shorter digit string is left-padded with
    zeros, then `strings.Compare`. -/
def numCmp (a b : List Char) : Ordering :=
  if a.length ≥ b.length then strCmp a (List.replicate (a.length - b.length) '0' ++ b)
  else strCmp (List.replicate (b.length - a.length) '0' ++ a) b

/-- `Segment.Compare`: a string segment is below every numeric one. -/
def segCmp : Seg → Seg → Ordering
  | .str _, .num _ => .lt
  | .num _, .str _ => .gt
  | .str a, .str b => strCmp a b
  | .num a, .num b => numCmp a b

def zeroSeg : Seg := .num ['0']

/-- `Version.Compare`: position by position, a missing segment counts as the
    numeric segment "0". -/
def cmp (a b : List Seg) : Ordering := lexCmpPad segCmp zeroSeg a b

def renderSeg : Seg → String
  | .num d => "n:" ++ String.ofList d
  | .str t => "s:" ++ String.ofList t

def render (l : List Seg) : String := " ".intercalate (l.map renderSeg)

end ClairModel.Gem
