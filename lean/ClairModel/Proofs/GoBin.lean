/-
  Lemmas about Model/GoBin.lean (gobin/exe.go toPackages): the list of
  reported modules, the spelling of `(devel)` versions, and the normalised
  version of a module version written `vA.B.C` (every group at most nine digits).
-/
import ClairModel.Model.GoBin

set_option autoImplicit false

namespace ClairModel.GoBin
open ClairModel.Version ClairModel.Semver

def Digits (l : List Char) : Prop := ∀ c ∈ l, isDigit c = true

/-- a text that does not go on with a digit -/
def NoDigitHead : List Char → Prop
  | [] => True
  | c :: _ => isDigit c = false

theorem spanD_append (ds rest : List Char) (hd : Digits ds) (hr : NoDigitHead rest) :
    spanD (ds ++ rest) = (ds, rest) := by
  induction ds with
  | nil =>
    cases rest with
    | nil => rfl
    | cons c cs =>
      simp only [List.nil_append, spanD]
      have : isDigit c = false := hr
      simp [this]
  | cons d ds ih =>
    have hd' : Digits ds := fun c hc => hd c (List.mem_cons_of_mem _ hc)
    have h1 : isDigit d = true := hd d (List.mem_cons_self ..)
    simp only [List.cons_append, spanD, h1, if_true, ih hd']

theorem isDigit_dot : isDigit '.' = false := by decide
theorem isDigit_v : isDigit 'v' = false := by decide

theorem stripV_digits (a rest : List Char) (ha : Digits a) (hne : a ≠ []) : stripV (a ++ rest) = a ++ rest := by
  cases a with
  | nil => exact absurd rfl hne
  | cons c cs =>
    have hc : isDigit c = true := ha c (List.mem_cons_self ..)
    have : c ≠ 'v' := by intro e; rw [e] at hc; exact absurd hc (by decide)
    simp only [List.cons_append]
    unfold stripV
    split
    · rename_i r heq
      injection heq with h1 _
      exact absurd h1 this
    · rfl

theorem dotNum_written (b rest : List Char) (hb : Digits b) (hne : b ≠ []) (hr : NoDigitHead rest) :
    dotNum ('.' :: (b ++ rest)) = (b, rest) := by
  simp only [dotNum, spanD_append b rest hb hr]
  cases b with
  | nil => exact absurd rfl hne
  | cons c cs => simp

/-- the capture groups of `vA.B.C` and of `A.B.C` -/
theorem groups_core (v : Bool) (a b c : List Char) (ha : Digits a) (hb : Digits b) (hc : Digits c)
    (na : a ≠ []) (nb : b ≠ []) (nc : c ≠ []) :
    groups ((if v then ['v'] else []) ++ a ++ '.' :: (b ++ '.' :: c)) =
      some { m1 := a, m2 := b, m3 := c, pre := [], build := [] } := by
  have hs : stripV ((if v then ['v'] else []) ++ a ++ '.' :: (b ++ '.' :: c)) = a ++ '.' :: (b ++ '.' :: c) := by
    cases v with
    | true => simp [stripV]
    | false => simpa using stripV_digits a ('.' :: (b ++ '.' :: c)) ha na
  have h1 : spanD (a ++ '.' :: (b ++ '.' :: c)) = (a, '.' :: (b ++ '.' :: c)) :=
    spanD_append a _ ha isDigit_dot
  have h2 : dotNum ('.' :: (b ++ '.' :: c)) = (b, '.' :: c) := dotNum_written b _ hb nb isDigit_dot
  have h3 : dotNum ('.' :: c) = (c, []) := by
    have := dotNum_written c [] hc nc trivial
    simpa using this
  unfold groups
  simp only [hs, h1, h2, h3]
  have : a.isEmpty = false := by cases a with
    | nil => exact absurd rfl na
    | cons _ _ => rfl
  simp [this, tailGroups]

theorem take9 (l : List Char) (h : l.length ≤ 9) : l.take 9 = l := List.take_of_length_le h

/-- `gobin.ParseVersion("vA.B.C")` = kind `semver`, numbers A, B, C -/
theorem gobinParse_core (v : Bool) (a b c : List Char) (ha : Digits a) (hb : Digits b) (hc : Digits c)
    (na : a ≠ []) (nb : b ≠ []) (nc : c ≠ []) (la : a.length ≤ 9) (lb : b.length ≤ 9) (lc : c.length ≤ 9) :
    gobinParse ((if v then ['v'] else []) ++ a ++ '.' :: (b ++ '.' :: c)) =
      some { kind := "semver".toList,
             v := [0, (natOfDigits a : Int), (natOfDigits b : Int), (natOfDigits c : Int), 0, 0, 0, 0, 0, 0] } := by
  unfold gobinParse
  rw [groups_core v a b c ha hb hc na nb nc]
  simp only [fitInt32, take9 a la, take9 b lb, take9 c lc]
  rfl

theorem gobinParse_devel : gobinParse develText = none := by decide
theorem gobinParse_empty : gobinParse [] = none := by decide

/-- names and versions of everything reported, in order -/
theorem toPackages_shape (bi : BuildInfo) :
    (toPackages bi).map (fun p => (p.name, p.version)) =
      ("stdlib".toList, toolchainVersion bi.goVersion) :: (mainName bi, mainVersionText bi) ::
        bi.deps.map Mod.effective := by
  simp only [toPackages, List.map_cons, List.map_map]
  congr 2

theorem toPackages_length (bi : BuildInfo) : (toPackages bi).length = 2 + bi.deps.length := by
  simp [toPackages]; omega

theorem takeWhile_append_space (v rest : List Char) (hv : ∀ c ∈ v, c ≠ ' ') :
    (v ++ ' ' :: rest).takeWhile (· ≠ ' ') = v := by
  induction v with
  | nil => simp
  | cons c cs ih =>
    have h1 : c ≠ ' ' := hv c (List.mem_cons_self ..)
    simp only [List.cons_append, List.takeWhile_cons, h1, ne_eq, not_false_eq_true, decide_true, if_true]
    rw [ih (fun d hd => hv d (List.mem_cons_of_mem _ hd))]

theorem takeWhile_nospace (v : List Char) (hv : ∀ c ∈ v, c ≠ ' ') : v.takeWhile (· ≠ ' ') = v := by
  induction v with
  | nil => rfl
  | cons c cs ih =>
    have h1 : c ≠ ' ' := hv c (List.mem_cons_self ..)
    simp only [List.takeWhile_cons, h1, ne_eq, not_false_eq_true, decide_true, if_true]
    rw [ih (fun d hd => hv d (List.mem_cons_of_mem _ hd))]

end ClairModel.GoBin
