/-
  Fault-free runs: every call succeeds, so every state function returns without
  error, the layers that need scanning were fetched, and the run ends with the
  report determined by manifest and configuration (`freshReport`). On top:
  `Good` (stored reports of indexed manifests are the fresh ones) is preserved
  by fault-free calls and by faulty calls on manifests not yet indexed.
-/
import ClairModel.Proofs.IndexerScans

namespace ClairModel.Indexer

variable {sem : Sem} {o : Oracle} {cfg : Cfg} {m : Manifest} {st0 : Store}

/-- The environment after a fault-free piece: still clean, same fetched layers. -/
structure FFStep (w w' : W) : Prop where
  clean : Clean w'.e
  fetched : w'.e.fetched = w.e.fetched

theorem FFStep.refl {w : W} (h : Clean w.e) : FFStep w w := ⟨h, (by first | rfl | trivial)⟩
theorem FFStep.trans {w w' w'' : W} (h₁ : FFStep w w') (h₂ : FFStep w' w'') : FFStep w w'' :=
  ⟨h₂.clean, h₂.fetched.trans h₁.fetched⟩

theorem call_ff (hff : FF o) (w : W) (hc : Clean w.e) (ch : Char) :
    ∃ e, w.call o ch = (⟨w.st, e⟩, ⟨true, none⟩) ∧ Clean e ∧ e.fetched = w.e.fetched := by
  obtain ⟨e, v, hcall, hs⟩ := call_spec o w ch
  obtain ⟨hv, hcl⟩ := hs.ff hff hc
  exact ⟨e, by rw [hcall, hv], hcl, hs.fetched⟩

theorem filterUnscanned_ff (hff : FF o) (m : Manifest) : ∀ (vs : List Scanner) (w : W), Clean w.e →
    (∃ l, (filterUnscanned o m vs w).2 = .ok l) ∧ FFStep w (filterUnscanned o m vs w).1
  | [], w, hc => by simp only [filterUnscanned]; exact ⟨⟨_, (by first | rfl | trivial)⟩, FFStep.refl hc⟩
  | s :: rest, w, hc => by
    obtain ⟨e, hcall, hcl, hfe⟩ := call_ff hff w hc 'M'
    simp only [filterUnscanned, hcall]
    obtain ⟨⟨l, hl⟩, hstep⟩ := filterUnscanned_ff hff m rest ⟨w.st, e⟩ hcl
    generalize filterUnscanned o m rest ⟨w.st, e⟩ = res at hl hstep ⊢
    obtain ⟨w', r⟩ := res
    simp only at hl
    subst hl
    exact ⟨⟨_, (by first | rfl | trivial)⟩, ⟨hstep.clean, hstep.fetched.trans hfe⟩⟩

theorem checkManifest_ff (hff : FF o) (m : Manifest) (w : W) (c : Ctl) (hc : Clean w.e)
    (hrep : w.st.manifestScanned m c.vs = true → (w.st.report? m).isSome) :
    (checkManifest o m w c).2.2.2 = none ∧ FFStep w (checkManifest o m w c).1 := by
  obtain ⟨e, hcall, hcl, hfe⟩ := call_ff hff w hc 'M'
  unfold checkManifest
  simp only [hcall]
  by_cases hsc : w.st.manifestScanned m c.vs = true
  · simp only [hsc, if_true]
    obtain ⟨e2, hcall2, hcl2, hfe2⟩ := call_ff hff ⟨w.st, e⟩ hcl 'G'
    simp only [hcall2]
    have := hrep hsc
    cases hr : w.st.report? m with
    | none => rw [hr] at this; cases this
    | some r => exact ⟨(by first | rfl | trivial), ⟨hcl2, hfe2.trans hfe⟩⟩
  · have hsc' : w.st.manifestScanned m c.vs = false := by simpa using hsc
    simp only [hsc', Bool.false_eq_true, if_false]
    obtain ⟨⟨l, hl⟩, hstep⟩ := filterUnscanned_ff hff m c.vs ⟨w.st, e⟩ hcl
    generalize filterUnscanned o m c.vs ⟨w.st, e⟩ = res at hl hstep ⊢
    obtain ⟨w', r⟩ := res
    simp only at hl
    subst hl
    simp only []
    obtain ⟨e3, hcall3, hcl3, hfe3⟩ := call_ff hff w' hstep.clean 'P'
    simp only [hcall3, if_true]
    exact ⟨(by first | rfl | trivial), ⟨hcl3, (hfe3.trans hstep.fetched).trans hfe⟩⟩

theorem reduceInner_ff (hff : FF o) (l : Layer) : ∀ (vs : List Scanner) (w : W), Clean w.e →
    (∃ b, (reduceInner o l vs w).2 = .ok b ∧ ((∃ s, s ∈ vs ∧ (l, s) ∉ w.st.scannedLayer) → b = true)) ∧
    FFStep w (reduceInner o l vs w).1 ∧ (reduceInner o l vs w).1.st = w.st
  | [], w, hc => by
    simp only [reduceInner]
    exact ⟨⟨false, rfl, fun ⟨s, hs, _⟩ => by cases hs⟩, FFStep.refl hc, (by first | rfl | trivial)⟩
  | s :: rest, w, hc => by
    obtain ⟨e, hcall, hcl, hfe⟩ := call_ff hff w hc 'L'
    simp only [reduceInner, hcall]
    by_cases hsc : w.st.layerScanned l s = true
    · simp only [hsc, if_true]
      obtain ⟨⟨b, hb, himp⟩, hstep, hst⟩ := reduceInner_ff hff l rest ⟨w.st, e⟩ hcl
      refine ⟨⟨b, hb, ?_⟩, ⟨hstep.clean, hstep.fetched.trans hfe⟩, hst⟩
      rintro ⟨s', hs', hun⟩
      rcases List.mem_cons.1 hs' with rfl | hs'
      · exact absurd ((Store.layerScanned_iff _ _ _).1 hsc) hun
      · exact himp ⟨s', hs', hun⟩
    · have hsc' : w.st.layerScanned l s = false := by simpa using hsc
      simp only [hsc', Bool.false_eq_true, if_false]
      exact ⟨⟨true, rfl, fun _ => rfl⟩, ⟨hcl, hfe⟩, (by first | rfl | trivial)⟩

theorem reduce_ff (hff : FF o) (vs : List Scanner) : ∀ (ls : List Layer) (w : W), Clean w.e →
    (∃ r, (reduce o vs ls w).2 = .ok r ∧ ∀ l, l ∈ ls → (∃ s, s ∈ vs ∧ (l, s) ∉ w.st.scannedLayer) → l ∈ r) ∧
    FFStep w (reduce o vs ls w).1 ∧ (reduce o vs ls w).1.st = w.st
  | [], w, hc => by
    simp only [reduce]
    exact ⟨⟨[], rfl, fun l hl => by cases hl⟩, FFStep.refl hc, (by first | rfl | trivial)⟩
  | l :: ls, w, hc => by
    obtain ⟨⟨b, hb, himp⟩, hstep, hst⟩ := reduceInner_ff hff l vs w hc
    simp only [reduce]
    generalize reduceInner o l vs w = res at hb hstep hst ⊢
    obtain ⟨w1, r1⟩ := res
    simp only at hb hst
    subst hb
    simp only []
    obtain ⟨⟨r, hr, himp2⟩, hstep2, hst2⟩ := reduce_ff hff vs ls w1 hstep.clean
    generalize reduce o vs ls w1 = res2 at hr hstep2 hst2 ⊢
    obtain ⟨w2, r2⟩ := res2
    simp only at hr hst2
    subst hr
    simp only []
    refine ⟨⟨_, rfl, ?_⟩, hstep.trans hstep2, hst2.trans hst⟩
    intro l' hl' hex
    rcases List.mem_cons.1 hl' with rfl | hl'
    · rw [himp hex]; simp
    · have := himp2 l' hl' (hst ▸ hex)
      split
      · exact List.mem_cons_of_mem _ this
      · exact this

theorem fetchLayers_ff (hff : FF o) (m : Manifest) (w : W) (c : Ctl) (hc : Clean w.e) :
    (fetchLayers o m w c).2.2.2 = none ∧ Clean (fetchLayers o m w c).1.e ∧
    ∀ l, l ∈ m → (∃ s, s ∈ c.vs ∧ (l, s) ∉ w.st.scannedLayer) → l ∈ (fetchLayers o m w c).1.e.fetched := by
  obtain ⟨⟨r, hr, himp⟩, hstep, hst⟩ := reduce_ff hff c.vs m w hc
  unfold fetchLayers
  generalize reduce o c.vs m w = res at hr hstep hst ⊢
  obtain ⟨w1, r1⟩ := res
  simp only at hr hst
  subst hr
  simp only []
  obtain ⟨e, hcall, hcl, _⟩ := call_ff hff w1 hstep.clean 'Z'
  simp only [hcall, if_true]
  refine ⟨(by first | rfl | trivial), ?_, ?_⟩
  · exact ⟨hcl.1, hcl.2⟩
  · intro l hl hex
    exact List.mem_append_left _ (himp l hl hex)

theorem storeGroups_ff (hff : FF o) (l : Layer) (s : Scanner) : ∀ (gs : List (List Row)) (w : W), Clean w.e →
    (storeGroups o l s gs w).2 = none ∧ FFStep w (storeGroups o l s gs w).1
  | [], w, hc => by simp only [storeGroups]; exact ⟨(by first | rfl | trivial), FFStep.refl hc⟩
  | g :: gs, w, hc => by
    obtain ⟨e, hcall, hcl, hfe⟩ := call_ff hff w hc 'I'
    simp only [storeGroups, hcall, if_true]
    obtain ⟨h1, h2⟩ := storeGroups_ff hff l s gs ⟨w.st.insertRows l s g, e⟩ hcl
    exact ⟨h1, ⟨h2.clean, h2.fetched.trans hfe⟩⟩

theorem doScan_ff (hff : FF o) (sem : Sem) (l : Layer) (s : Scanner) (w : W) (hc : Clean w.e) (hf : l ∈ w.e.fetched) :
    (doScan sem o l s w).2 = none ∧ FFStep w (doScan sem o l s w).1 := by
  unfold doScan
  split
  · simp only [hf, if_true]; exact ⟨(by first | rfl | trivial), FFStep.refl hc⟩
  · obtain ⟨e, hcall, hcl, hfe⟩ := call_ff hff w hc 'S'
    simp only [hcall, Option.isSome_none, Bool.false_and, Bool.false_eq_true, if_false]
    have hf' : l ∈ e.fetched := hfe ▸ hf
    simp only [hf', if_true]
    exact ⟨(by first | rfl | trivial), ⟨hcl, hfe⟩⟩

theorem scanLayer_ff (hff : FF o) (sem : Sem) (l : Layer) (s : Scanner) (w : W) (hc : Clean w.e)
    (hf : (l, s) ∉ w.st.scannedLayer → l ∈ w.e.fetched) :
    (scanLayer sem o l s w).2 = none ∧ FFStep w (scanLayer sem o l s w).1 := by
  obtain ⟨e, hcall, hcl, hfe⟩ := call_ff hff w hc 'L'
  unfold scanLayer
  simp only [hcall]
  by_cases hsc : w.st.layerScanned l s = true
  · simp only [hsc, if_true]; exact ⟨(by first | rfl | trivial), ⟨hcl, hfe⟩⟩
  · have hsc' : w.st.layerScanned l s = false := by simpa using hsc
    have hun : (l, s) ∉ w.st.scannedLayer := fun h => hsc ((Store.layerScanned_iff _ _ _).2 h)
    simp only [hsc', Bool.false_eq_true, if_false]
    obtain ⟨h2, hs2⟩ := doScan_ff hff sem l s ⟨w.st, e⟩ hcl (hfe ▸ hf hun)
    generalize doScan sem o l s ⟨w.st, e⟩ = res2 at h2 hs2 ⊢
    obtain ⟨w2, r2⟩ := res2
    simp only at h2; subst h2
    simp only []
    obtain ⟨h3, hs3⟩ := storeGroups_ff hff l s (toStore sem s l) w2 hs2.clean
    generalize storeGroups o l s (toStore sem s l) w2 = res3 at h3 hs3 ⊢
    obtain ⟨w3, r3⟩ := res3
    simp only at h3; subst h3
    simp only []
    obtain ⟨e4, hcall4, hcl4, hfe4⟩ := call_ff hff w3 hs3.clean 'K'
    simp only [hcall4, if_true]
    exact ⟨(by first | rfl | trivial), ⟨hcl4, ((hfe4.trans hs3.fetched).trans hs2.fetched).trans hfe⟩⟩

theorem scanPairs_ff (hff : FF o) (sem : Sem) (m : Manifest) : ∀ (ps : List (Layer × Scanner)) (w : W), Clean w.e →
    (∀ p, p ∈ ps → p ∉ w.st.scannedLayer → p.1 ∈ w.e.fetched) →
    (scanPairs sem o ps w).2 = none ∧ FFStep w (scanPairs sem o ps w).1
  | [], w, hc, _ => by simp only [scanPairs]; exact ⟨(by first | rfl | trivial), FFStep.refl hc⟩
  | (l, s) :: rest, w, hc, hf => by
    simp only [scanPairs, hc.1, Bool.false_eq_true, if_false]
    obtain ⟨h1, hs1⟩ := scanLayer_ff hff sem l s w hc (hf (l, s) (by simp))
    have hstep := (scanLayer_step sem o m l s w).1
    generalize scanLayer sem o l s w = res at h1 hs1 hstep ⊢
    obtain ⟨w1, r1⟩ := res
    simp only at h1; subst h1
    simp only []
    obtain ⟨h2, hs2⟩ := scanPairs_ff hff sem m rest w1 hs1.clean (by
      intro p hp hun
      rw [hs1.fetched]
      exact hf p (List.mem_cons_of_mem _ hp) (fun hm => hun (hstep.le.scannedLayer _ hm)))
    exact ⟨h2, hs1.trans hs2⟩

theorem readCall_ff (hff : FF o) (ch : Char) (w : W) (hc : Clean w.e) :
    (readCall o ch w).2 = none ∧ FFStep w (readCall o ch w).1 := by
  obtain ⟨e, hcall, hcl, hfe⟩ := call_ff hff w hc ch
  simp only [readCall, hcall]
  exact ⟨(by first | rfl | trivial), ⟨hcl, hfe⟩⟩

theorem gatherLayer_ff (hff : FF o) (eco : Eco) (l : Layer) (w : W) (hc : Clean w.e) :
    (∃ a, (gatherLayer o eco l w).2 = .ok a) ∧ FFStep w (gatherLayer o eco l w).1 := by
  unfold gatherLayer
  obtain ⟨h1, s1⟩ := readCall_ff hff 'A' w hc
  generalize readCall o 'A' w = r1 at h1 s1 ⊢
  obtain ⟨w1, e1⟩ := r1
  simp only at h1; subst h1; simp only []
  obtain ⟨h2, s2⟩ := readCall_ff hff 'B' w1 s1.clean
  generalize readCall o 'B' w1 = r2 at h2 s2 ⊢
  obtain ⟨w2, e2⟩ := r2
  simp only at h2; subst h2; simp only []
  obtain ⟨h3, s3⟩ := readCall_ff hff 'D' w2 s2.clean
  generalize readCall o 'D' w2 = r3 at h3 s3 ⊢
  obtain ⟨w3, e3⟩ := r3
  simp only at h3; subst h3; simp only []
  obtain ⟨h4, s4⟩ := readCall_ff hff 'B' w3 s3.clean
  generalize readCall o 'B' w3 = r4 at h4 s4 ⊢
  obtain ⟨w4, e4⟩ := r4
  simp only at h4; subst h4; simp only []
  obtain ⟨h5, s5⟩ := readCall_ff hff 'F' w4 s4.clean
  generalize readCall o 'F' w4 = r5 at h5 s5 ⊢
  obtain ⟨w5, e5⟩ := r5
  simp only at h5; subst h5; simp only []
  exact ⟨⟨_, (by first | rfl | trivial)⟩, (((s1.trans s2).trans s3).trans s4).trans s5⟩

theorem gatherEco_ff (hff : FF o) (eco : Eco) : ∀ (ls : List Layer) (w : W), Clean w.e →
    (∃ a, (gatherEco o eco ls w).2 = .ok a) ∧ FFStep w (gatherEco o eco ls w).1
  | [], w, hc => by simp only [gatherEco]; exact ⟨⟨_, (by first | rfl | trivial)⟩, FFStep.refl hc⟩
  | l :: ls, w, hc => by
    obtain ⟨⟨a, ha⟩, s1⟩ := gatherLayer_ff hff eco l w hc
    simp only [gatherEco]
    generalize gatherLayer o eco l w = r1 at ha s1 ⊢
    obtain ⟨w1, e1⟩ := r1
    simp only at ha; subst ha; simp only []
    obtain ⟨⟨as, has⟩, s2⟩ := gatherEco_ff hff eco ls w1 s1.clean
    generalize gatherEco o eco ls w1 = r2 at has s2 ⊢
    obtain ⟨w2, e2⟩ := r2
    simp only at has; subst has; simp only []
    exact ⟨⟨_, (by first | rfl | trivial)⟩, s1.trans s2⟩

theorem gatherAll_ff (hff : FF o) (sem : Sem) (m : Manifest) : ∀ (ecos : List Eco) (w : W), Clean w.e →
    (∃ a, (gatherAll sem o m ecos w).2 = .ok a) ∧ FFStep w (gatherAll sem o m ecos w).1
  | [], w, hc => by simp only [gatherAll]; exact ⟨⟨_, (by first | rfl | trivial)⟩, FFStep.refl hc⟩
  | eco :: ecos, w, hc => by
    obtain ⟨⟨a, ha⟩, s1⟩ := gatherEco_ff hff eco m w hc
    simp only [gatherAll]
    generalize gatherEco o eco m w = r1 at ha s1 ⊢
    obtain ⟨w1, e1⟩ := r1
    simp only at ha; subst ha; simp only []
    obtain ⟨⟨as, has⟩, s2⟩ := gatherAll_ff hff sem m ecos w1 s1.clean
    generalize gatherAll sem o m ecos w1 = r2 at has s2 ⊢
    obtain ⟨w2, e2⟩ := r2
    simp only at has; subst has; simp only []
    exact ⟨⟨_, (by first | rfl | trivial)⟩, s1.trans s2⟩

theorem coalCalls_ff (hff : FF o) (sem : Sem) : ∀ (ecos : List Eco) (w : W), Clean w.e →
    (coalCalls sem o ecos w).2 = none ∧ FFStep w (coalCalls sem o ecos w).1
  | [], w, hc => by simp only [coalCalls]; exact ⟨(by first | rfl | trivial), FFStep.refl hc⟩
  | eco :: ecos, w, hc => by
    simp only [coalCalls]
    split
    · exact coalCalls_ff hff sem ecos w hc
    · obtain ⟨h1, s1⟩ := readCall_ff hff 'C' w hc
      generalize readCall o 'C' w = r1 at h1 s1 ⊢
      obtain ⟨w1, e1⟩ := r1
      simp only at h1; subst h1; simp only []
      obtain ⟨h2, s2⟩ := coalCalls_ff hff sem ecos w1 s1.clean
      exact ⟨h2, s1.trans s2⟩

/-- Under a fault-free oracle every state function run from a loop head
    returns no error and leaves the environment clean; after fetchLayers the
    layers that still need a scanner are fetched. -/
theorem stateFn_ff (hff : FF o) (w : W) (c : Ctl) (hc : Clean w.e) (hi : Inv sem w.st)
    (h : HeadCore sem cfg m st0 w.st c)
    (hrep : c.cur = .checkManifest → w.st.manifestScanned m c.vs = true → (w.st.report? m).isSome)
    (hfet : c.cur = .scanLayers → ∀ l, l ∈ m → ∀ s, s ∈ cfg.scanners → (l, s) ∉ w.st.scannedLayer → l ∈ w.e.fetched) :
    (stateFn sem o cfg m c.cur w c).2.2.2 = none ∧ Clean (stateFn sem o cfg m c.cur w c).1.e ∧
    (c.cur = .fetchLayers → ∀ l, l ∈ m → ∀ s, s ∈ cfg.scanners → (l, s) ∉ w.st.scannedLayer →
        l ∈ (stateFn sem o cfg m c.cur w c).1.e.fetched) := by
  rcases h.curFn with hcur | hcur | hcur | hcur | hcur | hcur
  · rw [hcur]; simp only [stateFn]
    obtain ⟨h1, h2⟩ := checkManifest_ff hff m w c hc (hrep hcur)
    exact ⟨h1, h2.clean, fun hh => by cases hh⟩
  · rw [hcur]; simp only [stateFn]
    obtain ⟨h1, h2, h3⟩ := fetchLayers_ff hff m w c hc
    refine ⟨h1, h2, fun _ l hl s hs hun => h3 l hl ?_⟩
    rcases h.vsCover s hs with hv | hv
    · exact ⟨s, hv, hun⟩
    · exact absurd (hi.manifestLayers m s hv l hl) hun
  · rw [hcur]; simp only [stateFn]
    unfold scanLayers
    obtain ⟨h1, h2⟩ := scanPairs_ff hff sem m (pairs cfg m) w hc (by
      intro p hp hun
      simp only [pairs, List.mem_flatMap, List.mem_map] at hp
      obtain ⟨l, hl, s, hs, rfl⟩ := hp
      exact hfet hcur l (mem_dedupe.1 hl) s hs hun)
    generalize scanPairs sem o (pairs cfg m) w = res at h1 h2 ⊢
    obtain ⟨w1, r1⟩ := res
    simp only at h1; subst h1
    exact ⟨(by first | rfl | trivial), h2.clean, fun hh => by cases hh⟩
  · rw [hcur]; simp only [stateFn]
    unfold coalesce
    obtain ⟨⟨a, ha⟩, h2⟩ := gatherAll_ff hff sem m cfg w hc
    generalize gatherAll sem o m cfg w = res at ha h2 ⊢
    obtain ⟨w1, r1⟩ := res
    simp only at ha; subst ha
    simp only []
    obtain ⟨h3, s3⟩ := coalCalls_ff hff sem cfg w1 h2.clean
    generalize coalCalls sem o cfg w1 = res2 at h3 s3 ⊢
    obtain ⟨w2, r2⟩ := res2
    simp only at h3; subst h3
    exact ⟨(by first | rfl | trivial), s3.clean, fun hh => by cases hh⟩
  · rw [hcur]; simp only [stateFn]
    unfold indexManifest
    obtain ⟨e, hcall, hcl, _⟩ := call_ff hff w hc 'X'
    simp only [hcall, if_true]
    exact ⟨(by first | rfl | trivial), hcl, fun hh => by cases hh⟩
  · rw [hcur]; simp only [stateFn]
    unfold indexFinished
    obtain ⟨e, hcall, hcl, _⟩ := call_ff hff w hc 'Y'
    simp only [hcall, if_true]
    have hpers : m ∈ w.st.manifests := h.persisted (by simp [hcur])
    simp only [Store.setIndexFinished, hpers, if_true]
    exact ⟨(by first | rfl | trivial), hcl, fun hh => by cases hh⟩

/-- Under a fault-free oracle the SetIndexReport after a state succeeds when
    the manifest row exists. -/
theorem persist_ff (hff : FF o) (m : Manifest) (w : W) (c : Ctl) (next : CState) (carry : Option ErrClass)
    (hc : Clean w.e) (hm : m ∈ w.st.manifests) :
    ∃ e st', Clean e ∧ e.fetched = w.e.fetched ∧ e.scans = w.e.scans ∧ w.st.setIndexReport m c.report = some st' ∧
      persistAndAdvance o m w c next carry =
        (⟨st', e⟩, if next = .terminal then c else setState c next, carry, if next = .terminal then true else carry.isSome) := by
  obtain ⟨e, hcall, hcl, hfe⟩ := call_ff hff w hc 'R'
  have hsc : e.scans = w.e.scans := by have := call_scans o w 'R'; rw [hcall] at this; exact this
  refine ⟨e, { w.st with reports := (m, c.report) :: w.st.reports }, hcl, hfe, hsc, by simp [Store.setIndexReport, hm], ?_⟩
  unfold persistAndAdvance
  simp only [hcall, if_true, Store.setIndexReport, hm]
  split <;> rfl

/-- A fault-free run from a loop head ends with a nil error, a consistent scan
    log, and — when the stored report of an already indexed manifest is the
    fresh one — the fresh report. -/
theorem runLoop_ff (hff : FF o) (hne : cfg.scanners ≠ []) :
    ∀ (fuel : Nat) (w : W) (c : Ctl), Clean w.e → Inv sem w.st → HeadCore sem cfg m st0 w.st c →
      (c.cur = .scanLayers → ∀ l, l ∈ m → ∀ s, s ∈ cfg.scanners → (l, s) ∉ w.st.scannedLayer → l ∈ w.e.fetched) →
      (match c.cur with
        | .checkManifest => 7 | .fetchLayers => 6 | .scanLayers => 5 | .coalesce => 4
        | .indexManifest => 3 | .indexFinished => 2 | _ => 0) ≤ fuel + 1 →
      ScansOK w.st w.e.scans →
      (runLoop sem o cfg m fuel w c).2.2 = none ∧
      ScansOK (runLoop sem o cfg m fuel w c).1.st (runLoop sem o cfg m fuel w c).1.e.scans ∧
      ((c.cur = .checkManifest → w.st.manifestScanned m cfg.scanners = true → w.st.report? m = some (freshReport sem cfg m)) →
        (runLoop sem o cfg m fuel w c).2.1.report = freshReport sem cfg m)
  | 0, w, c, _, _, h, _, hfuel, _ => by
    rcases h.curFn with hc | hc | hc | hc | hc | hc <;> rw [hc] at hfuel <;> simp at hfuel
  | fuel + 1, w, c, hcl, hi, h, hfet, hfuel, hsok => by
    have hcur : c.cur ≠ .terminal := by
      rcases h.curFn with hc | hc | hc | hc | hc | hc <;> simp [hc]
    simp only [runLoop, hcur, if_false]
    have fp := stateFn_post (o := o) w c hi h
    have hrep : c.cur = .checkManifest → w.st.manifestScanned m c.vs = true → (w.st.report? m).isSome := by
      intro hc hsc
      rw [h.initVs hc] at hsc
      obtain ⟨s, hs⟩ := List.exists_mem_of_ne_nil _ hne
      exact hi.manifestReport m s ((Store.manifestScanned_iff _ _ _).1 hsc s hs)
    obtain ⟨hnone, hcl1, hfet1⟩ := stateFn_ff hff w c hcl hi h hrep hfet
    have hsok1 := stateFn_scansOK (o := o) w c hi h hnone hsok
    generalize stateFn sem o cfg m c.cur w c = res at fp hnone hcl1 hfet1 hsok1
    obtain ⟨w1, c1, next, r⟩ := res
    simp only at hnone hcl1 hfet1 hsok1
    subst hnone
    simp only [hcl1.1, Bool.false_eq_true, if_false]
    -- the manifest row exists by now
    have hm1 : m ∈ w1.st.manifests := by
      by_cases hc : c.cur = .checkManifest
      · by_cases hn : next = .terminal
        · rcases fp.okTerminal rfl hn with ⟨_, hst, hsc, _⟩ | hfin
          · simp only at hst hsc
            rw [hst]
            rw [h.initVs hc] at hsc
            obtain ⟨s, hs⟩ := List.exists_mem_of_ne_nil _ hne
            exact hi.manifestPersisted m s ((Store.manifestScanned_iff _ _ _).1 hsc s hs)
          · have := hfin.1; rw [hc] at this; cases this
        · have hs := fp.succ rfl hn
          simp only at hs
          refine (fp.okNext rfl hn).1.persisted ?_
          show next ≠ .checkManifest
          rw [hs, hc]; simp [succState]
      · exact fp.persisted hc
    obtain ⟨e2, st2, hcl2, hfe2, hsc2, hset, hpa⟩ := persist_ff hff m w1 c1 next none hcl1 hm1
    rw [hpa]
    have hle2 := Store.le_setIndexReport hset
    have hsok2 : ScansOK st2 e2.scans := by rw [hsc2]; exact hsok1.mono hle2
    by_cases hn : next = .terminal
    · simp only [hn, if_true]
      refine ⟨(by first | rfl | trivial), hsok2, ?_⟩
      intro hgood
      rcases fp.okTerminal rfl hn with ⟨hc, hst, hsc, hrp⟩ | hfin
      · simp only at hst hsc hrp
        rw [h.initVs hc] at hsc
        have := hgood hc hsc
        rw [hrp] at this
        exact (Option.some.inj this)
      · obtain ⟨hc, _, hctl, _⟩ := hfin
        simp only at hctl
        rw [hctl, h.finishedReport hc]
    · simp only [hn, if_false, Option.isSome_none]
      obtain ⟨hcore, hsm1⟩ := fp.okNext rfl hn
      simp only at hcore hsm1
      have hsm2 : st2.scannedManifest = w1.st.scannedManifest := by
        obtain ⟨_, rfl⟩ := Store.setIndexReport_eq hset; rfl
      have hsl2 : st2.scannedLayer = w1.st.scannedLayer := by
        obtain ⟨_, rfl⟩ := Store.setIndexReport_eq hset; rfl
      have hcur2 : (setState c1 next).cur = next := rfl
      have hsucc := fp.succ rfl hn
      simp only at hsucc
      have hnc : (setState c1 next).cur ≠ .checkManifest := by
        rw [hcur2, hsucc]
        rcases h.curFn with hc | hc | hc | hc | hc | hc <;> rw [hc] <;> simp [succState]
      have ih := runLoop_ff hff hne fuel ⟨st2, e2⟩ (setState c1 next) hcl2 (Store.inv_setIndexReport (fp.step.inv hi) hset)
        (hcore.mono hle2 hsm2) ?_ ?_ hsok2
      · exact ⟨ih.1, ih.2.1, fun _ => ih.2.2 (fun hh => absurd hh hnc)⟩
      · intro hc2 l hl s hs hun
        rw [hcur2, hsucc] at hc2
        have hcf : c.cur = .fetchLayers := by
          rcases h.curFn with hc | hc | hc | hc | hc | hc <;> rw [hc] at hc2 <;> simp [succState] at hc2
          exact hc
        show l ∈ e2.fetched
        rw [hfe2]
        apply hfet1 hcf l hl s hs
        intro hm
        apply hun
        show (l, s) ∈ st2.scannedLayer
        rw [hsl2]
        exact fp.step.le.scannedLayer _ hm
      · rw [hcur2, hsucc]
        rcases h.curFn with hc | hc | hc | hc | hc | hc <;> rw [hc] at hfuel ⊢ <;> simp only [succState] at hfuel ⊢ <;> omega

/-! ## Stores whose reports are intact -/

/-- The store invariant, a non-empty scanner set (libindex.New always adds the
    whiteout scanner), and: every manifest recorded as indexed by all configured
    scanners has the fresh report stored. -/
structure Good (sem : Sem) (cfg : Cfg) (st : Store) : Prop where
  inv : Inv sem st
  nonempty : cfg.scanners ≠ []
  reports : ∀ m, st.manifestScanned m cfg.scanners = true → st.report? m = some (freshReport sem cfg m)

theorem good_empty (sem : Sem) (cfg : Cfg) (hne : cfg.scanners ≠ []) : Good sem cfg {} := by
  refine ⟨inv_empty sem, hne, ?_⟩
  intro m hsc
  obtain ⟨s, hs⟩ := List.exists_mem_of_ne_nil _ hne
  have := (Store.manifestScanned_iff _ _ _).1 hsc s hs
  cases this

/-- A fault-free Index call on a good store: nil error, the fresh report
    returned and stored, the manifest recorded as scanned. -/
theorem index_ff_result (sem : Sem) (o : Oracle) (cfg : Cfg) (m : Manifest) (st : Store) (hff : FF o) (hg : Good sem cfg st) :
    (index sem o cfg m st false).err = none ∧
    (index sem o cfg m st false).report = some (freshReport sem cfg m) ∧
    (index sem o cfg m st false).st.manifestScanned m cfg.scanners = true ∧
    (index sem o cfg m st false).st.report? m = some (freshReport sem cfg m) := by
  have hsp := index_spec sem o cfg m st false hg.inv
  have hrun0 := runLoop_ff (sem := sem) (o := o) (cfg := cfg) (m := m) (st0 := st) hff hg.nonempty fuel ⟨st, {}⟩
    { vs := cfg.scanners, report := {}, cur := .checkManifest } ⟨rfl, rfl⟩ hg.inv (headCore_init sem cfg m st)
    (fun hh => by cases hh) (by simp [fuel]) ⟨List.nodup_nil, fun _ hx => by cases hx⟩
  have hrun := And.intro hrun0.1 (hrun0.2.2 (fun _ hsc => hg.reports m hsc))
  have herr : (index sem o cfg m st false).err = none := by
    unfold index
    simp only [Bool.false_eq_true, if_false]
    exact hrun.1
  have hrep : (index sem o cfg m st false).report = some (freshReport sem cfg m) := by
    unfold index
    simp only [Bool.false_eq_true, if_false]
    rw [hrun.2]
  obtain ⟨h1, h2⟩ := hsp.success hff.noDeadline herr _ hrep rfl
  exact ⟨herr, hrep, h1, h2⟩

theorem good_frame {sem : Sem} {cfg : Cfg} {m : Manifest} {st st' : Store} (hg : Good sem cfg st) (hi : Inv sem st')
    (hfr : Frame m st st')
    (hm : st'.manifestScanned m cfg.scanners = true → st'.report? m = some (freshReport sem cfg m)) : Good sem cfg st' := by
  refine ⟨hi, hg.nonempty, ?_⟩
  intro m' hsc
  by_cases hne : m' = m
  · subst hne; exact hm hsc
  · rw [hfr.report m' hne]
    apply hg.reports m'
    apply (Store.manifestScanned_iff _ _ _).2
    intro s hs
    exact (hfr.scanned m' s hne).1 ((Store.manifestScanned_iff _ _ _).1 hsc s hs)

/-- Fault-free calls keep the store good. -/
theorem good_index_ff (sem : Sem) (o : Oracle) (cfg : Cfg) (m : Manifest) (st : Store) (hff : FF o) (hg : Good sem cfg st) :
    Good sem cfg (index sem o cfg m st false).st :=
  good_frame hg (index_spec sem o cfg m st false hg.inv).inv (index_spec sem o cfg m st false hg.inv).frame
    (fun _ => (index_ff_result sem o cfg m st hff hg).2.2.2)

/-- A call under any oracle without lost replies, on a manifest that is not
    yet recorded as indexed, keeps the store good. -/
theorem good_index_faulty (sem : Sem) (o : Oracle) (cfg : Cfg) (m : Manifest) (st : Store) (d : Bool)
    (hg : Good sem cfg st) (hnc : NoCommitErr o) (hnew : st.manifestScanned m cfg.scanners = false) :
    Good sem cfg (index sem o cfg m st d).st :=
  good_frame hg (index_spec sem o cfg m st d hg.inv).inv (index_spec sem o cfg m st d hg.inv).frame
    (fun hsc => (index_spec sem o cfg m st d hg.inv).good hnc hnew hsc)

end ClairModel.Indexer
