/-
  Lemmas about the set-up model (Model/ManagerSetup.lean): UpdaterSet algebra,
  the factory map under the options, NewManager, the updaters of a run.
  The property theorems are in Props/C13.lean.
-/
import ClairModel.Proofs.Locks
import ClairModel.Model.ManagerSetup

namespace ClairModel.MgrSetup
open ClairModel ClairModel.Manager

/-! ### association lists -/

theorem lookup_eq_none_iff {β : Type} (l : List (Nat × β)) (n : Nat) :
    l.lookup n = none ↔ n ∉ l.map (·.1) := by
  induction l with
  | nil => simp [List.lookup]
  | cons p l ih =>
    obtain ⟨k, v⟩ := p
    by_cases h : n = k
    · subst h; simp [List.lookup]
    · have h' : (n == k) = false := by simpa using h
      simp only [List.lookup, h', List.map_cons, List.mem_cons, h, false_or]
      exact ih

theorem lookup_filter_key {β : Type} (l : List (Nat × β)) (q : Nat → Bool) (n : Nat) :
    (l.filter fun p => q p.1).lookup n = if q n = true then l.lookup n else none := by
  induction l with
  | nil => simp [List.lookup]
  | cons p l ih =>
    obtain ⟨k, v⟩ := p
    by_cases hk : q k = true
    · simp only [List.filter_cons, hk, if_true]
      by_cases h : n = k
      · subst h; simp [List.lookup, hk]
      · have h' : (n == k) = false := by simpa using h
        simp only [List.lookup, h']
        exact ih
    · simp only [List.filter_cons, hk]
      by_cases h : n = k
      · subst h
        simp only [Bool.false_eq_true, if_false] at ih ⊢
        simp only [hk] at ih ⊢
        exact ih
      · have h' : (n == k) = false := by simpa using h
        simp only [Bool.false_eq_true, if_false, List.lookup, h']
        exact ih

theorem names_filter_sub {β : Type} (l : List (Nat × β)) (q : Nat × β → Bool) :
    ∀ n ∈ (l.filter q).map (·.1), n ∈ l.map (·.1) := by
  intro n hn
  obtain ⟨p, hp, rfl⟩ := List.mem_map.1 hn
  exact List.mem_map.2 ⟨p, (List.mem_filter.1 hp).1, rfl⟩

theorem nodup_names_filter {β : Type} (l : List (Nat × β)) (q : Nat × β → Bool)
    (h : (l.map (·.1)).Nodup) : ((l.filter q).map (·.1)).Nodup := by
  induction l with
  | nil => simp
  | cons p l ih =>
    simp only [List.map_cons, List.nodup_cons] at h
    by_cases hq : q p = true
    · simp only [List.filter_cons, hq, if_true, List.map_cons, List.nodup_cons]
      exact ⟨fun hm => h.1 (names_filter_sub l q _ hm), ih h.2⟩
    · simp only [List.filter_cons, hq]
      exact ih h.2

/-! ### driver.UpdaterSet -/

theorem has_iff (s : USet) (n : Nat) : s.has n = true ↔ n ∈ s.names := by
  simp [USet.has]

/-- `Add` fails exactly when the name is taken, and then changes nothing (the
    model returns no new set); otherwise the updater is in, under its name. -/
theorem add_spec (nm : Nat → Nat) (s : USet) (i : Nat) :
    (USet.add nm s i = none ↔ nm i ∈ s.names) ∧
    (∀ s', USet.add nm s i = some s' → nm i ∉ s.names ∧ s' = (nm i, i) :: s) := by
  unfold USet.add
  by_cases h : s.has (nm i) = true
  · simp [h, (has_iff _ _).1 h]
  · have hn : nm i ∉ s.names := fun hm => h ((has_iff _ _).2 hm)
    simp only [h, Bool.false_eq_true, if_false]
    refine ⟨by simp [hn], ?_⟩
    intro s' hs; cases hs; exact ⟨hn, rfl⟩

theorem add_wf (nm : Nat → Nat) (s s' : USet) (i : Nat) (hw : s.WF) (h : USet.add nm s i = some s') : s'.WF := by
  obtain ⟨hn, rfl⟩ := (add_spec nm s i).2 s' h
  exact List.nodup_cons.2 ⟨hn, hw⟩

theorem mem_common (s t : USet) (n : Nat) : n ∈ USet.common s t ↔ n ∈ t.names ∧ n ∈ s.names := by
  simp [USet.common, has_iff]

/-- `Merge` is all or nothing: it fails exactly when some name is in both
    sets, the error lists exactly those names; otherwise the result holds the
    entries of both. -/
theorem merge_spec (s t : USet) :
    (∀ ex, USet.merge s t = .inl ex → ex ≠ [] ∧ ∀ n, n ∈ ex ↔ n ∈ t.names ∧ n ∈ s.names) ∧
    (∀ u, USet.merge s t = .inr u → (∀ n ∈ t.names, n ∉ s.names) ∧ u = t ++ s) := by
  unfold USet.merge
  by_cases h : (USet.common s t).isEmpty = true
  · simp only [h, if_true]
    refine ⟨(by intro ex he; cases he), ?_⟩
    intro u hu
    have hu' : t ++ s = u := by injection hu
    subst hu'
    refine ⟨?_, rfl⟩
    intro n hn hs
    have : n ∈ USet.common s t := (mem_common s t n).2 ⟨hn, hs⟩
    rw [List.isEmpty_iff.1 h] at this
    cases this
  · simp only [h, Bool.false_eq_true, if_false]
    refine ⟨?_, (by intro u hu; cases hu)⟩
    intro ex he
    have he' : USet.common s t = ex := by injection he
    subst he'
    exact ⟨fun hnil => h (by rw [hnil]; rfl), mem_common s t⟩

theorem merge_wf (s t u : USet) (hs : s.WF) (ht : t.WF) (h : USet.merge s t = .inr u) : u.WF := by
  obtain ⟨hd, rfl⟩ := (merge_spec s t).2 u h
  simp only [USet.WF, USet.names, List.map_append]
  refine List.nodup_append.2 ⟨ht, hs, ?_⟩
  intro a ha b hb hab
  subst hab
  exact hd a ha hb

theorem regexFilter_spec (keep : Nat → Bool) (s : USet) (p : Nat × Nat) :
    p ∈ USet.regexFilter keep s ↔ p ∈ s ∧ keep p.1 = true := by
  simp [USet.regexFilter]

theorem regexFilter_wf (keep : Nat → Bool) (s : USet) (h : s.WF) : (USet.regexFilter keep s).WF :=
  nodup_names_filter s _ h

/-- In a well-formed set a name stands for one updater. -/
theorem one_per_name (s : USet) (h : s.WF) (p q : Nat × Nat) (hp : p ∈ s) (hq : q ∈ s) (hn : p.1 = q.1) : p = q :=
  Locks.eq_of_nodup_map (fun x : Nat × Nat => x.1) s h hp hq hn

/-! ### the set WithOutOfTree builds -/

theorem foldl_add_wf (nm : Nat → Nat) : ∀ (us : List Nat) (s : USet), s.WF →
    (us.foldl (fun s i => (USet.add nm s i).getD s) s).WF := by
  intro us
  induction us with
  | nil => intro s h; exact h
  | cons i us ih =>
    intro s h
    simp only [List.foldl_cons]
    apply ih
    cases ha : USet.add nm s i with
    | none => simpa using h
    | some s' => simpa using add_wf nm s s' i h ha

theorem ootSet_wf (nm : Nat → Nat) (us : List Nat) : (ootSet nm us).WF :=
  foldl_add_wf nm us [] List.nodup_nil

theorem foldl_add_lookup (nm : Nat → Nat) (n : Nat) : ∀ (us : List Nat) (s : USet),
    (us.foldl (fun s i => (USet.add nm s i).getD s) s).lookup n =
      match s.lookup n with
      | some i => some i
      | none => us.find? fun i => nm i == n := by
  intro us
  induction us with
  | nil => intro s; simp only [List.foldl_nil, List.find?_nil]; cases s.lookup n <;> rfl
  | cons i us ih =>
    intro s
    simp only [List.foldl_cons]
    rw [ih]
    cases ha : USet.add nm s i with
    | none =>
      have hin : nm i ∈ s.names := (add_spec nm s i).1.1 ha
      simp only [Option.getD_none]
      cases hl : s.lookup n with
      | some j => rfl
      | none =>
        have hn : n ∉ s.names := (lookup_eq_none_iff s n).1 hl
        have hne : (nm i == n) = false := by
          cases hb : (nm i == n)
          · rfl
          · have : nm i = n := by simpa using hb
            exact absurd (this ▸ hin) hn
        simp [hne]
    | some s' =>
      obtain ⟨hnot, rfl⟩ := (add_spec nm s i).2 s' ha
      simp only [Option.getD_some]
      by_cases hb : nm i = n
      · subst hb
        have hl : s.lookup (nm i) = none := (lookup_eq_none_iff s _).2 hnot
        simp [List.lookup, hl]
      · have h1 : (n == nm i) = false := by simpa using fun h : n = nm i => hb h.symm
        have h2 : (nm i == n) = false := by simpa using hb
        simp only [List.lookup, h1, List.find?_cons, h2]

/-- WithOutOfTree keeps, for every name, the first updater of the list that
    carries it; later ones are ignored. -/
theorem ootSet_lookup (nm : Nat → Nat) (us : List Nat) (n : Nat) :
    (ootSet nm us).lookup n = us.find? fun i => nm i == n := by
  have := foldl_add_lookup nm n us []
  simpa [ootSet] using this

/-! ### the factory map under the options -/

theorem lookup_set (m : FMap) (k : Nat) (v : FacV) (n : Nat) :
    (m.set k v).lookup n = if n = k then some v else m.lookup n := by
  unfold FMap.set
  by_cases h : n = k
  · subst h; simp [List.lookup]
  · have h' : (n == k) = false := by simpa using h
    simp only [List.lookup, h', h, if_false]
    rw [lookup_filter_key m (fun x => !(x == k)) n]
    simp [h']

theorem set_names_nodup (m : FMap) (k : Nat) (v : FacV) (h : (m.map (·.1)).Nodup) :
    ((m.set k v).map (·.1)).Nodup := by
  unfold FMap.set
  simp only [List.map_cons, List.nodup_cons]
  refine ⟨?_, nodup_names_filter m _ h⟩
  intro hm
  obtain ⟨p, hp, hk⟩ := List.mem_map.1 hm
  have := (List.mem_filter.1 hp).2
  simp [hk] at this

/-- What each option does to the factory map, entry by entry. -/
theorem applyOpt_lookup (nm : Nat → Nat) (m : Mgr) (n : Nat) :
    (∀ e, (applyOpt nm m (.enabled (some e))).facs.lookup n = if e.contains n = true then m.facs.lookup n else none) ∧
    ((applyOpt nm m (.enabled none)).facs = m.facs) ∧
    (∀ us, (applyOpt nm m (.outOfTree us)).facs.lookup n =
        if n = ootName then some (.static (ootSet nm us).updaters) else m.facs.lookup n) ∧
    (∀ f, (applyOpt nm m (.factories f)).facs = f) ∧
    (∀ k, (applyOpt nm m (.batch k)).facs = m.facs) ∧ (∀ k, (applyOpt nm m (.interval k)).facs = m.facs) ∧
    (∀ c, (applyOpt nm m (.configs c)).facs = m.facs) ∧ (∀ k, (applyOpt nm m (.gc k)).facs = m.facs) := by
  refine ⟨?_, rfl, ?_, fun _ => rfl, fun _ => rfl, fun _ => rfl, fun _ => rfl, fun _ => rfl⟩
  · intro e; exact lookup_filter_key m.facs (fun k => e.contains k) n
  · intro us; exact lookup_set m.facs ootName _ n

theorem applyOpt_names_nodup (nm : Nat → Nat) (m : Mgr) (o : Opt) (h : (m.facs.map (·.1)).Nodup)
    (hf : ∀ f, o = .factories f → (f.map (·.1)).Nodup) : ((applyOpt nm m o).facs.map (·.1)).Nodup := by
  cases o with
  | enabled e =>
    cases e with
    | none => exact h
    | some e => exact nodup_names_filter m.facs _ h
  | outOfTree us => exact set_names_nodup m.facs _ _ h
  | factories f => exact hf f rfl
  | _ => exact h

/-! ### NewManager -/

theorem newManager_ok_iff (w : World) (reg : List (Nat × Nat)) (db di : Nat) (cl : Bool) (opts : List Opt) :
    (∃ m calls, newManager w reg db di cl opts = .ok m calls) ↔
      (build w.name reg db di opts).retention ≠ 1 ∧ cl = true ∧
      facCfgFails w (build w.name reg db di opts) = false := by
  unfold newManager
  by_cases h1 : (build w.name reg db di opts).retention = 1
  · simp [h1]
  · cases cl
    · simp [h1]
    · cases h3 : facCfgFails w (build w.name reg db di opts) <;> simp [h1, h3]

theorem newManager_ok_eq (w : World) (reg : List (Nat × Nat)) (db di : Nat) (cl : Bool) (opts : List Opt)
    (m : Mgr) (calls : List (Nat × Nat)) (h : newManager w reg db di cl opts = .ok m calls) :
    m = build w.name reg db di opts ∧ calls = facCfgCalls w m := by
  unfold newManager at h
  by_cases h1 : (build w.name reg db di opts).retention = 1
  · simp [h1] at h
  · cases cl
    · simp [h1] at h
    · cases h3 : facCfgFails w (build w.name reg db di opts)
      · simp [h1, h3] at h; exact ⟨h.1.symm, by rw [← h.1]; exact h.2.symm⟩
      · simp [h1, h3] at h

/-! ### the registry -/

theorem register_spec (reg : List (Nat × Nat)) (n f : Nat) :
    (register reg n f = none ↔ n ∈ reg.map (·.1)) ∧
    (∀ r, register reg n f = some r → r = (n, f) :: reg) := by
  unfold register
  by_cases h : (reg.map (·.1)).contains n = true
  · simp [(by simpa using h : n ∈ reg.map (·.1))]
  · have hn : n ∉ reg.map (·.1) := by simpa using h
    simp only [h, Bool.false_eq_true, if_false]
    refine ⟨by simp; simpa using hn, ?_⟩
    intro r hr; cases hr; rfl

theorem registered_lookup (reg : List (Nat × Nat)) (n : Nat) :
    (registered reg).lookup n = (reg.lookup n).map FacV.ext := by
  induction reg with
  | nil => rfl
  | cons p reg ih =>
    obtain ⟨k, v⟩ := p
    by_cases h : n = k
    · subst h; simp [registered, List.lookup]
    · have h' : (n == k) = false := by simpa using h
      simp only [registered, List.map_cons, List.lookup, h'] at ih ⊢
      exact ih

end ClairModel.MgrSetup
