/-
  dpkg status files: the document writer (stanzas of fields separated by blank
  lines), the ground truth (`Entry`), and the lemmas behind the C02 theorems
  about `parseStatus`.
-/
import ClairModel.Model.Dpkg
import ClairModel.Proofs.Rfc822

namespace ClairModel.Dpkg
open ClairModel.Bytes ClairModel.Rfc822

/-! ### documents -/

/-- a stanza followed by `gap + 1` empty lines -/
structure Block where
  fields : List Field
  gap : Nat

def Block.lines (b : Block) : List Bytes := fieldsLines b.fields ++ List.replicate (b.gap + 1) []

/-- A status file as lines: `lead` empty lines, stanzas each followed by at least
    one empty line, and optionally a last stanza with nothing after it. -/
def lastLines : Option (List Field) → List Bytes
  | none => []
  | some fs => fieldsLines fs

def lastHdrs : Option (List Field) → List Hdr
  | none => []
  | some fs => [hdrOf fs]

def docLines (lead : Nat) (bs : List Block) (last : Option (List Field)) : List Bytes :=
  List.replicate lead [] ++ (bs.flatMap Block.lines ++ lastLines last)

/-- the headers of the stanzas of a document, in order -/
def docHdrs (bs : List Block) (last : Option (List Field)) : List Hdr :=
  bs.map (fun b => hdrOf b.fields) ++ lastHdrs last

/-- The file bytes: every line terminated by `\n`; with `finalNewline = false`
    the very last `\n` is left out. -/
def docBytes (lead : Nat) (bs : List Block) (last : Option (List Field)) (finalNewline : Bool) : Bytes :=
  if finalNewline then joinLines (docLines lead bs last) else (joinLines (docLines lead bs last)).dropLast

/-- `parseStatus` applied to a list of non-empty headers in order -/
def foldHdrs (ps : PState) : List Hdr → Proc
  | [] => .ok ps
  | h :: hs =>
    match processHdr ps h with
    | .ok ps' => foldHdrs ps' hs
    | r => r

theorem parseEvents_blanks (ps : PState) (n : Nat) (es : List Ev) :
    parseEvents ps (List.replicate n ⟨[], .ok⟩ ++ es) = parseEvents ps es := by
  induction n with
  | zero => simp
  | succ n ih => simp [List.replicate_succ, parseEvents, ih]

theorem hdrOf_ne_nil {fs : List Field} (h : fs ≠ []) : (hdrOf fs).isEmpty = false := by
  cases fs with
  | nil => exact absurd rfl h
  | cons f fs => simp [hdrOf]

theorem parseEvents_tail (ps : PState) (last : Option (List Field))
    (hw : ∀ fs, last = some fs → fs ≠ [] ∧ ∀ f ∈ fs, f.WF) :
    parseEvents ps (callsFrom .start (lastLines last)) = foldHdrs ps (lastHdrs last) := by
  cases last with
  | none => simp [lastLines, lastHdrs, callsFrom, finishRd, parseEvents, foldHdrs]
  | some fs =>
    obtain ⟨hne, hwf⟩ := hw fs rfl
    simp only [lastLines, lastHdrs, callsFrom_last_stanza fs hwf, parseEvents, hdrOf_ne_nil hne, foldHdrs]
    cases processHdr ps (hdrOf fs) <;> simp

theorem parseEvents_blocks (bs : List Block) (last : Option (List Field)) (ps : PState)
    (hb : ∀ b ∈ bs, b.fields ≠ [] ∧ ∀ f ∈ b.fields, f.WF)
    (hw : ∀ fs, last = some fs → fs ≠ [] ∧ ∀ f ∈ fs, f.WF) :
    parseEvents ps (callsFrom .start (bs.flatMap Block.lines ++ lastLines last)) =
      foldHdrs ps (docHdrs bs last) := by
  induction bs generalizing ps with
  | nil => simpa [docHdrs] using parseEvents_tail ps last hw
  | cons b bs ih =>
    obtain ⟨hne, hwf⟩ := hb b (by simp)
    have ih' := fun ps => ih ps (fun x hx => hb x (List.mem_cons_of_mem _ hx))
    simp only [List.flatMap_cons, Block.lines, List.append_assoc]
    rw [← List.append_assoc (fieldsLines b.fields), callsFrom_stanza b.fields hwf]
    simp only [parseEvents, hdrOf_ne_nil hne, docHdrs, List.map_cons, List.cons_append, foldHdrs]
    cases hp : processHdr ps (hdrOf b.fields) with
    | ok ps' =>
      simp only [Bool.false_eq_true, if_false]
      rw [parseEvents_blanks, ih' ps']
      simp [docHdrs]
    | fail => simp
    | notDb => simp

/-- On the lines of a document `parseStatus` is the fold of `processHdr` over the stanzas' headers. -/
theorem parseEvents_docLines (lead : Nat) (bs : List Block) (last : Option (List Field))
    (hb : ∀ b ∈ bs, b.fields ≠ [] ∧ ∀ f ∈ b.fields, f.WF)
    (hw : ∀ fs, last = some fs → fs ≠ [] ∧ ∀ f ∈ fs, f.WF) :
    parseEvents PState.empty (callsFrom .start (docLines lead bs last)) = foldHdrs PState.empty (docHdrs bs last) := by
  rw [docLines.eq_def, callsFrom_blanks, parseEvents_blanks]
  exact parseEvents_blocks bs last _ hb hw

theorem fieldsLines_clean (fs : List Field) (hw : ∀ f ∈ fs, f.WF) : ∀ l ∈ fieldsLines fs, 10 ∉ l ∧ 13 ∉ l := by
  intro l hl
  simp only [fieldsLines, List.mem_flatMap] at hl
  obtain ⟨f, hf, hl⟩ := hl
  exact (hw f hf).lines_clean l hl

theorem docLines_clean (lead : Nat) (bs : List Block) (last : Option (List Field))
    (hb : ∀ b ∈ bs, b.fields ≠ [] ∧ ∀ f ∈ b.fields, f.WF)
    (hw : ∀ fs, last = some fs → fs ≠ [] ∧ ∀ f ∈ fs, f.WF) :
    ∀ l ∈ docLines lead bs last, 10 ∉ l ∧ 13 ∉ l := by
  intro l hl
  simp only [docLines, List.mem_append, List.mem_replicate, List.mem_flatMap, Block.lines] at hl
  rcases hl with ⟨_, rfl⟩ | ⟨b, hbm, hl | ⟨_, rfl⟩⟩ | hl
  · simp
  · exact fieldsLines_clean _ (hb b hbm).2 l hl
  · simp
  · cases last with
    | none => simp [lastLines] at hl
    | some fs => exact fieldsLines_clean _ (hw fs rfl).2 l hl

theorem joinLines_append (a b : List Bytes) : joinLines (a ++ b) = joinLines a ++ joinLines b := by
  simp [joinLines]

theorem fieldsLines_last (fs : List Field) (hne : fs ≠ []) (hw : ∀ f ∈ fs, f.WF) :
    ∃ init l, fieldsLines fs = init ++ [l] ∧ l ≠ [] := by
  induction fs with
  | nil => exact absurd rfl hne
  | cons f fs ih =>
    by_cases hfs : fs = []
    · subst hfs
      have wf := hw f (by simp)
      simp only [fieldsLines, List.flatMap_cons, List.flatMap_nil, List.append_nil, Field.lines]
      -- the last line of the field: a continuation line (starts with white space) or the first line
      cases hc : f.conts.getLast? with
      | none =>
        have : f.conts = [] := List.getLast?_eq_none_iff.1 hc
        refine ⟨[], f.firstLine, by simp [this], ?_⟩
        have := wf.firstLine_props.2.1
        intro e; simp [e] at this
      | some l =>
        obtain ⟨init, hi⟩ : ∃ init, f.conts = init ++ [l] := by
          have := List.getLast?_eq_some_iff.1 hc
          exact this
        refine ⟨f.firstLine :: init, l, by simp [hi], ?_⟩
        have := wf.conts_ws l (by simp [hi])
        intro e; simp [e, startsWs] at this
    · obtain ⟨init, l, hi, hl⟩ := ih hfs (fun x hx => hw x (List.mem_cons_of_mem _ hx))
      refine ⟨f.lines ++ init, l, ?_, hl⟩
      simp only [fieldsLines, List.flatMap_cons] at hi ⊢
      rw [hi, List.append_assoc]

/-- `bufio.ReadLine` over the bytes of a document gives its lines back; the
    final newline may be left out when the file ends with a stanza. -/
theorem splitLines_docBytes (lead : Nat) (bs : List Block) (last : Option (List Field)) (fn : Bool)
    (hb : ∀ b ∈ bs, b.fields ≠ [] ∧ ∀ f ∈ b.fields, f.WF)
    (hw : ∀ fs, last = some fs → fs ≠ [] ∧ ∀ f ∈ fs, f.WF)
    (hfn : fn = false → last ≠ none) :
    splitLines (docBytes lead bs last fn) = docLines lead bs last := by
  have hclean := docLines_clean lead bs last hb hw
  cases fn with
  | true =>
    simp only [docBytes, if_true]
    have := splitLines_joinLines (docLines lead bs last) [] hclean
    simpa [splitLines_nil] using this
  | false =>
    cases last with
    | none => exact absurd rfl (hfn rfl)
    | some fs =>
      obtain ⟨hne, hwf⟩ := hw fs rfl
      obtain ⟨init, l, hi, hl⟩ := fieldsLines_last fs hne hwf
      have hdoc : docLines lead bs (some fs) = (List.replicate lead [] ++ (bs.flatMap Block.lines ++ init)) ++ [l] := by
        simp [docLines, lastLines, hi, List.append_assoc]
      simp only [docBytes, Bool.false_eq_true, if_false]
      rw [hdoc] at hclean ⊢
      rw [joinLines_append]
      have : joinLines [l] = l ++ [10] := by simp [joinLines]
      rw [this, ← List.append_assoc, List.dropLast_concat]
      rw [splitLines_joinLines _ l (fun x hx => hclean x (List.mem_append_left _ hx))]
      rw [splitLines_last l (hclean l (by simp)).1 hl]

/-! ### the call results on a document, and the distroless loop -/

def blockEvents (b : Block) : List Ev := ⟨hdrOf b.fields, .ok⟩ :: List.replicate b.gap ⟨[], .ok⟩

def lastEvents : Option (List Field) → List Ev
  | none => [⟨[], .eof⟩]
  | some fs => [⟨hdrOf fs, .eof⟩]

theorem callsFrom_blocks (bs : List Block) (last : Option (List Field))
    (hb : ∀ b ∈ bs, b.fields ≠ [] ∧ ∀ f ∈ b.fields, f.WF)
    (hw : ∀ fs, last = some fs → fs ≠ [] ∧ ∀ f ∈ fs, f.WF) :
    callsFrom .start (bs.flatMap Block.lines ++ lastLines last) = bs.flatMap blockEvents ++ lastEvents last := by
  induction bs with
  | nil =>
    cases last with
    | none => simp [lastLines, lastEvents, callsFrom, finishRd]
    | some fs => simpa [lastLines, lastEvents] using callsFrom_last_stanza fs (hw fs rfl).2
  | cons b bs ih =>
    obtain ⟨_, hwf⟩ := hb b (by simp)
    simp only [List.flatMap_cons, Block.lines, List.append_assoc]
    rw [← List.append_assoc (fieldsLines b.fields), callsFrom_stanza b.fields hwf,
      ih (fun x hx => hb x (List.mem_cons_of_mem _ hx))]
    simp [blockEvents]

/-- The results of the successive `ReadMIMEHeader` calls on a document: one
    call per stanza (its header, nil error), one empty header per extra empty
    line, and the last call reports `io.EOF` (with the last stanza's header
    when nothing follows it). -/
theorem callsFrom_docLines (lead : Nat) (bs : List Block) (last : Option (List Field))
    (hb : ∀ b ∈ bs, b.fields ≠ [] ∧ ∀ f ∈ b.fields, f.WF)
    (hw : ∀ fs, last = some fs → fs ≠ [] ∧ ∀ f ∈ fs, f.WF) :
    callsFrom .start (docLines lead bs last) =
      List.replicate lead ⟨[], .ok⟩ ++ (bs.flatMap blockEvents ++ lastEvents last) := by
  rw [docLines.eq_def, callsFrom_blanks, callsFrom_blocks bs last hb hw]

theorem distrolessEvents_blocks (bs : List Block) (last : Option (List Field))
    (hb : ∀ b ∈ bs, b.fields ≠ [] ∧ b.gap = 0)
    (hw : ∀ fs, last = some fs → fs ≠ []) :
    distrolessEvents (bs.flatMap blockEvents ++ lastEvents last) = (docHdrs bs last).map distrolessPkg := by
  induction bs with
  | nil =>
    cases last with
    | none => simp [lastEvents, distrolessEvents, docHdrs, lastHdrs]
    | some fs => simp [lastEvents, distrolessEvents, docHdrs, lastHdrs, hdrOf_ne_nil (hw fs rfl)]
  | cons b bs ih =>
    obtain ⟨hne, hg⟩ := hb b (by simp)
    have ih' := ih (fun x hx => hb x (List.mem_cons_of_mem _ hx))
    simp only [List.flatMap_cons, blockEvents, hg, List.replicate_zero, List.cons_append, List.nil_append,
      distrolessEvents, hdrOf_ne_nil hne, Bool.false_eq_true, if_false, ih']
    simp [docHdrs]

/-! ### ground truth -/

/-- What a status stanza states. `src`: the `Source` field, `name` or `name (version)`. -/
structure Entry where
  name : Bytes
  version : Bytes
  arch : Bytes
  installed : Bool
  src : Option (Bytes × Option Bytes)
  deriving Repr

/-- the text of the `Source` field -/
def Entry.sourceField (e : Entry) : Bytes :=
  match e.src with
  | none => []
  | some (n, none) => n
  | some (n, some v) => n ++ 32 :: 40 :: (v ++ [41])

/-- the explicit source an entry names, with its effective version -/
def Entry.explicitSrc (e : Entry) : Option (Bytes × Bytes) :=
  match e.src with
  | none => none
  | some (n, none) => some (n, e.version)
  | some (n, some v) => some (n, v)

/-- the package the entry should be reported as -/
def Entry.pkg (e : Entry) : Pkg :=
  match e.explicitSrc with
  | none => ⟨e.name, e.version, e.arch, e.name, e.version⟩
  | some (n, v) => ⟨e.name, e.version, e.arch, n, v⟩

/-- legal entry: required fields non-empty; a source name is non-empty and
    has no space; an explicit source version has no parentheses. -/
structure Entry.WF (e : Entry) : Prop where
  name_ne : e.name ≠ []
  version_ne : e.version ≠ []
  arch_ne : e.arch ≠ []
  src_ok : ∀ n v, e.src = some (n, v) → n ≠ [] ∧ 32 ∉ n ∧ ∀ w, v = some w → ∀ c ∈ w, isParen c = false

/-- header `h` states entry `e` -/
structure States (h : Hdr) (e : Entry) : Prop where
  status : statusInstalled (h.get kStatus) = e.installed
  name : e.installed = true → h.get kPackage = e.name
  version : e.installed = true → h.get kVersion = e.version
  arch : e.installed = true → h.get kArchitecture = e.arch
  source : e.installed = true → h.get kSource = e.sourceField

inductive AllStates : List Hdr → List Entry → Prop
  | nil : AllStates [] []
  | cons {h e hs es} : States h e → AllStates hs es → AllStates (h :: hs) (e :: es)

def installedPkgs (es : List Entry) : List Pkg := (es.filter (·.installed)).map Entry.pkg

/-- two installed entries never share a name (violated by multi-arch installs) -/
def NoDupNames (es : List Entry) : Prop :=
  es.Pairwise (fun a b => a.installed = true → b.installed = true → a.name ≠ b.name)

/-- installed entries naming the same source agree on its version -/
def SourcesAgree (es : List Entry) : Prop :=
  es.Pairwise (fun a b => a.installed = true → b.installed = true →
    ∀ n v w, a.explicitSrc = some (n, v) → b.explicitSrc = some (n, w) → v = w)

/-! ### lemmas about the pieces of processHdr -/

theorem dropParensLeft_of_nonparen (c : Nat) (s : Bytes) (h : isParen c = false) :
    dropParensLeft (c :: s) = c :: s := by simp [dropParensLeft, h]

theorem dropParensRight_noparen (w : Bytes) (h : ∀ c ∈ w, isParen c = false) :
    dropParensRight (w ++ [41]) = w := by
  induction w with
  | nil => simp [dropParensRight, isParen]
  | cons c cs ih =>
    have hc := h c (by simp)
    have := ih (fun x hx => h x (List.mem_cons_of_mem _ hx))
    simp only [List.cons_append, dropParensRight, this]
    cases cs with
    | nil => simp [hc]
    | cons d ds => simp

theorem trimParens_wrapped (w : Bytes) (h : ∀ c ∈ w, isParen c = false) :
    trimParens (40 :: (w ++ [41])) = w := by
  unfold trimParens
  have h1 : dropParensLeft (40 :: (w ++ [41])) = dropParensLeft (w ++ [41]) := by simp [dropParensLeft, isParen]
  rw [h1]
  cases w with
  | nil => simp [dropParensLeft, dropParensRight, isParen]
  | cons c cs =>
    rw [List.cons_append, dropParensLeft_of_nonparen _ _ (h c (by simp)), ← List.cons_append]
    exact dropParensRight_noparen _ h

theorem cut_none_of_not_mem (sep : Nat) (s : Bytes) (h : sep ∉ s) : cut sep s = none := by
  induction s with
  | nil => rfl
  | cons c cs ih =>
    simp only [List.mem_cons, not_or] at h
    have hc : ¬ c = sep := fun e => h.1 e.symm
    simp [cut, hc, ih h.2]

theorem splitSource_entry (e : Entry) (w : e.WF) (n v : Bytes) (hs : e.explicitSrc = some (n, v)) :
    splitSource e.sourceField e.version = (n, v) ∧ e.sourceField ≠ [] := by
  unfold Entry.explicitSrc at hs
  unfold Entry.sourceField
  match hsrc : e.src, hs with
  | some (m, none), hs =>
    simp only [Option.some.injEq, Prod.mk.injEq] at hs
    obtain ⟨hn, hsp, _⟩ := w.src_ok m none hsrc
    obtain ⟨rfl, rfl⟩ := hs
    simp [splitSource, cut_none_of_not_mem 32 m hsp, hn]
  | some (m, some x), hs =>
    simp only [Option.some.injEq, Prod.mk.injEq] at hs
    obtain ⟨hn, hsp, hp⟩ := w.src_ok m (some x) hsrc
    obtain ⟨rfl, rfl⟩ := hs
    simp only [splitSource, cut_append 32 m _ hsp, trimParens_wrapped x (hp x rfl)]
    simp

theorem binInsert_fresh (bin : List Pkg) (p : Pkg) (h : ∀ q ∈ bin, q.name ≠ p.name) :
    binInsert bin p = bin ++ [p] := by
  induction bin with
  | nil => rfl
  | cons q r ih =>
    have hq := h q (by simp)
    simp [binInsert, hq, ih (fun x hx => h x (List.mem_cons_of_mem _ hx))]

theorem mem_binInsert {bin : List Pkg} {p x : Pkg} (h : x ∈ binInsert bin p) : x = p ∨ x ∈ bin := by
  induction bin with
  | nil => simp [binInsert] at h; exact Or.inl h
  | cons q r ih =>
    simp only [binInsert] at h
    split at h
    · rcases List.mem_cons.1 h with h | h
      · exact Or.inl h
      · exact Or.inr (List.mem_cons_of_mem _ h)
    · rcases List.mem_cons.1 h with h | h
      · exact Or.inr (by simp [h])
      · rcases ih h with h | h
        · exact Or.inl h
        · exact Or.inr (List.mem_cons_of_mem _ h)

theorem lookupSrc_append (src : List (Bytes × Bytes)) (n v k : Bytes) :
    lookupSrc (src ++ [(n, v)]) k = match lookupSrc src k with
      | some x => some x
      | none => if n = k then some v else none := by
  induction src with
  | nil => simp [lookupSrc]
  | cons a r ih =>
    obtain ⟨a1, a2⟩ := a
    simp only [List.cons_append, lookupSrc]
    split
    · rfl
    · exact ih

/-! ### the exactness invariant -/

/-- the source map never disagrees with an entry still to come -/
def SrcOk (src : List (Bytes × Bytes)) (es : List Entry) : Prop :=
  ∀ e ∈ es, e.installed = true → ∀ n v, e.explicitSrc = some (n, v) → ∀ x, lookupSrc src n = some x → x = v

theorem processHdr_skip (ps : PState) (h : Hdr) (hs : statusInstalled (h.get kStatus) = false) :
    processHdr ps h = .ok ps := by
  simp [processHdr, hs]

theorem processHdr_entry (ps : PState) (h : Hdr) (e : Entry) (st : States h e) (w : e.WF)
    (hi : e.installed = true)
    (hfresh : ∀ q ∈ ps.bin, q.name ≠ e.name)
    (hsrc : ∀ n v, e.explicitSrc = some (n, v) → ∀ x, lookupSrc ps.src n = some x → x = v) :
    ∃ src', processHdr ps h = .ok ⟨ps.bin ++ [e.pkg], src'⟩ ∧
      (src' = ps.src ∨ ∃ n v, e.explicitSrc = some (n, v) ∧ lookupSrc ps.src n = none ∧ src' = ps.src ++ [(n, v)]) := by
  have h1 : statusInstalled (h.get kStatus) = true := by rw [st.status, hi]
  have hn := st.name hi
  have hv := st.version hi
  have ha := st.arch hi
  have hso := st.source hi
  have e1 : (h.get kPackage).isEmpty = false := by rw [hn]; cases hh : e.name <;> simp_all [w.name_ne]
  have e2 : (h.get kVersion).isEmpty = false := by rw [hv]; cases hh : e.version <;> simp_all [w.version_ne]
  have e3 : (h.get kArchitecture).isEmpty = false := by rw [ha]; cases hh : e.arch <;> simp_all [w.arch_ne]
  simp only [processHdr, h1, Bool.not_true, Bool.false_eq_true, if_false, e1, e2, e3, Bool.or_false, addPkg]
  cases hx : e.explicitSrc with
  | none =>
    have hsf : e.sourceField = [] := by
      unfold Entry.explicitSrc at hx
      unfold Entry.sourceField
      match hsrc' : e.src, hx with
      | none, _ => rfl
    have hpk : e.pkg = ⟨e.name, e.version, e.arch, e.name, e.version⟩ := by simp [Entry.pkg, hx]
    refine ⟨ps.src, ?_, Or.inl rfl⟩
    simp only [hso, hsf, List.isEmpty_nil, if_true, hn, hv, ha]
    rw [binInsert_fresh _ _ (by simpa using hfresh), hpk]
  | some nv =>
    obtain ⟨n, v⟩ := nv
    obtain ⟨hsp, hne⟩ := splitSource_entry e w n v hx
    have hne' : e.sourceField.isEmpty = false := by
      cases hh : e.sourceField <;> simp_all
    have hpk : e.pkg = ⟨e.name, e.version, e.arch, n, v⟩ := by simp [Entry.pkg, hx]
    simp only [hso, hne', Bool.false_eq_true, if_false, hv, hsp, hn, ha]
    cases hl : lookupSrc ps.src n with
    | some x =>
      have := hsrc n v hx x hl
      subst this
      refine ⟨ps.src, ?_, Or.inl rfl⟩
      simp only
      rw [binInsert_fresh _ _ (by simpa using hfresh), hpk]
    | none =>
      refine ⟨ps.src ++ [(n, v)], ?_, Or.inr ⟨n, v, rfl, hl, rfl⟩⟩
      simp only
      rw [binInsert_fresh _ _ (by simpa using hfresh), hpk]

theorem foldHdrs_exact_aux (hs : List Hdr) (es : List Entry) (hst : AllStates hs es)
    (hwf : ∀ e ∈ es, e.installed = true → e.WF)
    (hnd : NoDupNames es) (hag : SourcesAgree es) (ps : PState)
    (hfresh : ∀ q ∈ ps.bin, ∀ e ∈ es, e.installed = true → q.name ≠ e.name)
    (hsrc : SrcOk ps.src es) :
    ∃ src', foldHdrs ps hs = .ok ⟨ps.bin ++ installedPkgs es, src'⟩ := by
  induction hst generalizing ps with
  | nil => exact ⟨ps.src, by simp [foldHdrs, installedPkgs]⟩
  | @cons h e hs es st _ ih =>
    have hnd' := List.pairwise_cons.1 hnd
    have hag' := List.pairwise_cons.1 hag
    have hwf' : ∀ x ∈ es, x.installed = true → x.WF := fun x hx => hwf x (List.mem_cons_of_mem _ hx)
    cases hi : e.installed with
    | false =>
      have hskip := processHdr_skip ps h (by rw [st.status, hi])
      obtain ⟨src', hr⟩ := ih hwf' hnd'.2 hag'.2 ps
        (fun q hq x hx => hfresh q hq x (List.mem_cons_of_mem _ hx))
        (fun x hx => hsrc x (List.mem_cons_of_mem _ hx))
      refine ⟨src', ?_⟩
      simp only [foldHdrs, hskip, hr, installedPkgs, List.filter_cons, hi]
      simp
    | true =>
      have w := hwf e (by simp) hi
      obtain ⟨src1, hp, hsrc1⟩ := processHdr_entry ps h e st w hi
        (fun q hq => hfresh q hq e (by simp) hi)
        (fun n v hx x hl => hsrc e (by simp) hi n v hx x hl)
      have hfresh1 : ∀ q ∈ ps.bin ++ [e.pkg], ∀ x ∈ es, x.installed = true → q.name ≠ x.name := by
        intro q hq x hx hxi
        rcases List.mem_append.1 hq with hq | hq
        · exact hfresh q hq x (List.mem_cons_of_mem _ hx) hxi
        · simp only [List.mem_singleton] at hq
          subst hq
          have : e.pkg.name = e.name := by
            unfold Entry.pkg; cases e.explicitSrc with
            | none => rfl
            | some nv => rfl
          rw [this]
          exact hnd'.1 x hx hi hxi
      have hsrcok1 : SrcOk src1 es := by
        intro x hx hxi n v hxs y hl
        rcases hsrc1 with rfl | ⟨n0, v0, he, hnone, rfl⟩
        · exact hsrc x (List.mem_cons_of_mem _ hx) hxi n v hxs y hl
        · rw [lookupSrc_append] at hl
          cases hl0 : lookupSrc ps.src n with
          | some z =>
            rw [hl0] at hl
            simp only [Option.some.injEq] at hl
            subst hl
            exact hsrc x (List.mem_cons_of_mem _ hx) hxi n v hxs _ hl0
          | none =>
            rw [hl0] at hl
            simp only at hl
            split at hl
            · rename_i hn0
              subst hn0
              simp only [Option.some.injEq] at hl
              subst hl
              exact hag'.1 x hx hi hxi n0 _ v he hxs
            · cases hl
      obtain ⟨src', hr⟩ := ih hwf' hnd'.2 hag'.2 ⟨ps.bin ++ [e.pkg], src1⟩ hfresh1 hsrcok1
      refine ⟨src', ?_⟩
      simp only [foldHdrs, hp, hr, installedPkgs, List.filter_cons, hi]
      simp

/-- With distinct installed names and agreeing source versions the fold of
    `processHdr` over headers stating the entries yields exactly the
    installed entries, in order. -/
theorem foldHdrs_exact (hs : List Hdr) (es : List Entry) (hst : AllStates hs es)
    (hwf : ∀ e ∈ es, e.installed = true → e.WF) (hnd : NoDupNames es) (hag : SourcesAgree es) :
    ∃ src, foldHdrs PState.empty hs = .ok ⟨installedPkgs es, src⟩ := by
  obtain ⟨src, h⟩ := foldHdrs_exact_aux hs es hst hwf hnd hag PState.empty
    (by simp [PState.empty]) (by intro e _ _ n v _ x hl; simp [PState.empty, lookupSrc] at hl)
  exact ⟨src, by simpa [PState.empty] using h⟩

/-! ### soundness without hypotheses: nothing is invented -/

/-- `p` is the identity a header with an installed Status states -/
def FromHdr (p : Pkg) (h : Hdr) : Prop :=
  statusInstalled (h.get kStatus) = true ∧ p.name = h.get kPackage ∧ p.version = h.get kVersion ∧
    p.arch = h.get kArchitecture ∧ p.name ≠ [] ∧ p.version ≠ [] ∧ p.arch ≠ []

theorem addPkg_bin (ps : PState) (n v a src : Bytes) :
    ∃ sn sv, (addPkg ps n v a src).bin = binInsert ps.bin ⟨n, v, a, sn, sv⟩ := by
  unfold addPkg
  split
  · exact ⟨_, _, rfl⟩
  · simp only
    split <;> exact ⟨_, _, rfl⟩

theorem processHdr_sound (ps ps' : PState) (h : Hdr) (hp : processHdr ps h = .ok ps') :
    ∀ p ∈ ps'.bin, p ∈ ps.bin ∨ FromHdr p h := by
  cases hst : statusInstalled (h.get kStatus) with
  | false =>
    rw [processHdr_skip ps h hst] at hp
    cases hp
    exact fun p hp => Or.inl hp
  | true =>
    cases hreq : ((h.get kPackage).isEmpty || (h.get kVersion).isEmpty || (h.get kArchitecture).isEmpty) with
    | true =>
      simp only [processHdr, hst, hreq, Bool.not_true, Bool.false_eq_true, if_false, if_true, missingResult] at hp
      split at hp <;> cases hp
    | false =>
      simp only [processHdr, hst, hreq, Bool.not_true, Bool.false_eq_true, if_false] at hp
      simp only [Bool.or_eq_false_iff, List.isEmpty_eq_false_iff] at hreq
      obtain ⟨⟨r1, r2⟩, r3⟩ := hreq
      cases hp
      obtain ⟨sn, sv, hb⟩ := addPkg_bin ps (h.get kPackage) (h.get kVersion) (h.get kArchitecture) (h.get kSource)
      intro p hpm
      rw [hb] at hpm
      rcases mem_binInsert hpm with rfl | hpm
      · exact Or.inr ⟨hst, rfl, rfl, rfl, r1, r2, r3⟩
      · exact Or.inl hpm

theorem foldHdrs_sound (hs : List Hdr) (ps ps' : PState) (hf : foldHdrs ps hs = .ok ps') :
    ∀ p ∈ ps'.bin, p ∈ ps.bin ∨ ∃ h ∈ hs, FromHdr p h := by
  induction hs generalizing ps with
  | nil => simp only [foldHdrs, Proc.ok.injEq] at hf; subst hf; intro p hp; exact Or.inl hp
  | cons h hs ih =>
    simp only [foldHdrs] at hf
    cases hp : processHdr ps h with
    | ok ps1 =>
      rw [hp] at hf
      intro p hpm
      rcases ih ps1 hf p hpm with h1 | ⟨h', hh', hfrom⟩
      · rcases processHdr_sound ps ps1 h hp p h1 with h2 | h2
        · exact Or.inl h2
        · exact Or.inr ⟨h, by simp, h2⟩
      · exact Or.inr ⟨h', List.mem_cons_of_mem _ hh', hfrom⟩
    | fail => rw [hp] at hf; cases hf
    | notDb => rw [hp] at hf; cases hf

/-- everything `parseStatus` reports is stated by some header `ReadMIMEHeader` returned -/
theorem parseEvents_sound (es : List Ev) (ps ps' : PState) (hf : parseEvents ps es = .ok ps') :
    ∀ p ∈ ps'.bin, p ∈ ps.bin ∨ ∃ e ∈ es, FromHdr p e.hdr := by
  induction es generalizing ps with
  | nil => simp only [parseEvents, Proc.ok.injEq] at hf; subst hf; intro p hp; exact Or.inl hp
  | cons e es ih =>
    have lift : ∀ ps1, parseEvents ps1 es = .ok ps' → (∀ p ∈ ps1.bin, p ∈ ps.bin ∨ FromHdr p e.hdr) →
        ∀ p ∈ ps'.bin, p ∈ ps.bin ∨ ∃ e' ∈ e :: es, FromHdr p e'.hdr := by
      intro ps1 h1 hstep p hp
      rcases ih ps1 h1 p hp with h2 | ⟨e', he', hfrom⟩
      · rcases hstep p h2 with h3 | h3
        · exact Or.inl h3
        · exact Or.inr ⟨e, by simp, h3⟩
      · exact Or.inr ⟨e', List.mem_cons_of_mem _ he', hfrom⟩
    simp only [parseEvents] at hf
    cases herr : e.err with
    | ok =>
      rw [herr] at hf
      simp only at hf
      split at hf
      · exact lift ps hf (fun p hp => Or.inl hp)
      · cases hp : processHdr ps e.hdr with
        | ok ps1 => rw [hp] at hf; exact lift ps1 hf (processHdr_sound ps ps1 e.hdr hp)
        | fail => rw [hp] at hf; cases hf
        | notDb => rw [hp] at hf; cases hf
    | eof =>
      rw [herr] at hf
      simp only at hf
      split at hf
      · cases hf; intro p hp; exact Or.inl hp
      · intro p hpm
        rcases processHdr_sound ps ps' e.hdr hf p hpm with h | h
        · exact Or.inl h
        · exact Or.inr ⟨e, by simp, h⟩
    | proto => rw [herr] at hf; exact lift ps hf (fun p hp => Or.inl hp)
    | tooLarge => rw [herr] at hf; cases hf

/-! ### concrete writers satisfy `States` -/

/-- `k` occurs in the header, always with the value `v` -/
def Hdr.Unique (h : Hdr) (k v : Bytes) : Prop := (k, v) ∈ h ∧ ∀ v', (k, v') ∈ h → v' = v

theorem Hdr.get_of_unique (h : Hdr) (k v : Bytes) (hu : Hdr.Unique h k v) : h.get k = v := by
  induction h with
  | nil => exact absurd hu.1 (by simp)
  | cons a r ih =>
    obtain ⟨k', v'⟩ := a
    simp only [Hdr.get]
    split
    · rename_i hk; subst hk
      exact hu.2 v' (by simp)
    · rename_i hk
      apply ih
      refine ⟨?_, fun x hx => hu.2 x (List.mem_cons_of_mem _ hx)⟩
      rcases List.mem_cons.1 hu.1 with h1 | h1
      · simp only [Prod.mk.injEq] at h1; exact absurd h1.1.symm hk
      · exact h1

theorem Hdr.get_of_absent (h : Hdr) (k : Bytes) (ha : ∀ v, (k, v) ∉ h) : h.get k = [] := by
  induction h with
  | nil => rfl
  | cons a r ih =>
    obtain ⟨k', v'⟩ := a
    simp only [Hdr.get]
    split
    · rename_i hk; subst hk; exact absurd (by simp) (ha v')
    · exact ih (fun v hv => ha v (List.mem_cons_of_mem _ hv))

theorem trimRight_append_keep (a b : Bytes) (hb : trimRight b ≠ []) : trimRight (a ++ b) = a ++ trimRight b := by
  induction a with
  | nil => rfl
  | cons c cs ih =>
    simp only [List.cons_append, trimRight, ih]
    cases h : cs ++ trimRight b with
    | nil => simp at h; exact absurd h.2 hb
    | cons x xs => simp

/-- a value without leading or trailing spaces/tabs -/
def Clean (v : Bytes) : Prop := trimLeft v = v ∧ trimRight v = v

/-- a single-line field `key: value` -/
def simpleField (k sep v : Bytes) : Field := ⟨k, sep, v, []⟩

theorem simpleField_value (k sep v : Bytes) (hs : ∀ c ∈ sep, isWs c = true) (hc : Clean v) :
    (simpleField k sep v).value = v := by
  simp only [simpleField, Field.value, Field.raw, contText, List.flatMap_nil, List.append_nil]
  by_cases hv : v = []
  · subst hv
    have : trimRight sep = [] := by
      induction sep with
      | nil => rfl
      | cons c cs ih =>
        simp only [trimRight, ih (fun x hx => hs x (List.mem_cons_of_mem _ hx)), hs c (by simp)]
        simp
    simp [this, trimLeft]
  · rw [trimRight_append_keep sep v (by rw [hc.2]; exact hv), hc.2, trimLeft_ws_append sep v hs, hc.1]

/-! ### a stanza written in any field order states its entry -/

/-- the five fields `parseStatus` reads, each written on one line with any
    spaces/tabs after the colon; `Source` only when the entry has one -/
def stdFields (e : Entry) (status : Bytes) (seps : Fin 5 → Bytes) : List Field :=
  [simpleField kPackage (seps 0) e.name, simpleField kStatus (seps 1) status,
   simpleField kVersion (seps 2) e.version, simpleField kArchitecture (seps 3) e.arch] ++
  (if e.src.isSome then [simpleField kSource (seps 4) e.sourceField] else [])

def reservedKeys : List Bytes := [kPackage, kStatus, kVersion, kArchitecture, kSource]

theorem canon_reserved : ∀ k ∈ reservedKeys, canonLoop true k = k := by decide

theorem hdr_unique_of_fields (fs : List Field) (k v : Bytes) (f : Field) (hf : f ∈ fs) (he : f.entry = (k, v))
    (hu : ∀ g ∈ fs, g.entry.1 = k → g.entry.2 = v) : Hdr.Unique (hdrOf fs) k v := by
  refine ⟨?_, ?_⟩
  · exact List.mem_map.2 ⟨f, hf, he⟩
  · intro v' hv'
    obtain ⟨g, hg, hge⟩ := List.mem_map.1 hv'
    have := hu g hg (by rw [hge])
    rw [hge] at this
    exact this

theorem states_of_written (e : Entry) (status : Bytes) (seps : Fin 5 → Bytes) (extras fs : List Field)
    (hperm : fs.Perm (stdFields e status seps ++ extras))
    (hex : ∀ x ∈ extras, canonLoop true x.key ∉ reservedKeys)
    (hseps : ∀ i, ∀ c ∈ seps i, isWs c = true)
    (hst : statusInstalled status = e.installed)
    (cn : Clean e.name) (cv : Clean e.version) (ca : Clean e.arch) (cs : Clean status) (csrc : Clean e.sourceField) :
    States (hdrOf fs) e := by
  have mem_iff : ∀ g, g ∈ fs ↔ g ∈ stdFields e status seps ++ extras := fun g => hperm.mem_iff
  have entry_simple : ∀ k sep v, k ∈ reservedKeys → (∀ c ∈ sep, isWs c = true) → Clean v →
      (simpleField k sep v).entry = (k, v) := by
    intro k sep v hk hs hc
    simp only [Field.entry, simpleField_value k sep v hs hc]
    rw [show (simpleField k sep v).key = k from rfl, canon_reserved k hk]
  -- every field whose canonical key is reserved is one of the standard ones
  have std_of_key : ∀ g ∈ fs, g.entry.1 ∈ reservedKeys → g ∈ stdFields e status seps := by
    intro g hg hk
    rcases List.mem_append.1 ((mem_iff g).1 hg) with h | h
    · exact h
    · exact absurd hk (hex g h)
  have key : ∀ (k v : Bytes) (sep : Bytes), k ∈ reservedKeys → (∀ c ∈ sep, isWs c = true) → Clean v →
      simpleField k sep v ∈ stdFields e status seps →
      (∀ g ∈ stdFields e status seps, g.entry.1 = k → g = simpleField k sep v) →
      (hdrOf fs).get k = v := by
    intro k v sep hk hs hc hmem honly
    apply Hdr.get_of_unique
    apply hdr_unique_of_fields fs k v (simpleField k sep v) ((mem_iff _).2 (List.mem_append_left _ hmem))
      (entry_simple k sep v hk hs hc)
    intro g hg hgk
    have := honly g (std_of_key g hg (by rw [hgk]; exact hk)) hgk
    rw [this, entry_simple k sep v hk hs hc]
  -- the keys of the standard fields
  have std_cases : ∀ g ∈ stdFields e status seps,
      g = simpleField kPackage (seps 0) e.name ∨ g = simpleField kStatus (seps 1) status ∨
      g = simpleField kVersion (seps 2) e.version ∨ g = simpleField kArchitecture (seps 3) e.arch ∨
      (e.src.isSome = true ∧ g = simpleField kSource (seps 4) e.sourceField) := by
    intro g hg
    simp only [stdFields, List.mem_append, List.mem_cons, List.mem_nil_iff, or_false] at hg
    rcases hg with (h | h | h | h) | h
    · exact Or.inl h
    · exact Or.inr (Or.inl h)
    · exact Or.inr (Or.inr (Or.inl h))
    · exact Or.inr (Or.inr (Or.inr (Or.inl h)))
    · split at h
      · rename_i hs; simp only [List.mem_cons, List.mem_nil_iff, or_false] at h; exact Or.inr (Or.inr (Or.inr (Or.inr ⟨hs, h⟩)))
      · simp at h
  have e0 := entry_simple kPackage (seps 0) e.name (by decide) (hseps 0) cn
  have e1 := entry_simple kStatus (seps 1) status (by decide) (hseps 1) cs
  have e2 := entry_simple kVersion (seps 2) e.version (by decide) (hseps 2) cv
  have e3 := entry_simple kArchitecture (seps 3) e.arch (by decide) (hseps 3) ca
  have e4 := entry_simple kSource (seps 4) e.sourceField (by decide) (hseps 4) csrc
  have only : ∀ (k : Bytes) (target : Field), k ∈ reservedKeys → target ∈ stdFields e status seps → target.entry.1 = k →
      ∀ g ∈ stdFields e status seps, g.entry.1 = k → g = target := by
    intro k target hk ht htk g hg hgk
    rcases std_cases g hg with rfl | rfl | rfl | rfl | ⟨_, rfl⟩ <;>
    rcases std_cases target ht with rfl | rfl | rfl | rfl | ⟨_, rfl⟩ <;>
    first
      | rfl
      | (exfalso; rw [e0] at *; rw [e1] at *; rw [e2] at *; rw [e3] at *; rw [e4] at *; simp only at hgk htk; rw [← htk] at hgk; revert hgk; decide)
  have m0 : simpleField kPackage (seps 0) e.name ∈ stdFields e status seps := by simp [stdFields]
  have m1 : simpleField kStatus (seps 1) status ∈ stdFields e status seps := by simp [stdFields]
  have m2 : simpleField kVersion (seps 2) e.version ∈ stdFields e status seps := by simp [stdFields]
  have m3 : simpleField kArchitecture (seps 3) e.arch ∈ stdFields e status seps := by simp [stdFields]
  have g0 := key kPackage e.name (seps 0) (by decide) (hseps 0) cn m0 (only kPackage _ (by decide) m0 (by rw [e0]))
  have g1 := key kStatus status (seps 1) (by decide) (hseps 1) cs m1 (only kStatus _ (by decide) m1 (by rw [e1]))
  have g2 := key kVersion e.version (seps 2) (by decide) (hseps 2) cv m2 (only kVersion _ (by decide) m2 (by rw [e2]))
  have g3 := key kArchitecture e.arch (seps 3) (by decide) (hseps 3) ca m3 (only kArchitecture _ (by decide) m3 (by rw [e3]))
  refine ⟨by rw [g1, hst], fun _ => g0, fun _ => g2, fun _ => g3, fun _ => ?_⟩
  cases hsrc : e.src.isSome with
  | true =>
    have m4 : simpleField kSource (seps 4) e.sourceField ∈ stdFields e status seps := by simp [stdFields, hsrc]
    exact key kSource e.sourceField (seps 4) (by decide) (hseps 4) csrc m4 (only kSource _ (by decide) m4 (by rw [e4]))
  | false =>
    have hnone : e.src = none := by cases h : e.src <;> simp_all
    have : e.sourceField = [] := by simp [Entry.sourceField, hnone]
    rw [this]
    apply Hdr.get_of_absent
    intro v hv
    obtain ⟨g, hg, hge⟩ := List.mem_map.1 hv
    have hstd := std_of_key g hg (by rw [hge]; show kSource ∈ reservedKeys; decide)
    rcases std_cases g hstd with rfl | rfl | rfl | rfl | ⟨h, _⟩
    · rw [e0] at hge; revert hge; simp only [Prod.mk.injEq]; intro h; exact absurd h.1 (by decide)
    · rw [e1] at hge; revert hge; simp only [Prod.mk.injEq]; intro h; exact absurd h.1 (by decide)
    · rw [e2] at hge; revert hge; simp only [Prod.mk.injEq]; intro h; exact absurd h.1 (by decide)
    · rw [e3] at hge; revert hge; simp only [Prod.mk.injEq]; intro h; exact absurd h.1 (by decide)
    · rw [hsrc] at h; cases h

end ClairModel.Dpkg
