/-
  Helper lemmas and the inductive invariants of the update-manager machine
  (Model/Manager.lean).  The property theorems are in Props/C13.lean.
-/
import ClairModel.Lib.Sm
import ClairModel.Proofs.Locks
import ClairModel.Model.Manager

namespace ClairModel.Manager
open ClairModel

/-! ### setPc / setRun -/

@[simp] theorem setPc_locks (s : State) (r i : Nat) (p : Pc) : (s.setPc r i p).locks = s.locks := rfl
@[simp] theorem setPc_ops (s : State) (r i : Nat) (p : Pc) : (s.setPc r i p).ops = s.ops := rfl
@[simp] theorem setPc_calls (s : State) (r i : Nat) (p : Pc) : (s.setPc r i p).calls = s.calls := rfl
@[simp] theorem setPc_status (s : State) (r i : Nat) (p : Pc) : (s.setPc r i p).status = s.status := rfl
@[simp] theorem setPc_run (s : State) (r i : Nat) (p : Pc) : (s.setPc r i p).run = s.run := rfl
@[simp] theorem setRun_locks (s : State) (r : Nat) (x : RunSt) : (s.setRun r x).locks = s.locks := rfl
@[simp] theorem setRun_ops (s : State) (r : Nat) (x : RunSt) : (s.setRun r x).ops = s.ops := rfl
@[simp] theorem setRun_calls (s : State) (r : Nat) (x : RunSt) : (s.setRun r x).calls = s.calls := rfl
@[simp] theorem setRun_status (s : State) (r : Nat) (x : RunSt) : (s.setRun r x).status = s.status := rfl
@[simp] theorem setRun_pc (s : State) (r : Nat) (x : RunSt) : (s.setRun r x).pc = s.pc := rfl

@[simp] theorem setPc_body (s : State) (r i : Nat) (p : Pc) : (s.setPc r i p).body = s.body := rfl
@[simp] theorem setPc_closes (s : State) (r i : Nat) (p : Pc) : (s.setPc r i p).closes = s.closes := rfl
@[simp] theorem setRun_body (s : State) (r : Nat) (x : RunSt) : (s.setRun r x).body = s.body := rfl
@[simp] theorem setRun_closes (s : State) (r : Nat) (x : RunSt) : (s.setRun r x).closes = s.closes := rfl
@[simp] theorem setBody_locks (s : State) (r i : Nat) (b : Body) : (s.setBody r i b).locks = s.locks := rfl
@[simp] theorem setBody_ops (s : State) (r i : Nat) (b : Body) : (s.setBody r i b).ops = s.ops := rfl
@[simp] theorem setBody_calls (s : State) (r i : Nat) (b : Body) : (s.setBody r i b).calls = s.calls := rfl
@[simp] theorem setBody_status (s : State) (r i : Nat) (b : Body) : (s.setBody r i b).status = s.status := rfl
@[simp] theorem setBody_pc (s : State) (r i : Nat) (b : Body) : (s.setBody r i b).pc = s.pc := rfl
@[simp] theorem setBody_run (s : State) (r i : Nat) (b : Body) : (s.setBody r i b).run = s.run := rfl
@[simp] theorem setBody_closes (s : State) (r i : Nat) (b : Body) : (s.setBody r i b).closes = s.closes := rfl

theorem setBody_body (s : State) (r i : Nat) (b : Body) (r' i' : Nat) :
    (s.setBody r i b).body r' i' = if r' = r ∧ i' = i then b else s.body r' i' := rfl

@[simp] theorem setBody_body_self (s : State) (r i : Nat) (b : Body) : (s.setBody r i b).body r i = b := by
  simp [setBody_body]

theorem setPc_pc (s : State) (r i : Nat) (p : Pc) (r' i' : Nat) :
    (s.setPc r i p).pc r' i' = if r' = r ∧ i' = i then p else s.pc r' i' := rfl

@[simp] theorem setPc_pc_self (s : State) (r i : Nat) (p : Pc) : (s.setPc r i p).pc r i = p := by
  simp [setPc_pc]

theorem setPc_pc_ne (s : State) (r i : Nat) (p : Pc) (r' i' : Nat) (h : ¬(r' = r ∧ i' = i)) :
    (s.setPc r i p).pc r' i' = s.pc r' i' := by
  simp [setPc_pc, h]

theorem setRun_run (s : State) (r : Nat) (x : RunSt) (r' : Nat) :
    (s.setRun r x).run r' = if r' = r then x else s.run r' := rfl

@[simp] theorem setRun_run_self (s : State) (r : Nat) (x : RunSt) : (s.setRun r x).run r = x := by
  simp [setRun_run]

theorem setRun_run_ne (s : State) (r : Nat) (x : RunSt) (r' : Nat) (h : r' ≠ r) :
    (s.setRun r x).run r' = s.run r' := by
  simp [setRun_run, h]

/-! ### the lock source inside the machine -/

theorem tryLock_free (l : Locks.State) (k p : Nat) (h : k ∉ l.held) :
    Locks.step l (.tryLock k p) = Locks.acquire l k p := by
  simp [Locks.step, h]

theorem acquire_inv {l : Locks.State} (h : Locks.Inv l) (k p : Nat) (hk : k ∉ l.held) :
    Locks.Inv (Locks.acquire l k p).1 := Locks.inv_acquire h k p hk

@[simp] theorem acquire_active (l : Locks.State) (k p : Nat) :
    (Locks.acquire l k p).1.active = ⟨l.issued, k, p⟩ :: l.active := rfl
@[simp] theorem acquire_held (l : Locks.State) (k p : Nat) :
    (Locks.acquire l k p).1.held = k :: l.held := rfl
@[simp] theorem acquire_dead (l : Locks.State) (k p : Nat) :
    (Locks.acquire l k p).1.deadParents = l.deadParents := rfl
@[simp] theorem acquire_issued (l : Locks.State) (k p : Nat) :
    (Locks.acquire l k p).1.issued = l.issued + 1 := rfl

@[simp] theorem cancel_active (l : Locks.State) (p : Nat) :
    (Locks.step l (.cancelParent p)).1.active = l.active := rfl
@[simp] theorem cancel_held (l : Locks.State) (p : Nat) :
    (Locks.step l (.cancelParent p)).1.held = l.held := rfl
@[simp] theorem cancel_dead (l : Locks.State) (p : Nat) :
    (Locks.step l (.cancelParent p)).1.deadParents = p :: l.deadParents := rfl

theorem release_dead (l : Locks.State) (g : Nat) :
    (Locks.step l (.release g)).1.deadParents = l.deadParents := by
  simp only [Locks.step]; split <;> rfl

/-- Releasing a grant that is live removes exactly that grant. -/
theorem release_active {l : Locks.State} (_h : Locks.Inv l) {gr : Locks.Grant} (hg : gr ∈ l.active) :
    (Locks.step l (.release gr.gid)).1.active = l.active.filter (fun x => !(x.gid == gr.gid)) := by
  simp only [Locks.step]
  split
  · rename_i hf
    have := List.find?_eq_none.1 hf gr hg
    simp at this
  · rfl

theorem mem_release_active {l : Locks.State} (h : Locks.Inv l) {gr x : Locks.Grant}
    (hg : gr ∈ l.active) (hx : x ∈ l.active) (hne : x.gid ≠ gr.gid) :
    x ∈ (Locks.step l (.release gr.gid)).1.active := by
  rw [release_active h hg]
  exact List.mem_filter.2 ⟨hx, by simpa using hne⟩

/-! ### the lock-related invariant -/

/-- Lock source invariant, every lock-holding worker owns a live grant on its
    updater's name, and different workers own different grants. -/
structure InvL (env : Env) (s : State) : Prop where
  locks : Locks.Inv s.locks
  grant : ∀ r i g, (s.pc r i).holds = some g → (⟨g, (env.upd i).name, r⟩ : Locks.Grant) ∈ s.locks.active
  uniq : ∀ r i r' i' g, (s.pc r i).holds = some g → (s.pc r' i').holds = some g → r = r' ∧ i = i'
  owner : ∀ gr ∈ s.locks.active, ∃ r i, (s.pc r i).holds = some gr.gid ∧ gr.key = (env.upd i).name ∧ gr.parent = r

theorem invL_init (env : Env) (hist : List Op) : InvL env (init hist) := by
  refine ⟨Locks.inv_init, ?_, ?_, ?_⟩ <;> intros <;> simp_all [init, Pc.holds, Locks.init]

/-- Mutual exclusion between workers, from the lock machine's invariant. -/
theorem exclusive {env : Env} {s : State} (h : InvL env s) {r i r' i' g g' : Nat}
    (h1 : (s.pc r i).holds = some g) (h2 : (s.pc r' i').holds = some g')
    (hn : (env.upd i).name = (env.upd i').name) : r = r' ∧ i = i' := by
  have m1 := h.grant r i g h1
  have m2 := h.grant r' i' g' h2
  have := Locks.eq_of_nodup_map (·.key) _ h.locks.oneHolder m1 m2 (by simpa using hn)
  have hg : g = g' := by simpa using congrArg Locks.Grant.gid this
  subst hg
  exact h.uniq r i r' i' g h1 h2

/-- A step that changes one worker's program counter without changing what it
    holds, and leaves the lock source alone, preserves `InvL`. -/
theorem invL_progress {env : Env} {s s' : State} (h : InvL env s) (r i : Nat) (p : Pc)
    (hl : s'.locks = s.locks) (hpc : s'.pc = (s.setPc r i p).pc) (hh : p.holds = (s.pc r i).holds) :
    InvL env s' := by
  have key : ∀ r' i', (s'.pc r' i').holds = (s.pc r' i').holds := by
    intro r' i'
    rw [hpc, setPc_pc]
    split
    · rename_i h'; rw [hh, h'.1, h'.2]
    · rfl
  refine ⟨by rw [hl]; exact h.locks, ?_, ?_, ?_⟩
  · intro r' i' g hg
    rw [hl]; rw [key] at hg; exact h.grant r' i' g hg
  · intro r1 i1 r2 i2 g h1 h2
    rw [key] at h1 h2; exact h.uniq r1 i1 r2 i2 g h1 h2
  · intro gr hgr
    rw [hl] at hgr
    obtain ⟨r', i', h1, h2, h3⟩ := h.owner gr hgr
    exact ⟨r', i', by rw [key]; exact h1, h2, h3⟩

/-- A worker that holds nothing takes a fresh grant. -/
theorem invL_acquire {env : Env} {s s' : State} (h : InvL env s) (r i : Nat) (p : Pc)
    (hfree : (env.upd i).name ∉ s.locks.held) (hnone : (s.pc r i).holds = none)
    (hl : s'.locks = (Locks.acquire s.locks (env.upd i).name r).1)
    (hpc : s'.pc = (s.setPc r i p).pc) (hh : p.holds = some s.locks.issued) :
    InvL env s' := by
  refine ⟨by rw [hl]; exact acquire_inv h.locks _ _ hfree, ?_, ?_, ?owner⟩
  case owner =>
    intro gr hgr
    rw [hl, acquire_active] at hgr
    rcases List.mem_cons.1 hgr with he | hm
    · refine ⟨r, i, ?_, ?_, ?_⟩
      · rw [hpc, setPc_pc_self, hh, he]
      · rw [he]
      · rw [he]
    · obtain ⟨r', i', h1, h2, h3⟩ := h.owner gr hm
      refine ⟨r', i', ?_, h2, h3⟩
      rw [hpc, setPc_pc_ne]
      · exact h1
      · intro hh'
        rw [hh'.1, hh'.2, hnone] at h1
        cases h1
  · intro r' i' g hg
    rw [hl, acquire_active]
    rw [hpc, setPc_pc] at hg
    split at hg
    · rename_i h'
      rw [hh] at hg
      cases hg
      rw [h'.1, h'.2]
      exact List.mem_cons_self
    · exact List.mem_cons_of_mem _ (h.grant r' i' g hg)
  · intro r1 i1 r2 i2 g h1 h2
    rw [hpc, setPc_pc] at h1 h2
    have fresh : ∀ r' i' g', (s.pc r' i').holds = some g' → g' ≠ s.locks.issued := by
      intro r' i' g' hg' he
      have := h.locks.gidLt _ (h.grant r' i' g' hg')
      simp at this
      omega
    split at h1 <;> split at h2
    · rename_i a b; exact ⟨a.1.trans b.1.symm, a.2.trans b.2.symm⟩
    · rw [hh] at h1; cases h1
      exact absurd rfl (fresh _ _ _ h2)
    · rw [hh] at h2; cases h2
      exact absurd rfl (fresh _ _ _ h1)
    · exact h.uniq r1 i1 r2 i2 g h1 h2

/-- The lock source after `done()` of a worker holding `go`. -/
def relLocks (l : Locks.State) : Option Nat → Locks.State
  | some g => (Locks.step l (.release g)).1
  | none => l

/-- A worker gives its grant back (or had none) and ends. -/
theorem invL_finish {env : Env} {s s' : State} (h : InvL env s) (r i : Nat) (p : Pc) (go : Option Nat)
    (hheld : (s.pc r i).holds = go)
    (hl : s'.locks = relLocks s.locks go)
    (hpc : s'.pc = (s.setPc r i p).pc) (hh : p.holds = none) :
    InvL env s' := by
  have hinv : Locks.Inv s'.locks := by
    rw [hl]; cases go with
    | none => exact h.locks
    | some g => exact Locks.inv_step h.locks _
  refine ⟨hinv, ?_, ?_, ?owner⟩
  case owner =>
    intro gr hgr
    have hold : gr ∈ s.locks.active ∧ (∀ g, go = some g → gr.gid ≠ g) := by
      rw [hl] at hgr
      cases go with
      | none => exact ⟨hgr, by intro g hg; cases hg⟩
      | some g =>
        have m := h.grant r i g hheld
        simp only [relLocks] at hgr
        have := release_active h.locks m
        simp only at this
        rw [this] at hgr
        have hf := List.mem_filter.1 hgr
        refine ⟨hf.1, ?_⟩
        intro g' hg'; cases hg'
        simpa using hf.2
    obtain ⟨r', i', h1, h2, h3⟩ := h.owner gr hold.1
    refine ⟨r', i', ?_, h2, h3⟩
    rw [hpc, setPc_pc_ne]
    · exact h1
    · intro hh'
      rw [hh'.1, hh'.2, hheld] at h1
      cases go with
      | none => cases h1
      | some g => cases h1; exact hold.2 _ rfl rfl
  · intro r' i' g' hg'
    rw [hpc, setPc_pc] at hg'
    split at hg'
    · rw [hh] at hg'; cases hg'
    · rename_i hne
      have m' := h.grant r' i' g' hg'
      rw [hl]
      cases go with
      | none => exact m'
      | some g =>
        have m := h.grant r i g hheld
        have hne' : g' ≠ g := by
          intro he; subst he
          exact hne (h.uniq r' i' r i g' hg' hheld)
        exact mem_release_active h.locks m m' (by simpa using hne')
  · intro r1 i1 r2 i2 g h1 h2
    rw [hpc, setPc_pc] at h1 h2
    split at h1
    · rw [hh] at h1; cases h1
    · split at h2
      · rw [hh] at h2; cases h2
      · exact h.uniq r1 i1 r2 i2 g h1 h2

theorem invL_congr {env : Env} {s s' : State} (h : InvL env s) (hl : s'.locks = s.locks) (hpc : s'.pc = s.pc) :
    InvL env s' := by
  refine ⟨by rw [hl]; exact h.locks, ?_, ?_, ?_⟩
  · intro r i g hg; rw [hl]; rw [hpc] at hg; exact h.grant r i g hg
  · intro r1 i1 r2 i2 g h1 h2; rw [hpc] at h1 h2; exact h.uniq r1 i1 r2 i2 g h1 h2
  · intro gr hgr; rw [hl] at hgr; rw [hpc]; exact h.owner gr hgr

theorem finish_locks (s : State) (r i : Nat) (go : Option Nat) (res : Option Res) :
    (finish s r i go res).locks = relLocks s.locks go := by
  cases go <;> rfl

theorem finish_pc (s : State) (r i : Nat) (go : Option Nat) (res : Option Res) :
    (finish s r i go res).pc = (s.setPc r i (.finished res)).pc := by
  cases go <;> rfl

theorem gcFinish_locks (env : Env) (s : State) (r : Nat) (go : Option Nat) :
    (gcFinish env s r go).locks = relLocks s.locks go := by
  cases go <;> rfl

theorem gcFinish_pc (env : Env) (s : State) (r : Nat) (go : Option Nat) :
    (gcFinish env s r go).pc = (s.setPc r env.gcInst (.finished none)).pc := by
  cases go <;> rfl

theorem gcFinish_ops (env : Env) (s : State) (r : Nat) (go : Option Nat) :
    (gcFinish env s r go).ops = s.ops := by cases go <;> rfl

theorem gcFinish_calls (env : Env) (s : State) (r : Nat) (go : Option Nat) :
    (gcFinish env s r go).calls = s.calls := by cases go <;> rfl

theorem gcFinish_run (env : Env) (s : State) (r : Nat) (go : Option Nat) :
    (gcFinish env s r go).run = (s.setRun r { s.run r with pc := .gcOver }).run := by
  cases go <;> rfl

theorem invL_step {env : Env} {s : State} (h : InvL env s) (ev : Ev) : InvL env (step env s ev).1 := by
  cases ev with
  | begin r => simp only [step]; split <;> first | exact h | exact invL_congr h rfl rfl
  | acquire r =>
    simp only [step]; split
    · split <;> first | exact h | exact invL_congr h rfl rfl
    · exact h
  | launch r =>
    simp only [step]; split
    · split <;> first | exact h | exact invL_congr h rfl rfl
    · exact h
  | wait r =>
    simp only [step]; split
    · split <;> first | exact h | exact invL_congr h rfl rfl
    · split <;> first | exact h | exact invL_congr h rfl rfl
    · exact h
  | drained r =>
    simp only [step]; split
    · split <;> first | exact h | exact invL_congr h rfl rfl
    · exact h
  | ret r =>
    simp only [step]; split
    · split <;> first | exact h | exact invL_congr h rfl rfl
    · exact invL_congr h rfl rfl
    · exact h
  | cancel r =>
    simp only [step]
    refine ⟨Locks.inv_step h.locks _, ?_, ?_, ?_⟩
    · intro r' i' g hg; exact h.grant r' i' g hg
    · intro r1 i1 r2 i2 g h1 h2; exact h.uniq r1 i1 r2 i2 g h1 h2
    · intro gr hgr; exact h.owner gr hgr
  | tryLock r i =>
    simp only [step]; split
    · exact h
    rename_i hgc
    split
    · rename_i hpc
      split
      · split
        · exact invL_progress h r i (.skipped none) rfl rfl (by simp [hpc, Pc.holds])
        · rename_i hfree
          split
          · exact invL_acquire h r i _ hfree (by simp [hpc, Pc.holds]) rfl rfl rfl
          · exact invL_acquire h r i _ hfree (by simp [hpc, Pc.holds]) rfl rfl rfl
      · exact h
    · exact h
  | getOps r i =>
    simp only [step]; split
    · exact h
    rename_i hgc
    split
    · rename_i g hpc
      split
      · exact invL_progress h r i _ rfl rfl (by simp [hpc, Pc.holds])
      · exact invL_progress h r i _ rfl rfl (by simp [hpc, Pc.holds])
    · exact h
  | fetch r i =>
    simp only [step]; split
    · exact h
    rename_i hgc
    split
    · rename_i g prev hpc
      split <;> exact invL_progress h r i _ rfl rfl (by simp [hpc, Pc.holds])
    · exact h
  | parse r i =>
    simp only [step]; split
    · exact h
    rename_i hgc
    split
    · rename_i g prev fp hpc
      split <;> exact invL_progress h r i _ rfl rfl (by simp [hpc, Pc.holds])
    · exact h
  | store r i =>
    simp only [step]; split
    · exact h
    rename_i hgc
    split
    · rename_i g prev fp p hpc
      split <;> exact invL_progress h r i _ rfl rfl (by simp [hpc, Pc.holds])
    · exact h
  | close r i =>
    simp only [step]; split
    · exact h
    split
    · split
      · exact invL_congr h rfl rfl
      · exact h
    · exact h
  | status r i =>
    simp only [step]; split
    · exact h
    rename_i hgc
    split
    · rename_i g fp res hpc
      split
      · exact h
      · exact invL_progress h r i _ rfl rfl (by simp [hpc, Pc.holds])
    · exact h
  | done r i =>
    simp only [step]; split
    · exact h
    rename_i hgc
    split
    · rename_i g hpc
      exact invL_finish h r i _ g (by simp [hpc, Pc.holds]) (finish_locks ..) (finish_pc ..) rfl
    · rename_i g hpc
      split
      · exact invL_finish h r i _ (some g) (by simp [hpc, Pc.holds]) (finish_locks ..) (finish_pc ..) rfl
      · exact h
    · rename_i g res hpc
      exact invL_finish h r i _ (some g) (by simp [hpc, Pc.holds]) (finish_locks ..) (finish_pc ..) rfl
    · exact h
  | gcTry r =>
    simp only [step]; split
    · split
      · rename_i hc
        split
        · exact invL_progress h r env.gcInst (.skipped none) rfl rfl (by simp [hc.2, Pc.holds])
        · rename_i hfree
          split
          · exact invL_acquire h r env.gcInst _ hfree (by simp [hc.2, Pc.holds]) rfl rfl rfl
          · exact invL_acquire h r env.gcInst _ hfree (by simp [hc.2, Pc.holds]) rfl rfl rfl
      · exact h
    · exact h
  | gc r =>
    simp only [step]; split
    · split
      · rename_i g hpc
        exact invL_progress h r env.gcInst _ rfl rfl (by simp [hpc, Pc.holds])
      · exact h
    · exact h
  | gcDone r =>
    simp only [step]; split
    · split
      · rename_i g hpc
        exact invL_finish h r env.gcInst _ g (by simp [hpc, Pc.holds]) (gcFinish_locks ..) (gcFinish_pc ..) rfl
      · rename_i g hpc
        split
        · exact invL_finish h r env.gcInst _ (some g) (by simp [hpc, Pc.holds]) (gcFinish_locks ..) (gcFinish_pc ..) rfl
        · exact h
      · exact h
    · exact h

/-! ### the data invariant: store contents, calls per worker, fingerprints -/

/-- The store calls a worker in this program state has made. -/
def pcCalls : Pc → List Call
  | .finishing _ _ (.stored c) => [c]
  | .recorded _ (.stored c) => [c]
  | .finished (some (.stored c)) => [c]
  | _ => []

/-- Where the data a worker carries came from: every intermediate value is
    an answer of its own updater, and a finished driveUpdater is an instance
    of the sequential `drive`. -/
def Explains (u : Upd) : Pc → Prop
  | .gotOps _ _ => ∃ d0, u.getOk d0 = true
  | .fetched _ prev fp => (∃ d0, u.getOk d0 = true) ∧ ∃ d1, u.fetch prev d1 = (.ok, fp)
  | .parsed _ prev fp p =>
      (∃ d0, u.getOk d0 = true) ∧ (∃ d1, u.fetch prev d1 = (.ok, fp)) ∧ ∃ d2, u.parse d2 = some p
  | .finishing _ fp res => ∃ prev d0 d1 d2 d3, drive u prev d0 d1 d2 d3 = (res, fp)
  | .recorded _ res => ∃ prev d0 d1 d2 d3, (drive u prev d0 d1 d2 d3).1 = res
  | .finished (some res) => ∃ prev d0 d1 d2 d3, (drive u prev d0 d1 d2 d3).1 = res
  | _ => True

structure InvD (env : Env) (hist : List Op) (s : State) : Prop where
  ops : s.ops = s.calls.map (fun c => c.call.toOp) ++ hist
  calls : ∀ r i, callsOf s r i = pcCalls (s.pc r i)
  prev : ∀ r i g prev, s.pc r i = .gotOps g prev →
    prev = latestFp s.ops (env.upd i).kind.uo (env.upd i).name
  expl : ∀ r i, Explains (env.upd i) (s.pc r i)

theorem invD_init (env : Env) (hist : List Op) : InvD env hist (init hist) := by
  refine ⟨by simp [init], ?_, ?_, ?_⟩
  · intro r i; simp [init, callsOf, pcCalls]
  · intro r i g prev h; simp [init] at h
  · intro r i; simp [init, Explains]

theorem callsOf_congr {s s' : State} (h : s'.calls = s.calls) (r i : Nat) : callsOf s' r i = callsOf s r i := by
  simp [callsOf, h]

theorem invD_congr {env : Env} {hist : List Op} {s s' : State} (h : InvD env hist s)
    (ho : s'.ops = s.ops) (hc : s'.calls = s.calls) (hpc : s'.pc = s.pc) : InvD env hist s' := by
  refine ⟨by rw [ho, hc]; exact h.ops, ?_, ?_, ?_⟩
  · intro r i; rw [callsOf_congr hc, hpc]; exact h.calls r i
  · intro r i g prev hp; rw [hpc] at hp; rw [ho]; exact h.prev r i g prev hp
  · intro r i; rw [hpc]; exact h.expl r i

/-- A worker step that makes no successful store call. -/
theorem invD_progress {env : Env} {hist : List Op} {s s' : State} (h : InvD env hist s) (r i : Nat) (p : Pc)
    (ho : s'.ops = s.ops) (hc : s'.calls = s.calls) (hpc : s'.pc = (s.setPc r i p).pc)
    (hcalls : pcCalls p = pcCalls (s.pc r i))
    (hprev : ∀ g prev, p = .gotOps g prev → prev = latestFp s.ops (env.upd i).kind.uo (env.upd i).name)
    (hexpl : Explains (env.upd i) p) : InvD env hist s' := by
  refine ⟨by rw [ho, hc]; exact h.ops, ?_, ?_, ?_⟩
  · intro r' i'
    rw [callsOf_congr hc, hpc, setPc_pc]
    split
    · rename_i h'; rw [hcalls, h'.1, h'.2]; exact h.calls r i
    · exact h.calls r' i'
  · intro r' i' g prev hp
    rw [hpc, setPc_pc] at hp
    rw [ho]
    split at hp
    · rename_i h'; rw [h'.2]; exact hprev g prev hp
    · exact h.prev r' i' g prev hp
  · intro r' i'
    rw [hpc, setPc_pc]
    split
    · rename_i h'; rw [h'.2]; exact hexpl
    · exact h.expl r' i'

theorem latestFp_cons_ne (o : Op) (ops : List Op) (uo : UoKind) (name : Nat) (h : o.name ≠ name) :
    latestFp (o :: ops) uo name = latestFp ops uo name := by
  simp [latestFp, h]

theorem latestFp_cons_self (o : Op) (ops : List Op) : latestFp (o :: ops) o.uo o.name = o.fp := by
  simp [latestFp]

theorem mkCall_toOp (u : Upd) (fp : Fp) (p : Payload) : (mkCall u fp p).toOp = ⟨u.name, u.kind.uo, fp⟩ := by
  cases hk : u.kind <;> simp [mkCall, hk, Call.toOp, Kind.uo]

theorem mkCall_name (u : Upd) (fp : Fp) (p : Payload) : (mkCall u fp p).name = u.name := by
  cases hk : u.kind <;> simp [mkCall, hk, Call.name]

theorem mkCall_fp (u : Upd) (fp : Fp) (p : Payload) : (mkCall u fp p).fp = fp := by
  cases hk : u.kind <;> simp [mkCall, hk, Call.fp]

/-- The successful store call. Uses mutual exclusion: no other worker of the
    same name sits between reading the fingerprint and fetching. -/
theorem invD_store {env : Env} {hist : List Op} {s : State} (hL : InvL env s) (h : InvD env hist s)
    (r i g : Nat) (prev fp : Fp) (p : Payload) (hpc : s.pc r i = .parsed g prev fp p) (d3 : Bool)
    (hok : (env.upd i).storeOk d3 = true) :
    InvD env hist ({ s with ops := (mkCall (env.upd i) fp p).toOp :: s.ops,
                            calls := ⟨r, i, mkCall (env.upd i) fp p⟩ :: s.calls }.setPc r i
                      (.finishing g fp (.stored (mkCall (env.upd i) fp p)))) := by
  refine ⟨?_, ?_, ?_, ?_⟩
  · simp [h.ops]
  · intro r' i'
    rw [setPc_pc]
    by_cases hri : r' = r ∧ i' = i
    · rw [if_pos hri, hri.1, hri.2]
      have := h.calls r i
      rw [hpc] at this
      simp only [callsOf, pcCalls] at this ⊢
      simp [this]
    · rw [if_neg hri]
      have := h.calls r' i'
      simp only [callsOf] at this ⊢
      have hf : ((r == r') && (i == i')) = false := by
        cases hr : (r == r') <;> cases hi : (i == i') <;> simp_all
      simp only [setPc_calls, List.filter_cons, hf]
      exact this
  · intro r' i' g' prev' hp
    rw [setPc_pc] at hp
    split at hp
    · cases hp
    · rename_i hne
      have hp : s.pc r' i' = .gotOps g' prev' := hp
      have hold := h.prev r' i' g' prev' hp
      simp only [setPc_ops]
      rw [latestFp_cons_ne]
      · exact hold
      · rw [mkCall_toOp]
        intro hn
        have := exclusive hL (r := r) (i := i) (r' := r') (i' := i') (g := g) (g' := g')
          (by simp [hpc, Pc.holds]) (by simp [hp, Pc.holds]) hn
        exact hne ⟨this.1.symm, this.2.symm⟩
  · intro r' i'
    rw [setPc_pc]
    split
    · rename_i h'
      rw [h'.2]
      have := h.expl r i
      rw [hpc] at this
      obtain ⟨⟨d0, h0⟩, ⟨d1, h1⟩, ⟨d2, h2⟩⟩ := this
      exact ⟨prev, d0, d1, d2, d3, by simp [drive, h0, h1, h2, hok]⟩
    · exact h.expl r' i'

theorem finish_ops (s : State) (r i : Nat) (go : Option Nat) (res : Option Res) :
    (finish s r i go res).ops = s.ops := by cases go <;> rfl

theorem finish_calls (s : State) (r i : Nat) (go : Option Nat) (res : Option Res) :
    (finish s r i go res).calls = s.calls := by cases go <;> rfl

theorem pcCalls_finished (g : Nat) (res : Res) : pcCalls (.finished (some res)) = pcCalls (.recorded g res) := by
  cases res <;> rfl

theorem pcCalls_recorded (g : Nat) (fp : Fp) (res : Res) : pcCalls (.recorded g res) = pcCalls (.finishing g fp res) := by
  cases res <;> rfl

theorem invD_step {env : Env} {hist : List Op} {s : State} (hL : InvL env s) (h : InvD env hist s) (ev : Ev) :
    InvD env hist (step env s ev).1 := by
  cases ev with
  | begin r => simp only [step]; split <;> first | exact h | exact invD_congr h rfl rfl rfl
  | acquire r =>
    simp only [step]; split
    · split <;> first | exact h | exact invD_congr h rfl rfl rfl
    · exact h
  | launch r =>
    simp only [step]; split
    · split <;> first | exact h | exact invD_congr h rfl rfl rfl
    · exact h
  | wait r =>
    simp only [step]; split
    · split <;> first | exact h | exact invD_congr h rfl rfl rfl
    · split <;> first | exact h | exact invD_congr h rfl rfl rfl
    · exact h
  | drained r =>
    simp only [step]; split
    · split <;> first | exact h | exact invD_congr h rfl rfl rfl
    · exact h
  | ret r =>
    simp only [step]; split
    · split <;> first | exact h | exact invD_congr h rfl rfl rfl
    · exact invD_congr h rfl rfl rfl
    · exact h
  | cancel r => simp only [step]; exact invD_congr h rfl rfl rfl
  | tryLock r i =>
    simp only [step]; split
    · exact h
    rename_i hgc
    split
    · rename_i hpc
      split
      · split
        · exact invD_progress h r i (.skipped none) rfl rfl rfl (by simp [hpc, pcCalls])
            (by intro g prev he; cases he) (by simp [Explains])
        · split
          · exact invD_progress h r i (.skipped (some s.locks.issued)) rfl rfl rfl (by simp [hpc, pcCalls])
              (by intro g prev he; cases he) (by simp [Explains])
          · exact invD_progress h r i (.locked s.locks.issued) rfl rfl rfl (by simp [hpc, pcCalls])
              (by intro g prev he; cases he) (by simp [Explains])
      · exact h
    · exact h
  | getOps r i =>
    simp only [step]; split
    · exact h
    rename_i hgc
    split
    · rename_i g hpc
      split
      · rename_i hok
        exact invD_progress h r i _ rfl rfl rfl (by simp [hpc, pcCalls])
          (by intro g' prev' he; cases he; rfl) ⟨_, hok⟩
      · rename_i hok
        exact invD_progress h r i _ rfl rfl rfl (by simp [hpc, pcCalls])
          (by intro g' prev' he; cases he) ⟨0, dead s r, false, false, false, by simp [drive, hok]⟩
    · exact h
  | fetch r i =>
    simp only [step]; split
    · exact h
    rename_i hgc
    split
    · rename_i g prev hpc
      have he := h.expl r i
      rw [hpc] at he
      obtain ⟨d0, h0⟩ := he
      split
      · rename_i hres
        have hf : (env.upd i).fetch prev (dead s r) = (.ok, ((env.upd i).fetch prev (dead s r)).2) :=
          Prod.ext hres rfl
        exact invD_progress h r i _ rfl rfl rfl (by simp [hpc, pcCalls])
          (by intro g' prev' he; cases he) ⟨⟨d0, h0⟩, ⟨_, hf⟩⟩
      · rename_i hres
        have hf : (env.upd i).fetch prev (dead s r) = (.unchanged, ((env.upd i).fetch prev (dead s r)).2) :=
          Prod.ext hres rfl
        exact invD_progress h r i _ rfl rfl rfl (by simp [hpc, pcCalls])
          (by intro g' prev' he; cases he)
          ⟨prev, d0, dead s r, false, false, by simp only [drive, h0, if_true]; rw [hf]⟩
      · rename_i hres
        have hf : (env.upd i).fetch prev (dead s r) = (.err, ((env.upd i).fetch prev (dead s r)).2) :=
          Prod.ext hres rfl
        exact invD_progress h r i _ rfl rfl rfl (by simp [hpc, pcCalls])
          (by intro g' prev' he; cases he)
          ⟨prev, d0, dead s r, false, false, by simp only [drive, h0, if_true]; rw [hf]⟩
    · exact h
  | parse r i =>
    simp only [step]; split
    · exact h
    rename_i hgc
    split
    · rename_i g prev fp hpc
      have he := h.expl r i
      rw [hpc] at he
      obtain ⟨⟨d0, h0⟩, ⟨d1, h1⟩⟩ := he
      split
      · rename_i p hp
        exact invD_progress h r i _ rfl rfl rfl (by simp [hpc, pcCalls])
          (by intro g' prev' he; cases he) ⟨⟨d0, h0⟩, ⟨d1, h1⟩, ⟨_, hp⟩⟩
      · rename_i hp
        exact invD_progress h r i _ rfl rfl rfl (by simp [hpc, pcCalls])
          (by intro g' prev' he; cases he)
          ⟨prev, d0, d1, dead s r, false, by simp [drive, h0, h1, hp]⟩
    · exact h
  | store r i =>
    simp only [step]; split
    · exact h
    rename_i hgc
    split
    · rename_i g prev fp p hpc
      split
      · rename_i hok
        exact invD_store hL h r i g prev fp p hpc _ hok
      · rename_i hok
        have he := h.expl r i
        rw [hpc] at he
        obtain ⟨⟨d0, h0⟩, ⟨d1, h1⟩, ⟨d2, h2⟩⟩ := he
        exact invD_progress h r i _ rfl rfl rfl (by simp [hpc, pcCalls])
          (by intro g' prev' he; cases he)
          ⟨prev, d0, d1, d2, dead s r, by simp [drive, h0, h1, h2, hok]⟩
    · exact h
  | close r i =>
    simp only [step]; split
    · exact h
    split
    · split
      · exact invD_congr h rfl rfl rfl
      · exact h
    · exact h
  | status r i =>
    simp only [step]; split
    · exact h
    rename_i hgc
    split
    · rename_i g fp res hpc
      split
      · exact h
      have he := h.expl r i
      rw [hpc] at he
      obtain ⟨prev, d0, d1, d2, d3, hd⟩ := he
      exact invD_progress h r i _ rfl rfl rfl (by rw [hpc]; exact pcCalls_recorded g fp res)
        (by intro g' prev' he; cases he) ⟨prev, d0, d1, d2, d3, by rw [hd]⟩
    · exact h
  | done r i =>
    simp only [step]; split
    · exact h
    rename_i hgc
    split
    · rename_i g hpc
      exact invD_progress h r i (.finished none) (finish_ops ..) (finish_calls ..) (finish_pc ..)
        (by simp [hpc, pcCalls]) (by intro g' prev' he; cases he) (by simp [Explains])
    · rename_i g hpc
      split
      · exact invD_progress h r i (.finished none) (finish_ops ..) (finish_calls ..) (finish_pc ..)
          (by simp [hpc, pcCalls]) (by intro g' prev' he; cases he) (by simp [Explains])
      · exact h
    · rename_i g res hpc
      have he := h.expl r i
      rw [hpc] at he
      exact invD_progress h r i (.finished (some res)) (finish_ops ..) (finish_calls ..) (finish_pc ..)
        (by rw [hpc]; exact pcCalls_finished g res) (by intro g' prev' he; cases he) he
    · exact h
  | gcTry r =>
    simp only [step]; split
    · split
      · rename_i hc
        split
        · exact invD_progress h r env.gcInst (.skipped none) rfl rfl rfl (by simp [hc.2, pcCalls])
            (by intro g prev he; cases he) (by simp [Explains])
        · split
          · exact invD_progress h r env.gcInst (.skipped (some s.locks.issued)) rfl rfl rfl (by simp [hc.2, pcCalls])
              (by intro g prev he; cases he) (by simp [Explains])
          · exact invD_progress h r env.gcInst (.locked s.locks.issued) rfl rfl rfl (by simp [hc.2, pcCalls])
              (by intro g prev he; cases he) (by simp [Explains])
      · exact h
    · exact h
  | gc r =>
    simp only [step]; split
    · split
      · rename_i g hpc
        exact invD_progress h r env.gcInst _ rfl rfl rfl (by simp [hpc, pcCalls])
          (by intro g' prev' he; cases he) (by simp [Explains])
      · exact h
    · exact h
  | gcDone r =>
    simp only [step]; split
    · split
      · rename_i g hpc
        exact invD_progress h r env.gcInst (.finished none) (gcFinish_ops ..) (gcFinish_calls ..) (gcFinish_pc ..)
          (by simp [hpc, pcCalls]) (by intro g' prev' he; cases he) (by simp [Explains])
      · rename_i g hpc
        split
        · exact invD_progress h r env.gcInst (.finished none) (gcFinish_ops ..) (gcFinish_calls ..) (gcFinish_pc ..)
            (by simp [hpc, pcCalls]) (by intro g' prev' he; cases he) (by simp [Explains])
        · exact h
      · exact h
    · exact h

/-! ### the run-level invariant: semaphore accounting, who ran, who is named -/

/-- Started workers of run `r` that have not finished. -/
def unfinished (s : State) (r : Nat) : Nat :=
  (s.run r).tried.countP (fun i => !(s.pc r i).isFinished)

def RunPc.loopOver : RunPc → Bool
  | .waiting => true
  | .drained => true
  | .inGc => true
  | .gcOver => true
  | .returned => true
  | _ => false

def RunPc.isDrained : RunPc → Bool
  | .drained => true
  | .inGc => true
  | .gcOver => true
  | .returned => true
  | _ => false

structure InvR (env : Env) (s : State) : Prop where
  nodup : ∀ r, (s.run r).tried.Nodup
  sub : ∀ r i, i ∈ (s.run r).tried → i ∈ env.toRun r
  idle : ∀ r i, i ≠ env.gcInst → (s.pc r i = .idle ↔ i ∉ (s.run r).tried)
  gcNotTried : ∀ r, env.gcInst ∉ (s.run r).tried
  triedLe : ∀ r, (s.run r).tried.length ≤ (s.run r).launchedN
  launchedLe : ∀ r, (s.run r).launchedN ≤ (env.toRun r).length
  acq : ∀ r b, (s.run r).pc = .acquiring b → (s.run r).launchedN < (env.toRun r).length
  count : ∀ r, (s.run r).inflight = ((s.run r).launchedN - (s.run r).tried.length) + unfinished s r
  batch : ∀ r, (s.run r).inflight ≤ env.batch r
  errs : ∀ r i, i ∈ (s.run r).errs ↔ ∃ res, s.pc r i = .finished (some res) ∧ res.failed = true
  all : ∀ r, (s.run r).pc.loopOver = true →
    (s.run r).launchedN = (env.toRun r).length ∨ dead s r = true
  quiet : ∀ r, (s.run r).pc.isDrained = true → (s.run r).inflight = 0

theorem invR_init (env : Env) (hist : List Op) : InvR env (init hist) := by
  constructor <;> intros <;> simp_all [init, unfinished, RunPc.loopOver, RunPc.isDrained]

theorem countP_flip {p q : Nat → Bool} {i : Nat} :
    ∀ {l : List Nat}, l.Nodup → i ∈ l → (∀ j ∈ l, j ≠ i → q j = p j) → p i = true → q i = false →
      l.countP q + 1 = l.countP p := by
  intro l
  induction l with
  | nil => intro _ hm; cases hm
  | cons x xs ih =>
    intro hnd hm hq hp hqi
    simp only [List.nodup_cons] at hnd
    simp only [List.countP_cons]
    by_cases hx : x = i
    · subst hx
      have : xs.countP q = xs.countP p := by
        apply List.countP_congr
        intro j hj
        have hne : j ≠ x := fun he => hnd.1 (he ▸ hj)
        rw [hq j (List.mem_cons_of_mem _ hj) hne]
      simp [hp, hqi, this]
    · have hm' : i ∈ xs := by
        rcases List.mem_cons.1 hm with he | he
        · exact absurd he.symm hx
        · exact he
      have := ih hnd.2 hm' (fun j hj hne => hq j (List.mem_cons_of_mem _ hj) hne) hp hqi
      rw [hq x List.mem_cons_self hx]
      omega

/-- A `Run`-goroutine step: only the record of run `r0` changes. -/
theorem invR_setRun {env : Env} {s : State} (h : InvR env s) (r0 : Nat) (x : RunSt)
    (htried : x.tried = (s.run r0).tried) (herrs : x.errs = (s.run r0).errs)
    (hlaunched : x.launchedN ≤ (env.toRun r0).length)
    (hle : x.tried.length ≤ x.launchedN)
    (hacq : ∀ b, x.pc = .acquiring b → x.launchedN < (env.toRun r0).length)
    (hcount : x.inflight = (x.launchedN - x.tried.length) + unfinished s r0)
    (hbatch : x.inflight ≤ env.batch r0)
    (hall : x.pc.loopOver = true → x.launchedN = (env.toRun r0).length ∨ dead s r0 = true)
    (hquiet : x.pc.isDrained = true → x.inflight = 0) :
    InvR env (s.setRun r0 x) := by
  have hun : ∀ r, unfinished (s.setRun r0 x) r = unfinished s r := by
    intro r
    simp only [unfinished, setRun_run, setRun_pc]
    split
    · rename_i he; rw [htried, he]
    · rfl
  constructor
  · intro r; rw [setRun_run]; split
    · rename_i he; rw [htried]; exact h.nodup r0
    · exact h.nodup r
  · intro r i; rw [setRun_run]; split
    · rename_i he; rw [htried, he]; exact h.sub r0 i
    · exact h.sub r i
  · intro r i hi; rw [setRun_run, setRun_pc]; split
    · rename_i he; rw [htried, he]; exact h.idle r0 i hi
    · exact h.idle r i hi
  · intro r; rw [setRun_run]; split
    · rw [htried]; exact h.gcNotTried r0
    · exact h.gcNotTried r
  · intro r; rw [setRun_run]; split
    · exact hle
    · exact h.triedLe r
  · intro r; rw [setRun_run]; split
    · rename_i he; rw [he]; exact hlaunched
    · exact h.launchedLe r
  · intro r b; rw [setRun_run]; split
    · rename_i he; rw [he]; exact hacq b
    · exact h.acq r b
  · intro r; rw [hun, setRun_run]; split
    · rename_i he; rw [he]; exact hcount
    · exact h.count r
  · intro r; rw [setRun_run]; split
    · rename_i he; rw [he]; exact hbatch
    · exact h.batch r
  · intro r i; rw [setRun_run, setRun_pc]; split
    · rename_i he; rw [herrs, he]; exact h.errs r0 i
    · exact h.errs r i
  · intro r; rw [setRun_run]; split
    · rename_i he; rw [he]; exact hall
    · exact h.all r
  · intro r; rw [setRun_run]; split
    · exact hquiet
    · exact h.quiet r

theorem not_errs_of_unfinished {env : Env} {s : State} (h : InvR env s) {r i : Nat}
    (hf : (s.pc r i).isFinished = false) : i ∉ (s.run r).errs := by
  intro hm
  obtain ⟨res, hp, _⟩ := (h.errs r i).1 hm
  rw [hp] at hf
  cases hf

/-- A started, unfinished worker moves to another unfinished program state. -/
theorem invR_progress {env : Env} {s s' : State} (h : InvR env s) (r i : Nat) (p : Pc)
    (hrun : s'.run = s.run) (hpc : s'.pc = (s.setPc r i p).pc)
    (hdead : ∀ r, dead s r = true → dead s' r = true)
    (hgc : i ≠ env.gcInst)
    (hold1 : s.pc r i ≠ .idle) (hold2 : (s.pc r i).isFinished = false)
    (hp1 : p ≠ .idle) (hp2 : p.isFinished = false) : InvR env s' := by
  have hun : ∀ r', unfinished s' r' = unfinished s r' := by
    intro r'
    simp only [unfinished, hrun]
    apply List.countP_congr
    intro j _
    rw [hpc, setPc_pc]
    split
    · rename_i he; rw [hp2, he.1, he.2, hold2]
    · rfl
  constructor
  · intro r'; rw [hrun]; exact h.nodup r'
  · intro r' j; rw [hrun]; exact h.sub r' j
  · intro r' j hj; rw [hrun, hpc, setPc_pc]; split
    · rename_i he; rw [he.1, he.2]
      constructor
      · intro hh; exact absurd hh hp1
      · intro hh; exact absurd ((h.idle r i hgc).2 hh) hold1
    · exact h.idle r' j hj
  · intro r'; rw [hrun]; exact h.gcNotTried r'
  · intro r'; rw [hrun]; exact h.triedLe r'
  · intro r'; rw [hrun]; exact h.launchedLe r'
  · intro r' b; rw [hrun]; exact h.acq r' b
  · intro r'; rw [hun, hrun]; exact h.count r'
  · intro r'; rw [hrun]; exact h.batch r'
  · intro r' j; rw [hrun, hpc, setPc_pc]; split
    · rename_i he; rw [he.1, he.2]
      constructor
      · intro hm; exact absurd hm (not_errs_of_unfinished h hold2)
      · rintro ⟨res, hres, _⟩; rw [hres] at hp2; cases hp2
    · exact h.errs r' j
  · intro r' hl; rw [hrun] at hl ⊢
    rcases h.all r' hl with ha | ha
    · exact Or.inl ha
    · exact Or.inr (hdead r' ha)
  · intro r'; rw [hrun]; exact h.quiet r'

/-- A launched goroutine reaches TryLock: the worker becomes known. -/
theorem invR_try {env : Env} {s s' : State} (h : InvR env s) (r i : Nat) (p : Pc)
    (hgc : i ≠ env.gcInst) (hidle : s.pc r i = .idle) (hin : i ∈ env.toRun r)
    (hlt : (s.run r).tried.length < (s.run r).launchedN)
    (hrun : s'.run = (s.setRun r { s.run r with tried := i :: (s.run r).tried }).run)
    (hpc : s'.pc = (s.setPc r i p).pc)
    (hdead : ∀ r, dead s r = true → dead s' r = true)
    (hp1 : p ≠ .idle) (hp2 : p.isFinished = false) : InvR env s' := by
  have hnot : i ∉ (s.run r).tried := (h.idle r i hgc).1 hidle
  have hun : ∀ r', unfinished s' r' = if r' = r then unfinished s r + 1 else unfinished s r' := by
    intro r'
    simp only [unfinished, hrun, setRun_run]
    split
    · rename_i he
      subst he
      simp only [List.countP_cons, hpc, setPc_pc_self, hp2]
      have : (s.run r').tried.countP (fun j => !((s.setPc r' i p).pc r' j).isFinished)
          = (s.run r').tried.countP (fun j => !(s.pc r' j).isFinished) := by
        apply List.countP_congr
        intro j hj
        have : j ≠ i := fun he => hnot (he ▸ hj)
        rw [setPc_pc_ne _ _ _ _ _ _ (fun hh => this hh.2)]
      rw [this]; simp
    · rename_i hne
      apply List.countP_congr
      intro j _
      rw [hpc, setPc_pc_ne _ _ _ _ _ _ (fun hh => hne hh.1)]
  constructor
  · intro r'; rw [hrun, setRun_run]; split
    · rename_i he; subst he; exact List.nodup_cons.2 ⟨hnot, h.nodup r'⟩
    · exact h.nodup r'
  · intro r' j; rw [hrun, setRun_run]; split
    · rename_i he; subst he
      intro hm
      rcases List.mem_cons.1 hm with he | he
      · rw [he]; exact hin
      · exact h.sub r' j he
    · exact h.sub r' j
  · intro r' j hjg; rw [hrun, setRun_run, hpc, setPc_pc]
    by_cases hr : r' = r
    · subst hr
      by_cases hj : j = i
      · subst hj; simp [hp1]
      · simp only [hj, and_false, if_false, if_true, List.mem_cons, false_or]
        exact h.idle r' j hjg
    · simp only [hr, false_and, if_false]
      exact h.idle r' j hjg
  · intro r'; rw [hrun, setRun_run]; split
    · rename_i he; subst he
      intro hm
      rcases List.mem_cons.1 hm with he | he
      · exact hgc he.symm
      · exact h.gcNotTried r' he
    · exact h.gcNotTried r'
  · intro r'; rw [hrun, setRun_run]; split
    · rename_i he; subst he; simp only [List.length_cons]; omega
    · exact h.triedLe r'
  · intro r'; rw [hrun, setRun_run]; split
    · rename_i he; subst he; exact h.launchedLe r'
    · exact h.launchedLe r'
  · intro r' b; rw [hrun, setRun_run]; split
    · rename_i he; subst he; exact h.acq r' b
    · exact h.acq r' b
  · intro r'; rw [hun, hrun, setRun_run]; split
    · rename_i he; subst he
      have := h.count r'
      simp only [List.length_cons]
      omega
    · exact h.count r'
  · intro r'; rw [hrun, setRun_run]; split
    · rename_i he; subst he; exact h.batch r'
    · exact h.batch r'
  · intro r' j; rw [hrun, setRun_run, hpc, setPc_pc]
    by_cases hr : r' = r
    · subst hr
      by_cases hj : j = i
      · subst hj
        simp only [and_self, if_true]
        constructor
        · intro hm
          have := (h.errs r' j).1 hm
          rw [hidle] at this
          obtain ⟨_, hh, _⟩ := this
          cases hh
        · rintro ⟨res, hres, _⟩; rw [hres] at hp2; cases hp2
      · simp only [hj, and_false, if_false, if_true]
        exact h.errs r' j
    · simp only [hr, false_and, if_false]
      exact h.errs r' j
  · intro r' hl
    rw [hrun, setRun_run] at hl ⊢
    split at hl
    · rename_i he; subst he
      rw [if_pos rfl]
      rcases h.all r' hl with ha | ha
      · exact Or.inl ha
      · exact Or.inr (hdead r' ha)
    · rename_i hne
      rw [if_neg hne]
      rcases h.all r' hl with ha | ha
      · exact Or.inl ha
      · exact Or.inr (hdead r' ha)
  · intro r'; rw [hrun, setRun_run]; split
    · rename_i he; subst he; exact h.quiet r'
    · exact h.quiet r'

theorem mem_ite_cons_ne {c : Prop} [Decidable c] {i j : Nat} {l : List Nat} (h : j ≠ i) :
    j ∈ (if c then i :: l else l) ↔ j ∈ l := by
  split <;> simp [h]

theorem finish_run (s : State) (r i : Nat) (go : Option Nat) (res : Option Res) :
    (finish s r i go res).run = (s.setRun r { s.run r with
        inflight := (s.run r).inflight - 1,
        errs := if (match res with
          | some x => x.failed
          | none => false) then i :: (s.run r).errs else (s.run r).errs }).run := by
  cases go <;> rfl

theorem dead_relLocks (s : State) (go : Option Nat) (r : Nat) :
    (relLocks s.locks go).deadParents.contains r = s.locks.deadParents.contains r := by
  cases go with
  | none => rfl
  | some g => simp only [relLocks]; rw [release_dead]

/-- The worker leaves: its semaphore token is returned and, if driveUpdater
    failed, its instance is put on the error channel. -/
theorem invR_finish {env : Env} {s : State} (h : InvR env s) (r i : Nat) (go : Option Nat) (res : Option Res)
    (hgc : i ≠ env.gcInst) (hold1 : s.pc r i ≠ .idle) (hold2 : (s.pc r i).isFinished = false) :
    InvR env (finish s r i go res) := by
  have hin : i ∈ (s.run r).tried := by
    have := h.idle r i hgc
    exact Decidable.byContradiction fun hn => hold1 (this.2 hn)
  have hrun := finish_run s r i go res
  have hpc := finish_pc s r i go res
  have hun : unfinished (finish s r i go res) r + 1 = unfinished s r := by
    simp only [unfinished, hrun, setRun_run_self, hpc]
    apply countP_flip (h.nodup r) hin
    · intro j _ hne
      rw [setPc_pc_ne _ _ _ _ _ _ (fun hh => hne hh.2)]
    · simp [hold2]
    · simp [Pc.isFinished]
  have hun' : ∀ r', r' ≠ r → unfinished (finish s r i go res) r' = unfinished s r' := by
    intro r' hne
    simp only [unfinished, hrun, setRun_run_ne _ _ _ _ hne, hpc]
    apply List.countP_congr
    intro j _
    rw [setPc_pc_ne _ _ _ _ _ _ (fun hh => hne hh.1)]
  have hdead : ∀ r', dead (finish s r i go res) r' = dead s r' := by
    intro r'
    simp only [dead, finish_locks]
    exact dead_relLocks s go r'
  constructor
  · intro r'; rw [hrun, setRun_run]; split
    · rename_i he; subst he; exact h.nodup r'
    · exact h.nodup r'
  · intro r' j; rw [hrun, setRun_run]; split
    · rename_i he; subst he; exact h.sub r' j
    · exact h.sub r' j
  · intro r' j hjg; rw [hrun, setRun_run, hpc, setPc_pc]
    by_cases hr : r' = r
    · subst hr
      by_cases hj : j = i
      · subst hj; simp [hin]
      · simp only [hj, and_false, if_false, if_true]
        exact h.idle r' j hjg
    · simp only [hr, false_and, if_false]
      exact h.idle r' j hjg
  · intro r'; rw [hrun, setRun_run]; split
    · rename_i he; subst he; exact h.gcNotTried r'
    · exact h.gcNotTried r'
  · intro r'; rw [hrun, setRun_run]; split
    · rename_i he; subst he; exact h.triedLe r'
    · exact h.triedLe r'
  · intro r'; rw [hrun, setRun_run]; split
    · rename_i he; subst he; exact h.launchedLe r'
    · exact h.launchedLe r'
  · intro r' b; rw [hrun, setRun_run]; split
    · rename_i he; subst he; exact h.acq r' b
    · exact h.acq r' b
  · intro r'
    by_cases hr : r' = r
    · subst hr
      rw [hrun, setRun_run_self]
      have := h.count r'
      simp only []
      omega
    · rw [hun' r' hr, hrun, setRun_run_ne _ _ _ _ hr]
      exact h.count r'
  · intro r'; rw [hrun, setRun_run]; split
    · rename_i he; subst he; have := h.batch r'; simp only []; omega
    · exact h.batch r'
  · intro r' j; rw [hrun, setRun_run, hpc, setPc_pc]
    by_cases hr : r' = r
    · subst hr
      simp only [if_true, true_and]
      by_cases hj : j = i
      · subst hj
        simp only [if_true]
        have hnot := not_errs_of_unfinished h hold2
        cases res with
        | none => simp [hnot]
        | some x =>
          cases hx : x.failed
          · simp [hnot, hx]
          · simp [hx]
      · simp only [hj, if_false]
        have := h.errs r' j
        rw [mem_ite_cons_ne hj]
        exact this
    · simp only [hr, false_and, if_false]
      exact h.errs r' j
  · intro r' hl
    rw [hdead]
    rw [hrun, setRun_run] at hl ⊢
    split at hl
    · rename_i he; subst he; rw [if_pos rfl]; exact h.all r' hl
    · rename_i hne; rw [if_neg hne]; exact h.all r' hl
  · intro r'; rw [hrun, setRun_run]; split
    · rename_i he; subst he; intro hd; have := h.quiet r' hd; simp only []; omega
    · exact h.quiet r'

theorem invR_cancel {env : Env} {s : State} (h : InvR env s) (r0 : Nat) :
    InvR env { s with locks := (Locks.step s.locks (.cancelParent r0)).1 } := by
  constructor
  · exact h.nodup
  · exact h.sub
  · exact h.idle
  · exact h.gcNotTried
  · exact h.triedLe
  · exact h.launchedLe
  · exact h.acq
  · exact h.count
  · exact h.batch
  · exact h.errs
  · intro r hl
    rcases h.all r hl with ha | ha
    · exact Or.inl ha
    · right
      simp only [dead, cancel_dead, List.contains_cons] at ha ⊢
      simp at ha ⊢
      exact Or.inr ha
  · exact h.quiet

/-- The GC section's program-counter slot changes (it is nobody's worker). -/
theorem invR_slot {env : Env} {s s' : State} (h : InvR env s) (r : Nat) (p : Pc)
    (hrun : s'.run = s.run) (hpc : s'.pc = (s.setPc r env.gcInst p).pc)
    (hdead : ∀ r, dead s r = true → dead s' r = true)
    (hold : ∀ res, s.pc r env.gcInst ≠ .finished (some res))
    (hnew : ∀ res, p ≠ .finished (some res)) : InvR env s' := by
  have hun : ∀ r', unfinished s' r' = unfinished s r' := by
    intro r'
    simp only [unfinished, hrun]
    apply List.countP_congr
    intro j hj
    have hne : j ≠ env.gcInst := fun he => h.gcNotTried r' (he ▸ hj)
    rw [hpc, setPc_pc_ne _ _ _ _ _ _ (fun hh => hne hh.2)]
  constructor
  · intro r'; rw [hrun]; exact h.nodup r'
  · intro r' j; rw [hrun]; exact h.sub r' j
  · intro r' j hj; rw [hrun, hpc, setPc_pc_ne _ _ _ _ _ _ (fun hh => hj hh.2)]; exact h.idle r' j hj
  · intro r'; rw [hrun]; exact h.gcNotTried r'
  · intro r'; rw [hrun]; exact h.triedLe r'
  · intro r'; rw [hrun]; exact h.launchedLe r'
  · intro r' b; rw [hrun]; exact h.acq r' b
  · intro r'; rw [hun, hrun]; exact h.count r'
  · intro r'; rw [hrun]; exact h.batch r'
  · intro r' j; rw [hrun, hpc, setPc_pc]; split
    · rename_i he; rw [he.1, he.2]
      constructor
      · intro hm
        obtain ⟨res, hres, _⟩ := (h.errs r env.gcInst).1 hm
        exact absurd hres (hold res)
      · rintro ⟨res, hres, _⟩; exact absurd hres (hnew res)
    · exact h.errs r' j
  · intro r' hl; rw [hrun] at hl ⊢
    rcases h.all r' hl with ha | ha
    · exact Or.inl ha
    · exact Or.inr (hdead r' ha)
  · intro r'; rw [hrun]; exact h.quiet r'

/-- A step that leaves runs, program counters and the lock source alone. -/
theorem invR_congr {env : Env} {s s' : State} (h : InvR env s) (hrun : s'.run = s.run) (hpc : s'.pc = s.pc)
    (hl : s'.locks = s.locks) : InvR env s' := by
  have hun : ∀ r, unfinished s' r = unfinished s r := by
    intro r; simp only [unfinished, hrun, hpc]
  have hd : ∀ r, dead s' r = dead s r := by
    intro r; simp only [dead, hl]
  constructor
  · intro r; rw [hrun]; exact h.nodup r
  · intro r i; rw [hrun]; exact h.sub r i
  · intro r i hi; rw [hrun, hpc]; exact h.idle r i hi
  · intro r; rw [hrun]; exact h.gcNotTried r
  · intro r; rw [hrun]; exact h.triedLe r
  · intro r; rw [hrun]; exact h.launchedLe r
  · intro r b; rw [hrun]; exact h.acq r b
  · intro r; rw [hun, hrun]; exact h.count r
  · intro r; rw [hrun]; exact h.batch r
  · intro r i; rw [hrun, hpc]; exact h.errs r i
  · intro r; rw [hrun, hd]; exact h.all r
  · intro r; rw [hrun]; exact h.quiet r

theorem invR_step {env : Env} {s : State} (h : InvR env s) (ev : Ev) : InvR env (step env s ev).1 := by
  cases ev with
  | begin r =>
    simp only [step]; split
    · exact invR_setRun h r _ rfl rfl (h.launchedLe r) (h.triedLe r) (by intro b hb; cases hb) (h.count r)
        (h.batch r) (by intro hh; cases hh) (by intro hh; cases hh)
    · exact h
  | acquire r =>
    simp only [step]; split
    · split
      · rename_i hlt
        exact invR_setRun h r _ rfl rfl (h.launchedLe r) (h.triedLe r) (fun _ _ => hlt) (h.count r)
          (h.batch r) (by intro hh; cases hh) (by intro hh; cases hh)
      · exact h
    · exact h
  | launch r =>
    simp only [step]; split
    · rename_i hpc
      split
      · rename_i hlt
        have h1 := h.acq r true hpc
        have h2 := h.triedLe r
        have h3 := h.count r
        exact invR_setRun h r _ rfl rfl (by simp only []; omega) (by simp only []; omega)
          (by intro b hb; cases hb) (by simp only []; omega) (by simp only []; omega)
          (by intro hh; cases hh) (by intro hh; cases hh)
      · exact h
    · exact h
  | wait r =>
    simp only [step]; split
    · split
      · rename_i heq
        exact invR_setRun h r _ rfl rfl (h.launchedLe r) (h.triedLe r) (by intro b hb; cases hb) (h.count r)
          (h.batch r) (fun _ => Or.inl heq) (by intro hh; cases hh)
      · exact h
    · split
      · rename_i hd
        exact invR_setRun h r _ rfl rfl (h.launchedLe r) (h.triedLe r) (by intro b hb; cases hb) (h.count r)
          (h.batch r) (fun _ => Or.inr hd) (by intro hh; cases hh)
      · exact h
    · exact h
  | drained r =>
    simp only [step]; split
    · rename_i hpc
      split
      · rename_i hz
        exact invR_setRun h r _ rfl rfl (h.launchedLe r) (h.triedLe r) (by intro b hb; cases hb) (h.count r)
          (h.batch r) (fun _ => h.all r (by rw [hpc]; rfl)) (fun _ => hz)
      · exact h
    · exact h
  | ret r =>
    simp only [step]; split
    · rename_i hpc
      split
      · exact h
      · exact invR_setRun h r _ rfl rfl (h.launchedLe r) (h.triedLe r) (by intro b hb; cases hb) (h.count r)
          (h.batch r) (fun _ => h.all r (by rw [hpc]; rfl)) (fun _ => h.quiet r (by rw [hpc]; rfl))
    · rename_i hpc
      exact invR_setRun h r _ rfl rfl (h.launchedLe r) (h.triedLe r) (by intro b hb; cases hb) (h.count r)
        (h.batch r) (fun _ => h.all r (by rw [hpc]; rfl)) (fun _ => h.quiet r (by rw [hpc]; rfl))
    · exact h
  | cancel r => simp only [step]; exact invR_cancel h r
  | tryLock r i =>
    simp only [step]; split
    · exact h
    rename_i hgc
    split
    · rename_i hpc
      split
      · rename_i hc
        split
        · exact invR_try h r i _ hgc hpc hc.1 hc.2 rfl rfl (fun _ hh => hh) (by intro hh; cases hh) rfl
        · split
          · exact invR_try h r i _ hgc hpc hc.1 hc.2 rfl rfl (fun _ hh => hh) (by intro hh; cases hh) rfl
          · exact invR_try h r i _ hgc hpc hc.1 hc.2 rfl rfl (fun _ hh => hh) (by intro hh; cases hh) rfl
      · exact h
    · exact h
  | getOps r i =>
    simp only [step]; split
    · exact h
    rename_i hgc
    split
    · rename_i g hpc
      split <;> exact invR_progress h r i _ rfl rfl (fun _ hh => hh) hgc (by rw [hpc]; intro hh; cases hh)
        (by rw [hpc]; rfl) (by intro hh; cases hh) rfl
    · exact h
  | fetch r i =>
    simp only [step]; split
    · exact h
    rename_i hgc
    split
    · rename_i g prev hpc
      split <;> exact invR_progress h r i _ rfl rfl (fun _ hh => hh) hgc (by rw [hpc]; intro hh; cases hh)
        (by rw [hpc]; rfl) (by intro hh; cases hh) rfl
    · exact h
  | parse r i =>
    simp only [step]; split
    · exact h
    rename_i hgc
    split
    · rename_i g prev fp hpc
      split <;> exact invR_progress h r i _ rfl rfl (fun _ hh => hh) hgc (by rw [hpc]; intro hh; cases hh)
        (by rw [hpc]; rfl) (by intro hh; cases hh) rfl
    · exact h
  | store r i =>
    simp only [step]; split
    · exact h
    rename_i hgc
    split
    · rename_i g prev fp p hpc
      split <;> exact invR_progress h r i _ rfl rfl (fun _ hh => hh) hgc (by rw [hpc]; intro hh; cases hh)
        (by rw [hpc]; rfl) (by intro hh; cases hh) rfl
    · exact h
  | close r i =>
    simp only [step]; split
    · exact h
    split
    · split
      · exact invR_congr h rfl rfl rfl
      · exact h
    · exact h
  | status r i =>
    simp only [step]; split
    · exact h
    rename_i hgc
    split
    · rename_i g fp res hpc
      split
      · exact h
      exact invR_progress h r i _ rfl rfl (fun _ hh => hh) hgc (by rw [hpc]; intro hh; cases hh)
        (by rw [hpc]; rfl) (by intro hh; cases hh) rfl
    · exact h
  | done r i =>
    simp only [step]; split
    · exact h
    rename_i hgc
    split
    · rename_i g hpc
      exact invR_finish h r i g none hgc (by rw [hpc]; intro hh; cases hh) (by rw [hpc]; rfl)
    · rename_i g hpc
      split
      · exact invR_finish h r i (some g) none hgc (by rw [hpc]; intro hh; cases hh) (by rw [hpc]; rfl)
      · exact h
    · rename_i g res hpc
      exact invR_finish h r i (some g) (some res) hgc (by rw [hpc]; intro hh; cases hh) (by rw [hpc]; rfl)
    · exact h
  | gcTry r =>
    simp only [step]; split
    · rename_i hpc
      split
      · rename_i hc
        have h1 : InvR env (s.setRun r { s.run r with pc := .inGc }) :=
          invR_setRun h r _ rfl rfl (h.launchedLe r) (h.triedLe r) (by intro b hb; cases hb) (h.count r)
            (h.batch r) (fun _ => h.all r (by rw [hpc]; rfl)) (fun _ => h.quiet r (by rw [hpc]; rfl))
        split
        · exact invR_slot h1 r _ rfl rfl (fun _ hh => hh) (by intro res; simp [hc.2]) (by intro res hh; cases hh)
        · split
          · exact invR_slot h1 r _ rfl rfl (fun _ hh => hh) (by intro res; simp [hc.2]) (by intro res hh; cases hh)
          · exact invR_slot h1 r _ rfl rfl (fun _ hh => hh) (by intro res; simp [hc.2]) (by intro res hh; cases hh)
      · exact h
    · exact h
  | gc r =>
    simp only [step]; split
    · split
      · rename_i g hpc
        exact invR_slot h r _ rfl rfl (fun _ hh => hh) (by intro res; simp [hpc]) (by intro res hh; cases hh)
      · exact h
    · exact h
  | gcDone r =>
    simp only [step]; split
    · rename_i hrpc
      have h1 : InvR env (s.setRun r { s.run r with pc := .gcOver }) :=
        invR_setRun h r _ rfl rfl (h.launchedLe r) (h.triedLe r) (by intro b hb; cases hb) (h.count r)
          (h.batch r) (fun _ => h.all r (by rw [hrpc]; rfl)) (fun _ => h.quiet r (by rw [hrpc]; rfl))
      have hd : ∀ go r', dead (s.setRun r { s.run r with pc := .gcOver }) r' = true →
          dead (gcFinish env s r go) r' = true := by
        intro go r' hh
        simp only [dead, gcFinish_locks, dead_relLocks]
        exact hh
      split
      · rename_i g hpc
        exact invR_slot h1 r (.finished none) (gcFinish_run ..) (gcFinish_pc ..) (hd g)
          (by intro res; simp [hpc]) (by intro res hh; cases hh)
      · rename_i g hpc
        split
        · exact invR_slot h1 r (.finished none) (gcFinish_run ..) (gcFinish_pc ..) (hd (some g))
            (by intro res; simp [hpc]) (by intro res hh; cases hh)
        · exact h
      · exact h
    · exact h

/-! ### all three together, for every reachable state -/

structure Inv (env : Env) (hist : List Op) (s : State) : Prop where
  l : InvL env s
  d : InvD env hist s
  r : InvR env s

theorem inv_init (env : Env) (hist : List Op) : Inv env hist (init hist) :=
  ⟨invL_init env hist, invD_init env hist, invR_init env hist⟩

theorem inv_step {env : Env} {hist : List Op} {s : State} (h : Inv env hist s) (ev : Ev) :
    Inv env hist (step env s ev).1 :=
  ⟨invL_step h.l ev, invD_step h.l h.d ev, invR_step h.r ev⟩

theorem inv_run (env : Env) (hist : List Op) (evs : List Ev) :
    Inv env hist (Sm.run (step env) (init hist) evs) :=
  Sm.invariant_run (Inv := Inv env hist) (fun _ ev h => inv_step h ev) evs _ (inv_init env hist)

/-! ### frame lemmas and facts about single steps -/

set_option linter.unusedSimpArgs false in
theorem dead_step (env : Env) (s : State) (ev : Ev) (r : Nat) (h : dead s r = true) :
    dead (step env s ev).1 r = true := by
  cases ev <;> simp only [step] <;> repeat' split
  all_goals first
    | exact h
    | (simp only [dead, cancel_dead] at h ⊢; simp at h ⊢; exact Or.inr h)
    | (simp only [dead, finish_locks, dead_relLocks]; exact h)
    | (simp only [dead, gcFinish_locks, dead_relLocks]; exact h)

set_option linter.unusedSimpArgs false in
theorem cancelled_step (env : Env) (s : State) (ev : Ev) (r : Nat) (hd : dead s r = true)
    (hp : (s.run r).pc ≠ .acquiring true) :
    ((step env s ev).1.run r).pc ≠ .acquiring true ∧
    ((step env s ev).1.run r).launchedN = (s.run r).launchedN := by
  cases ev <;> simp only [step] <;> repeat' split
  all_goals first
    | exact ⟨hp, rfl⟩
    | exact ⟨hp, trivial⟩
    | (simp only [setRun_run, setPc_run, finish_run, gcFinish_run]; split <;> simp_all)
    | (simp only [State.setPc, State.setRun]; split <;> simp_all)
    | (simp only [State.setPc, State.setRun]; exact ⟨hp, rfl⟩)

/-- The program-counter slot an event works on. -/
def Ev.worker (env : Env) : Ev → Option (Nat × Nat)
  | .tryLock r i => some (r, i)
  | .getOps r i => some (r, i)
  | .fetch r i => some (r, i)
  | .parse r i => some (r, i)
  | .store r i => some (r, i)
  | .status r i => some (r, i)
  | .done r i => some (r, i)
  | .gcTry r => some (r, env.gcInst)
  | .gc r => some (r, env.gcInst)
  | .gcDone r => some (r, env.gcInst)
  | _ => none

set_option linter.unusedSimpArgs false in
theorem pc_frame (env : Env) (s : State) (ev : Ev) (r i : Nat) (h : ev.worker env ≠ some (r, i)) :
    (step env s ev).1.pc r i = s.pc r i := by
  cases ev <;> simp only [step] <;> repeat' split
  all_goals first
    | rfl
    | (simp only [Ev.worker, ne_eq, Option.some.injEq, Prod.mk.injEq] at h
       simp only [finish_pc, gcFinish_pc, setPc_pc, setRun_pc, setBody_pc]
       rw [if_neg (fun hh => h ⟨hh.1.symm, hh.2.symm⟩)])
    | (simp only [Ev.worker, ne_eq, Option.some.injEq, Prod.mk.injEq] at h
       simp only [State.setPc, State.setRun]
       rw [if_neg (fun hh => h ⟨hh.1.symm, hh.2.symm⟩)])

set_option linter.unusedSimpArgs false in
theorem calls_frame (env : Env) (s : State) (ev : Ev) (r i : Nat) (h : ev.worker env ≠ some (r, i)) :
    callsOf (step env s ev).1 r i = callsOf s r i := by
  cases ev with
  | store r0 i0 =>
    simp only [step]; split
    · rfl
    split
    · split
      · simp only [Ev.worker, ne_eq, Option.some.injEq, Prod.mk.injEq] at h
        have hf : ((r0 == r) && (i0 == i)) = false := by
          cases hr : (r0 == r) <;> cases hi : (i0 == i) <;> simp_all
        simp [callsOf, hf]
      · rfl
    · rfl
  | done r0 i0 =>
    simp only [step]; repeat' split
    all_goals first
      | rfl
      | exact callsOf_congr (finish_calls ..) r i
  | gcDone r0 =>
    simp only [step]; repeat' split
    all_goals first
      | rfl
      | exact callsOf_congr (gcFinish_calls ..) r i
  | _ =>
    simp only [step]; repeat' split
    all_goals rfl

/-- Pigeonhole: a duplicate-free list inside a list that is not longer covers it. -/
theorem subset_of_nodup_length_le : ∀ (l m : List Nat), l.Nodup → (∀ x ∈ l, x ∈ m) → m.length ≤ l.length →
    ∀ x ∈ m, x ∈ l := by
  intro l
  induction l with
  | nil =>
    intro m _ _ hlen x hx
    have : m = [] := List.eq_nil_of_length_eq_zero (by simpa using hlen)
    rw [this] at hx; cases hx
  | cons a l ih =>
    intro m hnd hsub hlen x hx
    simp only [List.nodup_cons] at hnd
    have ham : a ∈ m := hsub a List.mem_cons_self
    have hsub' : ∀ y ∈ l, y ∈ m.erase a := by
      intro y hy
      have hne : y ≠ a := fun he => hnd.1 (he ▸ hy)
      exact (List.mem_erase_of_ne hne).2 (hsub y (List.mem_cons_of_mem _ hy))
    have hlen' : (m.erase a).length ≤ l.length := by
      rw [List.length_erase_of_mem ham]
      simp only [List.length_cons] at hlen
      omega
    by_cases hxa : x = a
    · rw [hxa]; exact List.mem_cons_self
    · exact List.mem_cons_of_mem _ (ih (m.erase a) hnd.2 hsub' hlen' x ((List.mem_erase_of_ne hxa).2 hx))

theorem all_finished_of_unfinished_zero {s : State} {r : Nat} (h : unfinished s r = 0) :
    ∀ i ∈ (s.run r).tried, (s.pc r i).isFinished = true := by
  intro i hi
  have := List.countP_eq_zero.1 h i hi
  simpa using this

/-- Launches still possible for a cancelled run: the one acquisition in progress. -/
def budget (s : State) (r : Nat) : Nat :=
  (s.run r).launchedN + (if (s.run r).pc = .acquiring true then 1 else 0)

set_option linter.unusedSimpArgs false in
theorem budget_step (env : Env) (s : State) (ev : Ev) (r : Nat) (hd : dead s r = true) :
    budget (step env s ev).1 r ≤ budget s r := by
  cases ev <;> simp only [step] <;> repeat' split
  all_goals first
    | exact Nat.le_refl _
    | (simp only [budget, setRun_run, setPc_run, finish_run, gcFinish_run]; split <;> simp_all <;> omega)
    | (simp only [budget, State.setPc, State.setRun]; split <;> simp_all <;> omega)
    | (simp only [budget, State.setPc, State.setRun]; exact Nat.le_refl _)

end ClairModel.Manager
