/-
  C04 — the release tables (scanner result on the repository's own fixture,
  updater-side Distribution of the same release), Boolean checkers over them
  that the kernel evaluates, and the lemmas that lift a checked table to a
  statement about every record and every stored advisory.
-/
import ClairModel.Proofs.Join
import ClairModel.Gen.JoinFixtures
import ClairModel.Gen.JoinOsv

namespace ClairModel.Join
open ClairModel.Gen
open ClairModel.Bytes (parseInt32 parseNat)

/-! ### typed view of a constraint -/

/-- The record field and the advisory field a constraint compares, through the
    switch of `buildGetQuery` and the INSERT column map. -/
def constraintTyped (c : Bytes) : Option (RField × VField) :=
  match findCase c JoinQuery.switchCases with
  | none => none
  | some q =>
    match q.field with
    | none => none
    | some f =>
      match decodeRec f, colField q.column with
      | some rf, some vf => some (rf, vf)
      | _, _ => none

theorem constraintAgree_typed (c : Bytes) (rf : RField) (vf : VField) (h : constraintTyped c = some (rf, vf))
    (r : Rec) (v : Vuln) :
    constraintAgree c r v = (match rf.get r with
      | .val a => a == vf.get v
      | _ => false) := by
  unfold constraintTyped at h
  unfold constraintAgree
  cases hq : findCase c JoinQuery.switchCases with
  | none => simp [hq] at h
  | some q =>
    simp only [hq] at h ⊢
    cases hf : q.field with
    | none => simp [hf] at h
    | some f =>
      simp only [hf] at h ⊢
      cases hd : decodeRec f with
      | none => simp [hd] at h
      | some rf' =>
        cases hc : colField q.column with
        | none => simp [hd, hc] at h
        | some vf' =>
          simp only [hd, hc, Option.some.injEq, Prod.mk.injEq] at h
          obtain ⟨h1, h2⟩ := h
          subst h1; subst h2
          simp only [recField, hd, rowCol, hc, Option.map_some]
          cases rf'.get r <;> rfl

/-- The constraint compares one and the same Distribution field on both sides. -/
def distConstraint (c : Bytes) : Option DField :=
  match constraintTyped c with
  | some (.dist f1, .dist f2) => if f1 = f2 then some f1 else none
  | _ => none

/-- The constraint compares one and the same Repository field on both sides. -/
def repoConstraint (c : Bytes) : Option RpField :=
  match constraintTyped c with
  | some (.repo f1, .repo f2) => if f1 = f2 then some f1 else none
  | _ => none

theorem constraintAgree_dist (c : Bytes) (f : DField) (h : distConstraint c = some f) (r : Rec) (v : Vuln) :
    constraintAgree c r v = (match r.dist with
      | some d => f.get d == f.get v.dist
      | none => false) := by
  unfold distConstraint at h
  cases ht : constraintTyped c with
  | none => simp [ht] at h
  | some p =>
    obtain ⟨rf, vf⟩ := p
    cases rf <;> cases vf <;> simp [ht] at h
    rename_i f1 f2
    obtain ⟨h1, h2⟩ := h
    subst h1; subst h2
    rw [constraintAgree_typed c _ _ ht]
    simp only [RField.get, VField.get]
    cases r.dist <;> rfl

theorem constraintAgree_repo (c : Bytes) (f : RpField) (h : repoConstraint c = some f) (r : Rec) (v : Vuln) :
    constraintAgree c r v = (match r.repo with
      | some x => f.get x == f.get v.repo
      | none => false) := by
  unfold repoConstraint at h
  cases ht : constraintTyped c with
  | none => simp [ht] at h
  | some p =>
    obtain ⟨rf, vf⟩ := p
    cases rf <;> cases vf <;> simp [ht] at h
    rename_i f1 f2
    obtain ⟨h1, h2⟩ := h
    subst h1; subst h2
    rw [constraintAgree_typed c _ _ ht]
    simp only [RField.get, VField.get]
    cases r.repo <;> rfl

/-! ### Filters that look at the Distribution only -/

def pathIsDist (p : Bytes) : Bool :=
  match decodeRec p with
  | some (.dist _) => true
  | _ => false

def FExpr.distOnly : FExpr → Bool
  | .tt => true
  | .ff => true
  | .nonNil p => p == [68, 105, 115, 116, 114, 105, 98, 117, 116, 105, 111, 110]
  | .eq p _ => pathIsDist p
  | .mem p _ => pathIsDist p
  | .and a b => a.distOnly && b.distOnly
  | .or a b => a.distOnly && b.distOnly
  | .not a => a.distOnly

theorem recField_distOnly (p : Bytes) (h : pathIsDist p = true) (r : Rec) :
    recField p r = recField p { dist := r.dist } := by
  unfold pathIsDist at h
  unfold recField
  cases hd : decodeRec p with
  | none => rfl
  | some f =>
    cases f <;> simp [hd] at h
    simp [RField.get]

theorem FExpr.eval_distOnly (e : FExpr) (h : e.distOnly = true) (r : Rec) :
    e.eval r = e.eval { dist := r.dist } := by
  induction e with
  | tt => rfl
  | ff => rfl
  | nonNil p =>
    simp only [FExpr.distOnly, beq_iff_eq] at h
    subst h
    simp [FExpr.eval]
  | eq p v =>
    simp only [FExpr.distOnly] at h
    simp only [FExpr.eval, recField_distOnly p h r]
  | mem p vs =>
    simp only [FExpr.distOnly] at h
    simp only [FExpr.eval, recField_distOnly p h r]
  | and a b iha ihb =>
    simp only [FExpr.distOnly, Bool.and_eq_true] at h
    simp only [FExpr.eval, iha h.1, ihb h.2]
  | or a b iha ihb =>
    simp only [FExpr.distOnly, Bool.and_eq_true] at h
    simp only [FExpr.eval, iha h.1, ihb h.2]
  | not a iha =>
    simp only [FExpr.distOnly] at h
    simp only [FExpr.eval, iha h]

/-! ### Filters that do not read the package name -/

def pathNotName (p : Bytes) : Bool :=
  match decodeRec p with
  | some .pkgName => false
  | _ => true

def FExpr.nameFree : FExpr → Bool
  | .tt => true
  | .ff => true
  | .nonNil _ => true
  | .eq p _ => pathNotName p
  | .mem p _ => pathNotName p
  | .and a b => a.nameFree && b.nameFree
  | .or a b => a.nameFree && b.nameFree
  | .not a => a.nameFree

def Rec.withName (r : Rec) (n : Bytes) : Rec := { r with pkg := { r.pkg with name := n } }

theorem recField_nameFree (p : Bytes) (h : pathNotName p = true) (r : Rec) (n : Bytes) :
    recField p (r.withName n) = recField p r := by
  unfold pathNotName at h
  unfold recField
  cases hd : decodeRec p with
  | none => rfl
  | some f =>
    cases f <;> simp [hd] at h <;> rfl

theorem FExpr.eval_nameFree (e : FExpr) (h : e.nameFree = true) (r : Rec) (n : Bytes) :
    e.eval (r.withName n) = e.eval r := by
  induction e with
  | tt => rfl
  | ff => rfl
  | nonNil p => simp [FExpr.eval, Rec.withName]
  | eq p v =>
    simp only [FExpr.nameFree] at h
    simp only [FExpr.eval, recField_nameFree p h r n]
  | mem p vs =>
    simp only [FExpr.nameFree] at h
    simp only [FExpr.eval, recField_nameFree p h r n]
  | and a b iha ihb =>
    simp only [FExpr.nameFree, Bool.and_eq_true] at h
    simp only [FExpr.eval, iha h.1, ihb h.2]
  | or a b iha ihb =>
    simp only [FExpr.nameFree, Bool.and_eq_true] at h
    simp only [FExpr.eval, iha h.1, ihb h.2]
  | not a iha =>
    simp only [FExpr.nameFree] at h
    simp only [FExpr.eval, iha h]

/-! ### release tables -/

def pOsr : Bytes := [101, 116, 99, 47, 111, 115, 45, 114, 101, 108, 101, 97, 115, 101]
def pIssue : Bytes := [101, 116, 99, 47, 105, 115, 115, 117, 101]
def pLsb : Bytes := [101, 116, 99, 47, 108, 115, 98, 45, 114, 101, 108, 101, 97, 115, 101]

/-- One release: its name, what the distribution scanner reports for the
    fixture image of that release, and the Distribution the updater of that
    release stamps on advisories. -/
structure Row where
  rel : Bytes
  scan : ScanOut
  upd : Dist
  deriving Repr, BEq, DecidableEq

/-- Do scanner and updater Distribution agree on every field the matcher's
    Query() constrains? -/
def distAgree (m : MatcherT) (d u : Dist) : Bool :=
  m.query.all fun c => constraintAgree c { dist := some d } { dist := u }

def rowOk (m : MatcherT) (row : Row) : Bool :=
  match row.scan with
  | .dist d => m.filter.eval { dist := some d } == some true && distAgree m d row.upd
  | _ => false

def tableOk (m : MatcherT) (rows : List Row) : Bool := rows.all (rowOk m)

/-- No scanner result joins the advisories of a different release. -/
def noCross (m : MatcherT) (rows : List Row) : Bool :=
  rows.all fun a => rows.all fun b =>
    a.rel == b.rel || (match a.scan with
      | .dist d => !distAgree m d b.upd
      | _ => true)

/-- A matcher of a distribution: Filter and Query() look at the Distribution only. -/
def distroMatcher (m : MatcherT) : Bool :=
  m.filter.distOnly && m.query.all (fun c => (distConstraint c).isSome) && !m.versionFilter && m.queryOpt.isEmpty

/-- `"3.18"` → (3, 18) -/
def parseMajMin (d : Bytes) : Option (Nat × Nat) :=
  match ClairModel.Bytes.splitOn 46 d with
  | [a, b] => (match parseNat a, parseNat b with
    | some x, some y => some (x, y)
    | _, _ => none)
  | _ => none

def alpineUpd (dir : Bytes) : Option Dist :=
  if dir == JoinReleases.alpine.edgeVersion then some alpineEdgeDist
  else (parseMajMin dir).map fun p => alpineStableDist p.1 p.2

/-- alpine/testdata: os-release and issue present, as in the image. -/
def alpineRows : List Row :=
  JoinFixtures.alpine.filterMap fun e =>
    (alpineUpd e.1).map fun u => ⟨e.1, alpineScan (lookupFirst e.2 pOsr) (lookupFirst e.2 pIssue), u⟩

/-- The same images without os-release (the `etc/issue` fallback). -/
def alpineIssueRows : List Row :=
  JoinFixtures.alpine.filterMap fun e =>
    (alpineUpd e.1).map fun u => ⟨e.1, alpineScan none (lookupFirst e.2 pIssue), u⟩

/-- Debian release numbers and the codename of their `dists/<codename>/Release`
    on the mirror (what `findReleases` passes to `mkDist`). -/
def debianCodenames : List (Int × Bytes) := [
  (7, [119, 104, 101, 101, 122, 121]),            -- wheezy
  (8, [106, 101, 115, 115, 105, 101]),            -- jessie
  (9, [115, 116, 114, 101, 116, 99, 104]),        -- stretch
  (10, [98, 117, 115, 116, 101, 114]),            -- buster
  (11, [98, 117, 108, 108, 115, 101, 121, 101]),  -- bullseye
  (12, [98, 111, 111, 107, 119, 111, 114, 109])]  -- bookworm

def debianName (ver : Int) : Option Bytes :=
  match debianCodenames.find? (fun p => p.1 == ver) with
  | some p => some p.2
  | none => none

def debianRowsOf (fx : List (Bytes × List (Bytes × Bytes))) : List Row :=
  fx.filterMap fun e =>
    match parseInt32 e.1 with
    | none => none
    | some ver => (debianName ver).map fun n => ⟨e.1, debianScan (lookupFirst e.2 pOsr), debianUpdDist n ver⟩

def debianRows : List Row := debianRowsOf JoinFixtures.debian
def debianDistrolessRows : List Row := debianRowsOf JoinFixtures.debianDistroless

/-- ubuntu: the series of the scanner test (version, name) = what the Launchpad
    API lists; the fixture directory is named by the version. -/
def ubuntuRows : List Row :=
  JoinFixtures.ubuntuSeries.filterMap fun sv =>
    (lookupFirst JoinFixtures.ubuntu sv.1).map fun fs =>
      ⟨sv.1, ubuntuScan (lookupFirst fs pLsb) (lookupFirst fs pOsr), ubuntuUpdDist sv.1 sv.2⟩

/-- The same images with only os-release (lsb-release missing). -/
def ubuntuOsrRows : List Row :=
  JoinFixtures.ubuntuSeries.filterMap fun sv =>
    match lookupFirst JoinFixtures.ubuntu sv.1 with
    | none => none
    | some fs => (lookupFirst fs pOsr).map fun b => ⟨sv.1, ubuntuScan none (some b), ubuntuUpdDist sv.1 sv.2⟩

def expectedRows (expected : List (Bytes × Bytes)) (fixtures : List (Bytes × Bytes))
    (scan : Option Bytes → ScanOut) (upd : Bytes → Dist) : List Row :=
  expected.filterMap fun e =>
    (lookupFirst fixtures e.2).map fun b => ⟨e.1, scan (some b), upd e.1⟩

def awsRows : List Row := expectedRows JoinFixtures.awsExpected JoinFixtures.aws awsScan awsUpdDist
def photonRows : List Row := expectedRows JoinFixtures.photonExpected JoinFixtures.photon photonScan photonUpdDist

/-- oracle: the updater side is the parser's `platformToDist` of the OVAL
    platform string `Oracle Linux <release>`. -/
def oraclePlatform (rel : Bytes) : Bytes := [79, 114, 97, 99, 108, 101, 32, 76, 105, 110, 117, 120, 32] ++ rel

def oracleRows : List Row :=
  JoinFixtures.oracleExpected.filterMap fun e =>
    match lookupFirst JoinFixtures.oracle e.2, oraclePlatformDist (oraclePlatform e.1) with
    | some b, some u => some ⟨e.1, oracleScan (some b), u⟩
    | _, _ => none

/-- suse: SLES fixtures against `suse.linux.enterprise.server.<major>.xml.gz`. -/
def suseHref (maj : Bytes) : Bytes :=
  [115, 117, 115, 101, 46, 108, 105, 110, 117, 120, 46, 101, 110, 116, 101, 114, 112, 114, 105, 115, 101, 46, 115, 101, 114, 118, 101, 114, 46] ++ maj ++ [46, 120, 109, 108, 46, 103, 122]

def suseRows : List Row :=
  [([49, 50] : Bytes), [49, 53]].filterMap fun maj =>
    let var : Bytes := [101, 110, 116, 101, 114, 112, 114, 105, 115, 101, 83, 101, 114, 118, 101, 114] ++ maj ++ [79, 83, 82, 101, 108, 101, 97, 115, 101]
    match lookupFirst JoinFixtures.suse var, suseELVersion (suseHref maj) with
    | some b, some v => (match suseScan b with
      | .out o => some ⟨maj, o, suseELDist v⟩
      | .unsupported => none)
    | _, _ => none

/-! ### every row of the release tables, on generated files

  aws / oracle / photon: for every row (release, regexp) of the scanner's
  table, the file is the sample text of the regexp; the updater side is the
  Distribution of the release with that name.  suse: every major the updater
  factory's file-name expression admits (`[1-9][1-9]`), with an os-release
  whose CPE_NAME is `cpe:/o:suse:sles:<major>:sp3`; Leap 15.5 … 16.3. -/

def sampleRows (samples : List (Bytes × Bytes)) (scan : Option Bytes → ScanOut) (upd : Bytes → Dist) : List Row :=
  samples.map fun p => ⟨p.1, scan (some p.2), upd p.1⟩

def awsSampleRows : List Row := sampleRows JoinReleases.aws.regexSamples awsScan awsUpdDist
def photonSampleRows : List Row := sampleRows JoinReleases.photon.regexSamples photonScan photonUpdDist
def oracleSampleRows : List Row :=
  JoinReleases.oracle.regexSamples.filterMap fun p =>
    (oraclePlatformDist (oraclePlatform p.1)).map fun u => ⟨p.1, oracleScan (some p.2), u⟩

def digits19 : List Nat := [49, 50, 51, 52, 53, 54, 55, 56, 57]
def suseMajors : List Bytes := digits19.flatMap fun a => digits19.map fun b => [a, b]

/-- `NAME="SLES"` / `ID="sles"` / `CPE_NAME="cpe:/o:suse:sles:<major>:sp3"` -/
def suseELOsRelease (maj : Bytes) : Bytes :=
  [78, 65, 77, 69, 61, 34, 83, 76, 69, 83, 34, 10, 73, 68, 61, 34, 115, 108, 101, 115, 34, 10,
   67, 80, 69, 95, 78, 65, 77, 69, 61, 34, 99, 112, 101, 58, 47, 111, 58, 115, 117, 115, 101, 58, 115, 108, 101, 115, 58] ++ maj ++
  [58, 115, 112, 51, 34, 10]

def suseELAllRows : List Row :=
  suseMajors.filterMap fun maj =>
    match suseELVersion (suseHref maj) with
    | none => none
    | some v => (match suseScan (suseELOsRelease maj) with
      | .out o => some ⟨maj, o, suseELDist v⟩
      | .unsupported => none)

def suseLeapVersions : List Bytes :=
  [[49, 53, 46, 53], [49, 53, 46, 54], [49, 53, 46, 55], [49, 53, 46, 49, 48], [49, 54, 46, 48], [49, 54, 46, 51]]

/-- `NAME="openSUSE Leap"` / `CPE_NAME="cpe:/o:opensuse:leap:<version>"` -/
def suseLeapOsRelease (ver : Bytes) : Bytes :=
  [78, 65, 77, 69, 61, 34, 111, 112, 101, 110, 83, 85, 83, 69, 32, 76, 101, 97, 112, 34, 10,
   67, 80, 69, 95, 78, 65, 77, 69, 61, 34, 99, 112, 101, 58, 47, 111, 58, 111, 112, 101, 110, 115, 117, 115, 101, 58, 108, 101, 97, 112, 58] ++ ver ++ [34, 10]

def suseLeapRows : List Row :=
  suseLeapVersions.filterMap fun ver =>
    match suseScan (suseLeapOsRelease ver) with
    | .out o => some ⟨ver, o, suseLeapDist ver⟩
    | .unsupported => none

/-! ### lifting a checked table -/

theorem distAgree_lift (m : MatcherT) (hm : distroMatcher m = true) (d u : Dist) (h : distAgree m d u = true)
    (r : Rec) (v : Vuln) (hr : r.dist = some d) (hv : v.dist = u) :
    ∀ c ∈ m.query, constraintAgree c r v = true := by
  intro c hc
  simp only [distroMatcher, Bool.and_eq_true, List.all_eq_true] at hm
  obtain ⟨⟨⟨_, hq⟩, _⟩, _⟩ := hm
  have hsome := hq c hc
  cases hf : distConstraint c with
  | none => simp [hf] at hsome
  | some f =>
    rw [constraintAgree_dist c f hf, hr]
    simp only [distAgree, List.all_eq_true] at h
    have := h c hc
    rw [constraintAgree_dist c f hf] at this
    simpa [hv] using this

theorem distAgree_lift_false (m : MatcherT) (hm : distroMatcher m = true) (d u : Dist) (h : distAgree m d u = false)
    (r : Rec) (v : Vuln) (hr : r.dist = some d) (hv : v.dist = u) :
    ¬ (∀ c ∈ m.query, constraintAgree c r v = true) := by
  intro hall
  simp only [distroMatcher, Bool.and_eq_true, List.all_eq_true] at hm
  obtain ⟨⟨⟨_, hq⟩, _⟩, _⟩ := hm
  have : distAgree m d u = true := by
    simp only [distAgree, List.all_eq_true]
    intro c hc
    have hsome := hq c hc
    cases hf : distConstraint c with
    | none => simp [hf] at hsome
    | some f =>
      have := hall c hc
      rw [constraintAgree_dist c f hf, hr] at this
      rw [constraintAgree_dist c f hf]
      simpa [hv] using this
  rw [h] at this
  cases this

theorem filter_lift (m : MatcherT) (hm : distroMatcher m = true) (d : Dist)
    (h : m.filter.eval { dist := some d } = some true) (r : Rec) (hr : r.dist = some d) :
    m.filter.eval r = some true := by
  simp only [distroMatcher, Bool.and_eq_true] at hm
  obtain ⟨⟨⟨hf, _⟩, _⟩, _⟩ := hm
  rw [FExpr.eval_distOnly m.filter hf r, hr]
  exact h

/-- From a checked table: an image of a listed release and an advisory of the
    same release whose package clause holds are joined, and the verdict is
    the matcher's `Vulnerable`. -/
theorem reported_of_table (m : MatcherT) (hm : distroMatcher m = true) (rows : List Row)
    (ht : tableOk m rows = true) (row : Row) (hrow : row ∈ rows)
    (r : Rec) (v : Vuln) (hr : row.scan = .dist (r.dist.getD {}) ∧ r.dist.isSome = true) (hv : v.dist = row.upd)
    (hn : nameJoins r v = true) (opt ir vulnerable : Bool) :
    reported m opt ir vulnerable r v = .reported vulnerable := by
  obtain ⟨hscan, hsome⟩ := hr
  cases hd : r.dist with
  | none => simp [hd] at hsome
  | some d =>
    simp only [hd, Option.getD_some] at hscan
    simp only [tableOk, List.all_eq_true] at ht
    have hok := ht row hrow
    simp only [rowOk, hscan, Bool.and_eq_true, beq_iff_eq] at hok
    obtain ⟨hfil, hagree⟩ := hok
    have hf := filter_lift m hm d hfil r hd
    have hq := distAgree_lift m hm d row.upd hagree r v hd hv
    have hm' := hm
    simp only [distroMatcher, Bool.and_eq_true, Bool.not_eq_true', List.isEmpty_iff] at hm'
    obtain ⟨⟨_, hvf⟩, hopt⟩ := hm'
    have hcs : (if opt = true then m.query ++ m.queryOpt else m.query) = m.query := by
      simp [hopt]
    have hg : getQuery m.query m.versionFilter ir r v = .ok true := by
      rw [getQuery_true_iff]
      exact ⟨hn, hq, by simp [versionOk, hvf]⟩
    rw [hvf] at hg
    simp [reported, hf, hcs, hg, hvf]

/-- From a checked table: an advisory of a different listed release is not
    reported, whatever the versions. -/
theorem not_reported_cross (m : MatcherT) (hm : distroMatcher m = true) (rows : List Row)
    (ht : tableOk m rows = true) (hx : noCross m rows = true) (a b : Row) (ha : a ∈ rows) (hb : b ∈ rows)
    (hne : (a.rel == b.rel) = false)
    (r : Rec) (v : Vuln) (hr : a.scan = .dist (r.dist.getD {}) ∧ r.dist.isSome = true) (hv : v.dist = b.upd)
    (opt ir vulnerable : Bool) :
    reported m opt ir vulnerable r v = .reported false ∨ reported m opt ir vulnerable r v = .skipped ∨
      reported m opt ir vulnerable r v = .panic := by
  obtain ⟨hscan, hsome⟩ := hr
  cases hd : r.dist with
  | none => simp [hd] at hsome
  | some d =>
    simp only [hd, Option.getD_some] at hscan
    simp only [tableOk, List.all_eq_true] at ht
    have hok := ht a ha
    simp only [rowOk, hscan, Bool.and_eq_true, beq_iff_eq] at hok
    have hf := filter_lift m hm d hok.1 r hd
    simp only [noCross, List.all_eq_true] at hx
    have hab := hx a ha b hb
    simp only [hne, hscan, Bool.false_or, Bool.not_eq_true'] at hab
    have hnq := distAgree_lift_false m hm d b.upd hab r v hd hv
    have hm' := hm
    simp only [distroMatcher, Bool.and_eq_true, Bool.not_eq_true', List.isEmpty_iff] at hm'
    obtain ⟨⟨_, hvf⟩, hopt⟩ := hm'
    have hcs : (if opt = true then m.query ++ m.queryOpt else m.query) = m.query := by
      simp [hopt]
    have hg : getQuery m.query m.versionFilter ir r v ≠ .ok true := by
      intro h
      rw [getQuery_true_iff] at h
      exact hnq h.2.1
    rw [hvf] at hg
    simp only [reported, hf, hcs, hvf]
    cases hq : getQuery m.query false ir r v with
    | err => simp
    | panic => simp
    | ok t =>
      cases t with
      | true => exact absurd hq hg
      | false => simp

end ClairModel.Join
