/-
  Lemmas about the rhctag / go-rpm-version model (Model/RhcTag.lean):
  `rpmvercmp` is the lexicographic comparison of the token lists closed by an
  end marker that sorts between `~` and everything else; hence a total
  preorder, and so are `Version.Compare` of the rpm library and of rhctag.
-/
import ClairModel.Model.RhcTag

namespace ClairModel.RhcTag
open ClairModel.Order ClairModel.Version

/-- Sort key of a token (`none` = end of the token list): class, then for
    numbers the length after trimming zeros, then the text. -/
def tokKey : Option Tok → List Nat
  | some .tilde => [0]
  | none => [1]
  | some (.alpha s) => 2 :: 0 :: s.map Char.toNat
  | some (.num s) => 3 :: (trimZeros s).length :: (trimZeros s).map Char.toNat

def tokCmpE (a b : Option Tok) : Ordering := lexCmp natCmp (tokKey a) (tokKey b)

theorem tokCmpE_totalPre : TotalPre tokCmpE :=
  keyCmp_totalPre (lexCmp_totalPre natCmp_totalPre) tokKey

theorem lexCmp_map_toNat : ∀ l m : List Char,
    lexCmp natCmp (l.map Char.toNat) (m.map Char.toNat) = strCmp l m
  | [], [] => rfl
  | [], _ :: _ => rfl
  | _ :: _, [] => rfl
  | a :: as, b :: bs => by
    have ih := lexCmp_map_toNat as bs
    unfold strCmp at ih ⊢
    simp only [List.map, lexCmp, ih]

theorem natCmp_self (n : Nat) : natCmp n n = .eq := natCmp_totalPre.refl n

/-- The segment loop's verdict on two tokens is the key comparison. -/
theorem tokCmp_eq_key (a b : Tok) : tokCmp a b = tokCmpE (some a) (some b) := by
  cases a <;> cases b <;> simp only [tokCmp, tokCmpE, tokKey, lexCmp]
  · -- alpha alpha
    simp [natCmp_self, Ordering.then, lexCmp_map_toNat]
  · simp [natCmp, Ordering.then]
  · simp [natCmp, Ordering.then]
  · simp [natCmp, Ordering.then]
  · -- num num
    rename_i x y
    simp only [natCmp_self, Ordering.then]
    by_cases h₁ : (trimZeros x).length > (trimZeros y).length
    · have : ¬ (trimZeros x).length < (trimZeros y).length := by omega
      have : (trimZeros x).length ≠ (trimZeros y).length := by omega
      simp [natCmp, *]
    · by_cases h₂ : (trimZeros y).length > (trimZeros x).length
      · have : (trimZeros x).length < (trimZeros y).length := by omega
        simp [natCmp, *]
      · have : (trimZeros x).length = (trimZeros y).length := by omega
        simp [natCmp, this, lexCmp_map_toNat]
  · simp [natCmp, Ordering.then]
  · simp [natCmp, Ordering.then]
  · simp [natCmp, Ordering.then]
  · simp [natCmp, Ordering.then]

/-- Token list closed by the end marker. -/
def closed (l : List Tok) : List (Option Tok) := l.map some ++ [none]

theorem segsCmp_eq_lex : ∀ l m : List Tok, segsCmp l m = lexCmp tokCmpE (closed l) (closed m)
  | [], [] => by simp [segsCmp, closed, lexCmp, tokCmpE_totalPre.refl, Ordering.then]
  | a :: as, [] => by
    cases a <;> simp [segsCmp, closed, lexCmp, tokCmpE, tokKey, natCmp, Ordering.then]
  | [], b :: bs => by
    cases b <;> simp [segsCmp, closed, lexCmp, tokCmpE, tokKey, natCmp, Ordering.then]
  | a :: as, b :: bs => by
    have ih := segsCmp_eq_lex as bs
    simp only [closed] at ih
    simp only [segsCmp, closed, List.map, List.cons_append, lexCmp, tokCmp_eq_key, ih]

theorem segsCmp_totalPre : TotalPre segsCmp := by
  have : segsCmp = keyCmp (lexCmp tokCmpE) closed := by
    funext l m; exact segsCmp_eq_lex l m
  rw [this]
  exact keyCmp_totalPre (lexCmp_totalPre tokCmpE_totalPre) closed

/-- The `a == b` shortcut of `rpmvercmp` is redundant. -/
theorem rpmvercmp_eq (a b : List Char) :
    rpmvercmp a b = keyCmp segsCmp (fun s => tokens s.length s) a b := by
  unfold rpmvercmp keyCmp
  by_cases h : a = b
  · subst h; simp [segsCmp_totalPre.refl]
  · simp [h]

theorem rpmvercmp_totalPre : TotalPre rpmvercmp := by
  have : rpmvercmp = keyCmp segsCmp (fun s => tokens s.length s) := by
    funext a b; exact rpmvercmp_eq a b
  rw [this]
  exact keyCmp_totalPre segsCmp_totalPre _

def rpmCmpCore : Rpm → Rpm → Ordering :=
  thenCmp (keyCmp intCmp Rpm.epoch) (thenCmp (keyCmp rpmvercmp Rpm.version) (keyCmp rpmvercmp Rpm.release))

theorem rpmCmpCore_totalPre : TotalPre rpmCmpCore :=
  thenCmp_totalPre (keyCmp_totalPre intCmp_totalPre _)
    (thenCmp_totalPre (keyCmp_totalPre rpmvercmp_totalPre _) (keyCmp_totalPre rpmvercmp_totalPre _))

/-- The `reflect.DeepEqual` shortcut of `Version.Compare` is redundant. -/
theorem rpmCmp_eq (a b : Rpm) : rpmCmp a b = rpmCmpCore a b := by
  unfold rpmCmp
  by_cases h : a = b
  · subst h; simp [rpmCmpCore_totalPre.refl]
  · simp [h, rpmCmpCore, thenCmp, keyCmp]

theorem rpmCmp_totalPre : TotalPre rpmCmp := by
  have : rpmCmp = rpmCmpCore := by funext a b; exact rpmCmp_eq a b
  rw [this]; exact rpmCmpCore_totalPre

theorem cmp_totalPre : TotalPre cmp :=
  keyCmp_totalPre rpmCmp_totalPre (fun t : Tag => newVersion t.original)

end ClairModel.RhcTag
