/-
  Lemmas about the rhctag / go-rpm-version model (Model/RhcTag.lean):
  `rpmvercmp` is the lexicographic comparison of the token lists closed by an
  end marker that sorts between `~` and everything else; hence a total
  preorder, and so are `Version.Compare` of the rpm library and of rhctag.
-/
import ClairModel.Model.RhcTag
import ClairModel.Proofs.Version

set_option linter.unusedSimpArgs false

namespace ClairModel.RhcTag
open ClairModel.Order ClairModel.Version

/-- Sort key of a token (`none` = end of the token list): class, then for
    numbers the length after trimming zeros, then the text. -/
def tokKey : Option Tok → List Nat
  | some .tilde => [0]
  | none => [1]
  | some (.alpha s) => 2 :: 0 :: s.map Char.toNat
  | some (.num s) => 3 :: (trimZeros s).length :: (trimZeros s).map Char.toNat

def tokCmpE (a b : Option Tok) : Ordering := lexCmp natCmp (tokKey a) (tokKey b)

theorem tokCmpE_totalPre : TotalPre tokCmpE :=
  keyCmp_totalPre (lexCmp_totalPre natCmp_totalPre) tokKey

theorem lexCmp_map_toNat : ∀ l m : List Char,
    lexCmp natCmp (l.map Char.toNat) (m.map Char.toNat) = strCmp l m
  | [], [] => rfl
  | [], _ :: _ => rfl
  | _ :: _, [] => rfl
  | a :: as, b :: bs => by
    have ih := lexCmp_map_toNat as bs
    unfold strCmp at ih ⊢
    simp only [List.map, lexCmp, ih]

theorem natCmp_self (n : Nat) : natCmp n n = .eq := natCmp_totalPre.refl n

/-- The segment loop's verdict on two tokens is the key comparison. -/
theorem tokCmp_eq_key (a b : Tok) : tokCmp a b = tokCmpE (some a) (some b) := by
  cases a <;> cases b <;> simp only [tokCmp, tokCmpE, tokKey, lexCmp]
  · -- alpha alpha
    simp [natCmp_self, Ordering.then, lexCmp_map_toNat]
  · simp [natCmp, Ordering.then]
  · simp [natCmp, Ordering.then]
  · simp [natCmp, Ordering.then]
  · -- num num
    rename_i x y
    simp only [natCmp_self, Ordering.then]
    by_cases h₁ : (trimZeros x).length > (trimZeros y).length
    · have : ¬ (trimZeros x).length < (trimZeros y).length := by omega
      have : (trimZeros x).length ≠ (trimZeros y).length := by omega
      simp [natCmp, *]
    · by_cases h₂ : (trimZeros y).length > (trimZeros x).length
      · have : (trimZeros x).length < (trimZeros y).length := by omega
        simp [natCmp, *]
      · have : (trimZeros x).length = (trimZeros y).length := by omega
        simp [natCmp, this, lexCmp_map_toNat]
  · simp [natCmp, Ordering.then]
  · simp [natCmp, Ordering.then]
  · simp [natCmp, Ordering.then]
  · simp [natCmp, Ordering.then]

/-- Token list closed by the end marker. -/
def closed (l : List Tok) : List (Option Tok) := l.map some ++ [none]

theorem segsCmp_eq_lex : ∀ l m : List Tok, segsCmp l m = lexCmp tokCmpE (closed l) (closed m)
  | [], [] => by simp [segsCmp, closed, lexCmp, tokCmpE_totalPre.refl, Ordering.then]
  | a :: as, [] => by
    cases a <;> simp [segsCmp, closed, lexCmp, tokCmpE, tokKey, natCmp, Ordering.then]
  | [], b :: bs => by
    cases b <;> simp [segsCmp, closed, lexCmp, tokCmpE, tokKey, natCmp, Ordering.then]
  | a :: as, b :: bs => by
    have ih := segsCmp_eq_lex as bs
    simp only [closed] at ih
    simp only [segsCmp, closed, List.map, List.cons_append, lexCmp, tokCmp_eq_key, ih]

theorem segsCmp_totalPre : TotalPre segsCmp := by
  have : segsCmp = keyCmp (lexCmp tokCmpE) closed := by
    funext l m; exact segsCmp_eq_lex l m
  rw [this]
  exact keyCmp_totalPre (lexCmp_totalPre tokCmpE_totalPre) closed

/-- The `a == b` shortcut of `rpmvercmp` is redundant. -/
theorem rpmvercmp_eq (a b : List Char) :
    rpmvercmp a b = keyCmp segsCmp (fun s => tokens s.length s) a b := by
  unfold rpmvercmp keyCmp
  by_cases h : a = b
  · subst h; simp [segsCmp_totalPre.refl]
  · simp [h]

theorem rpmvercmp_totalPre : TotalPre rpmvercmp := by
  have : rpmvercmp = keyCmp segsCmp (fun s => tokens s.length s) := by
    funext a b; exact rpmvercmp_eq a b
  rw [this]
  exact keyCmp_totalPre segsCmp_totalPre _

def rpmCmpCore : Rpm → Rpm → Ordering :=
  thenCmp (keyCmp intCmp Rpm.epoch) (thenCmp (keyCmp rpmvercmp Rpm.version) (keyCmp rpmvercmp Rpm.release))

theorem rpmCmpCore_totalPre : TotalPre rpmCmpCore :=
  thenCmp_totalPre (keyCmp_totalPre intCmp_totalPre _)
    (thenCmp_totalPre (keyCmp_totalPre rpmvercmp_totalPre _) (keyCmp_totalPre rpmvercmp_totalPre _))

/-- The `reflect.DeepEqual` shortcut of `Version.Compare` is redundant. -/
theorem rpmCmp_eq (a b : Rpm) : rpmCmp a b = rpmCmpCore a b := by
  unfold rpmCmp
  by_cases h : a = b
  · subst h; simp [rpmCmpCore_totalPre.refl]
  · simp [h, rpmCmpCore, thenCmp, keyCmp]

theorem rpmCmp_totalPre : TotalPre rpmCmp := by
  have : rpmCmp = rpmCmpCore := by funext a b; exact rpmCmp_eq a b
  rw [this]; exact rpmCmpCore_totalPre

theorem cmp_totalPre : TotalPre cmp :=
  keyCmp_totalPre rpmCmp_totalPre (fun t : Tag => newVersion t.original)

/-! ### numbers: the token comparison is the comparison of the values -/

theorem natOfDigits_trimZeros (l : List Char) : natOfDigits (trimZeros l) = natOfDigits l := by
  induction l with
  | nil => rfl
  | cons c cs ih =>
    unfold trimZeros
    by_cases hc : c = '0'
    · subst hc
      simp only [if_true, ih, natOfDigits_cons]
      have : digitVal '0' = 0 := by decide
      simp [this]
    · simp [hc]

theorem allDig_trimZeros {l : List Char} (h : AllDig l) : AllDig (trimZeros l) := by
  induction l with
  | nil => exact h
  | cons c cs ih =>
    unfold trimZeros
    by_cases hc : c = '0'
    · simp only [hc, if_true]; exact ih h.tail
    · simp only [hc, if_false]; exact h

/-- After trimming, a non-empty digit string starts with a non-zero digit, so
    its value is at least 10^(length-1). -/
theorem trimZeros_lower {l : List Char} (h : AllDig l) (hne : trimZeros l ≠ []) :
    10 ^ ((trimZeros l).length - 1) ≤ natOfDigits (trimZeros l) := by
  induction l with
  | nil => simp [trimZeros] at hne
  | cons c cs ih =>
    unfold trimZeros at hne ⊢
    by_cases hc : c = '0'
    · simp only [hc, if_true] at hne ⊢; exact ih h.tail hne
    · simp only [hc, if_false]
      obtain ⟨d, hd, rfl⟩ := isDigChar_of_isDigit (h _ List.mem_cons_self)
      have hd0 : d ≠ 0 := fun e => hc ((digChar_order d hd).2.2 e)
      rw [natOfDigits_cons, digitVal_digitChar d hd, List.length_cons, Nat.add_sub_cancel]
      have : 1 * 10 ^ cs.length ≤ d * 10 ^ cs.length := Nat.mul_le_mul_right _ (by omega)
      omega

/-- Digit strings of the same length: text order is value order. -/
theorem strCmp_digits : ∀ {u w : List Char}, AllDig u → AllDig w → u.length = w.length →
    strCmp u w = natCmp (natOfDigits u) (natOfDigits w)
  | [], [], _, _, _ => by simp [strCmp, lexCmp, natOfDigits, natCmp]
  | [], _ :: _, _, _, h => by simp at h
  | _ :: _, [], _, _, h => by simp at h
  | c :: u, e :: w, hu, hw, hl => by
    have hl' : u.length = w.length := by simpa using hl
    have ih := strCmp_digits hu.tail hw.tail hl'
    obtain ⟨dc, hdc, rfl⟩ := isDigChar_of_isDigit (hu _ List.mem_cons_self)
    obtain ⟨de, hde, rfl⟩ := isDigChar_of_isDigit (hw _ List.mem_cons_self)
    have vu := natOfDigits_lt hu.tail
    have vw := natOfDigits_lt hw.tail
    unfold strCmp at ih ⊢
    simp only [lexCmp, (digChar_order dc hdc).1, (digChar_order de hde).1, ih]
    rw [natOfDigits_cons, natOfDigits_cons, digitVal_digitChar dc hdc, digitVal_digitChar de hde, hl']
    rw [hl'] at vu
    generalize 10 ^ w.length = P at vu vw ⊢
    by_cases h₁ : dc < de
    · have : (dc + 1) * P ≤ de * P := Nat.mul_le_mul_right _ (by omega)
      rw [Nat.add_mul] at this
      have e₁ : natCmp (48 + dc) (48 + de) = .lt := by unfold natCmp; simp; omega
      have e₂ : natCmp (dc * P + natOfDigits u) (de * P + natOfDigits w) = .lt := by
        unfold natCmp; simp; omega
      simp [e₁, e₂, Ordering.then]
    · by_cases h₂ : dc = de
      · subst h₂
        have e₁ : natCmp (48 + dc) (48 + dc) = .eq := natCmp_totalPre.refl _
        simp only [e₁, Ordering.then]
        unfold natCmp
        by_cases h₃ : natOfDigits u < natOfDigits w
        · have : dc * P + natOfDigits u < dc * P + natOfDigits w := by omega
          simp [h₃, this]
        · by_cases h₄ : natOfDigits u = natOfDigits w
          · simp [h₄]
          · have a : ¬ dc * P + natOfDigits u < dc * P + natOfDigits w := by omega
            have b : ¬ dc * P + natOfDigits u = dc * P + natOfDigits w := by omega
            simp [h₃, h₄, a, b]
      · have : (de + 1) * P ≤ dc * P := Nat.mul_le_mul_right _ (by omega)
        rw [Nat.add_mul] at this
        have e₁ : natCmp (48 + dc) (48 + de) = .gt := by
          unfold natCmp
          have a : ¬ 48 + dc < 48 + de := by omega
          simp [a, h₂]
        have e₂ : natCmp (dc * P + natOfDigits u) (de * P + natOfDigits w) = .gt := by
          unfold natCmp
          have a : ¬ dc * P + natOfDigits u < de * P + natOfDigits w := by omega
          have b : ¬ dc * P + natOfDigits u = de * P + natOfDigits w := by omega
          simp [a, b]
        simp [e₁, e₂, Ordering.then]

theorem pow_le_pow_of_lt {a b : Nat} (h : a < b) : 10 ^ a ≤ 10 ^ (b - 1) :=
  Nat.pow_le_pow_right (by decide) (by omega)

/-- Two numeric tokens compare as their values. -/
theorem tokCmp_num {x y : List Char} (hx : AllDig x) (hy : AllDig y) :
    tokCmp (.num x) (.num y) = natCmp (natOfDigits x) (natOfDigits y) := by
  have tx := allDig_trimZeros hx
  have ty := allDig_trimZeros hy
  have vx := natOfDigits_lt tx
  have vy := natOfDigits_lt ty
  simp only [tokCmp]
  rw [← natOfDigits_trimZeros x, ← natOfDigits_trimZeros y]
  by_cases h₁ : (trimZeros x).length > (trimZeros y).length
  · have hne : trimZeros x ≠ [] := by intro e; simp [e] at h₁
    have lo := trimZeros_lower hx hne
    have := pow_le_pow_of_lt h₁
    have a : ¬ natOfDigits (trimZeros x) < natOfDigits (trimZeros y) := by omega
    have b : ¬ natOfDigits (trimZeros x) = natOfDigits (trimZeros y) := by omega
    simp [h₁, natCmp, a, b]
  · by_cases h₂ : (trimZeros y).length > (trimZeros x).length
    · have hne : trimZeros y ≠ [] := by intro e; simp [e] at h₂
      have lo := trimZeros_lower hy hne
      have := pow_le_pow_of_lt h₂
      have a : natOfDigits (trimZeros x) < natOfDigits (trimZeros y) := by omega
      simp [h₁, h₂, natCmp, a]
    · simp only [h₁, h₂, if_false]
      exact strCmp_digits tx ty (by omega)

/-! ### the projection on plain tags -/

theorem spanP_fst (p : Char → Bool) (s : List Char) : ∀ c ∈ (spanP p s).1, p c = true := by
  induction s with
  | nil => intro c hc; simp [spanP] at hc
  | cons x xs ih =>
    unfold spanP
    by_cases hx : p x = true
    · simp only [hx, if_true]
      intro c hc
      rcases List.mem_cons.1 hc with rfl | hc
      · exact hx
      · exact ih c hc
    · simp only [hx]
      intro c hc; simp at hc

/-- Numeric tokens consist of digits. -/
theorem tokens_num : ∀ (fuel : Nat) (s : List Char) (d : List Char), Tok.num d ∈ tokens fuel s → AllDig d
  | 0, _, _, h => by simp [tokens] at h
  | _ + 1, [], _, h => by simp [tokens] at h
  | fuel + 1, c :: cs, d, h => by
    unfold tokens at h
    by_cases ha : isAlpha c = true
    · rw [if_pos ha] at h
      rcases List.mem_cons.1 h with h | h
      · cases h
      · exact tokens_num fuel _ d h
    · rw [if_neg ha] at h
      by_cases hd : isDigit c = true
      · rw [if_pos hd] at h
        rcases List.mem_cons.1 h with h | h
        · simp only [Tok.num.injEq] at h
          subst h
          intro x hx
          rcases List.mem_cons.1 hx with rfl | hx
          · exact hd
          · exact spanP_fst isDigit cs x hx
        · exact tokens_num fuel _ d h
      · rw [if_neg hd] at h
        by_cases ht : c = '~'
        · rw [if_pos ht] at h
          rcases List.mem_cons.1 h with h | h
          · cases h
          · exact tokens_num fuel _ d h
        · rw [if_neg ht] at h
          exact tokens_num fuel _ d h

theorem cut_no_sep (sep : Char) (s : List Char) (h : sep ∉ s) : cut sep s = (s, none) := by
  induction s with
  | nil => rfl
  | cons c cs ih =>
    have hc : c ≠ sep := fun e => h (e ▸ List.mem_cons_self)
    have := ih (fun hm => h (List.mem_cons_of_mem _ hm))
    simp [cut, hc, this]

theorem newVersion_no_colon (s : List Char) (h : ':' ∉ s) :
    (newVersion s).epoch = 0 ∧ (newVersion s).version = (cut '-' s).1 := by
  unfold newVersion
  simp [cut_no_sep ':' s h]

/-- What `plain v t` says, as a statement. -/
theorem plain_spec {v : Bool} {t : Tag} (h : plain v t = true) :
    ':' ∉ t.original ∧
    ∃ dM rest, tokens (cut '-' t.original).1.length (cut '-' t.original).1
        = (if v then [Tok.alpha ['v']] else []) ++ Tok.num dM :: rest ∧
      (natOfDigits dM : Int) = t.major ∧ t.major < 2147483648 ∧
      ((rest = [] ∧ t.minor = 0) ∨
       ∃ dm rest', rest = Tok.num dm :: rest' ∧ (natOfDigits dm : Int) = t.minor ∧ t.minor < 2147483648) := by
  unfold plain at h
  simp only [Bool.and_eq_true, Bool.not_eq_true', List.contains_eq_mem, decide_eq_false_iff_not] at h
  obtain ⟨hc, hm⟩ := h
  refine ⟨hc, ?_⟩
  generalize tokens (cut '-' t.original).1.length (cut '-' t.original).1 = toks at hm ⊢
  have key : ∀ l, afterV v toks = some l → toks = (if v then [Tok.alpha ['v']] else []) ++ l := by
    intro l hl
    unfold afterV at hl
    cases v with
    | false => simp at hl; simp [hl]
    | true =>
      simp only [if_true] at hl
      split at hl
      · simp only [Option.some.injEq] at hl; subst hl; simp
      · cases hl
  split at hm
  · rename_i dM rest hav
    simp only [Bool.and_eq_true, decide_eq_true_eq] at hm
    obtain ⟨⟨h₁, h₂⟩, h₃⟩ := hm
    refine ⟨dM, rest, key _ hav, h₁, h₂, ?_⟩
    split at h₃
    · exact Or.inl ⟨rfl, by simpa using h₃⟩
    · rename_i dm rest'
      simp only [Bool.and_eq_true, decide_eq_true_eq] at h₃
      exact Or.inr ⟨dm, rest', rfl, h₃.1, h₃.2⟩
    · cases h₃
  · cases hm

theorem segsCmp_prefix (p : List Tok) (l m : List Tok) : segsCmp (p ++ l) (p ++ m) = segsCmp l m := by
  induction p with
  | nil => rfl
  | cons x xs ih =>
    have : tokCmp x x = .eq := by
      rw [tokCmp_eq_key]; exact tokCmpE_totalPre.refl _
    simp [segsCmp, this, ih, Ordering.then]

/-- On plain tags with the same prefix the projection `Version(min)` never
    inverts `Compare`. -/
theorem proj_mono (v : Bool) (a b : Tag) (m : Bool) (ha : plain v a = true) (hb : plain v b = true)
    (h : cmp a b ≠ .gt) : Version.cmp (project a m) (project b m) ≠ .gt := by
  obtain ⟨ca, dMa, ra, hta, hMa, hMa', hma⟩ := plain_spec ha
  obtain ⟨cb, dMb, rb, htb, hMb, hMb', hmb⟩ := plain_spec hb
  obtain ⟨ea, va⟩ := newVersion_no_colon a.original ca
  obtain ⟨eb, vb⟩ := newVersion_no_colon b.original cb
  -- the comparison of the version parts is not `gt`
  have hver : segsCmp (Tok.num dMa :: ra) (Tok.num dMb :: rb) ≠ .gt := by
    intro hgt
    apply h
    unfold cmp
    rw [rpmCmp_eq]
    simp only [rpmCmpCore, thenCmp, keyCmp, ea, eb, intCmp_totalPre.refl, Ordering.then]
    rw [rpmvercmp_eq (newVersion a.original).version, keyCmp, va, vb, hta, htb, segsCmp_prefix, hgt]
  -- digits
  have dA : AllDig dMa := tokens_num _ _ dMa (by rw [hta]; simp)
  have dB : AllDig dMb := tokens_num _ _ dMb (by rw [htb]; simp)
  simp only [segsCmp, tokCmp_num dA dB] at hver
  -- the minors
  have hmin : natCmp (natOfDigits dMa) (natOfDigits dMb) = .eq → a.minor ≤ b.minor ∧ 0 ≤ a.minor := by
    intro heq
    simp only [heq, Ordering.then] at hver
    rcases hma with ⟨rfl, hz⟩ | ⟨dma, ra', rfl, hva, _⟩
    · rcases hmb with ⟨_, hz'⟩ | ⟨dmb, rb', _, hvb, _⟩
      · omega
      · omega
    · rcases hmb with ⟨rfl, _⟩ | ⟨dmb, rb', rfl, hvb, _⟩
      · simp [segsCmp] at hver
      · have da : AllDig dma := tokens_num _ _ dma (by rw [hta]; simp)
        have db : AllDig dmb := tokens_num _ _ dmb (by rw [htb]; simp)
        simp only [segsCmp, tokCmp_num da db] at hver
        have : natCmp (natOfDigits dma) (natOfDigits dmb) ≠ .gt := by
          intro hh; simp [hh, Ordering.then] at hver
        have := natCmp_ne_gt.1 this
        omega
  have hmaj : natCmp (natOfDigits dMa) (natOfDigits dMb) ≠ .gt := by
    intro hh; simp [hh, Ordering.then] at hver
  have hle := natCmp_ne_gt.1 hmaj
  have hmn0 : 0 ≤ a.minor ∧ a.minor < 2147483648 := by
    rcases hma with ⟨_, hz⟩ | ⟨_, _, _, hva, hlt⟩ <;> omega
  have hmn0b : 0 ≤ b.minor ∧ b.minor < 2147483648 := by
    rcases hmb with ⟨_, hz⟩ | ⟨_, _, _, hvb, hlt⟩ <;> omega
  unfold Version.cmp project
  simp only [ne_eq, not_true_eq_false, if_false]
  rw [toInt32_id (by omega) hMa', toInt32_id (by omega) hMb', toInt32_id (by omega) hmn0.2,
    toInt32_id (by omega) hmn0b.2]
  simp only [lexCmp, intCmp_totalPre.refl, Ordering.then]
  by_cases hlt : natOfDigits dMa < natOfDigits dMb
  · have : a.major < b.major := by omega
    simp [intCmp_of_lt this]
  · have heq : natOfDigits dMa = natOfDigits dMb := by omega
    have hE : a.major = b.major := by omega
    have := hmin (by rw [heq]; exact natCmp_totalPre.refl _)
    rw [hE, intCmp_totalPre.refl]
    simp only
    by_cases hl2 : a.minor < b.minor
    · simp [intCmp_of_lt hl2]
    · have : a.minor = b.minor := by omega
      rw [this, intCmp_totalPre.refl]
      simp

end ClairModel.RhcTag
