/-
  C19 — a value string accepted by `validate` and free of quoting leaves a
  wildcard-free literal part between its leading and trailing wildcards
  (`coreClean`, the side condition of the pattern theorem).
-/
import ClairModel.Proofs.CpePattern
import ClairModel.Proofs.CpeGrammar

namespace ClairModel.Cpe
open ClairModel.CpeTypes ClairModel.CpeSpec

/-- No `*` and no `?`. -/
def cleanL (x : Str) : Prop := ∀ c ∈ x, c ≠ 42 ∧ c ≠ 63

theorem dropWhile_q_replicate (k : Nat) (x : Str) :
    (List.replicate k 63 ++ x).dropWhile (· == 63) = x.dropWhile (· == 63) := by
  induction k with
  | zero => simp
  | succ k ih => simp [List.replicate_succ, ih]

theorem stripLead_cons_ne (c : Nat) (t : Str) (h : c ≠ 42) :
    stripLead (c :: t) = (some ((c :: t).length - ((c :: t).dropWhile (· == 63)).length), (c :: t).dropWhile (· == 63)) := by
  unfold stripLead
  split
  · rename_i r heq
    exact absurd (List.cons.inj heq).1 h
  · rfl

theorem stripLead_nil : stripLead [] = (some 0, []) := by
  unfold stripLead
  split
  · rename_i r heq; cases heq
  · rfl

theorem replicate_append_replicate' (k m a : Nat) :
    List.replicate k a ++ List.replicate m a = List.replicate (k + m) a := by
  induction k with
  | zero => simp
  | succ k ih => rw [List.replicate_succ, List.cons_append, ih, Nat.succ_add, List.replicate_succ]

theorem stripLead_qs_succ (k : Nat) (Y : Str) (hY : ∀ c t, Y = c :: t → c ≠ 63) :
    (stripLead (List.replicate (k + 1) 63 ++ Y)).2 = Y := by
  have hdrop : Y.dropWhile (· == 63) = Y := by
    cases Y with
    | nil => rfl
    | cons c t => have := hY c t rfl; simp [this]
  simp only [List.replicate_succ, List.cons_append]
  rw [stripLead_cons_ne 63 _ (by decide)]
  have := dropWhile_q_replicate (k + 1) Y
  simp only [List.replicate_succ, List.cons_append] at this
  simp only [this, hdrop]

theorem stripLead_qs (k : Nat) (Y : Str) (hY : ∀ c t, Y = c :: t → c ≠ 42 ∧ c ≠ 63) :
    (stripLead (List.replicate k 63 ++ Y)).2 = Y := by
  cases k with
  | zero =>
    cases Y with
    | nil => simp [stripLead_nil]
    | cons c t =>
      have := hY c t rfl
      simp only [List.replicate_zero, List.nil_append]
      rw [stripLead_cons_ne c t this.1]
      simp [this.2]
  | succ k => exact stripLead_qs_succ k Y (fun c t h => (hY c t h).2)

/-- What is left after the leading wildcard of `lead ++ B ++ trail`. -/
theorem stripLead_rem (l r : Option Nat) (B : Str) (hB : cleanL B) :
    (stripLead (leadStr l ++ B ++ leadStr r)).2 = B ++ leadStr r ∨
      (r = none ∧ (stripLead (leadStr l ++ B ++ leadStr r)).2 = [42]) ∨
      (stripLead (leadStr l ++ B ++ leadStr r)).2 = [] := by
  cases l with
  | none => left; simp [leadStr, stripLead]
  | some k =>
    cases B with
    | cons c B' =>
      have hc := hB c (by simp)
      left
      have hu : leadStr (some k) ++ (c :: B') ++ leadStr r = List.replicate k 63 ++ (c :: B' ++ leadStr r) := by
        simp [leadStr]
      rw [hu]
      apply stripLead_qs
      intro c' t heq
      have : c' = c := by simp at heq; exact heq.1.symm
      subst this; exact hc
    | nil =>
      cases r with
      | none =>
        cases k with
        | zero => right; right; simp [leadStr, stripLead]
        | succ k =>
          right; left
          refine ⟨rfl, ?_⟩
          have hu : leadStr (some (k + 1)) ++ [] ++ leadStr none = List.replicate (k + 1) 63 ++ [42] := by
            simp [leadStr]
          rw [hu]
          apply stripLead_qs_succ
          intro c' t heq
          have : c' = 42 := by simp at heq; exact heq.1.symm
          subst this; decide
      | some m =>
        right; right
        have hu : leadStr (some k) ++ [] ++ leadStr (some m) = List.replicate (k + m) 63 ++ [] := by
          simp [leadStr, List.replicate_append_replicate]
        rw [hu]
        apply stripLead_qs
        intro c' t heq; cases heq

theorem cleanL_reverse (B : Str) (h : cleanL B) : cleanL B.reverse := by
  intro c hc; exact h c (by simpa using hc)

theorem stripTrail_core_clean (B : Str) (r : Option Nat) (hB : cleanL B) :
    cleanL (stripTrail (B ++ leadStr r)).2 := by
  have hrev : (B ++ leadStr r).reverse = leadStr r ++ B.reverse ++ leadStr (some 0) := by
    have h0 : leadStr (some 0) = [] := rfl
    rw [h0, List.append_nil, List.reverse_append, leadStr_reverse]
  simp only [stripTrail, hrev]
  rcases stripLead_rem r (some 0) B.reverse (cleanL_reverse B hB) with h | ⟨h, _⟩ | h
  · rw [h]
    simp only [leadStr, List.replicate_zero, List.append_nil, List.reverse_reverse]
    exact hB
  · cases h
  · rw [h]; intro c hc; simp at hc

theorem core_clean_of_shape (l r : Option Nat) (B : Str) (hB : cleanL B) :
    cleanL (stripTrail (stripLead (leadStr l ++ B ++ leadStr r)).2).2 := by
  rcases stripLead_rem l r B hB with h | ⟨_, h⟩ | h
  · rw [h]; exact stripTrail_core_clean B r hB
  · rw [h]; intro c hc; simp [stripTrail, stripLead] at hc
  · rw [h]; intro c hc; simp [stripTrail, stripLead_nil] at hc

/-- A body without backslash consists of letters, digits and underscores. -/
theorem body_noquote_clean (body : Str) (h92 : 92 ∉ body) (hb : bodyStr false body = true) :
    ∀ c ∈ body, unreservedC c = true := by
  induction body with
  | nil => intro c hc; cases hc
  | cons d rest ih =>
    have hd : d ≠ 92 := fun e => h92 (by simp [e])
    have hr : 92 ∉ rest := fun e => h92 (by simp [e])
    simp only [bodyStr, Bool.false_eq_true, if_false, hd, Bool.and_eq_true] at hb
    intro c hc
    rcases List.mem_cons.1 hc with rfl | hc
    · exact hb.1
    · exact ih hr hb.2 c hc

theorem lower_leadStr (w : Option Nat) : lower (leadStr w) = leadStr w := by
  cases w with
  | none => rfl
  | some n => simp [leadStr, lower, lowerC]

theorem validate_coreClean (s : Str) (hv : validate s = true) (h92 : 92 ∉ s) : coreClean s := by
  obtain ⟨_, _, _, l, body, r, hs, hb⟩ := validate_grammar s hv
  have hbody : 92 ∉ body := by
    intro h; apply h92; rw [hs]; simp [h]
  have hun := body_noquote_clean body hbody hb
  have hB : cleanL (lower body) := by
    intro c hc
    simp only [lower, List.mem_map] at hc
    obtain ⟨d, hd, rfl⟩ := hc
    have hu := hun d hd
    rw [unreserved_iff] at hu
    have hres : reserved d = false := by simpa using hu
    constructor
    · intro h
      have := (lowerC_eq_iff d 42 (by omega)).1 h
      subst this; simp [reserved] at hres
    · intro h
      have := (lowerC_eq_iff d 63 (by omega)).1 h
      subst this; simp [reserved] at hres
  have hl : lower s = leadStr l ++ lower body ++ leadStr r := by
    rw [hs]
    simp only [lower, List.map_append]
    have h1 := lower_leadStr l
    have h2 := lower_leadStr r
    simp only [lower] at h1 h2
    rw [h1, h2]
  unfold coreClean
  rw [hl]
  exact core_clean_of_shape l r (lower body) hB

end ClairModel.Cpe
