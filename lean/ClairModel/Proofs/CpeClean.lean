/-
  C19 — `patCompare` is the glob semantics of the matching specification for
  every source value string that `validate` accepts and every target: the
  shape `lead · body · trail` of an accepted value (CpeGrammar) is what the two
  stripping steps of `patCompare` find, also when the body has quoted
  characters (the trailing step looks at the unquoted tail only, and the
  literal part and the target are compared unquoted).
-/
import ClairModel.Proofs.CpePattern
import ClairModel.Proofs.CpeGrammar

namespace ClairModel.Cpe
open ClairModel.CpeTypes ClairModel.CpeSpec

/-! ### stripLead on `lead ++ B ++ trail` -/

theorem dropWhile_q_replicate (k : Nat) (x : Str) :
    (List.replicate k 63 ++ x).dropWhile (· == 63) = x.dropWhile (· == 63) := by
  induction k with
  | zero => simp
  | succ k ih => simp [List.replicate_succ, ih]

theorem stripLead_cons_ne (c : Nat) (t : Str) (h : c ≠ 42) :
    stripLead (c :: t) = (some ((c :: t).length - ((c :: t).dropWhile (· == 63)).length), (c :: t).dropWhile (· == 63)) := by
  unfold stripLead
  split
  · rename_i r heq
    exact absurd (List.cons.inj heq).1 h
  · rfl

theorem stripLead_nil : stripLead [] = (some 0, []) := by
  unfold stripLead
  split
  · rename_i r heq; cases heq
  · rfl

theorem stripLead_qs_succ (k : Nat) (Y : Str) (hY : ∀ c t, Y = c :: t → c ≠ 63) :
    (stripLead (List.replicate (k + 1) 63 ++ Y)).2 = Y := by
  have hdrop : Y.dropWhile (· == 63) = Y := by
    cases Y with
    | nil => rfl
    | cons c t => have := hY c t rfl; simp [this]
  simp only [List.replicate_succ, List.cons_append]
  rw [stripLead_cons_ne 63 _ (by decide)]
  have := dropWhile_q_replicate (k + 1) Y
  simp only [List.replicate_succ, List.cons_append] at this
  simp only [this, hdrop]

theorem stripLead_qs (k : Nat) (Y : Str) (hY : ∀ c t, Y = c :: t → c ≠ 42 ∧ c ≠ 63) :
    (stripLead (List.replicate k 63 ++ Y)).2 = Y := by
  cases k with
  | zero =>
    cases Y with
    | nil => simp [stripLead_nil]
    | cons c t =>
      have := hY c t rfl
      simp only [List.replicate_zero, List.nil_append]
      rw [stripLead_cons_ne c t this.1]
      simp [this.2]
  | succ k => exact stripLead_qs_succ k Y (fun c t h => (hY c t h).2)

/-- What is left after the leading wildcard of `lead ++ B ++ trail`, when `B`
    does not begin with a special character. -/
theorem stripLead_rem (l r : Option Nat) (B : Str) (hB : ∀ c t, B = c :: t → c ≠ 42 ∧ c ≠ 63) :
    (stripLead (leadStr l ++ B ++ leadStr r)).2 = B ++ leadStr r ∨
      (r = none ∧ B = [] ∧ (stripLead (leadStr l ++ B ++ leadStr r)).2 = [42]) ∨
      (B = [] ∧ (stripLead (leadStr l ++ B ++ leadStr r)).2 = []) := by
  cases l with
  | none => left; simp [leadStr, stripLead]
  | some k =>
    cases B with
    | cons c B' =>
      have hc := hB c B' rfl
      left
      have hu : leadStr (some k) ++ (c :: B') ++ leadStr r = List.replicate k 63 ++ (c :: B' ++ leadStr r) := by
        simp [leadStr]
      rw [hu]
      apply stripLead_qs
      intro c' t heq
      have : c' = c := by simp at heq; exact heq.1.symm
      subst this; exact hc
    | nil =>
      cases r with
      | none =>
        cases k with
        | zero => right; right; simp [leadStr, stripLead]
        | succ k =>
          right; left
          refine ⟨rfl, rfl, ?_⟩
          have hu : leadStr (some (k + 1)) ++ [] ++ leadStr none = List.replicate (k + 1) 63 ++ [42] := by
            simp [leadStr]
          rw [hu]
          apply stripLead_qs_succ
          intro c' t heq
          have : c' = 42 := by simp at heq; exact heq.1.symm
          subst this; decide
      | some m =>
        right; right
        refine ⟨rfl, ?_⟩
        have hu : leadStr (some k) ++ [] ++ leadStr (some m) = List.replicate (k + m) 63 ++ [] := by
          simp [leadStr, List.replicate_append_replicate]
        rw [hu]
        apply stripLead_qs
        intro c' t heq; cases heq

theorem lower_leadStr (w : Option Nat) : lower (leadStr w) = leadStr w := by
  cases w with
  | none => rfl
  | some n => simp [leadStr, lower, lowerC]

/-! ### the body of a value: quoted pairs and unreserved characters -/

theorem unquoteAux_eq_spec (e : Bool) (s : Str) : unquoteAux e s = CpeSpec.unquoteAux e s := by
  induction s generalizing e with
  | nil => rfl
  | cons c rest ih =>
    simp only [unquoteAux, CpeSpec.unquoteAux, ih]

theorem unreserved_lowerC (c : Nat) : unreservedC (lowerC c) = unreservedC c := by
  simp only [unreservedC, lowerC]
  split
  · rename_i h
    rw [Bool.eq_iff_iff]
    simp only [Bool.or_eq_true, Bool.and_eq_true, decide_eq_true_eq, beq_iff_eq]
    omega
  · rfl

theorem bodyStr_lower (e : Bool) (b : Str) : bodyStr e (lower b) = bodyStr e b := by
  induction b generalizing e with
  | nil => rfl
  | cons c rest ih =>
    have ih' : ∀ e, bodyStr e (List.map lowerC rest) = bodyStr e rest := ih
    simp only [lower, List.map_cons, bodyStr]
    have h92 : lowerC c = 92 ↔ c = 92 := lowerC_eq_iff c 92 (by omega)
    by_cases he : e = true
    · simp [he, ih']
    · by_cases hc : c = 92
      · subst hc; simp [he, ih', lowerC]
      · have : lowerC c ≠ 92 := fun h => hc (h92.1 h)
        simp [he, hc, this, ih', unreserved_lowerC]

theorem unreserved_not_special (c : Nat) (h : unreservedC c = true) : c ≠ 42 ∧ c ≠ 63 ∧ c ≠ 92 := by
  simp only [unreservedC, Bool.or_eq_true, Bool.and_eq_true, decide_eq_true_eq, beq_iff_eq] at h
  omega

/-- A body does not begin with a special character. -/
theorem body_head (B : Str) (hB : bodyStr false B = true) : ∀ c t, B = c :: t → c ≠ 42 ∧ c ≠ 63 := by
  intro c t heq
  subst heq
  simp only [bodyStr, Bool.false_eq_true, if_false] at hB
  by_cases hc : c = 92
  · subst hc; decide
  · simp only [hc, if_false, Bool.and_eq_true] at hB
    have := unreserved_not_special c hB.1
    exact ⟨this.1, this.2.1⟩

/-- The tokens of a body are the literals it stands for. -/
theorem tokens_body (e : Bool) (b : Str) (hb : bodyStr e b = true) :
    tokensAux e b = (unquoteAux e b).map .lit := by
  induction b generalizing e with
  | nil => rfl
  | cons c rest ih =>
    simp only [bodyStr] at hb
    by_cases he : e = true
    · simp only [he, if_true] at hb
      simp [tokensAux, unquoteAux, he, ih false hb]
    · have he' : e = false := by simpa using he
      subst he'
      by_cases hc : c = 92
      · simp only [hc, Bool.false_eq_true, if_false, if_true] at hb
        simp [tokensAux, unquoteAux, hc, ih true hb]
      · simp only [hc, Bool.false_eq_true, if_false, Bool.and_eq_true] at hb
        have hs := unreserved_not_special c hb.1
        simp [tokensAux, unquoteAux, hc, tokOf, hs.1, hs.2.1, ih false hb.2]

theorem tokensAux_body_append (e : Bool) (b y : Str) (hb : bodyStr e b = true) :
    tokensAux e (b ++ y) = tokensAux e b ++ tokensAux false y := by
  induction b generalizing e with
  | nil =>
    have : e = false := by simpa [bodyStr] using hb
    subst this; rfl
  | cons c rest ih =>
    simp only [bodyStr] at hb
    by_cases he : e = true
    · simp only [he, if_true] at hb
      simp [tokensAux, he, ih false hb]
    · have he' : e = false := by simpa using he
      subst he'
      by_cases hc : c = 92
      · simp only [hc, Bool.false_eq_true, if_false, if_true] at hb
        simp [tokensAux, hc, ih true hb]
      · simp only [hc, Bool.false_eq_true, if_false, Bool.and_eq_true] at hb
        simp [tokensAux, hc, ih false hb.2]

theorem tokensAux_specials (x y : Str) (hx : ∀ c ∈ x, c = 42 ∨ c = 63) :
    tokensAux false (x ++ y) = x.map tokOf ++ tokensAux false y := by
  induction x with
  | nil => rfl
  | cons c rest ih =>
    have hc : c ≠ 92 := by
      rcases hx c (by simp) with h | h <;> omega
    have hr : ∀ d ∈ rest, d = 42 ∨ d = 63 := fun d hd => hx d (by simp [hd])
    simp [tokensAux, hc, ih hr]

theorem leadStr_specials (w : Option Nat) : ∀ c ∈ leadStr w, c = 42 ∨ c = 63 := by
  cases w with
  | none => intro c hc; simp [leadStr] at hc; exact Or.inl hc
  | some n => intro c hc; simp [leadStr] at hc; exact Or.inr hc.2

theorem tokens_leadStr_append (w : Option Nat) (y : Str) :
    tokensAux false (leadStr w ++ y) = leadToks w ++ tokensAux false y := by
  rw [tokensAux_specials _ _ (leadStr_specials w), map_tokOf_leadStr]

theorem tokens_leadStr (w : Option Nat) : tokensAux false (leadStr w) = leadToks w := by
  have := tokens_leadStr_append w []
  simpa [tokensAux] using this

/-! ### the trailing step -/

theorem splitTail_specials (tl : Str) (h : ∀ c ∈ tl, c = 42 ∨ c = 63) : splitTail false tl = ([], tl) := by
  induction tl with
  | nil => rfl
  | cons c rest ih =>
    have hr : ∀ d ∈ rest, d = 42 ∨ d = 63 := fun d hd => h d (by simp [hd])
    have hc := h c (by simp)
    have h92 : (c == 92) = false := by rcases hc with h | h <;> subst h <;> rfl
    have hsp : (c == 42 || c == 63) = true := by rcases hc with h | h <;> subst h <;> rfl
    simp only [splitTail, h92, Bool.not_false, Bool.and_false, ih hr, hsp, Bool.true_and, List.isEmpty_nil,
      if_true]

/-- `wildTail` cuts a body followed by unquoted special characters after the body. -/
theorem splitTail_body (e : Bool) (b tl : Str) (hb : bodyStr e b = true) (h : ∀ c ∈ tl, c = 42 ∨ c = 63) :
    splitTail e (b ++ tl) = (b, tl) := by
  induction b generalizing e with
  | nil =>
    have : e = false := by simpa [bodyStr] using hb
    subst this
    exact splitTail_specials tl h
  | cons c rest ih =>
    simp only [bodyStr] at hb
    by_cases he : e = true
    · simp only [he, if_true] at hb
      subst he
      simp [splitTail, ih false hb]
    · have he' : e = false := by simpa using he
      subst he'
      by_cases hc : c = 92
      · simp only [hc, Bool.false_eq_true, if_false, if_true] at hb
        subst hc
        simp [splitTail, ih true hb]
      · simp only [hc, Bool.false_eq_true, if_false, Bool.and_eq_true] at hb
        have hs := unreserved_not_special c hb.1
        have h92 : (c == 92) = false := by simp [hc]
        have h42 : (c == 42) = false := by simp [hs.1]
        have h63 : (c == 63) = false := by simp [hs.2.1]
        simp [splitTail, h92, h42, h63, ih false hb.2]

theorem dropWhile_replicate_q (n : Nat) : (List.replicate n 63).dropWhile (· == 63) = [] := by
  induction n with
  | zero => rfl
  | succ n ih => simp [List.replicate_succ, ih]

theorem stripLead_replicate (n : Nat) : stripLead (List.replicate n 63) = (some n, []) := by
  cases n with
  | zero => exact stripLead_nil
  | succ n =>
    rw [List.replicate_succ, stripLead_cons_ne 63 _ (by decide)]
    have := dropWhile_replicate_q (n + 1)
    rw [List.replicate_succ] at this
    rw [this]
    simp

theorem stripTrail_leadStr (r : Option Nat) : stripTrail (leadStr r) = (r, []) := by
  cases r with
  | none => rfl
  | some n =>
    simp only [stripTrail, leadStr, List.reverse_replicate, stripLead_replicate, List.reverse_nil]

theorem stripTrailQ_body (b : Str) (r : Option Nat) (hb : bodyStr false b = true) :
    stripTrailQ (b ++ leadStr r) = (r, b) := by
  simp only [stripTrailQ, splitTail_body false b (leadStr r) hb (leadStr_specials r), stripTrail_leadStr,
    List.append_nil]

/-! ### the theorem -/

/-- `patCompare` is the specification's glob matching for every source value
    that `validate` accepts and every target. -/
theorem patCompare_eq_spec (s t : Str) (hv : validate s = true) :
    patCompare s t = CpeSpec.globMatches s t := by
  obtain ⟨_, _, _, l, body, r, hs, hb⟩ := validate_grammar s hv
  have hB : bodyStr false (lower body) = true := by rw [bodyStr_lower]; exact hb
  have hl : lower s = leadStr l ++ lower body ++ leadStr r := by
    rw [hs]
    simp only [lower, List.map_append]
    have h1 := lower_leadStr l
    have h2 := lower_leadStr r
    simp only [lower] at h1 h2
    rw [h1, h2]
  -- what the leading step leaves is again a body followed by a trailing wildcard
  have hrem : ∃ B' r', (stripLead (lower s)).2 = B' ++ leadStr r' ∧ bodyStr false B' = true := by
    rw [hl]
    rcases stripLead_rem l r (lower body) (body_head _ hB) with h | ⟨_, _, h⟩ | ⟨_, h⟩
    · exact ⟨lower body, r, h, hB⟩
    · exact ⟨[], none, by rw [h]; rfl, rfl⟩
    · exact ⟨[], some 0, by rw [h]; rfl, rfl⟩
  obtain ⟨B', r', hrem, hB'⟩ := hrem
  have e1 := stripLead_eq (lower s)
  have htoks : tokens (lower s) =
      leadToks (stripLead (lower s)).1 ++ ((unquote B').map .lit ++ leadToks r') := by
    rw [tokens]
    conv => lhs; rw [e1, hrem]
    rw [tokens_leadStr_append, tokensAux_body_append false B' _ hB', tokens_body false B' hB', tokens_leadStr]
    rfl
  apply Bool.eq_iff_iff.2
  unfold patCompare CpeSpec.globMatches
  simp only [hrem, stripTrailQ_body B' r' hB']
  rw [← lower_eq_map, htoks, glob_pattern, patLoop_iff]
  simp only [unquote, CpeSpec.unquote, unquoteAux_eq_spec]
  simp

end ClairModel.Cpe
