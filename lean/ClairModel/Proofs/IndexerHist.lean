/-
  Histories of operations: the lookup path, admissible histories keep stored
  reports intact.
-/
import ClairModel.Lib.Sm
import ClairModel.Proofs.IndexerFF
import ClairModel.Proofs.IndexerGC

namespace ClairModel.Indexer

/-- Re-submitting an indexed manifest, fault-free: three calls
    (ManifestScanned, IndexReport, SetIndexReport), nothing fetched, nothing
    scanned, the stored report returned, and the store unchanged except that
    the same report is written back. -/
theorem index_lookup (sem : Sem) (o : Oracle) (cfg : Cfg) (m : Manifest) (st : Store) (hff : FF o)
    (hne : cfg.scanners ≠ []) (hi : Inv sem st) (hsc : st.manifestScanned m cfg.scanners = true) :
    ∃ rep, st.report? m = some rep ∧
      (index sem o cfg m st false).err = none ∧
      (index sem o cfg m st false).report = some rep ∧
      (index sem o cfg m st false).st = { st with reports := (m, rep) :: st.reports } ∧
      (index sem o cfg m st false).e.trace = ['R', 'G', 'M'] ∧
      (index sem o cfg m st false).e.scans = [] ∧ (index sem o cfg m st false).e.fetched = [] := by
  obtain ⟨s, hs⟩ := List.exists_mem_of_ne_nil _ hne
  have hms := (Store.manifestScanned_iff _ _ _).1 hsc s hs
  have hm := hi.manifestPersisted m s hms
  have hr := hi.manifestReport m s hms
  cases hrep : st.report? m with
  | none => rw [hrep] at hr; cases hr
  | some rep =>
    refine ⟨rep, rfl, ?_⟩
    have h0 : ∀ p, o p = Fault.ok := hff
    simp [index, fuel, runLoop, stateFn, checkManifest, persistAndAdvance, W.call, enter, h0, hsc, hrep,
      Store.setIndexReport, hm]

theorem index_dead (sem : Sem) (o : Oracle) (cfg : Cfg) (m : Manifest) (st : Store) :
    (index sem o cfg m st true).st = st := by simp [index]

/-- Histories under one configuration in which every call is either made with
    a dead context, or fault-free, or (any faults but lost replies) on a
    manifest that is not yet recorded as indexed. -/
def Admissible (sem : Sem) : World → List Op → Prop
  | _, [] => True
  | wd, .config c :: rest => c = wd.cfg ∧ Admissible sem (step sem wd (.config c)).1 rest
  | wd, .index m o d :: rest =>
    (d = true ∨ FF o ∨ (NoCommitErr o ∧ wd.st.manifestScanned m wd.cfg.scanners = false)) ∧
    Admissible sem (step sem wd (.index m o d)).1 rest
  | wd, .delete ms :: rest => Admissible sem (step sem wd (.delete ms)).1 rest

theorem good_run (sem : Sem) : ∀ (ops : List Op) (wd : World), Good sem wd.cfg wd.st → Admissible sem wd ops →
    Good sem wd.cfg (Sm.run (step sem) wd ops).st ∧ (Sm.run (step sem) wd ops).cfg = wd.cfg
  | [], wd, hg, _ => ⟨hg, rfl⟩
  | .config c :: rest, wd, hg, ha => by
    obtain ⟨hc, ha⟩ := ha
    subst hc
    exact good_run sem rest _ hg ha
  | .index m o d :: rest, wd, hg, ha => by
    obtain ⟨hc, ha⟩ := ha
    have hg' : Good sem wd.cfg (index sem o wd.cfg m wd.st d).st := by
      cases d with
      | true => rw [index_dead]; exact hg
      | false =>
        rcases hc with hc | hc | hc
        · cases hc
        · exact good_index_ff sem o wd.cfg m wd.st hc hg
        · exact good_index_faulty sem o wd.cfg m wd.st false hg hc.1 hc.2
    exact good_run sem rest (step sem wd (.index m o d)).1 hg' ha
  | .delete ms :: rest, wd, hg, ha =>
    good_run sem rest (step sem wd (.delete ms)).1 (good_deleteManifests ms hg) ha

/-! ## The scan log over fault-free histories -/

theorem index_ff_scans (sem : Sem) (o : Oracle) (cfg : Cfg) (m : Manifest) (st : Store) (hff : FF o)
    (hne : cfg.scanners ≠ []) (hi : Inv sem st) :
    (index sem o cfg m st false).err = none ∧
    ScansOK (index sem o cfg m st false).st (index sem o cfg m st false).e.scans := by
  have hrun := runLoop_ff (sem := sem) (o := o) (cfg := cfg) (m := m) (st0 := st) hff hne fuel ⟨st, {}⟩
    { vs := cfg.scanners, report := {}, cur := .checkManifest } ⟨rfl, rfl⟩ hi (headCore_init sem cfg m st)
    (fun hh => by cases hh) (by simp [fuel]) ⟨List.nodup_nil, fun _ hx => by cases hx⟩
  unfold index
  simp only [Bool.false_eq_true, if_false]
  exact ⟨hrun.1, hrun.2.1⟩

/-- Every Index call of the history is fault-free with a live context, and
    every configuration has at least one scanner. -/
def FFOps : List Op → Prop
  | [] => True
  | .config c :: rest => c.scanners ≠ [] ∧ FFOps rest
  | .index _ o d :: rest => FF o ∧ d = false ∧ FFOps rest
  | .delete _ :: rest => FFOps rest

/-- World invariant of fault-free histories. -/
structure WScans (sem : Sem) (wd : World) : Prop where
  inv : Inv sem wd.st
  nonempty : wd.cfg.scanners ≠ []
  scans : ScansOK wd.st wd.scans

theorem scans_run (sem : Sem) : ∀ (ops : List Op) (wd : World), FFOps ops → WScans sem wd →
    WScans sem (Sm.run (step sem) wd ops)
  | [], _, _, h => h
  | .config c :: rest, wd, hff, h => by
    obtain ⟨hc, hff⟩ := hff
    exact scans_run sem rest _ hff ⟨h.inv, hc, h.scans⟩
  | .index m o d :: rest, wd, hff, h => by
    obtain ⟨ho, hd, hff⟩ := hff
    subst hd
    apply scans_run sem rest _ hff
    have hsp := index_spec sem o wd.cfg m wd.st false h.inv
    obtain ⟨_, hsc⟩ := index_ff_scans sem o wd.cfg m wd.st ho h.nonempty h.inv
    refine ⟨hsp.inv, h.nonempty, ?_, ?_⟩
    · show (_ ++ wd.scans).Nodup
      rw [List.nodup_append]
      refine ⟨hsc.nodup, h.scans.nodup, ?_⟩
      intro x hx y hy hxy
      subst hxy
      exact hsp.scans x hx (h.scans.marked x hy)
    · intro x hx
      rcases List.mem_append.1 hx with hx | hx
      · exact hsc.marked x hx
      · exact hsp.le.scannedLayer x (h.scans.marked x hx)
  | .delete ms :: rest, wd, hff, h => by
    apply scans_run sem rest _ hff
    refine ⟨Store.inv_deleteManifests ms h.inv, h.nonempty, ?_, ?_⟩
    · exact List.Nodup.sublist List.filter_sublist h.scans.nodup
    · intro x hx
      have := (List.mem_filter.1 hx).2
      exact of_decide_eq_true this

end ClairModel.Indexer

namespace ClairModel.Indexer

/-! ## Deleting the manifest repairs whatever a failed attempt left behind -/

/-- After an Index call on `m` under ANY oracle (lost replies and attempts on
    an already indexed manifest included) the store is good again once `m` is
    deleted: the other manifests were not touched, and `m` is forgotten. -/
theorem good_delete_after_index (sem : Sem) (o : Oracle) (cfg : Cfg) (m : Manifest) (st : Store) (d : Bool)
    (hg : Good sem cfg st) : Good sem cfg ((index sem o cfg m st d).st.deleteManifest m) := by
  have hsp := index_spec sem o cfg m st d hg.inv
  refine ⟨Store.inv_deleteManifest hsp.inv m, hg.nonempty, ?_⟩
  intro m' hsc
  obtain ⟨s, hs⟩ := List.exists_mem_of_ne_nil _ hg.nonempty
  have hms := (Store.manifestScanned_iff _ _ _).1 hsc
  have hne : m' ≠ m := by
    intro heq
    subst heq
    exact (Store.deleteManifest_forgets hsp.inv m').2.1 s (hms s hs)
  have hfr := Store.deleteManifest_frame (index sem o cfg m st d).st m m' hne
  rw [hfr.1, hsp.frame.report m' hne]
  apply hg.reports
  exact (Store.manifestScanned_iff _ _ _).2 fun s hs => (hsp.frame.scanned m' s hne).1 ((hfr.2.1 s).1 (hms s hs))

end ClairModel.Indexer
