/-
  go-apk-version: the comparison is a total preorder on all strings: the
  statement-by-statement transcription (`compareLoop`) equals the scan of the two
  token streams (`compare`), which is the lexicographic order of the streams
  with elements ordered by (rank of the token type, value).
-/
import ClairModel.Lib.OrderC03
import ClairModel.Model.VerApk

namespace ClairModel.VerApk
open ClairModel.Order ClairModel.OrderC03 ClairModel.VerCommon

/-- Rank of a token type as the *next* token of a version (higher = newer
    version): a pre-release suffix lowest, then END, revision, suffix number,
    post-release suffix, letter, digit, digit-or-zero, INVALID. -/
def rank (t : Tok) (v : Int) : Nat :=
  match t with
  | .suffix => if v < 0 then 0 else 4
  | .tEnd => 1
  | .revisionNo => 2
  | .suffixNo => 3
  | .letter => 5
  | .digit => 6
  | .digitOrZero => 7
  | .invalid => 8

def elemKey (a : Tok × Int) : Nat × Int :=
  (rank a.1 a.2, if a.1 = .tEnd ∨ a.1 = .invalid then 0 else a.2)

def keyOrd : Nat × Int → Nat × Int → Ordering := prodCmp natCmp intCmp

theorem keyOrd_totalPre : TotalPre keyOrd := prodCmp_totalPre natCmp_totalPre intCmp_totalPre

theorem valCmp_eq (a b : Int) : (if a < b then Ordering.lt else if a > b then .gt else .eq) = intCmp a b := by
  unfold intCmp; by_cases h1 : a < b <;> by_cases h2 : a = b <;> simp [h1, h2] <;> omega

theorem natCmp_self (n : Nat) : natCmp n n = .eq := natCmp_totalPre.refl n

theorem elemCmp_same (t : Tok) (va vb : Int) : elemCmp (t, va) (t, vb) = keyOrd (elemKey (t, va)) (elemKey (t, vb)) := by
  cases t <;> simp only [elemCmp, elemKey, rank, keyOrd, prodCmp, if_true, valCmp_eq, natCmp_self, Ordering.then,
    reduceCtorEq, or_false, or_true, if_false, intCmp_totalPre.refl]
  -- suffix
  by_cases h1 : va < 0 <;> by_cases h2 : vb < 0 <;> simp only [h1, h2, if_true, if_false, natCmp_self]
  · have : intCmp va vb = .lt := intCmp_lt.2 (by omega)
    simp [this, natCmp]
  · have : intCmp va vb = .gt := intCmp_gt.2 (by omega)
    simp [this, natCmp]

theorem elemCmp_diff (ta tb : Tok) (va vb : Int) (h : ta ≠ tb) : elemCmp (ta, va) (tb, vb) = keyOrd (elemKey (ta, va)) (elemKey (tb, vb)) := by
  by_cases h1 : va < 0 <;> by_cases h2 : vb < 0 <;> cases ta <;> cases tb <;> first
    | exact absurd rfl h
    | simp [elemCmp, elemKey, rank, keyOrd, prodCmp, Tok.val, natCmp, Ordering.then, h1, h2]
theorem elemCmp_eq_key (a b : Tok × Int) : elemCmp a b = keyOrd (elemKey a) (elemKey b) := by
  obtain ⟨ta, va⟩ := a
  obtain ⟨tb, vb⟩ := b
  by_cases h : ta = tb
  · subst h; exact elemCmp_same ta va vb
  · exact elemCmp_diff ta tb va vb h

theorem elemCmp_totalPre : TotalPre elemCmp := by
  have : elemCmp = keyCmp keyOrd elemKey := by
    funext a b; exact elemCmp_eq_key a b
  rw [this]; exact keyCmp_totalPre keyOrd_totalPre elemKey

theorem compare_totalPre : TotalPre compare :=
  keyCmp_totalPre (lexCmp_totalPre elemCmp_totalPre) tokens

/-! ### The transcription of `compare` is the scan of the two token streams -/

def terminal (t : Tok) : Prop := t = .tEnd ∨ t = .invalid

instance (t : Tok) : Decidable (terminal t) := by unfold terminal; infer_instance

theorem toks_zero (r : Reader) (t : Tok) : toks 0 r t = [(.invalid, 0)] := rfl

theorem toks_term (f : Nat) (r : Reader) (t : Tok) (h : terminal t) : toks (f + 1) r t = [(t, 0)] := by
  unfold terminal at h
  simp [toks, h]

theorem toks_step (f : Nat) (r : Reader) (t : Tok) (h : ¬ terminal t) :
    toks (f + 1) r t = (t, (getToken r t).1) :: toks f (getToken r t).2.2 (getToken r t).2.1 := by
  unfold terminal at h
  simp [toks, h]

theorem val_inj {t u : Tok} (h : t.val = u.val) : t = u := by
  cases t <;> cases u <;> simp [Tok.val] at h <;> rfl

/-- what the code after the loop computes when the next token types differ -/
theorem decide_ne (o : LoopOut) (hv : o.av = o.bv) (ht : o.at' ≠ o.bt) :
    decide' o = elemCmp (o.at', (getToken o.r1 o.at').1) (o.bt, (getToken o.r2 o.bt).1) := by
  unfold decide' elemCmp
  simp [hv, ht]

theorem elemCmp_ne_eq {a b : Tok × Int} (h : a.1 ≠ b.1) : elemCmp a b ≠ .eq := by
  unfold elemCmp
  simp only [h, if_false]
  split
  · simp
  · split
    · simp
    · split
      · simp
      · split
        · simp
        · next h1 h2 => exact absurd (val_inj (by omega)) h

theorem elemCmp_congr (t u : Tok) (x x' y y' : Int) (htu : t ≠ u)
    (hx : t = .suffix → x = x') (hy : u = .suffix → y = y') :
    elemCmp (t, x) (u, y) = elemCmp (t, x') (u, y') := by
  unfold elemCmp
  simp only [htu, if_false]
  by_cases ht : t = .suffix
  · rw [hx ht]
    by_cases hu : u = .suffix
    · rw [hy hu]
    · simp [hu]
  · by_cases hu : u = .suffix
    · rw [hy hu]; simp [ht]
    · simp [ht, hu]

/-- head value and tail of a token stream -/
def hV (f : Nat) (r : Reader) (t : Tok) : Int := if f = 0 ∨ terminal t then 0 else (getToken r t).1
def tl (f : Nat) (r : Reader) (t : Tok) : List (Tok × Int) :=
  if f = 0 ∨ terminal t then [] else toks (f - 1) (getToken r t).2.2 (getToken r t).2.1

theorem toks_view (f : Nat) (r : Reader) (t : Tok) : toks f r t = (eff f t, hV f r t) :: tl f r t := by
  cases f with
  | zero => simp [toks_zero, eff, hV, tl]
  | succ k =>
    by_cases h : terminal t
    · simp [toks_term k r t h, eff, hV, tl, h]
    · simp [toks_step k r t h, eff, hV, tl, h]

theorem eff_terminal_tl {f : Nat} {r : Reader} {t : Tok} (h : terminal (eff f t)) : tl f r t = [] := by
  unfold tl
  cases f with
  | zero => simp
  | succ k => simp [eff] at h; simp [h]

theorem eff_suffix {f : Nat} {r : Reader} {t : Tok} (h : eff f t = .suffix) : hV f r t = (getToken r (eff f t)).1 := by
  cases f with
  | zero => simp [eff] at h
  | succ k =>
    simp only [eff, Nat.succ_ne_zero, if_false] at h ⊢
    subst h
    simp [hV, terminal]

theorem cmpLoop_unfold (fa fb : Nat) (r1 r2 : Reader) (at' bt : Tok) (av bv : Int) :
    cmpLoop fa fb r1 r2 at' bt av bv =
      if eff fa at' = eff fb bt ∧ ¬ terminal (eff fa at') ∧ av = bv then
        cmpLoop (fa - 1) (fb - 1) (getToken r1 at').2.2 (getToken r2 bt).2.2
          (getToken r1 at').2.1 (getToken r2 bt).2.1 (getToken r1 at').1 (getToken r2 bt).1
      else ⟨r1, r2, eff fa at', eff fb bt, av, bv⟩ := by
  cases fa with
  | zero => simp [cmpLoop, eff, terminal]
  | succ k =>
    cases fb with
    | zero =>
      have : ¬ (at' = Tok.invalid ∧ ¬ terminal at' ∧ av = bv) := by
        intro h; exact h.2.1 (Or.inr h.1)
      simp [cmpLoop, eff, this]
    | succ m =>
      simp only [cmpLoop, eff, Nat.succ_ne_zero, if_false, terminal, not_or, Nat.add_sub_cancel, ne_eq]
      by_cases hc : at' = bt ∧ (¬at' = Tok.tEnd ∧ ¬at' = Tok.invalid) ∧ av = bv
      · simp [hc]
      · have hc' : ¬ (at' = bt ∧ ¬at' = Tok.tEnd ∧ ¬at' = Tok.invalid ∧ av = bv) := by
          intro h; exact hc ⟨h.1, ⟨h.2.1, h.2.2.1⟩, h.2.2.2⟩
        simp [hc, hc']

/-- leaving the loop with equal values -/
theorem exit_spec (fa fb : Nat) (r1 r2 : Reader) (at' bt : Tok) (v : Int)
    (h : ¬ (eff fa at' = eff fb bt ∧ ¬ terminal (eff fa at'))) :
    decide' ⟨r1, r2, eff fa at', eff fb bt, v, v⟩ = lexCmp elemCmp (toks fa r1 at') (toks fb r2 bt) := by
  rw [toks_view fa r1 at', toks_view fb r2 bt]
  simp only [lexCmp]
  by_cases hab : eff fa at' = eff fb bt
  · -- both terminal
    have hta : terminal (eff fa at') := by
      by_cases ht : terminal (eff fa at')
      · exact ht
      · exact absurd ⟨hab, ht⟩ h
    have htb : terminal (eff fb bt) := hab ▸ hta
    rw [eff_terminal_tl hta, eff_terminal_tl htb]
    have : elemCmp (eff fa at', hV fa r1 at') (eff fb bt, hV fb r2 bt) = .eq := by
      unfold elemCmp terminal at *
      simp [hab, htb]
    rw [this]
    simp [lexCmp, Ordering.then, decide', hab]
  · rw [decide_ne _ rfl hab]
    simp only []
    rw [elemCmp_congr _ _ _ (hV fa r1 at') _ (hV fb r2 bt) hab
      (fun hs => (eff_suffix hs).symm) (fun hs => (eff_suffix hs).symm)]
    rw [then_of_ne_eq (elemCmp_ne_eq hab)]
where
  then_of_ne_eq {x y : Ordering} (h : x ≠ .eq) : x.then y = x := by
    cases x <;> simp_all [Ordering.then]

theorem valCmp_elem (t : Tok) (x y : Int) (h : ¬ terminal t) :
    elemCmp (t, x) (t, y) = (if x < y then Ordering.lt else if x > y then .gt else .eq) := by
  unfold terminal at h
  unfold elemCmp
  simp [h]

theorem cmpLoop_spec : ∀ (fa fb : Nat) (r1 r2 : Reader) (at' bt : Tok) (av bv : Int),
    decide' (cmpLoop fa fb r1 r2 at' bt av bv) =
      (if av < bv then .lt else if av > bv then .gt
       else lexCmp elemCmp (toks fa r1 at') (toks fb r2 bt)) := by
  intro fa
  induction fa with
  | zero =>
    intro fb r1 r2 at' bt av bv
    rw [cmpLoop_unfold]
    have hnt : ¬ (eff 0 at' = eff fb bt ∧ ¬ terminal (eff 0 at')) := by
      intro h; exact h.2 (Or.inr rfl)
    have hc : ¬ (eff 0 at' = eff fb bt ∧ ¬ terminal (eff 0 at') ∧ av = bv) := fun h => hnt ⟨h.1, h.2.1⟩
    rw [if_neg hc]
    by_cases hv : av = bv
    · subst hv
      rw [exit_spec 0 fb r1 r2 at' bt av hnt]
      simp
    · simp only [decide']
      by_cases h1 : av < bv
      · simp [h1]
      · have h2 : av > bv := by omega
        simp [h1, h2]
  | succ k ih =>
    intro fb r1 r2 at' bt av bv
    rw [cmpLoop_unfold]
    by_cases hv : av = bv
    · subst hv
      by_cases hc : eff (k + 1) at' = eff fb bt ∧ ¬ terminal (eff (k + 1) at')
      · -- the loop goes round once more
        have hc' : eff (k + 1) at' = eff fb bt ∧ ¬ terminal (eff (k + 1) at') ∧ av = av := ⟨hc.1, hc.2, rfl⟩
        rw [if_pos hc']
        have hat : eff (k + 1) at' = at' := by simp [eff]
        rw [hat] at hc
        -- the other side has fuel left and the same type
        cases fb with
        | zero => exact absurd (by rw [hc.1]; exact Or.inr rfl) hc.2
        | succ m =>
          have hbt : bt = at' := by simpa [eff] using hc.1.symm
          subst hbt
          simp only [Nat.add_sub_cancel]
          rw [ih m, toks_step k r1 bt hc.2, toks_step m r2 bt hc.2]
          simp only [lexCmp, valCmp_elem bt _ _ hc.2, Int.lt_irrefl, if_false, gt_iff_lt]
          by_cases h1 : (getToken r1 bt).1 < (getToken r2 bt).1
          · simp [h1, Ordering.then]
          · by_cases h2 : (getToken r2 bt).1 < (getToken r1 bt).1
            · simp [h1, h2, Ordering.then]
            · simp [h1, h2, Ordering.then]
      · have hc' : ¬ (eff (k + 1) at' = eff fb bt ∧ ¬ terminal (eff (k + 1) at') ∧ av = av) :=
          fun h => hc ⟨h.1, h.2.1⟩
        rw [if_neg hc', exit_spec (k + 1) fb r1 r2 at' bt av hc]
        simp
    · have hc' : ¬ (eff (k + 1) at' = eff fb bt ∧ ¬ terminal (eff (k + 1) at') ∧ av = bv) :=
        fun h => hv h.2.2
      rw [if_neg hc']
      simp only [decide']
      by_cases h1 : av < bv
      · simp [h1]
      · have h2 : av > bv := by omega
        simp [h1, h2]

/-- The statement-by-statement transcription of `compare` and the scan of
    the two token streams are the same function. -/
theorem compareLoop_eq_compare (a b : Str) : compareLoop a b = compare a b := by
  unfold compareLoop compare tokens
  rw [cmpLoop_spec]
  simp

end ClairModel.VerApk
