/-
  go-apk-version: the comparison is a total preorder on all strings: the
  statement-by-statement transcription (`compareLoop`) equals the scan of the two
  token streams (`compare`), which is the lexicographic order of the streams
  with elements ordered by (rank of the token type, value).
-/
import ClairModel.Lib.OrderC03
import ClairModel.Model.VerApk

namespace ClairModel.VerApk
open ClairModel.Order ClairModel.OrderC03 ClairModel.VerCommon

/-- Rank of a token type as the *next* token of a version (higher = newer
    version): a pre-release suffix lowest, then END, revision, suffix number,
    post-release suffix, letter, digit, digit-or-zero, INVALID. -/
def rank (t : Tok) (v : Int) : Nat :=
  match t with
  | .suffix => if v < 0 then 0 else 4
  | .tEnd => 1
  | .revisionNo => 2
  | .suffixNo => 3
  | .letter => 5
  | .digit => 6
  | .digitOrZero => 7
  | .invalid => 8

def elemKey (a : Tok × Int) : Nat × Int :=
  (rank a.1 a.2, if a.1 = .tEnd ∨ a.1 = .invalid then 0 else a.2)

def keyOrd : Nat × Int → Nat × Int → Ordering := prodCmp natCmp intCmp

theorem keyOrd_totalPre : TotalPre keyOrd := prodCmp_totalPre natCmp_totalPre intCmp_totalPre

theorem valCmp_eq (a b : Int) : (if a < b then Ordering.lt else if a > b then .gt else .eq) = intCmp a b := by
  unfold intCmp; by_cases h1 : a < b <;> by_cases h2 : a = b <;> simp [h1, h2] <;> omega

theorem natCmp_self (n : Nat) : natCmp n n = .eq := natCmp_totalPre.refl n

theorem elemCmp_same (t : Tok) (va vb : Int) : elemCmp (t, va) (t, vb) = keyOrd (elemKey (t, va)) (elemKey (t, vb)) := by
  cases t <;> simp only [elemCmp, elemKey, rank, keyOrd, prodCmp, if_true, valCmp_eq, natCmp_self, Ordering.then,
    reduceCtorEq, or_false, or_true, if_false, intCmp_totalPre.refl]
  -- suffix
  by_cases h1 : va < 0 <;> by_cases h2 : vb < 0 <;> simp only [h1, h2, if_true, if_false, natCmp_self]
  · have : intCmp va vb = .lt := intCmp_lt.2 (by omega)
    simp [this, natCmp]
  · have : intCmp va vb = .gt := intCmp_gt.2 (by omega)
    simp [this, natCmp]

theorem elemCmp_diff (ta tb : Tok) (va vb : Int) (h : ta ≠ tb) : elemCmp (ta, va) (tb, vb) = keyOrd (elemKey (ta, va)) (elemKey (tb, vb)) := by
  by_cases h1 : va < 0 <;> by_cases h2 : vb < 0 <;> cases ta <;> cases tb <;> first
    | exact absurd rfl h
    | simp [elemCmp, elemKey, rank, keyOrd, prodCmp, Tok.val, natCmp, Ordering.then, h1, h2]
theorem elemCmp_eq_key (a b : Tok × Int) : elemCmp a b = keyOrd (elemKey a) (elemKey b) := by
  obtain ⟨ta, va⟩ := a
  obtain ⟨tb, vb⟩ := b
  by_cases h : ta = tb
  · subst h; exact elemCmp_same ta va vb
  · exact elemCmp_diff ta tb va vb h

theorem elemCmp_totalPre : TotalPre elemCmp := by
  have : elemCmp = keyCmp keyOrd elemKey := by
    funext a b; exact elemCmp_eq_key a b
  rw [this]; exact keyCmp_totalPre keyOrd_totalPre elemKey

theorem compare_totalPre : TotalPre compare :=
  keyCmp_totalPre (lexCmp_totalPre elemCmp_totalPre) tokens

/-! ### The transcription of `compare` is the scan of the two token streams -/

def terminal (t : Tok) : Prop := t = .tEnd ∨ t = .invalid

instance (t : Tok) : Decidable (terminal t) := by unfold terminal; infer_instance

theorem toks_zero (r : Reader) (t : Tok) : toks 0 r t = [(.invalid, 0)] := rfl

theorem toks_term (f : Nat) (r : Reader) (t : Tok) (h : terminal t) : toks (f + 1) r t = [(t, 0)] := by
  unfold terminal at h
  simp [toks, h]

theorem toks_step (f : Nat) (r : Reader) (t : Tok) (h : ¬ terminal t) :
    toks (f + 1) r t = (t, (getToken r t).1) :: toks f (getToken r t).2.2 (getToken r t).2.1 := by
  unfold terminal at h
  simp [toks, h]

theorem val_inj {t u : Tok} (h : t.val = u.val) : t = u := by
  cases t <;> cases u <;> simp [Tok.val] at h <;> rfl

/-- what the code after the loop computes when the next token types differ -/
theorem decide_ne (o : LoopOut) (hv : o.av = o.bv) (ht : o.at' ≠ o.bt) :
    decide' o = elemCmp (o.at', (getToken o.r1 o.at').1) (o.bt, (getToken o.r2 o.bt).1) := by
  unfold decide' elemCmp
  simp [hv, ht]

theorem elemCmp_ne_eq {a b : Tok × Int} (h : a.1 ≠ b.1) : elemCmp a b ≠ .eq := by
  unfold elemCmp
  simp only [h, if_false]
  split
  · simp
  · split
    · simp
    · split
      · simp
      · split
        · simp
        · next h1 h2 => exact absurd (val_inj (by omega)) h

theorem elemCmp_congr (t u : Tok) (x x' y y' : Int) (htu : t ≠ u)
    (hx : t = .suffix → x = x') (hy : u = .suffix → y = y') :
    elemCmp (t, x) (u, y) = elemCmp (t, x') (u, y') := by
  unfold elemCmp
  simp only [htu, if_false]
  by_cases ht : t = .suffix
  · rw [hx ht]
    by_cases hu : u = .suffix
    · rw [hy hu]
    · simp [hu]
  · by_cases hu : u = .suffix
    · rw [hy hu]; simp [ht]
    · simp [ht, hu]

/-- head value and tail of a token stream -/
def hV (f : Nat) (r : Reader) (t : Tok) : Int := if f = 0 ∨ terminal t then 0 else (getToken r t).1
def tl (f : Nat) (r : Reader) (t : Tok) : List (Tok × Int) :=
  if f = 0 ∨ terminal t then [] else toks (f - 1) (getToken r t).2.2 (getToken r t).2.1

theorem toks_view (f : Nat) (r : Reader) (t : Tok) : toks f r t = (eff f t, hV f r t) :: tl f r t := by
  cases f with
  | zero => simp [toks_zero, eff, hV, tl]
  | succ k =>
    by_cases h : terminal t
    · simp [toks_term k r t h, eff, hV, tl, h]
    · simp [toks_step k r t h, eff, hV, tl, h]

theorem eff_terminal_tl {f : Nat} {r : Reader} {t : Tok} (h : terminal (eff f t)) : tl f r t = [] := by
  unfold tl
  cases f with
  | zero => simp
  | succ k => simp [eff] at h; simp [h]

theorem eff_suffix {f : Nat} {r : Reader} {t : Tok} (h : eff f t = .suffix) : hV f r t = (getToken r (eff f t)).1 := by
  cases f with
  | zero => simp [eff] at h
  | succ k =>
    simp only [eff, Nat.succ_ne_zero, if_false] at h ⊢
    subst h
    simp [hV, terminal]

theorem cmpLoop_unfold (fa fb : Nat) (r1 r2 : Reader) (at' bt : Tok) (av bv : Int) :
    cmpLoop fa fb r1 r2 at' bt av bv =
      if eff fa at' = eff fb bt ∧ ¬ terminal (eff fa at') ∧ av = bv then
        cmpLoop (fa - 1) (fb - 1) (getToken r1 at').2.2 (getToken r2 bt).2.2
          (getToken r1 at').2.1 (getToken r2 bt).2.1 (getToken r1 at').1 (getToken r2 bt).1
      else ⟨r1, r2, eff fa at', eff fb bt, av, bv⟩ := by
  cases fa with
  | zero => simp [cmpLoop, eff, terminal]
  | succ k =>
    cases fb with
    | zero =>
      have : ¬ (at' = Tok.invalid ∧ ¬ terminal at' ∧ av = bv) := by
        intro h; exact h.2.1 (Or.inr h.1)
      simp [cmpLoop, eff, this]
    | succ m =>
      simp only [cmpLoop, eff, Nat.succ_ne_zero, if_false, terminal, not_or, Nat.add_sub_cancel, ne_eq]
      by_cases hc : at' = bt ∧ (¬at' = Tok.tEnd ∧ ¬at' = Tok.invalid) ∧ av = bv
      · simp [hc]
      · have hc' : ¬ (at' = bt ∧ ¬at' = Tok.tEnd ∧ ¬at' = Tok.invalid ∧ av = bv) := by
          intro h; exact hc ⟨h.1, ⟨h.2.1, h.2.2.1⟩, h.2.2.2⟩
        simp [hc, hc']

/-- leaving the loop with equal values -/
theorem exit_spec (fa fb : Nat) (r1 r2 : Reader) (at' bt : Tok) (v : Int)
    (h : ¬ (eff fa at' = eff fb bt ∧ ¬ terminal (eff fa at'))) :
    decide' ⟨r1, r2, eff fa at', eff fb bt, v, v⟩ = lexCmp elemCmp (toks fa r1 at') (toks fb r2 bt) := by
  rw [toks_view fa r1 at', toks_view fb r2 bt]
  simp only [lexCmp]
  by_cases hab : eff fa at' = eff fb bt
  · -- both terminal
    have hta : terminal (eff fa at') := by
      by_cases ht : terminal (eff fa at')
      · exact ht
      · exact absurd ⟨hab, ht⟩ h
    have htb : terminal (eff fb bt) := hab ▸ hta
    rw [eff_terminal_tl hta, eff_terminal_tl htb]
    have : elemCmp (eff fa at', hV fa r1 at') (eff fb bt, hV fb r2 bt) = .eq := by
      unfold elemCmp terminal at *
      simp [hab, htb]
    rw [this]
    simp [lexCmp, Ordering.then, decide', hab]
  · rw [decide_ne _ rfl hab]
    simp only []
    rw [elemCmp_congr _ _ _ (hV fa r1 at') _ (hV fb r2 bt) hab
      (fun hs => (eff_suffix hs).symm) (fun hs => (eff_suffix hs).symm)]
    rw [then_of_ne_eq (elemCmp_ne_eq hab)]
where
  then_of_ne_eq {x y : Ordering} (h : x ≠ .eq) : x.then y = x := by
    cases x <;> simp_all [Ordering.then]

theorem valCmp_elem (t : Tok) (x y : Int) (h : ¬ terminal t) :
    elemCmp (t, x) (t, y) = (if x < y then Ordering.lt else if x > y then .gt else .eq) := by
  unfold terminal at h
  unfold elemCmp
  simp [h]

theorem cmpLoop_spec : ∀ (fa fb : Nat) (r1 r2 : Reader) (at' bt : Tok) (av bv : Int),
    decide' (cmpLoop fa fb r1 r2 at' bt av bv) =
      (if av < bv then .lt else if av > bv then .gt
       else lexCmp elemCmp (toks fa r1 at') (toks fb r2 bt)) := by
  intro fa
  induction fa with
  | zero =>
    intro fb r1 r2 at' bt av bv
    rw [cmpLoop_unfold]
    have hnt : ¬ (eff 0 at' = eff fb bt ∧ ¬ terminal (eff 0 at')) := by
      intro h; exact h.2 (Or.inr rfl)
    have hc : ¬ (eff 0 at' = eff fb bt ∧ ¬ terminal (eff 0 at') ∧ av = bv) := fun h => hnt ⟨h.1, h.2.1⟩
    rw [if_neg hc]
    by_cases hv : av = bv
    · subst hv
      rw [exit_spec 0 fb r1 r2 at' bt av hnt]
      simp
    · simp only [decide']
      by_cases h1 : av < bv
      · simp [h1]
      · have h2 : av > bv := by omega
        simp [h1, h2]
  | succ k ih =>
    intro fb r1 r2 at' bt av bv
    rw [cmpLoop_unfold]
    by_cases hv : av = bv
    · subst hv
      by_cases hc : eff (k + 1) at' = eff fb bt ∧ ¬ terminal (eff (k + 1) at')
      · -- the loop goes round once more
        have hc' : eff (k + 1) at' = eff fb bt ∧ ¬ terminal (eff (k + 1) at') ∧ av = av := ⟨hc.1, hc.2, rfl⟩
        rw [if_pos hc']
        have hat : eff (k + 1) at' = at' := by simp [eff]
        rw [hat] at hc
        -- the other side has fuel left and the same type
        cases fb with
        | zero => exact absurd (by rw [hc.1]; exact Or.inr rfl) hc.2
        | succ m =>
          have hbt : bt = at' := by simpa [eff] using hc.1.symm
          subst hbt
          simp only [Nat.add_sub_cancel]
          rw [ih m, toks_step k r1 bt hc.2, toks_step m r2 bt hc.2]
          simp only [lexCmp, valCmp_elem bt _ _ hc.2, Int.lt_irrefl, if_false, gt_iff_lt]
          by_cases h1 : (getToken r1 bt).1 < (getToken r2 bt).1
          · simp [h1, Ordering.then]
          · by_cases h2 : (getToken r2 bt).1 < (getToken r1 bt).1
            · simp [h1, h2, Ordering.then]
            · simp [h1, h2, Ordering.then]
      · have hc' : ¬ (eff (k + 1) at' = eff fb bt ∧ ¬ terminal (eff (k + 1) at') ∧ av = av) :=
          fun h => hc ⟨h.1, h.2.1⟩
        rw [if_neg hc', exit_spec (k + 1) fb r1 r2 at' bt av hc]
        simp
    · have hc' : ¬ (eff (k + 1) at' = eff fb bt ∧ ¬ terminal (eff (k + 1) at') ∧ av = bv) :=
        fun h => hv h.2.2
      rw [if_neg hc']
      simp only [decide']
      by_cases h1 : av < bv
      · simp [h1]
      · have h2 : av > bv := by omega
        simp [h1, h2]

/-- The statement-by-statement transcription of `compare` and the scan of
    the two token streams are the same function. -/
theorem compareLoop_eq_compare (a b : Str) : compareLoop a b = compare a b := by
  unfold compareLoop compare tokens
  rw [cmpLoop_spec]
  simp

/-! ### The token bound of the model is never reached -/

set_option linter.unusedSimpArgs false

/-- potential: twice the unread length, plus one for the two token types whose
    `getToken` may consume nothing and hand over to a letter -/
def pot (rd : Reader) (t : Tok) : Nat :=
  2 * rd.rest.length + (if t = .digit ∨ t = .digitOrZero then 1 else 0)

theorem digits_len : ∀ (s : Str) (v : Int), (digits s v).2.length ≤ s.length
  | [], _ => by simp [digits]
  | c :: cs, v => by
    unfold digits
    split
    · have := digits_len cs (wrap64 (v * 10 + digitVal c)); simp; omega
    · simp

theorem zeros_len (s : Str) : ∀ v : Int, (zeros s v).2.length ≤ s.length := by
  induction s with
  | nil => intro v; simp [zeros]
  | cons c cs ih =>
    intro v
    by_cases h : c = '0'
    · subst h
      have := ih (v - 1)
      simp only [zeros, List.length_cons]
      omega
    · have : zeros (c :: cs) v = (v, c :: cs) := by
        unfold zeros
        split
        · next heq => simp at heq; exact absurd heq.1 h
        · rfl
      rw [this]; simp

theorem matchSuffix_len (rd : Reader) : ∀ (l : List Str) (i : Nat) (j n : Nat),
    (∀ s ∈ l, 1 ≤ s.length) → matchSuffix rd l i = some (j, n) → 1 ≤ n ∧ n ≤ rd.rest.length
  | [], _, _, _, _, h => by simp [matchSuffix] at h
  | s :: ss, i, j, n, hl, h => by
    unfold matchSuffix at h
    split at h
    · next he =>
      simp only [Option.some.injEq, Prod.mk.injEq] at h
      have h1 : 1 ≤ s.length := hl s (by simp)
      simp only [Reader.peek] at he
      have : (rd.rest.take s.length).length = s.length := by rw [he]
      rw [List.length_take] at this
      omega
    · exact matchSuffix_len rd ss (i + 1) j n (fun s hs => hl s (by simp [hs])) h

theorem unread_after_read (c : Char) (cs : Str) :
    (Reader.unread { rest := cs, last := some c }).rest = c :: cs := rfl

/-- `nextToken` on a non-empty reader: it ends the stream, or consumes at
    least one character, or pushes the character back and hands over to the token
    type that will consume it. -/
theorem nextToken_progress (rd : Reader) (t : Tok) (c : Char) (cs : Str) (h : rd.rest = c :: cs) :
    terminal (nextToken rd t).1 ∨
    (nextToken rd t).2.rest.length + 1 ≤ rd.rest.length ∨
    ((nextToken rd t).2.rest = rd.rest ∧
      (((nextToken rd t).1 = .letter ∧ (t = .digit ∨ t = .digitOrZero)) ∨
       ((nextToken rd t).1 = .digit ∧ t = .letter) ∨
       ((nextToken rd t).1 = .suffixNo ∧ t = .suffix))) := by
  obtain ⟨rest, last⟩ := rd
  simp only at h
  subst h
  unfold nextToken
  simp only [Reader.read]
  by_cases h1 : ((t = .digit || t = .digitOrZero) && isLower c) = true
  · -- letter, pushed back
    simp only [h1, if_true]
    have ht : t = .digit ∨ t = .digitOrZero := by
      simp only [Bool.and_eq_true, Bool.or_eq_true, decide_eq_true_eq] at h1; exact h1.1
    rcases ht with ht | ht <;> subst ht <;> simp [Tok.val, Reader.unread, terminal]
  · simp only [h1, Bool.false_eq_true, if_false]
    by_cases h2 : (decide (t = .letter) && isDigit c) = true
    · simp only [h2, if_true]
      have ht : t = .letter := by
        simp only [Bool.and_eq_true, decide_eq_true_eq] at h2; exact h2.1
      subst ht
      simp [Tok.val, Reader.unread, terminal]
    · simp only [h2, Bool.false_eq_true, if_false]
      by_cases h3 : (decide (t = .suffix) && isDigit c) = true
      · simp only [h3, if_true]
        have ht : t = .suffix := by
          simp only [Bool.and_eq_true, decide_eq_true_eq] at h3; exact h3.1
        subst ht
        simp [Tok.val, Reader.unread, terminal]
      · simp only [h3, Bool.false_eq_true, if_false]
        by_cases h4 : c = '.'
        · simp only [h4, if_true]
          cases t <;> simp [Tok.val, Reader.unread, terminal]
        · simp only [h4, if_false]
          by_cases h5 : c = '_'
          · simp only [h5, if_true]
            cases t <;> simp [Tok.val, Reader.unread, terminal]
          · simp only [h5, if_false]
            by_cases h6 : c = '-'
            · simp only [h6, if_true]
              cases cs with
              | nil => cases t <;> simp [Tok.val, Reader.unread, terminal]
              | cons d ds => cases t <;> simp [Tok.val, Reader.unread, terminal] <;> omega
            · simp only [h6, if_false]
              cases t <;> simp [Tok.val, Reader.unread, terminal]

theorem finish_progress (rd rd1 : Reader) (t nt : Tok) (value : Int)
    (hlen : rd1.rest.length ≤ rd.rest.length)
    (hstrict : t = .letter ∨ t = .suffix → rd1.rest.length + 1 ≤ rd.rest.length)
    (hnt : nt = .invalid ∨ (nt = .digit ∧ rd1.rest.length + 1 ≤ rd.rest.length)) :
    terminal (finish value nt rd1 t).2.1 ∨
      pot (finish value nt rd1 t).2.2 (finish value nt rd1 t).2.1 < pot rd t := by
  unfold finish
  simp only []
  cases hr : rd1.rest with
  | nil => left; simp [terminal]
  | cons c cs =>
    simp only [reduceCtorEq, if_false]
    rcases hnt with hnt | ⟨hnt, hl⟩
    · subst hnt
      simp only [ne_eq, not_true_eq_false, if_false]
      have hp := nextToken_progress { rest := rd1.rest, last := none } t c cs (by simp [hr])
      simp only [hr] at hp
      rcases hp with hp | hp | ⟨hp1, hp2⟩
      · left; exact hp
      · right
        unfold pot
        simp only [List.length_cons] at hp
        rw [hr] at hlen
        simp only [List.length_cons] at hlen
        split <;> split <;> omega
      · right
        unfold pot
        rw [hp1]
        rw [hr] at hlen hstrict
        simp only [List.length_cons] at hlen hstrict ⊢
        rcases hp2 with ⟨h1, h2⟩ | ⟨h1, h2⟩ | ⟨h1, h2⟩
        · rw [h1]; rcases h2 with h2 | h2 <;> subst h2 <;> simp <;> omega
        · rw [h1]; subst h2
          have := hstrict (Or.inl rfl)
          simp; omega
        · rw [h1]; subst h2
          have := hstrict (Or.inr rfl)
          simp; omega
    · subst hnt
      right
      simp only [ne_eq, reduceCtorEq, not_false_eq_true, if_true]
      unfold pot
      rw [hr] at hl
      simp only [List.length_cons] at hl ⊢
      split <;> omega

theorem presuf_len : ∀ s ∈ preSuffixes, 1 ≤ s.length := by decide
theorem postsuf_len : ∀ s ∈ postSuffixes, 1 ≤ s.length := by decide

/-- One `getToken`: the stream ends, or the potential drops. -/
theorem getToken_progress (rd : Reader) (t : Tok) :
    terminal (getToken rd t).2.1 ∨ pot (getToken rd t).2.2 (getToken rd t).2.1 < pot rd t := by
  unfold getToken
  cases t with
  | invalid => left; simp [tokenBody, terminal]
  | tEnd => left; simp [tokenBody, terminal]
  | digitOrZero =>
    cases hr : rd.rest with
    | nil =>
      simp only [tokenBody, hr]
      apply finish_progress rd _ .digitOrZero .invalid
      · simp [digits]
      · simp
      · left; rfl
    | cons c cs =>
      by_cases hc : c = '0'
      · simp only [tokenBody, hr, hc, if_true]
        apply finish_progress rd _ .digitOrZero .digit
        · have := zeros_len cs (-1); simp [hr]; omega
        · simp
        · right
          refine ⟨rfl, ?_⟩
          have := zeros_len cs (-1); simp [hr]; omega
      · simp only [tokenBody, hr, hc, if_false]
        apply finish_progress rd _ .digitOrZero .invalid
        · have := digits_len (c :: cs) 0; simpa [hr] using this
        · simp
        · left; rfl
  | digit =>
    simp only [tokenBody]
    apply finish_progress rd _ .digit .invalid
    · exact digits_len rd.rest 0
    · simp
    · left; rfl
  | suffixNo =>
    simp only [tokenBody]
    apply finish_progress rd _ .suffixNo .invalid
    · exact digits_len rd.rest 0
    · simp
    · left; rfl
  | revisionNo =>
    simp only [tokenBody]
    apply finish_progress rd _ .revisionNo .invalid
    · exact digits_len rd.rest 0
    · simp
    · left; rfl
  | letter =>
    simp only [tokenBody]
    cases hr : rd.rest with
    | nil =>
      left
      simp [finish, Reader.read, hr, terminal]
    | cons c cs =>
      apply finish_progress rd _ .letter .invalid
      · simp [Reader.read, hr]
      · intro _; simp [Reader.read, hr]
      · left; rfl
  | suffix =>
    simp only [tokenBody]
    cases h1 : matchSuffix rd preSuffixes 0 with
    | some p =>
      obtain ⟨i, n⟩ := p
      have := matchSuffix_len rd preSuffixes 0 i n presuf_len h1
      simp only []
      apply finish_progress rd _ .suffix .invalid
      · simp [Reader.discard]
      · intro _; simp [Reader.discard]; omega
      · left; rfl
    | none =>
      simp only []
      cases h2 : matchSuffix rd postSuffixes 0 with
      | some p =>
        obtain ⟨i, n⟩ := p
        have := matchSuffix_len rd postSuffixes 0 i n postsuf_len h2
        simp only []
        apply finish_progress rd _ .suffix .invalid
        · simp [Reader.discard]
        · intro _; simp [Reader.discard]; omega
        · left; rfl
      | none => left; simp [terminal]

/-- With fuel above the potential the stream is complete: more fuel changes nothing. -/
theorem toks_stable : ∀ (n : Nat) (rd : Reader) (t : Tok), pot rd t + 2 ≤ n → toks n rd t = toks (n + 1) rd t
  | 0, _, _, h => by omega
  | k + 1, rd, t, h => by
    by_cases ht : terminal t
    · rw [toks_term k rd t ht, toks_term (k + 1) rd t ht]
    · rw [toks_step k rd t ht, toks_step (k + 1) rd t ht]
      congr 1
      rcases getToken_progress rd t with hp | hp
      · -- the next type is terminal: any positive fuel gives the same one-element stream
        have hk : 1 ≤ k := by omega
        obtain ⟨j, rfl⟩ : ∃ j, k = j + 1 := ⟨k - 1, by omega⟩
        rw [toks_term j _ _ hp, toks_term (j + 1) _ _ hp]
      · exact toks_stable k _ _ (by omega)

theorem toks_stable_le (rd : Reader) (t : Tok) (n : Nat) (h : pot rd t + 2 ≤ n) :
    ∀ k, toks (n + k) rd t = toks n rd t
  | 0 => rfl
  | k + 1 => by
    rw [← Nat.add_assoc, ← toks_stable (n + k) rd t (by omega)]
    exact toks_stable_le rd t n h k

/-- The `2·len + 4` bound of `tokens` is never reached: any larger bound
    yields the same stream. -/
theorem tokens_bound_unreachable (ver : Str) (n : Nat) (h : 2 * ver.length + 4 ≤ n) :
    toks n { rest := ver } .digit = tokens ver := by
  obtain ⟨k, rfl⟩ : ∃ k, n = (2 * ver.length + 4) + k := ⟨n - (2 * ver.length + 4), by omega⟩
  exact toks_stable_le _ _ _ (by simp [pot]) k

theorem toks_ne_nil (n : Nat) (rd : Reader) (t : Tok) : toks n rd t ≠ [] := by
  rw [toks_view]; simp

/-- `Valid` says whether the token stream ends with `END` (rather than `INVALID`). -/
theorem validLoop_eq : ∀ (n : Nat) (rd : Reader) (t : Tok),
    validLoop n rd t = decide ((toks n rd t).getLast? = some (.tEnd, 0))
  | 0, _, _ => by simp [validLoop, toks]
  | k + 1, rd, t => by
    by_cases ht : terminal t
    · rw [toks_term k rd t ht]
      rcases ht with ht | ht <;> subst ht <;> simp [validLoop]
    · rw [toks_step k rd t ht]
      have hne := toks_ne_nil k (getToken rd t).2.2 (getToken rd t).2.1
      rw [List.getLast?_cons_of_ne_nil hne, ← validLoop_eq k]
      unfold terminal at ht
      simp only [not_or] at ht
      simp [validLoop, ht.1, ht.2]

theorem valid_iff_ends (ver : Str) : valid ver = true ↔ (tokens ver).getLast? = some (.tEnd, 0) := by
  unfold valid tokens
  rw [validLoop_eq]
  simp

end ClairModel.VerApk
