/-
  go-apk-version: the comparison (in its token-stream formulation) is a total
  preorder on all strings: it is the lexicographic order of the token streams
  with elements ordered by (rank of the token type, value).
-/
import ClairModel.Lib.OrderC03
import ClairModel.Model.VerApk

namespace ClairModel.VerApk
open ClairModel.Order ClairModel.OrderC03 ClairModel.VerCommon

/-- Rank of a token type as the *next* token of a version (higher = newer
    version): a pre-release suffix lowest, then END, revision, suffix number,
    post-release suffix, letter, digit, digit-or-zero, INVALID. -/
def rank (t : Tok) (v : Int) : Nat :=
  match t with
  | .suffix => if v < 0 then 0 else 4
  | .tEnd => 1
  | .revisionNo => 2
  | .suffixNo => 3
  | .letter => 5
  | .digit => 6
  | .digitOrZero => 7
  | .invalid => 8

def elemKey (a : Tok × Int) : Nat × Int :=
  (rank a.1 a.2, if a.1 = .tEnd ∨ a.1 = .invalid then 0 else a.2)

def keyOrd : Nat × Int → Nat × Int → Ordering := prodCmp natCmp intCmp

theorem keyOrd_totalPre : TotalPre keyOrd := prodCmp_totalPre natCmp_totalPre intCmp_totalPre

theorem valCmp_eq (a b : Int) : (if a < b then Ordering.lt else if a > b then .gt else .eq) = intCmp a b := by
  unfold intCmp; by_cases h1 : a < b <;> by_cases h2 : a = b <;> simp [h1, h2] <;> omega

theorem natCmp_self (n : Nat) : natCmp n n = .eq := natCmp_totalPre.refl n

theorem elemCmp_same (t : Tok) (va vb : Int) : elemCmp (t, va) (t, vb) = keyOrd (elemKey (t, va)) (elemKey (t, vb)) := by
  cases t <;> simp only [elemCmp, elemKey, rank, keyOrd, prodCmp, if_true, valCmp_eq, natCmp_self, Ordering.then,
    reduceCtorEq, or_false, or_true, if_false, intCmp_totalPre.refl]
  -- suffix
  by_cases h1 : va < 0 <;> by_cases h2 : vb < 0 <;> simp only [h1, h2, if_true, if_false, natCmp_self]
  · have : intCmp va vb = .lt := intCmp_lt.2 (by omega)
    simp [this, natCmp]
  · have : intCmp va vb = .gt := intCmp_gt.2 (by omega)
    simp [this, natCmp]

theorem elemCmp_diff (ta tb : Tok) (va vb : Int) (h : ta ≠ tb) : elemCmp (ta, va) (tb, vb) = keyOrd (elemKey (ta, va)) (elemKey (tb, vb)) := by
  by_cases h1 : va < 0 <;> by_cases h2 : vb < 0 <;> cases ta <;> cases tb <;> first
    | exact absurd rfl h
    | simp [elemCmp, elemKey, rank, keyOrd, prodCmp, Tok.val, natCmp, Ordering.then, h1, h2]
theorem elemCmp_eq_key (a b : Tok × Int) : elemCmp a b = keyOrd (elemKey a) (elemKey b) := by
  obtain ⟨ta, va⟩ := a
  obtain ⟨tb, vb⟩ := b
  by_cases h : ta = tb
  · subst h; exact elemCmp_same ta va vb
  · exact elemCmp_diff ta tb va vb h

theorem elemCmp_totalPre : TotalPre elemCmp := by
  have : elemCmp = keyCmp keyOrd elemKey := by
    funext a b; exact elemCmp_eq_key a b
  rw [this]; exact keyCmp_totalPre keyOrd_totalPre elemKey

theorem compare_totalPre : TotalPre compare :=
  keyCmp_totalPre (lexCmp_totalPre elemCmp_totalPre) tokens

end ClairModel.VerApk
