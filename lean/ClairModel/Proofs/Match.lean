/-
  Helper lemmas for C05 (functional part): association lists, the collector
  fold, the controller's filter loop.
-/
import ClairModel.Model.Match

namespace ClairModel.Match

/-! ### find / upd -/

theorem find_upd {β : Type} (k k' : Nat) (f : Option β → β) (m : List (Nat × β)) :
    find k' (upd k f m) = if k' = k then some (f (find k m)) else find k' m := by
  induction m with
  | nil =>
    by_cases h : k' = k
    · subst h; simp [upd, find]
    · have h' : ¬ k = k' := fun e => h e.symm
      simp [upd, find, h, h']
  | cons kv t ih =>
    obtain ⟨k₀, v₀⟩ := kv
    by_cases h0 : k₀ = k
    · subst h0
      by_cases h : k' = k₀
      · subst h; simp [upd, find]
      · have h' : ¬ k₀ = k' := fun e => h e.symm
        simp [upd, find, h, h']
    · by_cases h : k' = k
      · subst h
        simp [upd, find, h0, ih]
      · by_cases h1 : k₀ = k'
        · simp [upd, find, h, h1]
        · simp [upd, find, h0, h, h1, ih]

theorem getL_appendAt {α : Type} (k k' : Nat) (xs : List α) (m : List (Nat × List α)) :
    getL k' (appendAt k xs m) = if k' = k then getL k m ++ xs else getL k' m := by
  unfold getL appendAt
  rw [find_upd]
  by_cases h : k' = k <;> simp [h]

theorem find_appendAt_isSome {α : Type} (k k' : Nat) (xs : List α) (m : List (Nat × List α)) :
    (find k' (appendAt k xs m)).isSome = (decide (k' = k) || (find k' m).isSome) := by
  unfold appendAt
  rw [find_upd]
  by_cases h : k' = k <;> simp [h]

/-- Membership in the flattened view of a map of slices. -/
theorem mem_events {out : MOut} {k : Nat} {v : Vuln} :
    (k, v) ∈ events out ↔ ∃ vs, (k, vs) ∈ out ∧ v ∈ vs := by
  unfold events
  simp only [List.mem_flatMap, List.mem_map]
  constructor
  · rintro ⟨⟨k', vs⟩, hm, v', hv, he⟩
    simp only [Prod.mk.injEq] at he
    obtain ⟨rfl, rfl⟩ := he
    exact ⟨vs, hm, hv⟩
  · rintro ⟨vs, hm, hv⟩
    exact ⟨(k, vs), hm, v, hv, rfl⟩

/-- Events of a map after `m[k] = append(m[k], xs...)`. -/
theorem mem_events_appendAt (k : Nat) (xs : List Vuln) (m : MOut) (k' : Nat) (v : Vuln) :
    (k', v) ∈ events (appendAt k xs m) ↔ (k', v) ∈ events m ∨ (k' = k ∧ v ∈ xs) := by
  induction m with
  | nil =>
    simp only [appendAt, upd, Option.getD_none, List.nil_append]
    rw [mem_events, mem_events]
    simp only [List.mem_singleton, Prod.mk.injEq, List.not_mem_nil, false_and, exists_false, false_or]
    constructor
    · rintro ⟨vs, ⟨rfl, rfl⟩, hv⟩; exact ⟨rfl, hv⟩
    · rintro ⟨rfl, hv⟩; exact ⟨xs, ⟨rfl, rfl⟩, hv⟩
  | cons kv t ih =>
    obtain ⟨k₀, v₀⟩ := kv
    by_cases h0 : k₀ = k
    · subst h0
      simp only [appendAt, upd, if_true, Option.getD_some]
      rw [mem_events, mem_events]
      simp only [List.mem_cons, Prod.mk.injEq]
      constructor
      · rintro ⟨vs, (⟨rfl, rfl⟩ | ht), hv⟩
        · rcases List.mem_append.1 hv with h | h
          · exact Or.inl ⟨v₀, Or.inl ⟨rfl, rfl⟩, h⟩
          · exact Or.inr ⟨rfl, h⟩
        · exact Or.inl ⟨vs, Or.inr ht, hv⟩
      · rintro (⟨vs, (⟨rfl, rfl⟩ | ht), hv⟩ | ⟨rfl, hv⟩)
        · exact ⟨vs ++ xs, Or.inl ⟨rfl, rfl⟩, List.mem_append.2 (Or.inl hv)⟩
        · exact ⟨vs, Or.inr ht, hv⟩
        · exact ⟨v₀ ++ xs, Or.inl ⟨rfl, rfl⟩, List.mem_append.2 (Or.inr hv)⟩
    · have ih' : (k', v) ∈ events (upd k (fun o => o.getD [] ++ xs) t) ↔ (k', v) ∈ events t ∨ (k' = k ∧ v ∈ xs) := ih
      simp only [appendAt, upd, h0, if_false]
      have hc : ∀ (l : MOut), (k', v) ∈ events ((k₀, v₀) :: l) ↔ ((k' = k₀ ∧ v ∈ v₀) ∨ (k', v) ∈ events l) := by
        intro l
        rw [mem_events, mem_events]
        simp only [List.mem_cons, Prod.mk.injEq]
        constructor
        · rintro ⟨vs, (⟨rfl, rfl⟩ | ht), hv⟩
          · exact Or.inl ⟨rfl, hv⟩
          · exact Or.inr ⟨vs, ht, hv⟩
        · rintro (⟨rfl, hv⟩ | ⟨vs, ht, hv⟩)
          · exact ⟨v₀, Or.inl ⟨rfl, rfl⟩, hv⟩
          · exact ⟨vs, Or.inr ht, hv⟩
      rw [hc, hc, ih']
      constructor
      · rintro (h | h | h)
        · exact Or.inl (Or.inl h)
        · exact Or.inl (Or.inr h)
        · exact Or.inr h
      · rintro ((h | h) | h)
        · exact Or.inl h
        · exact Or.inr (Or.inl h)
        · exact Or.inr (Or.inr h)

/-! ### the collector fold -/

/-- The vulnerability stored last under `id` by the collector, if any. -/
def lastWith (id : Nat) : List (Nat × Vuln) → Option Vuln
  | [] => none
  | e :: evs =>
    match lastWith id evs with
    | some v => some v
    | none => if e.2.id = id then some e.2 else none

theorem lastWith_some {id : Nat} {evs : List (Nat × Vuln)} {v : Vuln} (h : lastWith id evs = some v) :
    v.id = id ∧ ∃ e ∈ evs, e.2 = v := by
  induction evs with
  | nil => simp [lastWith] at h
  | cons e evs ih =>
    simp only [lastWith] at h
    cases hl : lastWith id evs with
    | some v' =>
      rw [hl] at h
      simp only [Option.some.injEq] at h
      subst h
      obtain ⟨h1, e', he', h2⟩ := ih hl
      exact ⟨h1, e', List.mem_cons_of_mem _ he', h2⟩
    | none =>
      rw [hl] at h
      by_cases hid : e.2.id = id
      · simp only [hid, if_true, Option.some.injEq] at h
        subst h
        exact ⟨hid, e, List.mem_cons_self, rfl⟩
      · simp [hid] at h

theorem lastWith_none {id : Nat} {evs : List (Nat × Vuln)} :
    lastWith id evs = none ↔ ∀ e ∈ evs, e.2.id ≠ id := by
  induction evs with
  | nil => simp [lastWith]
  | cons e evs ih =>
    simp only [lastWith]
    cases hl : lastWith id evs with
    | some v' =>
      simp only [reduceCtorEq, false_iff]
      intro hall
      have := ih.2 (fun e' he' => hall e' (List.mem_cons_of_mem _ he'))
      rw [hl] at this
      cases this
    | none =>
      have hrest := ih.1 hl
      by_cases hid : e.2.id = id
      · simp only [hid, if_true, reduceCtorEq, false_iff]
        intro hall
        exact hall e List.mem_cons_self hid
      · simp only [hid, if_false, true_iff]
        intro e' he'
        rcases List.mem_cons.1 he' with rfl | h
        · exact hid
        · exact hrest e' h

theorem collectFrom_vuln (r : Report) (evs : List (Nat × Vuln)) (id : Nat) :
    find id (collectFrom r evs).vulns = (lastWith id evs).or (find id r.vulns) := by
  induction evs generalizing r with
  | nil => simp [collectFrom, lastWith]
  | cons e evs ih =>
    have : collectFrom r (e :: evs) = collectFrom (collectStep r e) evs := rfl
    rw [this, ih]
    simp only [lastWith]
    cases hl : lastWith id evs with
    | some v => simp
    | none =>
      simp only [Option.none_or, collectStep]
      rw [find_upd]
      by_cases hid : id = e.2.id
      · simp [hid]
      · have : ¬ e.2.id = id := fun h => hid h.symm
        simp [hid, this]

theorem collectFrom_pkg (r : Report) (evs : List (Nat × Vuln)) (pkg : Nat) :
    getL pkg (collectFrom r evs).pkgVulns =
      getL pkg r.pkgVulns ++ (evs.filter (fun e => e.1 = pkg)).map (fun e => e.2.id) := by
  induction evs generalizing r with
  | nil => simp [collectFrom]
  | cons e evs ih =>
    have : collectFrom r (e :: evs) = collectFrom (collectStep r e) evs := rfl
    rw [this, ih]
    simp only [collectStep]
    rw [getL_appendAt]
    by_cases h : pkg = e.1
    · have h' : e.1 = pkg := h.symm
      simp [h]
    · have h' : ¬ e.1 = pkg := fun x => h x.symm
      simp [h, h']

theorem collectFrom_key (r : Report) (evs : List (Nat × Vuln)) (pkg : Nat) :
    (find pkg (collectFrom r evs).pkgVulns).isSome =
      ((find pkg r.pkgVulns).isSome || evs.any (fun e => e.1 = pkg)) := by
  induction evs generalizing r with
  | nil => simp [collectFrom]
  | cons e evs ih =>
    have : collectFrom r (e :: evs) = collectFrom (collectStep r e) evs := rfl
    rw [this, ih]
    simp only [collectStep]
    rw [find_appendAt_isSome]
    by_cases h : pkg = e.1
    · have h' : e.1 = pkg := h.symm
      simp [h]
    · have h' : ¬ e.1 = pkg := fun x => h x.symm
      simp [h, h']

theorem collect_vuln (evs : List (Nat × Vuln)) (id : Nat) :
    find id (collect evs).vulns = lastWith id evs := by
  simp [collect, collectFrom_vuln, Report.empty, find]

theorem collect_pkg (evs : List (Nat × Vuln)) (pkg : Nat) :
    getL pkg (collect evs).pkgVulns = (evs.filter (fun e => e.1 = pkg)).map (fun e => e.2.id) := by
  unfold collect
  rw [collectFrom_pkg]
  simp [Report.empty, getL, find]

theorem collect_key (evs : List (Nat × Vuln)) (pkg : Nat) :
    (find pkg (collect evs).pkgVulns).isSome = evs.any (fun e => e.1 = pkg) := by
  simp [collect, collectFrom_key, Report.empty, find]

/-- Equal ids carry equal vulnerabilities. -/
def IdFunctional (evs : List (Nat × Vuln)) : Prop :=
  ∀ e₁ ∈ evs, ∀ e₂ ∈ evs, e₁.2.id = e₂.2.id → e₁.2 = e₂.2

theorem lastWith_perm {a b : List (Nat × Vuln)} (hp : a.Perm b) (hf : IdFunctional a) (id : Nat) :
    lastWith id a = lastWith id b := by
  cases ha : lastWith id a with
  | none =>
    have := lastWith_none.1 ha
    exact (lastWith_none.2 fun e he => this e (hp.mem_iff.2 he)).symm
  | some v =>
    obtain ⟨hv, e, he, rfl⟩ := lastWith_some ha
    cases hb : lastWith id b with
    | none =>
      exact absurd hv (lastWith_none.1 hb e (hp.mem_iff.1 he))
    | some v' =>
      obtain ⟨hv', e', he', rfl⟩ := lastWith_some hb
      have := hf e he e' (hp.mem_iff.2 he') (hv.trans hv'.symm)
      rw [this]

/-- What an id listed under a package means. -/
theorem mem_collect_pkg {evs : List (Nat × Vuln)} {pkg id : Nat} :
    id ∈ getL pkg (collect evs).pkgVulns ↔ ∃ v, (pkg, v) ∈ evs ∧ v.id = id := by
  rw [collect_pkg]
  simp only [List.mem_map, List.mem_filter, decide_eq_true_eq]
  constructor
  · rintro ⟨⟨p, v⟩, ⟨hm, rfl⟩, rfl⟩; exact ⟨v, hm, rfl⟩
  · rintro ⟨v, hm, rfl⟩; exact ⟨(pkg, v), ⟨hm, rfl⟩, rfl⟩

/-! ### the controller's filter loop -/

theorem filterVulns_some {m : Matcher} {r : Record} {vs l : List Vuln} (h : filterVulns m r vs = some l) :
    (∀ x, x ∈ l ↔ x ∈ vs ∧ m.vulnerable r x = some true) ∧ (∀ x ∈ vs, m.vulnerable r x ≠ none) := by
  induction vs generalizing l with
  | nil =>
    simp only [filterVulns, Option.some.injEq] at h
    subst h
    simp
  | cons v vs ih =>
    simp only [filterVulns] at h
    cases hv : m.vulnerable r v with
    | none => simp [hv] at h
    | some b =>
      simp only [hv] at h
      cases hr : filterVulns m r vs with
      | none => simp [hr] at h
      | some rest =>
        simp only [hr, Option.some.injEq] at h
        obtain ⟨ih1, ih2⟩ := ih hr
        constructor
        · intro x
          subst h
          cases b with
          | true =>
            simp only [if_true, List.mem_cons, ih1]
            constructor
            · rintro (rfl | ⟨h1, h2⟩)
              · exact ⟨Or.inl rfl, hv⟩
              · exact ⟨Or.inr h1, h2⟩
            · rintro ⟨rfl | h1, h2⟩
              · exact Or.inl rfl
              · exact Or.inr ⟨h1, h2⟩
          | false =>
            simp only [Bool.false_eq_true, if_false, List.mem_cons, ih1]
            constructor
            · rintro ⟨h1, h2⟩; exact ⟨Or.inr h1, h2⟩
            · rintro ⟨rfl | h1, h2⟩
              · rw [hv] at h2; cases h2
              · exact ⟨h1, h2⟩
        · intro x hx
          rcases List.mem_cons.1 hx with rfl | hx
          · rw [hv]; simp
          · exact ih2 x hx

theorem filterVulns_none {m : Matcher} {r : Record} {vs : List Vuln} :
    filterVulns m r vs = none ↔ ∃ x ∈ vs, m.vulnerable r x = none := by
  induction vs with
  | nil => simp [filterVulns]
  | cons v vs ih =>
    simp only [filterVulns]
    cases hv : m.vulnerable r v with
    | none =>
      simp only [true_iff]
      exact ⟨v, List.mem_cons_self, hv⟩
    | some b =>
      cases hr : filterVulns m r vs with
      | none =>
        simp only [true_iff]
        obtain ⟨x, hx, hx'⟩ := ih.1 hr
        exact ⟨x, List.mem_cons_of_mem _ hx, hx'⟩
      | some rest =>
        simp only [reduceCtorEq, false_iff]
        rintro ⟨x, hx, hx'⟩
        rcases List.mem_cons.1 hx with rfl | hx
        · rw [hv] at hx'; cases hx'
        · have := ih.2 ⟨x, hx, hx'⟩
          rw [hr] at this; cases this

theorem filterFrom_some {m : Matcher} {vulns : MOut} {rs : List Record} {acc out : MOut}
    (h : filterFrom m vulns rs acc = some out) (k : Nat) (x : Vuln) :
    (k, x) ∈ events out ↔
      (k, x) ∈ events acc ∨ ∃ r ∈ rs, r.pkg = k ∧ x ∈ getL k vulns ∧ m.vulnerable r x = some true := by
  induction rs generalizing acc with
  | nil =>
    simp only [filterFrom, Option.some.injEq] at h
    subst h
    simp
  | cons r rs ih =>
    simp only [filterFrom] at h
    cases hf : filterVulns m r (getL r.pkg vulns) with
    | none => simp [hf] at h
    | some ms =>
      simp only [hf] at h
      rw [ih h, mem_events_appendAt]
      have hms := (filterVulns_some hf).1 x
      constructor
      · rintro ((h1 | ⟨rfl, h2⟩) | ⟨r', hr', h3⟩)
        · exact Or.inl h1
        · exact Or.inr ⟨r, List.mem_cons_self, rfl, (hms.1 h2).1, (hms.1 h2).2⟩
        · exact Or.inr ⟨r', List.mem_cons_of_mem _ hr', h3⟩
      · rintro (h1 | ⟨r', hr', rfl, h3, h4⟩)
        · exact Or.inl (Or.inl h1)
        · rcases List.mem_cons.1 hr' with rfl | hr'
          · exact Or.inl (Or.inr ⟨rfl, hms.2 ⟨h3, h4⟩⟩)
          · exact Or.inr ⟨r', hr', rfl, h3, h4⟩

theorem filterFrom_none {m : Matcher} {vulns : MOut} {rs : List Record} {acc : MOut} :
    filterFrom m vulns rs acc = none ↔ ∃ r ∈ rs, ∃ x ∈ getL r.pkg vulns, m.vulnerable r x = none := by
  induction rs generalizing acc with
  | nil => simp [filterFrom]
  | cons r rs ih =>
    simp only [filterFrom]
    cases hf : filterVulns m r (getL r.pkg vulns) with
    | none =>
      simp only [true_iff]
      obtain ⟨x, hx, hx'⟩ := filterVulns_none.1 hf
      exact ⟨r, List.mem_cons_self, x, hx, hx'⟩
    | some ms =>
      simp only []
      rw [ih]
      constructor
      · rintro ⟨r', hr', h⟩; exact ⟨r', List.mem_cons_of_mem _ hr', h⟩
      · rintro ⟨r', hr', x, hx, hx'⟩
        rcases List.mem_cons.1 hr' with rfl | hr'
        · exact absurd hx' ((filterVulns_some hf).2 x hx)
        · exact ⟨r', hr', x, hx, hx'⟩

/-- Keys of the filter result are package ids of interested records. -/
theorem filterFrom_keys {m : Matcher} {vulns : MOut} {rs : List Record} {acc out : MOut}
    (h : filterFrom m vulns rs acc = some out) (k : Nat) :
    (find k out).isSome = ((find k acc).isSome || rs.any (fun r => r.pkg = k)) := by
  induction rs generalizing acc with
  | nil =>
    simp only [filterFrom, Option.some.injEq] at h
    subst h
    simp
  | cons r rs ih =>
    simp only [filterFrom] at h
    cases hf : filterVulns m r (getL r.pkg vulns) with
    | none => simp [hf] at h
    | some ms =>
      simp only [hf] at h
      rw [ih h, find_appendAt_isSome]
      by_cases hk : k = r.pkg
      · have : r.pkg = k := hk.symm
        simp [hk]
      · have : ¬ r.pkg = k := fun x => hk x.symm
        simp [hk, this]

/-! ### events of several results -/

theorem mem_flatMap_events {outs : List MOut} {k : Nat} {v : Vuln} :
    (k, v) ∈ outs.flatMap events ↔ ∃ out ∈ outs, (k, v) ∈ events out := by
  simp [List.mem_flatMap]

/-! ### enrichment collector -/

theorem enrichFold_get (es : List (Nat × List Nat)) (acc : List (Nat × List Nat)) (k : Nat) :
    getL k (es.foldl (fun em e => appendAt e.1 e.2 em) acc) =
      getL k acc ++ (es.filter (fun e => e.1 = k)).flatMap (fun e => e.2) := by
  induction es generalizing acc with
  | nil => simp
  | cons e es ih =>
    simp only [List.foldl_cons]
    rw [ih, getL_appendAt]
    by_cases h : k = e.1
    · have h' : e.1 = k := h.symm
      simp [h]
    · have h' : ¬ e.1 = k := fun x => h x.symm
      simp [h, h']

theorem enrichCollect_get (es : List (Nat × List Nat)) (k : Nat) :
    getL k (enrichCollect es) = (es.filter (fun e => e.1 = k)).flatMap (fun e => e.2) := by
  unfold enrichCollect
  rw [enrichFold_get]
  simp [getL, find]

/-! ### outcomes -/

theorem mem_oks {c : Bool} {store : Store} {ms : List Matcher} {recs : List Record} {out : MOut} :
    out ∈ (runAll c store ms recs).filterMap id ↔ ∃ m ∈ ms, controllerMatch c store m recs = some out := by
  simp [runAll, List.mem_filterMap]

theorem enrichedMatch_some {c : Bool} {store : Store} {ms : List Matcher} {es : List Enricher}
    {recs : List Record} {r : Report} {em : List (Nat × List Nat)}
    (h : enrichedMatch c store ms es recs = some (r, em)) :
    c = false ∧ (∀ m ∈ ms, controllerMatch false store m recs ≠ none) ∧
      (∀ m ∈ ms, ¬ (m.cancelsAtGet = true ∧ reachesGet m recs = true)) ∧
      r = collectOuts ((runAll false store ms recs).filterMap id) ∧
      em = enrichCollect (enrichEntries es r) := by
  unfold enrichedMatch at h
  cases c with
  | true => simp at h
  | false =>
    simp only [Bool.false_eq_true, if_false] at h
    cases h1 : (runAll false store ms recs).any Option.isNone with
    | true => simp [h1] at h
    | false =>
      cases h2 : ms.any (fun m => m.cancelsAtGet && reachesGet m recs) with
      | true => simp [h1, h2] at h
      | false =>
        simp only [h1, h2, Bool.false_eq_true, if_false, Option.some.injEq, Prod.mk.injEq] at h
        obtain ⟨hr, hem⟩ := h
        subst hr
        refine ⟨rfl, ?_, ?_, rfl, hem.symm⟩
        · intro m hm hn
          have : (runAll false store ms recs).any Option.isNone = true := by
            simp only [runAll, List.any_map, List.any_eq_true]
            exact ⟨m, hm, by simp [hn]⟩
          rw [h1] at this; cases this
        · intro m hm hc
          have : ms.any (fun m => m.cancelsAtGet && reachesGet m recs) = true := by
            simp only [List.any_eq_true]
            exact ⟨m, hm, by simp [hc.1, hc.2]⟩
          rw [h2] at this; cases this

theorem enrichedMatch_ok {store : Store} {ms : List Matcher} {es : List Enricher} {recs : List Record}
    (h1 : ∀ m ∈ ms, controllerMatch false store m recs ≠ none)
    (h2 : ∀ m ∈ ms, ¬ (m.cancelsAtGet = true ∧ reachesGet m recs = true)) :
    enrichedMatch false store ms es recs =
      some (collectOuts ((runAll false store ms recs).filterMap id),
            enrichCollect (enrichEntries es (collectOuts ((runAll false store ms recs).filterMap id)))) := by
  unfold enrichedMatch
  have e1 : (runAll false store ms recs).any Option.isNone = false := by
    rw [Bool.eq_false_iff]
    intro hh
    simp only [runAll, List.any_map, List.any_eq_true] at hh
    obtain ⟨m, hm, hn⟩ := hh
    exact h1 m hm (by simpa using hn)
  have e2 : ms.any (fun m => m.cancelsAtGet && reachesGet m recs) = false := by
    rw [Bool.eq_false_iff]
    intro hh
    simp only [List.any_eq_true, Bool.and_eq_true] at hh
    obtain ⟨m, hm, hc⟩ := hh
    exact h2 m hm hc
  simp [e1, e2]

end ClairModel.Match
